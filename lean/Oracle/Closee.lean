import Uquic.Oracle.Frame
import Uquic.Spec.CloseMon

/-! Oracle of the `closee` driver (C17, end to end). One op is one scenario; see
harness/drivers/closee/closee_test.go. The model predicts the idle-close instant from the inputs the
implementation reports (last packet received, first ack-eliciting packet sent afterwards, idle timeout,
PTO); everything else is judged by monitors. -/

open Uquic.Oracle Uquic.Model.Idle Uquic.Spec.CloseMon

structure OSt where
  dummy : Unit := ()

abbrev Fail := String × String × String

/-- "k1:v1,k2:v2" → lookup (values may contain ':') -/
def sub (s key : String) : String :=
  ((s.splitOn ",").findSome? fun it =>
    if it.startsWith (key ++ ":") then some (it.drop (key.length + 1)).toString else none).getD ""

def subInt (s key : String) : Int := intOf (sub s key)

/-- entries "name:err" of a calls / later list -/
def entries (s : String) : List (String × String) :=
  if s == "-" || s == "" then [] else
  (s.splitOn ",").map fun it =>
    match it.splitOn ":" with
    | n :: rest => (n, ":".intercalate rest)
    | [] => ("", "")

structure IdleObs where
  lr : Int
  fae : Int      -- 0 = unset
  it : Int
  pto : Int
  hc : Bool
  closedAt : Int

def parseIdle (s : String) : Option IdleObs :=
  if s == "" then none else
  -- shift all instants by a constant so that a genuine relative instant 0 is not mistaken for "unset"
  let sh : Int := 1000000000000
  some { lr := subInt s "lr" + sh, fae := if sub s "fae" == "-" then 0 else subInt s "fae" + sh,
         it := subInt s "it", pto := subInt s "pto", hc := sub s "hc" == "1", closedAt := subInt s "at" + sh }

def IdleObs.st (o : IdleObs) : St :=
  { lastPacketReceivedTime := o.lr, firstAESent := o.fae, idleTimeout := o.it, handshakeComplete := o.hc }

def fatalCode (causeName : String) (code : Nat) : Nat :=
  match code with
  | 0 => 7
  | 1 => if causeName == "fatalc" then 10 else 5
  | _ => 5

def scnStep (op impl : String) : StepOut := Id.run do
  let cause := field op "cause"
  let timing := natOf (field op "timing")
  let drop := natOf (field op "drop")
  let rttUs : Int := intOf (field op "rtt") * 1000
  let code := natOf (field op "code")
  let idleNs : Int := intOf (field op "idle") * 1000000
  let sidleNs : Int := intOf (field op "sidle") * 1000000
  let kaMs := natOf (field op "ka")
  let vm := natOf (field op "vm")
  let pm := natOf (field op "pm")
  if impl == "skip" then return { model := "skip" }
  if impl.startsWith "PANIC" then
    return { model := impl, tags := ["driver-panic"], fails := [("no_panic_on_close", "-", "the scenario panicked inside the driver process")] }
  -- a scenario run in a child process that died: the connection's run loop panicked
  let pan := field impl "panic"
  if pan ≠ "" && pan ≠ "0" then
    let ips := natOf (field op "ips")
    return { model := impl, tags := [s!"cause:{cause}", "panic"],
             fails := [("no_panic_on_close", "-", s!"the process died closing the connection: {pan} in {field impl "where"} (InitialPacketSize {ips})")] }
  let dial := field impl "dial"
  let cC := field impl "c.cause"
  let sC := field impl "s.cause"
  let mut fails : List Fail := []
  let mut model := impl
  -- ---------- model: the idle close instant
  for sd in ["c", "s"] do
    let f := field impl (sd ++ ".idle")
    if field impl (sd ++ ".cause") == "idle" then
      match parseIdle f with
      | some o =>
        if o.hc then
          let pred := o.st.nextIdle o.pto
          let predRel := pred - 1000000000000
          model := model.replace s!"{sd}.idle={f}" s!"{sd}.idle={f.replace s!",at:{sub f "at"}" s!",at:{predRel}"}"
          let start := o.st.idleStart
          let period := o.st.idlePeriod o.pto
          if o.closedAt < o.lr + period then
            fails := fails ++ [("idle_not_early", "-", s!"{sd}: closed {o.closedAt - o.lr} ns after the last packet received, period {period}")]
          if o.closedAt < start + period then
            fails := fails ++ [("idle_not_early", "-", s!"{sd}: closed {o.closedAt - start} ns after the idle start, period {period}")]
          if o.closedAt > start + period + o.pto + timerGranularity then
            fails := fails ++ [("idle_not_late", "-", s!"{sd}: closed {o.closedAt - start} ns after the idle start, period {period}, PTO {o.pto}")]
          -- ghost for the idle start that does not rely on the connection's own bookkeeping (RFC 9000 10.1): the
          -- window restarts at the first ack-eliciting packet sent after the last packet received (`d1`, from the
          -- endpoint's sent-packet log); `d1c` is the first such packet that carries an ack-eliciting control frame
          let d1 := field impl (sd ++ ".d1")
          let sh : Int := 1000000000000
          let ghostStart := if d1 == "-" || d1 == "" then o.lr else intOf d1 + sh
          if o.closedAt > ghostStart + period + o.pto + timerGranularity then
            fails := fails ++ [("idle_not_late", "-", s!"{sd}: closed {o.closedAt - ghostStart} ns after the first ack-eliciting packet sent since the last packet received, period {period}, PTO {o.pto}")]
          -- the period is the negotiated one
          -- written from RFC 9000 10.1 and the stated clamp, not from the model: both in-tree endpoints always
          -- advertise a non-zero value (populateConfig; Marshal always writes max_idle_timeout), a received value
          -- below MinRemoteIdleTimeout counts as MinRemoteIdleTimeout, the effective value is the minimum
          let own := if sd == "c" then idleNs else sidleNs
          let peerAdv := if sd == "c" then sidleNs else idleNs
          let peerSeen := if peerAdv < Uquic.Gen.Protocol.MinRemoteIdleTimeout then Uquic.Gen.Protocol.MinRemoteIdleTimeout else peerAdv
          let want := if own < peerSeen then own else peerSeen
          if cause ≠ "hsdead" && cause ≠ "hsstall" && o.it ≠ want then
            fails := fails ++ [("negotiated_idle_rfc", "-", s!"{sd}: own max_idle_timeout {own}, peer's {peerAdv}: idle timeout in use {o.it}, expected {want}")]
      | none => pure ()
  -- ---------- leak / routing
  if field impl "leak" ≠ "0" then
    fails := fails ++ [("no_leak", "-", s!"goroutines left in the bubble: {field impl "leaked"}")]
  -- a Dial that never returned leaves the scenario before the routing tables are read
  if dial ≠ "BLOCKED" && (field impl "rt.c" ≠ "0/0" || field impl "rt.s" ≠ "0/0") then
    fails := fails ++ [("routing_released", "-", s!"routing entries/reset tokens left: client {field impl "rt.c"} server {field impl "rt.s"}")]
  -- the transport of a path that was being probed (cause=kaprobe)
  if field impl "rt.p" ≠ "" && field impl "rt.p" ≠ "0/0" then
    fails := fails ++ [("routing_released", "-", s!"routing entries/reset tokens left on the probed path's transport: {field impl "rt.p"}")]
  -- ---------- single-use transports (quic.Listen / quic.Dial): once the listener is closed and the last connection
  -- is gone and retired, nobody reads from the socket any more (read loop and send queue goroutines released)
  let su := natOf (field op "su")
  let lc := natOf (field op "lc")
  let cc := natOf (field op "cc")
  if su ≥ 1 && field impl "rd.s" ≠ "" && field impl "rd.s" ≠ "0" then
    -- ghost from the scenario only: the listener went first and the server's connection then ended by an
    -- immediate close (no stand-in, packetHandlerMap.Remove): the listed finding C17-single-use-remove-path
    let immediate := sC == "idle" || sC == "hstimeout" || sC == "reset" || sC == "tclosed"
    let cls := if lc == 1 && immediate then "remove_path" else "-"
    fails := fails ++ [("transport_released", cls, s!"quic.Listen's transport still reads from its socket after the listener was closed ({if lc == 1 then "before" else "after"} the connection ended, server cause {sC}) and nothing is routed: rt.s={field impl "rt.s"}")]
  if su == 2 && field impl "rd.c" ≠ "" && field impl "rd.c" ≠ "0" then
    fails := fails ++ [("transport_released", "-", s!"quic.Dial's transport still reads from its socket after its connection ended (dial {dial}, client cause {cC})")]
  let setupRace := field impl "pre" == "0" && cause ≠ "idle" && (cC == "idle" || sC == "idle")
  if field impl "pre" == "0" && !setupRace then
    fails := fails ++ [("blocked_calls_block", "-", "a call returned before the connection ended")]
  -- ---------- every call returns the one cause, promptly
  if !setupRace then
    for sd in ["c", "s"] do
      let cz := field impl (sd ++ ".cause")
      if cz == "" || cz == "noconn" then continue
      if cz == "ALIVE" then
        fails := fails ++ [("connection_ends", "-", s!"{sd}: connection still alive 100 s after the cause")]
        continue
      for (n, e) in entries (field impl (sd ++ ".calls")) do
        if n == "closecall" then
          if e ≠ "nil" then fails := fails ++ [("all_same_cause", "-", s!"{sd}: the close call returned {e}")]
        else if n == "lnaccept" then
          if e == "BLOCKED" && sd == "s" && (cause == "tcloses" || cause == "reset") then
            fails := fails ++ [("all_same_cause", "-", "Listener.Accept still blocked after the transport was closed")]
        else if e == "BLOCKED" then
          fails := fails ++ [("prompt_return", "-", s!"{sd}.{n} still blocked after the connection ended")]
        else if e ≠ cz then
          fails := fails ++ [("all_same_cause", "-", s!"{sd}.{n} returned {e}, connection cause {cz}")]
      let sctx := field impl (sd ++ ".sctx")
      if sctx ≠ "" && sctx ≠ cz then
        fails := fails ++ [("all_same_cause", "-", s!"{sd}: the context of a stream was cancelled with {sctx}, the connection's cause is {cz}")]
      if field impl (sd ++ ".dt") ≠ "0" && field impl (sd ++ ".dt") ≠ "" then
        fails := fails ++ [("prompt_return", "-", s!"{sd}: a blocked call returned {field impl (sd ++ ".dt")} ns away from the context cancellation")]
      for (n, e) in entries (field impl (sd ++ ".later")) do
        if e == cz then continue
        if n == "rcvdgram" && e == "nil" then continue   -- a datagram received before the close
        else if e == "BLOCKED" || e.endsWith "!late" then
          fails := fails ++ [("prompt_return", "-", s!"{sd}: later {n} → {e}")]
        else
          fails := fails ++ [("all_same_cause", "-", s!"{sd}: later {n} returned {e}, connection cause {cz}")]
  -- ---------- the recorded cause and what the peer learns
  let isRemote (e : String) : Bool := e.endsWith ":r"
  let expect (who got want : String) : List Fail :=
    if got == want then [] else [("context_cause_matches", "-", s!"{who}: context cause {got}, expected {want}")]
  if !setupRace && dial == "nil" then
    match cause with
    | "cappx" =>
      fails := fails ++ expect "client" cC s!"app:{code}:l"
      -- the server never saw the client's Finished: it is told by the Initial/Handshake CONNECTION_CLOSE or times out
      if isRemote sC = false && sC ≠ "noconn" && sC ≠ "idle" && sC ≠ "hstimeout" && sC ≠ "" then
        fails := fails ++ [("peer_informed_iff_due", "-", s!"client closed while completing the handshake; server cause {sC}")]
    | "capp" | "kalive" | "kaprobe" =>
      fails := fails ++ expect "client" cC s!"app:{code}:l"
      if sC ≠ "noconn" && sC ≠ "" then
        let ok := sC == s!"app:{code}:r" || (timing == 0 && sC == s!"tr:{Uquic.Model.Close.applicationErrorErrorCode}:r") || (drop > 0 && sC == "idle")
        if !ok then fails := fails ++ [("peer_informed_iff_due", "-", s!"client closed with application error {code}; the server's cause is {sC}")]
    | "sapp" =>
      fails := fails ++ expect "server" sC s!"app:{code}:l"
      let ok := cC == s!"app:{code}:r" || (timing == 0 && cC == s!"tr:{Uquic.Model.Close.applicationErrorErrorCode}:r") || (drop > 0 && cC == "idle")
      if !ok then fails := fails ++ [("peer_informed_iff_due", "-", s!"server closed with application error {code}; the client's cause is {cC}")]
    | "fatalc" =>
      let x := fatalCode cause code
      fails := fails ++ expect "server" sC s!"tr:{x}:l"
      if !(cC == s!"tr:{x}:r" || (drop > 0 && cC == "idle")) then
        fails := fails ++ [("peer_informed_iff_due", "-", s!"server closed with transport error {x}; the client's cause is {cC}")]
    | "fatals" =>
      let x := fatalCode cause code
      fails := fails ++ expect "client" cC s!"tr:{x}:l"
      if !(sC == s!"tr:{x}:r" || (drop > 0 && sC == "idle")) then
        fails := fails ++ [("peer_informed_iff_due", "-", s!"client closed with transport error {x}; the server's cause is {sC}")]
    | "idle" =>
      fails := fails ++ expect "client" cC "idle" ++ (if sC == "noconn" then [] else expect "server" sC "idle")
    | "reset" =>
      fails := fails ++ expect "client" cC "reset" ++ expect "server" sC "tclosed"
    | "tclosec" =>
      fails := fails ++ expect "client" cC "tclosed"
      if timing ≥ 1 && isRemote sC then
        fails := fails ++ [("peer_informed_iff_due", "-", s!"transport closed without notice, yet the server's cause is {sC}")]
      if timing ≥ 1 then fails := fails ++ expect "server" sC "idle"
    | "tcloses" =>
      if timing ≥ 1 then
        fails := fails ++ expect "server" sC "tclosed" ++ expect "client" cC "idle"
      else if cC ≠ "idle" && cC ≠ "hstimeout" && cC ≠ "tr:2:r" then
        fails := fails ++ [("context_cause_matches", "-", s!"server transport closed during the handshake; client cause {cC}")]
    | "dialcancel" | "vn" =>
      fails := fails ++ expect "client" cC s!"app:{code}:l"
    | _ => pure ()
  -- ---------- dial outcomes
  let dialUs : Int := intOf (field impl "dial_us")
  if dial == "BLOCKED" then
    -- whatever the cause: Dial has to return (with the connection, the connection's error or the cancellation cause)
    fails := fails ++ [("dial_returns", "-", s!"Dial had not returned {dialUs} µs after it was called (context cancelled at {field impl "cancel_us"} µs)")]
  else if dial ≠ "nil" then
    match cause with
    | "dialcancel" =>
      if dial ≠ "ctxcanceled" then
        fails := fails ++ [("context_cause_matches", "-", s!"cancelled dial returned {dial}")]
      if field impl "dial_us" ≠ field impl "cancel_us" then
        fails := fails ++ [("prompt_return", "-", s!"dial returned at {dialUs} µs, cancelled at {field impl "cancel_us"} µs")]
    | "vn" =>
      -- version negotiation by itself never fails the dial (both ends speak QUIC v1): only a cancellation does
      let cancelUs : Int := intOf (field impl "cancel_us")
      if vm == 2 || field impl "cancel_us" == "" then
        fails := fails ++ [("handshake_completes", "-", s!"dial through version negotiation failed with {dial} without being cancelled")]
      else
        if dial ≠ "ctxcanceled" then
          fails := fails ++ [("context_cause_matches", "-", s!"cancelled dial returned {dial}")]
        -- vm=0 cancels on the run loop's way out and holds that goroutine for 1 ms (vnHold): Dial waits for it
        let hold : Int := if vm == 0 then 1000 else 0
        if dialUs < cancelUs || dialUs > cancelUs + hold then
          fails := fails ++ [("prompt_return", "-", s!"dial returned at {dialUs} µs, cancelled at {cancelUs} µs")]
    | "hsdead" =>
      -- no packet was ever received: the handshake idle timeout (configured = `idle`) ends the dial
      if dial ≠ "idle" then fails := fails ++ [("context_cause_matches", "-", s!"dead path during the handshake: dial returned {dial}")]
      if dialUs * 1000 < idleNs then fails := fails ++ [("idle_not_early", "-", s!"handshake idle timeout {idleNs} ns, dial failed after {dialUs} µs")]
      if dialUs * 1000 > idleNs + 50000000 then fails := fails ++ [("idle_not_late", "-", s!"handshake idle timeout {idleNs} ns, dial failed after {dialUs} µs")]
    | "hsstall" =>
      if dial ≠ "idle" && dial ≠ "hstimeout" then fails := fails ++ [("context_cause_matches", "-", s!"stalled handshake: dial returned {dial}")]
      if dialUs * 1000 < idleNs then fails := fails ++ [("idle_not_early", "-", s!"handshake idle timeout {idleNs} ns, dial failed after {dialUs} µs")]
      if dialUs * 1000 > 2 * idleNs + 50000000 then fails := fails ++ [("idle_not_late", "-", s!"handshake timeout {2 * idleNs} ns, dial failed after {dialUs} µs")]
    | "tclosec" =>
      if dial ≠ "tclosed" then fails := fails ++ [("context_cause_matches", "-", s!"transport closed during dial: {dial}")]
      if field impl "dial_us" ≠ field impl "cancel_us" then
        fails := fails ++ [("prompt_return", "-", s!"dial returned at {dialUs} µs, transport closed at {field impl "cancel_us"} µs")]
    | "tcloses" =>
      -- a closing server refuses connections that are still in the handshake (CONNECTION_REFUSED)
      if dial ≠ "idle" && dial ≠ "hstimeout" && dial ≠ "tr:2:r" then fails := fails ++ [("context_cause_matches", "-", s!"server vanished during the handshake: dial returned {dial}")]
    | _ => fails := fails ++ [("handshake_completes", "-", s!"dial failed with {dial}")]
  -- ---------- latency of the close itself
  if !setupRace && dial == "nil" then
    let cl := intOf (field impl "c.lat_us")
    let sl := intOf (field impl "s.lat_us")
    match cause with
    | "capp" | "kalive" | "kaprobe" | "tclosec" =>
      if cl ≠ 0 then fails := fails ++ [("prompt_return", "-", s!"local close took {cl} µs")]
      if cause ≠ "tclosec" && drop == 0 && sC == s!"app:{code}:r" && sl > rttUs / 2 + 1000 then
        fails := fails ++ [("prompt_return", "-", s!"peer learnt of the close after {sl} µs (one-way delay {rttUs / 2} µs)")]
    | "sapp" | "tcloses" =>
      if timing ≥ 1 || cause == "sapp" then
        if sl ≠ 0 then fails := fails ++ [("prompt_return", "-", s!"local close took {sl} µs")]
      if cause == "sapp" && drop == 0 && cC == s!"app:{code}:r" && cl > rttUs / 2 + 1000 then
        fails := fails ++ [("prompt_return", "-", s!"peer learnt of the close after {cl} µs (one-way delay {rttUs / 2} µs)")]
    | _ => pure ()
  -- ---------- keep-alive
  if (cause == "kalive" || cause == "kaprobe") && dial == "nil" && field impl "alive" ≠ "1" then
    let what := if cause == "kaprobe" then s!" (while the client probed a second path that is dead, pm={pm})" else ""
    fails := fails ++ [("no_idle_close_while_keepalive_answered", "-", s!"connection ended ({cC}/{sC}) although keep-alives every {kaMs} ms were being answered{what}")]
  -- probing a dead path neither succeeds nor is refused
  if cause == "kaprobe" && dial == "nil" && field impl "addpath" ≠ "" && field impl "addpath" ≠ "nil" then
    fails := fails ++ [("handshake_completes", "-", s!"AddPath failed on an established connection: {field impl "addpath"}")]
  let tags := [s!"cause:{cause}", s!"timing:{timing}", s!"c:{(cC.splitOn ":").headD ""}", s!"s:{(sC.splitOn ":").headD ""}"]
    ++ (if drop > 0 then ["drop"] else []) ++ (if kaMs > 0 then ["keepalive"] else []) ++ (if dial ≠ "nil" then [s!"dial:{dial}"] else [])
    ++ (if setupRace then ["setup-idle-race"] else [])
    ++ (if field op "ut" == "1" then ["utransport"] else [])
    ++ (if su ≥ 1 then [s!"single-use:{su}", s!"listener-closed-first:{lc}"] else [])
    ++ (if cc ≥ 1 then [s!"conncontext:{cc}"] else [])
    ++ (if cause == "vn" then [s!"vn:mode{vm}", s!"vn:fired{field impl "vnfired"}"] else [])
    ++ (if cause == "kaprobe" then [s!"probe:pm{pm}", s!"probe:{field impl "probe"}", s!"probe:ka-{field op "kaside"}"] else [])
  return { model := model, tags := tags, fails := fails }

def step (s : OSt) (op impl : String) : OSt × StepOut :=
  match words op with
  | "scn" :: _ => (s, scnStep op impl)
  | _ => (s, { model := "bad-op" })

def main : IO Unit := run { init := ({} : OSt), step := step }
