/-
Oracle of the h3e driver (property C18, end-to-end support): the expected observation of every
exchange is the echo specification `Uquic.Spec.H3Echo`; monitor `e2e_fields_body_equal` names the
exchange and the side whose observation differs.
-/
import Uquic.Oracle.Frame
import Uquic.Spec.H3Echo

open Uquic.Oracle Uquic.Spec.H3Echo

def getKey (fs : List String) (key : String) : String :=
  (fs.findSome? fun w => if w.startsWith (key ++ "=") then some (w.drop (key.length + 1)).toString else none).getD ""

def parsePair (s : String) : Nat × Nat :=
  match s.splitOn ":" with
  | [a, b] => (natOf a, natOf b)
  | _ => (0, 0)

def parseExch (p : String) : Exch :=
  let fs := words p
  let b := parsePair (getKey fs "b")
  let rb := parsePair (getKey fs "rb")
  { method := getKey fs "m", path := getKey fs "p", h := parseKVs (getKey fs "h"),
    bLen := b.1, bSeed := b.2, t := parseKVs (getKey fs "t"), status := natOf (getKey fs "st"),
    info := getKey fs "i", rh := parseKVs (getKey fs "rh"), rbLen := rb.1, rbSeed := rb.2,
    rt := parseKVs (getKey fs "rt") }

def step (_ : Unit) (op impl : String) : Unit × StepOut :=
  match op.splitOn " | " with
  | [] => ((), { model := "bad-op" })
  | hd :: exs =>
    if !hd.startsWith "conn" || exs.isEmpty then ((), { model := "bad-op" })
    else
      let es := exs.map parseExch
      let expected := es.map fun e => (e.srvView, e.cliView)
      let model := " || ".intercalate (expected.map fun x => x.1 ++ " | " ++ x.2)
      let got := (impl.splitOn " || ").map fun s => match s.splitOn " | " with
        | [a, b] => (a, b)
        | _ => (s, "")
      let fails := ((List.range expected.length).map fun i =>
        let ex := expected.getD i ("", "")
        let g := got.getD i ("", "")
        (if ex.1 != g.1 then [("e2e_fields_body_equal", "-", s!"exchange {i}: handler saw `{g.1}` expected `{ex.1}`")] else []) ++
        (if ex.2 != g.2 then [("e2e_fields_body_equal", "-", s!"exchange {i}: client saw `{g.2}` expected `{ex.2}`")] else [])).flatten
      let fs := words hd
      let tags := [s!"n{es.length}"] ++ (if getKey fs "loss" != "0" then ["loss"] else []) ++
        (if getKey fs "reord" != "0" then ["reorder"] else []) ++
        (es.map fun e => s!"m:{e.method}") ++ (es.map fun e => s!"st:{e.status}") ++
        (if es.any (fun e => !e.t.isEmpty) then ["req-trailers"] else []) ++
        (if es.any (fun e => !e.rt.isEmpty) then ["resp-trailers"] else []) ++
        (if es.any (fun e => e.info != "-") then ["1xx"] else []) ++
        (if exs.any (fun p => getKey (words p) "gz" == "1") then ["gzip"] else []) ++
        (if es.any (fun e => e.bLen > 16000 || e.rbLen > 16000) then ["big-body"] else [])
      ((), { model := model, tags := tags, fails := fails })

def main : IO Unit := run { init := (), step := step }
