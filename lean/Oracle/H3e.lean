/-
Oracle of the h3e driver (property C18, end-to-end support): the expected observation of every
exchange is the echo specification `Uquic.Spec.H3Echo`; monitor `e2e_fields_body_equal` names the
exchange and the side whose observation differs.
-/
import Uquic.Oracle.Frame
import Uquic.Spec.H3Echo

open Uquic.Oracle Uquic.Spec.H3Echo

def getKey (fs : List String) (key : String) : String :=
  (fs.findSome? fun w => if w.startsWith (key ++ "=") then some (w.drop (key.length + 1)).toString else none).getD ""

def parsePair (s : String) : Nat × Nat :=
  match s.splitOn ":" with
  | [a, b] => (natOf a, natOf b)
  | _ => (0, 0)

def optNat (s : String) : Option Nat := if s == "-" || s == "" then none else s.toNat?

def parseExch (p : String) : Exch :=
  let fs := words p
  let b := parsePair (getKey fs "b")
  let rb := parsePair (getKey fs "rb")
  { method := getKey fs "m", path := getKey fs "p", h := parseKVs (getKey fs "h"),
    bLen := b.1, bSeed := b.2, t := parseKVs (getKey fs "t"), status := natOf (getKey fs "st"),
    info := getKey fs "i", rh := parseKVs (getKey fs "rh"), rbLen := rb.1, rbSeed := rb.2,
    rt := parseKVs (getKey fs "rt"), flush := getKey fs "fl" == "1", gz := getKey fs "gz" == "1",
    bf := optNat (getKey fs "bf"), tw := optNat (getKey fs "tw"),
    ta := (optNat (getKey fs "ta")).getD 1,
    ov := (let v := getKey fs "ov"; if v == "-" || v == "" then none else some (parsePair v)),
    ae := getKey fs "ae" == "1" }

abbrev Fail := String × String × String

def step (_ : Unit) (op impl : String) : Unit × StepOut :=
  match op.splitOn " | " with
  | [] => ((), { model := "bad-op" })
  | hd :: exs =>
    if !hd.startsWith "conn" || exs.isEmpty then ((), { model := "bad-op" })
    else
      let es := exs.map parseExch
      let got := (impl.splitOn " || ").map fun s => match s.splitOn " | " with
        | [a, b] => (a, b)
        | _ => (s, "")
      let implB := fun (i : Nat) => getKey (words (got.getD i ("", "")).1) "b"
      let implCl := fun (i : Nat) => getKey (words (got.getD i ("", "")).2) "cl"
      -- an exchange whose request body source fails: whether the handler runs at all, how much it reads
      -- and what the client gets back depend on timing — both views are witnesses, judged below
      let expected := (List.range es.length).map fun i =>
        let e := es.getD i {}
        if e.bf.isSome then got.getD i ("", "") else (e.srvView (implB i), e.cliView (implCl i))
      let model := " || ".intercalate (expected.map fun x => x.1 ++ " | " ++ x.2)
      let fails : List Fail := ((List.range expected.length).map fun i =>
        let e := es.getD i {}
        let ex := expected.getD i ("", "")
        let g := got.getD i ("", "")
        (if ex.1 != g.1 then [("e2e_fields_body_equal", "-", s!"exchange {i}: handler saw `{g.1}` expected `{ex.1}`")] else []) ++
        (if ex.2 != g.2 then [("e2e_fields_body_equal", "-", s!"exchange {i}: client saw `{g.2}` expected `{ex.2}`")] else []) ++
        -- many concurrent requests on one connection: every one of them is carried to its handler and back
        (if e.bf.isNone && (!g.1.startsWith "srv m=" || !g.2.startsWith "cli st=") then
            [("concurrent_requests_all_complete", "-", s!"exchange {i} of {es.length} concurrent exchanges on one connection did not complete: handler `{(g.1.take 60).toString}`, client `{(g.2.take 90).toString}`")]
          else []) ++
        -- the bytes the handler got before the abort are a prefix of the body, at most k of them
        (match e.bf with
          | some k =>
            let (l, _) := parsePair (implB i)
            let want := (e.srvView (implB i))
            if g.1 == "srv none" then []      -- the reset overtook the request: the handler never ran
            else if g.1 != want then
              [("request_body_abort_is_error", "-", s!"exchange {i}: the request body source failed after {k} of {e.bLen} bytes; handler saw `{g.1}`, it must see a read error (`{want}`)")]
            else if l > k || implB i != bodySig ((Uquic.Spec.H3Mon.pattern e.bLen e.bSeed).take l) then
              [("request_body_abort_is_error", "-", s!"exchange {i}: handler read `{implB i}`, not a prefix of at most {k} bytes of the body")]
            else []
          | none => []) ++
        (match (if e.bf.isSome then none else e.autoContentLength) with
          | some want => if implCl i != want && ex.2 == g.2 then
              [("auto_content_length", "-", s!"exchange {i} ({e.method}, {e.rbLen} bytes written, no explicit Content-Length, no flush): content-length `{implCl i}`, expected `{want}`")] else []
          | none => []) ++
        -- a response that declares fewer bytes than it carries: nothing beyond the declared part may reach
        -- the reader (for a compressed response: the decompressor), and the excess must be reported
        (match e.ov with
          | some (n, _) =>
            let cb := getKey (words g.2) "b"
            let cerr := getKey (words g.2) "err"
            let (l, _) := parsePair cb
            if g.2.startsWith "cli st=" && l > e.rbLen then
              [("declared_length_bounds_body", "-", s!"exchange {i}: the response declared Content-Length = its first {e.rbLen} payload bytes{if e.gz then " (gzip)" else ""} and sent {n} more; the client read {l} bytes (`{cb}`)")]
            else if g.2.startsWith "cli st=" && cerr == "-" then
              [("declared_length_bounds_body", "-", s!"exchange {i}: {n} bytes beyond the declared Content-Length were sent and the client's body ended without an error")]
            else []
          | none => []) ++
        -- request trailers reach the handler whether or not the Trailer field announced them
        (if !e.t.isEmpty && e.bf.isNone && g.1.startsWith "srv m=" && getKey (words g.1) "t" != getKey (words ex.1) "t" then
            [("request_trailers_delivered", "-", s!"exchange {i} (announced: {e.ta} of 0=none/1=all/2=first): handler found trailers `{getKey (words g.1) "t"}`, the client sent `{getKey (words ex.1) "t"}`")]
          else []) ++
        -- a HEADERS frame written while another exchange of the connection is encoded carries its own fields
        (if e.bf.isNone && g.1.startsWith "srv m=" && (getKey (words g.1) "h" != getKey (words ex.1) "h" || getKey (words g.1) "p" != getKey (words ex.1) "p") then
            [("concurrent_headers_intact", "-", s!"exchange {i} of {es.length} on one connection: handler saw path `{getKey (words g.1) "p"}` fields `{getKey (words g.1) "h"}`, sent `{getKey (words ex.1) "p"}` `{getKey (words ex.1) "h"}`")]
          else []) ++
        (match e.tw with
          | some j =>
            let gcl := implCl j
            if gcl != "-" && gcl != "" && implCl i != "" && implCl i != gcl && !e.flush && !e.gz then
              [("head_equals_get_headers", "-", s!"exchange {i} is the HEAD twin of GET exchange {j}: content-length `{implCl i}` vs `{gcl}`")]
            else []
          | none => [])).flatten
      let fs := words hd
      let tags := [s!"n{es.length}"] ++ (if getKey fs "loss" != "0" then ["loss"] else []) ++
        (if getKey fs "reord" != "0" then ["reorder"] else []) ++
        (es.map fun e => s!"m:{e.method}") ++ (es.map fun e => s!"st:{e.status}") ++
        (if es.any (fun e => !e.t.isEmpty) then ["req-trailers"] else []) ++
        (if es.any (fun e => !e.rt.isEmpty) then ["resp-trailers"] else []) ++
        (if es.any (fun e => e.info != "-") then ["1xx"] else []) ++
        (if es.any (fun e => e.gz) then ["gzip"] else []) ++
        (if es.any (fun e => e.bf.isSome) then ["body-abort"] else []) ++
        (if es.any (fun e => e.tw.isSome) then ["head-twin"] else []) ++
        (if es.any (fun e => e.autoContentLength.isSome) then ["auto-cl"] else []) ++
        (if es.any (fun e => e.bLen > 16000 || e.rbLen > 16000) then ["big-body"] else []) ++
        (if es.length ≥ 6 then ["many-concurrent"] else []) ++ (if es.length ≥ 12 then ["many-concurrent:12+"] else []) ++
        (if getKey fs "win" != "0" && getKey fs "win" != "" then ["small-window", "big-headers"] else []) ++
        (if es.any (fun e => !e.t.isEmpty && e.ta == 0) then ["trailers-unannounced"] else []) ++
        (if es.any (fun e => !e.t.isEmpty && e.ta == 2) then ["trailers-partly-announced"] else []) ++
        (if es.any (fun e => e.ov.isSome && e.gz) then ["overlength-gzip"] else []) ++
        (if es.any (fun e => e.ov.isSome && !e.gz) then ["overlength-plain"] else []) ++
        (if es.any (fun e => e.ae) then ["explicit-accept-encoding"] else [])
      ((), { model := model, tags := tags, fails := fails })

def main : IO Unit := run { init := (), step := step }
