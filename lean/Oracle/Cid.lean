import Uquic.Oracle.Frame
import Uquic.Model.ConnID.Routing
import Uquic.Model.ConnID.PathManager
import Uquic.Spec.CidMon

open Uquic.Oracle Uquic.Model.ConnID Uquic.Spec.CidMon

/-! ## text <-> values -/

def hexDigit (n : Nat) : Char := if n < 10 then Char.ofNat (48 + n) else Char.ofNat (87 + n)

def hx (b : Bytes) : String :=
  if b.isEmpty then "-" else String.ofList (b.flatMap fun x => [hexDigit (x / 16 % 16), hexDigit (x % 16)])

def hexVal (c : Char) : Nat :=
  if '0' ≤ c ∧ c ≤ '9' then c.toNat - 48
  else if 'a' ≤ c ∧ c ≤ 'f' then c.toNat - 87
  else if 'A' ≤ c ∧ c ≤ 'F' then c.toNat - 55 else 0

def unhxChars : List Char → Bytes
  | a :: b :: rest => (hexVal a * 16 + hexVal b) :: unhxChars rest
  | _ => []

def unhx (s : String) : Bytes := if s == "-" || s == "" then [] else unhxChars s.toList

/-- tokens are 16 bytes, zero padded / truncated (as the driver does) -/
def tok16 (b : Bytes) : Bytes := (b ++ List.replicate 16 0).take 16

def bytesLt : Bytes → Bytes → Bool
  | [], [] => false
  | [], _ :: _ => true
  | _ :: _, [] => false
  | a :: as, b :: bs => if a < b then true else if a > b then false else bytesLt as bs

def insertBy {α} (lt : α → α → Bool) (x : α) : List α → List α
  | [] => [x]
  | y :: ys => if lt x y then x :: y :: ys else y :: insertBy lt x ys

/-- stable insertion sort -/
def sortBy {α} (lt : α → α → Bool) (l : List α) : List α :=
  l.reverse.foldl (fun acc x => insertBy (fun a b => !lt b a) x acc) []

/-- the driver's ConnectionIDGenerator -/
def mkID (len : Nat) (k : Nat) : Bytes :=
  (List.range len).map fun i => if i = 0 then (128 + k) % 256 else (i * 17 + k / 128) % 256

def fmtEv : Ev → String
  | .retire s => s!"R{s}"
  | .addTok t => "+" ++ hx t
  | .rmTok t => "-" ++ hx t

def parseEv (s : String) : Option Ev :=
  if s.startsWith "R" then some (.retire (natOf (s.drop 1).toString))
  else if s.startsWith "+" then some (.addTok (unhx (s.drop 1).toString))
  else if s.startsWith "-" && s.length > 1 then some (.rmTok (unhx (s.drop 1).toString))
  else none

def fmtList (l : List String) (sep : String) : String := if l.isEmpty then "-" else sep.intercalate l

def fmtEvs (l : List Ev) : String := fmtList (l.map fmtEv) ","

def parseEvs (s : String) : List Ev :=
  if s == "-" then [] else (s.splitOn ",").filterMap parseEv

def fmtGEv : GEv → String
  | .addRoute id => "A" ++ hx id
  | .rmRoute id => "D" ++ hx id
  | .newFrame s id => s!"N{s}:{hx id}"
  | .replaceClosed ids l e =>
    let hs := sortBy (fun a b => decide (a < b)) (ids.map hx)
    s!"C{if l then 1 else 0}:{e}:{";".intercalate hs}"

def field (ws : List String) (key : String) : Option String :=
  ws.findSome? fun w => if w.startsWith key then some (w.drop key.length).toString else none

/-! ## the implementation's printed state -/

def parseImplM (right : String) : ImplM :=
  let ws := words right
  let a := ((field ws "a=").getD "0:-:-").splitOn ":"
  let q := match field ws "q=" with
    | some "-" | none => []
    | some s => (s.splitOn "/").map natOf
  let p := match field ws "p=" with
    | some "-" | none => []
    | some s => (s.splitOn "/").filterMap fun e =>
        match e.splitOn ":" with
        | [pa, sq, tk] => some (natOf pa, natOf sq, unhx tk)
        | _ => none
  let rt := match field ws "rt=" with
    | some "-" | none => []
    | some s => (s.splitOn "/").map unhx
  { aSeq := natOf (a.getD 0 "0"), aId := unhx (a.getD 1 "-"),
    aTok := (match a.getD 2 "-" with | "-" => none | t => some (unhx t)),
    q := q, p := p, per := natOf ((field ws "per=").getD "0"), rt := rt }

def fmtPM : Option PathManager → String
  | none => ""
  | some pm =>
    let b (x : Bool) : String := if x then "1" else "0"
    s!" pm={pm.nextID}:" ++ fmtList (pm.paths.map fun p => s!"{p.id}@{p.addr},{p.lastT},{b p.validated}{b p.rcvdNonProbing}") "/"

def fmtM (m : Manager) (r : Routing) : String :=
  let tk := match m.activeTok with | some t => hx t | none => "-"
  let q := fmtList (m.queue.map fun e => toString e.seq) "/"
  let ps := sortBy (fun (a b : Nat × Entry) => decide (a.1 < b.1)) m.probing
  let p := fmtList (ps.map fun pe => s!"{pe.1}:{pe.2.seq}:{hx pe.2.tok}") "/"
  let rt := fmtList ((sortBy bytesLt r.tokens).map hx) "/"
  s!" | a={m.activeSeq}:{hx m.activeID}:{tk} q={q} p={p} per={m.perID} rt={rt}"

def fmtRoutes (r : Routing) : String :=
  let hs := sortBy (fun (a b : Bytes × Handler) => bytesLt a.1 b.1) r.handlers
  let kind : Handler → String
    | .conn c => (if c == 0 then "conn" else "conn2") | .closedLocal _ => "local" | .closedRemote => "remote"
  "routes=" ++ fmtList (hs.map fun kv => s!"{hx kv.1}:{kind kv.2}") "/"

def fmtG (g : Generator) (r : Routing) : String :=
  let act := sortBy (fun (a b : Nat × Bytes) => decide (a.1 < b.1)) g.active
  let a := fmtList (act.map fun kv => s!"{kv.1}:{hx kv.2}") "/"
  let rt := fmtList (g.toRetire.map fun c => s!"{c.1}:{hx c.2}") "/"
  let icd := match g.initialClientDest with | some i => hx i | none => "none"
  s!" | act={a} ret={rt} icd={icd} hs={g.highestSeq} {fmtRoutes r}"

def parseRoutes (right : String) : List (Bytes × String) :=
  match field (words right) "routes=" with
  | some "-" | none => []
  | some s => (s.splitOn "/").filterMap fun e =>
      match e.splitOn ":" with
      | [i, k] => some (unhx i, k)
      | _ => none

def fmtRes : Res → String
  | .ok => "ok"
  | .panic => "PANIC"
  | .err .protocolViolation => "E:PROTOCOL_VIOLATION"
  | .err .limitError => "E:CONNECTION_ID_LIMIT_ERROR"
  | .err .conflictID => "E:conflict_id"
  | .err .conflictToken => "E:conflict_token"

/-! ## canonical order of callbacks that come out of a Go map iteration -/

def evKey : Ev → Nat × Bytes
  | .retire s => (s, [])
  | .addTok t => (0, t)
  | .rmTok t => (0, t)

def pairLt (a b : (Ev × Ev)) : Bool :=
  let ka := evKey a.1; let kb := evKey b.1
  if ka.1 < kb.1 then true else if ka.1 > kb.1 then false else bytesLt (evKey a.2).2 (evKey b.2).2

def toPairs : List Ev → List (Ev × Ev)
  | a :: b :: rest => (a, b) :: toPairs rest
  | _ => []

/-- sort the first `2k` events as (RETIRE, remove-token) pairs -/
def canonPairs (k : Nat) (evs : List Ev) : List Ev :=
  let hd := evs.take (2 * k)
  (sortBy pairLt (toPairs hd)).flatMap (fun p => [p.1, p.2]) ++ evs.drop (2 * k)

/-- sort everything after the first `n` events (token removals of `Close`) -/
def canonTail (n : Nat) (evs : List Ev) : List Ev :=
  evs.take n ++ sortBy (fun a b => bytesLt (evKey a).2 (evKey b).2) (evs.drop n)

/-! ## state -/

structure St where
  m : Option Manager := none
  g : Option Generator := none
  r : Routing := {}
  adv : Nat := maxActiveConnectionIDs
  tokSet : Bool := false
  newSeen : Bool := false
  gclosed : Bool := false
  mg : MGhost := {}
  gg : GGhost := {}
  pm : Option PathManager := none
  /-- ghost: paths a PATH_CHALLENGE was handed out for and that no operation has dropped yet: (path id, address) -/
  pmLive : List (Nat × Nat) := []
  /-- ghost: paths the connection migrated to (their connection ID legitimately stays allocated) -/
  pmKept : List Nat := []
  /-- the manager's path-probing entries after the previous operation, as printed by the implementation -/
  prevP : List (Nat × Nat × Bytes) := []
  /-- a direct GetConnIDForPath / RetireConnIDForPath op was used in this case (then path ids are not the pathManager's) -/
  directPath : Bool := false

def plainAdvertised : Nat :=
  (Uquic.Gen.ConnID.advertisedLimitCallSites.headD Uquic.Gen.Protocol.MaxActiveConnectionIDs).toNat

def defaultM : Manager := Manager.new [10, 11, 12, 13]

def St.ensureM (s : St) : St × Manager :=
  match s.m with
  | some m => (s, m)
  | none => ({ s with m := some defaultM }, defaultM)

def initGen (s : St) (idLen : Nat) (initial : Bytes) (cd : Option Bytes) : St × Generator :=
  let g := Generator.new idLen initial cd
  let r := s.r.add initial
  let r := match cd with | some c => r.add c | none => r
  ({ s with g := some g, r := r,
            gg := { s.gg with inited := true, act := [(0, initial)], icd := cd, idLen := idLen } }, g)

def St.ensureG (s : St) : St × Generator :=
  match s.g with
  | some g => (s, g)
  | none => initGen s 4 [1, 2, 3, 4] none

/-- the random rotation period is an input: recover the draw from what the implementation printed -/
def drawOf (impl : ImplM) : Nat := impl.per - packetsPerConnectionID / 2

def splitBar (impl : String) : String × String :=
  match impl.splitOn " | " with
  | [a] => (a, "")
  | a :: rest => (a, " | ".intercalate rest)
  | [] => ("", "")

/-- finish a manager op: apply token callbacks to the routing model, print, run the monitors -/
def finM (s : St) (m' : Manager) (head : String) (evs : List Ev) (implEvs : List Ev) (sameCanon : Bool)
    (impl : ImplM) (rcv : Option Nat) (closing : Bool) (tags : List String) (extra : List Fail)
    (implHead : String := "") : St × StepOut :=
  let r' := evs.foldl Routing.applyM s.r
  let shown := if sameCanon then implEvs else evs
  let model := s!"{head} ev={fmtEvs shown}" ++ fmtM m' r' ++ fmtPM s.pm
  -- monitors on the implementation's outputs
  let (lf, back) := ledger s.mg implEvs impl rcv
  let reg := implEvs.foldl applyTokEv s.mg.reg
  let closed := s.mg.closed || closing
  let shared := s.mg.shared ++ sharedIn s.mg.reg implEvs
  let tf := tokenMonitors reg closed impl shared
  let pf : List Fail :=
    if impl.per ≠ s.mg.lastPer ∧ ¬ (packetsPerConnectionID / 2 ≤ impl.per ∧ impl.per < packetsPerConnectionID / 2 + packetsPerConnectionID) then
      [("period_in_range", "-", s!"rotation period {impl.per}")] else []
  let mg' : MGhost := { s.mg with
    prevU := impl.inUse, retired := s.mg.retired ++ retiredIn implEvs,
    received := (match rcv with | some x => if s.mg.received.contains x then s.mg.received else x :: s.mg.received | none => s.mg.received),
    reg := reg, shared := shared, closed := closed, tainted := s.mg.tainted || back, lastPer := impl.per,
    dead := s.mg.dead || closed || implHead.startsWith "E:" || implHead.startsWith "PANIC" }
  ({ s with m := some m', r := r', mg := mg', prevP := impl.p },
   { model := model, tags := tags, fails := lf ++ tf ++ pf ++ extra })

def gFinish (s : St) (g' : Option Generator) (r' : Routing) (head : String) (evText : String) (gg' : GGhost)
    (implRight : String) (tags : List String) (extra : List Fail) : St × StepOut :=
  let tail := match g' with | some g => fmtG g r' | none => " | -"
  let model := s!"{head} ev={evText}" ++ tail
  let rf := if g'.isSome then routeMonitors gg' (parseRoutes implRight) else []
  ({ s with g := g', r := r', gg := gg' }, { model := model, tags := tags, fails := rf ++ extra })

def parseGEvNew (evs : String) : List (Nat × Bytes) :=
  if evs == "-" then [] else (evs.splitOn ",").filterMap fun e =>
    if e.startsWith "N" then
      match ((e.drop 1).toString).splitOn ":" with
      | [sq, i] => some (natOf sq, unhx i)
      | _ => none
    else none

def fieldOf (ws : List String) (key : String) : Option String := field ws key

/-- path ids in the implementation's path manager (`pm=<next>:<id>@<addr>,<t>,<flags>/…`) -/
def pmIDs (right : String) : List Nat :=
  match field (words right) "pm=" with
  | none => []
  | some v =>
    match v.splitOn ":" with
    | [_, l] => if l == "-" then [] else (l.splitOn "/").map fun e => natOf ((e.splitOn "@").headD "0")
    | _ => []

/-- `probing_id_released`: a path that was dropped (PATH_CHALLENGE lost, evicted, or left behind by a migration) must
    have given its connection ID back: no path-probing entry for it any more, and if it held one, this operation queued
    RETIRE_CONNECTION_ID for its sequence number and unregistered its stateless reset token -/
def releasedFails (s : St) (dropped : List Nat) (im : ImplM) (implEvs : List Ev) : List Fail :=
  if s.directPath || s.mg.closed then [] else
  dropped.flatMap fun k =>
    (if im.p.any (·.1 == k) then
      [("probing_id_released", "-", s!"path {k} was dropped but still holds a connection ID for path probing")] else []) ++
    (match s.prevP.find? (·.1 == k) with
     | some (_, sq, tk) =>
       (if implEvs.contains (.retire sq) then [] else
         [("probing_id_released", "-", s!"path {k} was dropped without RETIRE_CONNECTION_ID for its sequence number {sq}")]) ++
       (if implEvs.contains (.rmTok tk) then [] else
         [("probing_id_released", "-", s!"path {k} was dropped but the stateless reset token of its connection ID stays registered")])
     | none => [])

/-- every connection ID allocated for path probing belongs to a path the path manager still tracks (or migrated to) -/
def allocatedFails (s : St) (im : ImplM) (implPaths : List Nat) (kept : List Nat) : List Fail :=
  if s.directPath then [] else
  (im.p.filter fun e => !implPaths.contains e.1 && !kept.contains e.1).map fun e =>
    ("probing_id_released", "-", s!"a connection ID (sequence number {e.2.1}) is allocated to path {e.1}, which the path manager no longer tracks")

def stepCore (s : St) (op impl : String) : St × StepOut :=
  let w := words op
  let (left, right) := splitBar impl
  let lw := words left
  let implHead := lw.headD ""
  let implEvText := (field lw "ev=").getD "-"
  let implEvs := parseEvs implEvText
  let im := parseImplM right
  let skip : St × StepOut := (s, { model := "skip", tags := ["skip"] })
  match w with
  | "init" :: dest :: kind =>
    if s.m.isSome || kind.isEmpty then skip else
    -- the advertised limit of a spec-driven client is an input read back from the implementation
    let implAdv := natOf ((field lw "adv=").getD "0")
    let plain := kind == ["plain"]
    if !plain && kind.length < 3 then skip else
    if !plain && implHead == "skip" then skip else
    let adv := if plain then plainAdvertised else implAdv
    -- the value handed to SetConnectionIDLimit (-1: not called) is an input as well
    let implSet := intOf ((field lw "set=").getD "-1")
    let set : Int := if plain then -1 else implSet
    let m := Manager.new (unhx dest)
    let m := if set ≥ 0 then m.setConnectionIDLimit set.toNat else m
    finM { s with adv := adv } m s!"adv={adv} set={set}" [] implEvs false im none false
      [if plain then "init:plain" else "init:spec", if (unhx dest).isEmpty then "init:zero-length" else "init:nonzero"] []
  | ["limit", n] =>
    if s.newSeen then skip else
    let (s, m) := s.ensureM
    let n := natOf n
    let adv := if n == 0 then Uquic.Gen.Protocol.DefaultActiveConnectionIDLimit.toNat else n
    finM { s with adv := adv } (m.setConnectionIDLimit n) "ok" [] implEvs false im none false
      [if n > enforcedQueueBound then "limit:above-default" else "limit:within-default"] []
  | ["new", seq, rpt, id, tok] =>
    let (s, m) := s.ensureM
    let seq := natOf seq; let rpt := natOf rpt; let id := unhx id; let tok := tok16 (unhx tok)
    let (m', evs, res) := m.addFrame seq rpt id tok (drawOf im)
    let k := m.addProbingRetired seq rpt
    let same := canonPairs k evs == canonPairs k implEvs
    let processed := implHead != "E:PROTOCOL_VIOLATION"
    -- accepts every ID within the limit it advertised
    let retiredNow := s.mg.retired ++ retiredIn implEvs
    let rcvd := if s.mg.received.contains seq then s.mg.received else seq :: s.mg.received
    let unretired := (rcvd.filter fun x => !retiredNow.contains x).length
    let af : List Fail :=
      if implHead == "E:CONNECTION_ID_LIMIT_ERROR" && unretired ≤ s.adv && !s.mg.tainted && !s.mg.dead then
        [("accept_within_advertised", "-",
          s!"CONNECTION_ID_LIMIT_ERROR with {unretired} unretired connection IDs, advertised active_connection_id_limit {s.adv}")]
      else []
    -- Retire Prior To is honoured: judged for frames that carry a new highest sequence number (such a frame is neither a
    -- retransmission nor reordered, so nothing allows the endpoint to skip its Retire Prior To): once it has been
    -- processed without error, no sequence number below Retire Prior To is in use any more — not queued, not assigned to
    -- a probed path, and not active either (the code rotates to a replacement in the same call; one always exists, the
    -- frame's own connection ID) — and each such number received earlier has appeared in a RETIRE_CONNECTION_ID
    let newHighest := s.mg.received.all (· < seq)
    let okRes := implHead == "ok" || implHead == "E:CONNECTION_ID_LIMIT_ERROR"
    let rf : List Fail :=
      if newHighest && okRes then
        ((im.inUse.filter (· < rpt)).map fun x =>
          ("retire_prior_to_honoured", "-", s!"sequence number {x} is still in use after Retire Prior To {rpt} was processed (in use: {im.inUse})")) ++
        ((s.mg.received.filter fun x => x < rpt && !retiredNow.contains x).map fun x =>
          ("retire_prior_to_honoured", "-", s!"sequence number {x} < Retire Prior To {rpt} was never reported with RETIRE_CONNECTION_ID"))
      else []
    let tag := match res with
      | .ok => if evs.isEmpty && m' == m then "new:ignored"
               else if m'.activeSeq ≠ m.activeSeq then "new:rotate"
               else if m'.queue.length > m.queue.length then "new:queued"
               else if evs == [.retire seq] then "new:retire-now" else "new:other"
      | r => "new:" ++ fmtRes r
    let tags := [tag] ++ (if k > 0 then ["new:rpt-probing"] else []) ++
      (if rpt > m.highestRetired && (m.queue.any fun e => e.seq < rpt) then ["new:rpt-queue"] else []) ++
      (if m.probing.any (fun pe => pe.2.seq == seq) then ["new:dup-probing"] else []) ++
      (if seq == m.activeSeq then ["new:dup-active"] else []) ++
      (if m.queue.any (fun e => e.seq == seq) then ["new:dup-queued"] else []) ++
      (if rpt ≤ m.highestRetired && m.probing.any (fun pe => pe.2.seq < rpt) && k > 0 then ["new:rpt-probing-below-floor"] else [])
    finM { s with newSeen := true } m' (fmtRes res) evs implEvs same im (if processed then some seq else none) false tags (af ++ rf) implHead
  | ["pref", id, tok] =>
    if s.newSeen then skip else
    let (s, m) := s.ensureM
    let (m', evs, res) := m.addFromPreferredAddress (unhx id) (tok16 (unhx tok))
    finM { s with newSeen := true } m' (fmtRes res) evs implEvs false im (some 1) false ["pref:" ++ fmtRes res] []
  | ["get"] =>
    let (s, m) := s.ensureM
    let (m', evs, res) := m.get (drawOf im)
    let head := match res with | .panic => "PANIC" | _ => "id=" ++ hx m'.activeID
    let gf : List Fail :=
      match field lw "id=" with
      | some i => if unhx i == im.aId then [] else [("get_returns_active", "-", s!"Get returned {i}, active is {hx im.aId}")]
      | none => []
    finM s m' head evs implEvs false im none false
      [match res with | .panic => "get:panic" | _ => if evs.isEmpty then "get:keep" else "get:rotate"] gf
  | ["sentpkt", n] =>
    let (s, m) := s.ensureM
    let n := min (natOf n) 100000
    let m' := { m with sinceChange := (m.sinceChange + n) % 4294967296 }
    finM s m' "ok" [] implEvs false im none false ["sentpkt"] []
  | ["path", p] =>
    let (s, m) := s.ensureM
    let s := { s with directPath := true }
    let (m', evs, rid, res) := m.getConnIDForPath (natOf p)
    let head := match res, rid with
      | .panic, _ => "PANIC"
      | _, some i => s!"id={hx i} ok=1"
      | _, none => "id=- ok=0"
    let tag := match res, rid with
      | .panic, _ => "path:panic"
      | _, none => "path:none"
      | _, some _ => if evs.isEmpty then (if m.activeID.isEmpty then "path:zero-length" else "path:again") else "path:new"
    finM s m' head evs implEvs false im none false [tag] []
  | ["retirepath", p] =>
    let (s, m) := s.ensureM
    let s := { s with directPath := true }
    let (m', evs, res) := m.retireConnIDForPath (natOf p)
    finM s m' (fmtRes res) evs implEvs false im none false
      [if res == .panic then "retirepath:panic" else if evs.isEmpty then "retirepath:none" else "retirepath:retire"] [] implHead
  | ["hsdone"] =>
    let (s, m) := s.ensureM
    finM s m.setHandshakeComplete "ok" [] implEvs false im none false ["hsdone"] []
  | ["close"] =>
    let (s, m) := s.ensureM
    let (m', evs) := m.close
    let n := if m.activeTok.isSome then 1 else 0
    let same := canonTail n evs == canonTail n implEvs
    finM s m' "ok" evs implEvs same im none true ["close"] []
  | ["settok", t] =>
    if s.tokSet then skip else
    let (s, m) := s.ensureM
    let (m', evs, res) := m.setStatelessResetToken (tok16 (unhx t))
    finM { s with tokSet := true } m' (fmtRes res) evs implEvs false im none false ["settok:" ++ fmtRes res] []
  | ["chinit", id] =>
    let (s, m) := s.ensureM
    let (m', res) := m.changeInitialConnID (unhx id)
    finM s m' (fmtRes res) [] implEvs false im none false ["chinit:" ++ fmtRes res] []
  | ["pm.pkt", addr, t, ch, np] =>
    let (s, m) := s.ensureM
    let pm := s.pm.getD {}
    let addr := natOf addr
    let (pm', m', evs, out, res) := handlePacket pm m addr (intOf t) (ch == "1") (np == "1")
    let b (x : Bool) : String := if x then "1" else "0"
    let head := match res with
      | .panic => "PANIC"
      | _ => s!"id={match out.connID with | some i => hx i | none => "none"} ch={match out.challenge with | some k => toString k | none => "-1"} resp={b out.response} sw={b out.shouldSwitch}"
    -- ghost: a new path (from the implementation's answer); paths that vanished from the path manager were evicted
    let implCh := (fieldOf lw "ch=").bind String.toNat?
    let implIDs := pmIDs right
    let evicted := (s.pmLive.filter fun ka => !implIDs.contains ka.1).map (·.1)
    let live' := (s.pmLive.filter fun ka => implIDs.contains ka.1) ++ (match implCh with | some k => [(k, addr)] | none => [])
    let fails := releasedFails s evicted im implEvs ++ allocatedFails s im implIDs s.pmKept
    let tag := match res with
      | .panic => "pm.pkt:panic"
      | _ => if out.challenge.isSome then (if pm'.paths.length ≤ pm.paths.length then "pm.pkt:new-evict" else "pm.pkt:new")
             else if out.connID.isSome then "pm.pkt:respond"
             else if pm.paths.any (fun p => p.addr == addr) then "pm.pkt:known"
             else if pm.paths.length ≥ maxPaths then "pm.pkt:full" else "pm.pkt:no-id"
    finM { s with pm := some pm', pmLive := live' } m' head evs implEvs false im none false
      ([tag] ++ (if out.shouldSwitch then ["pm.pkt:should-switch"] else [])) fails implHead
  | ["pm.lost", k] =>
    let k := natOf k
    if implHead == "skip" then skip else
    let (s, m) := s.ensureM
    let pm := s.pm.getD {}
    let (pm', m', evs, res) := onLost pm m k
    let dropped := if s.pmLive.any (·.1 == k) then [k] else []
    let fails := releasedFails s dropped im implEvs ++ allocatedFails s im (pmIDs right) s.pmKept
    finM { s with pm := some pm', pmLive := s.pmLive.filter (·.1 ≠ k) } m' (fmtRes res) evs implEvs false im none false
      [if res == .panic then "pm.lost:panic" else if evs.isEmpty then "pm.lost:no-id" else "pm.lost:retire"] fails implHead
  | ["pm.acked", _] =>
    if implHead == "skip" then skip else
    let (s, m) := s.ensureM
    finM { s with pm := some (s.pm.getD {}) } m "ok" [] implEvs false im none false ["pm.acked"] (allocatedFails s im (pmIDs right) s.pmKept)
  | ["pm.lostresp"] =>
    let (s, m) := s.ensureM
    finM { s with pm := some (s.pm.getD {}) } m "ok" [] implEvs false im none false ["pm.lostresp"] (allocatedFails s im (pmIDs right) s.pmKept)
  | ["pm.resp", k] =>
    if implHead == "skip" then skip else
    let (s, m) := s.ensureM
    let pm' := handlePathResponse (s.pm.getD {}) (natOf k)
    finM { s with pm := some pm' } m "ok" [] implEvs false im none false ["pm.resp"] (allocatedFails s im (pmIDs right) s.pmKept)
  | ["pm.switch", addr] =>
    let (s, m) := s.ensureM
    let pm := s.pm.getD {}
    let addr := natOf addr
    let (pm', m', evs, res) := switchToPath pm m addr
    -- every other path is dropped; the path migrated to keeps its connection ID
    let ok := implHead == "ok"
    let dropped := if ok then (s.pmLive.filter (·.2 ≠ addr)).map (·.1) else []
    let kept' := if ok then s.pmKept ++ (s.pmLive.filter (·.2 == addr)).map (·.1) else s.pmKept
    let fails := releasedFails s dropped im implEvs ++ allocatedFails s im (pmIDs right) kept'
    finM { s with pm := some pm', pmLive := if ok then [] else s.pmLive, pmKept := kept' } m' (fmtRes res) evs implEvs false im none false
      [if res == .panic then "pm.switch:panic" else if evs.isEmpty then "pm.switch:nothing" else "pm.switch:retire"] fails implHead
  | ["istok", t] =>
    let (s, m) := s.ensureM
    let b := m.isActiveStatelessResetToken (tok16 (unhx t))
    -- the answer must agree with the tokens of the IDs in use
    let want := im.expectedTokens.contains (tok16 (unhx t))
    let f : List Fail := if (implHead == "1") == want then [] else
      [("tokens_exact", "-", s!"IsActiveStatelessResetToken answered {implHead}")]
    finM s m (if b then "1" else "0") [] implEvs false im none false [if b then "istok:1" else "istok:0"] f

  -- ------------------------------------------------------------ generator + routing
  | ["g.init", idLen, initial, cd] =>
    if s.g.isSome then skip else
    let cdo := if cd == "none" then none else some (unhx cd)
    let (s, g) := initGen s (natOf idLen) (unhx initial) cdo
    gFinish s (some g) s.r "ok" "-" s.gg right ["g.init", if cdo.isSome then "g.init:server" else "g.init:client",
      if natOf idLen == 0 then "g.init:zero-length" else "g.init:nonzero"] []
  | ["g.limit", l] =>
    let (s, g) := s.ensureG
    if s.gclosed then skip else
    let l := natOf l
    let (g', evs) := g.setMaxActiveConnIDs (mkID g.idLen) l
    let r' := evs.foldl Routing.applyG s.r
    let news := parseGEvNew implEvText
    let gg' := { s.gg with limit := max s.gg.limit l, act := s.gg.act ++ news,
                           highest := (news.map (·.1)).foldl max s.gg.highest }
    let lf : List Fail := if gg'.act.length ≤ issueBound gg'.limit then [] else
      [("issue_within_peer_limit", "-", s!"{gg'.act.length} unretired connection IDs issued, peer limit {gg'.limit}")]
    gFinish s (some g') r' "ok" (fmtList (evs.map fmtGEv) ",") gg' right
      [if evs.isEmpty then "g.limit:none" else "g.limit:issue"] lf
  | ["g.retire", seq, dst, exp] =>
    let (s, g) := s.ensureG
    if s.gclosed || g.generated ≥ 100 then skip else
    let seq := natOf seq; let dst := unhx dst; let exp := intOf exp
    let (g', evs, res) := g.retire (mkID g.idLen) seq dst exp
    let r' := evs.foldl Routing.applyG s.r
    -- ghost: judge the implementation's answer against what was issued (NEW_CONNECTION_ID frames seen)
    let news := parseGEvNew implEvText
    let held := lookupSeq seq s.gg.act
    let want := if seq > s.gg.highest then "E:PROTOCOL_VIOLATION"
                else match held with
                  | none => "ok"
                  | some i => if i == dst then "E:PROTOCOL_VIOLATION" else "ok"
    let rf1 : List Fail := if implHead == want then [] else
      [("retire_rules", "-", s!"RETIRE_CONNECTION_ID seq {seq} (highest issued {s.gg.highest}) answered {implHead}, expected {want}")]
    let wantNew := if implHead == "ok" && held.isSome && seq ≠ 0 then 1 else 0
    let rf2 : List Fail := if news.length == wantNew then [] else
      [("retire_rules", "-", s!"retiring seq {seq} issued {news.length} replacement connection IDs, expected {wantNew}")]
    let gg' := if implHead == "ok" then
        match held with
        | some i => { s.gg with act := (s.gg.act.filter fun kv => kv.1 ≠ seq) ++ news, ret := s.gg.ret ++ [(exp, i)],
                                highest := (news.map (·.1)).foldl max s.gg.highest }
        | none => { s.gg with act := s.gg.act ++ news, highest := (news.map (·.1)).foldl max s.gg.highest }
      else { s.gg with act := s.gg.act ++ news, highest := (news.map (·.1)).foldl max s.gg.highest }
    let lf : List Fail := if gg'.act.length ≤ issueBound gg'.limit then [] else
      [("issue_within_peer_limit", "-", s!"{gg'.act.length} unretired connection IDs issued, peer limit {gg'.limit}")]
    let tag := match res with
      | .ok => if evs.isEmpty then (if lookupSeq seq g.active |>.isSome then "g.retire:seq0" else "g.retire:dup") else "g.retire:replace"
      | _ => if seq > g.highestSeq then "g.retire:unissued" else "g.retire:own-dcid"
    gFinish s (some g') r' (fmtRes res) (fmtList (evs.map fmtGEv) ",") gg' right [tag] (rf1 ++ rf2 ++ lf)
  | ["g.hsdone", exp] =>
    let (s, g) := s.ensureG
    if s.gclosed then skip else
    let exp := intOf exp
    let g' := g.setHandshakeComplete exp
    let gg' := match s.gg.icd with
      | some i => { s.gg with icd := none, ret := s.gg.ret ++ [(exp, i)] }
      | none => s.gg
    gFinish s (some g') s.r "ok" "-" gg' right [if g.initialClientDest.isSome then "g.hsdone:server" else "g.hsdone:noop"] []
  | ["g.expire", now] =>
    let (s, g) := s.ensureG
    if s.gclosed then skip else
    let now := intOf now
    let (g', evs) := g.removeRetiredConnIDs now
    let r' := evs.foldl Routing.applyG s.r
    let gg' := { s.gg with ret := s.gg.ret.filter fun c => c.1 > now }
    gFinish s (some g') r' "ok" (fmtList (evs.map fmtGEv) ",") gg' right
      [if evs.isEmpty then "g.expire:none" else "g.expire:remove"] []
  | ["g.removeall"] =>
    let (s, g) := s.ensureG
    if s.gclosed then skip else
    let evs := sortBy (fun a b => match a, b with
      | GEv.rmRoute x, GEv.rmRoute y => bytesLt x y
      | _, _ => false) g.removeAll
    let r' := evs.foldl Routing.applyG s.r
    let gg' := { s.gg with closed := true, closedIDs := [], deadline := s.gg.clock }
    gFinish { s with gclosed := true } (some g) r' "ok" (fmtList (evs.map fmtGEv) ",") gg' right ["g.removeall"] []
  | ["g.replace", l, exp] =>
    let (s, g) := s.ensureG
    if s.gclosed then skip else
    let l := l == "1"; let exp := intOf exp
    let evs := g.replaceWithClosed l exp
    let r' := evs.foldl Routing.applyG s.r
    let gg' := { s.gg with closed := true, closedLocal := l, closedIDs := s.gg.live, deadline := s.gg.clock + exp }
    gFinish { s with gclosed := true } (some g) r' "ok" (fmtList (evs.map fmtGEv) ",") gg' right
      [if l then "g.replace:local" else "g.replace:remote"] []
  | ["timer", d] =>
    let d := intOf d
    let r' := s.r.advance d
    let gg' := { s.gg with clock := s.gg.clock + d }
    gFinish s s.g r' "ok" "-" gg' right
      [if r'.handlers.length < s.r.handlers.length then "timer:expire" else "timer:idle"] []
  | ["pkt", id] =>
    let id := unhx id
    let (r', dl) := s.r.deliver id
    let head := match dl with
      | .none => "none conn=0 cc=0"
      | .conn c => if c == 0 then "conn conn=1 cc=0" else "conn2 conn=0 cc=0"
      | .closedLocal b => s!"local conn=0 cc={if b then 1 else 0}"
      | .closedRemote => "remote conn=0 cc=0"
    -- ghost: only issued, unexpired IDs of a live connection reach it
    let reached := field lw "conn=" == some "1"
    let cc := natOf ((field lw "cc=").getD "0")
    let live := !s.gg.closed && s.gg.live.contains id
    let pf1 : List Fail := if !s.gg.inited then [] else
      if reached && !live then [("foreign_or_retired_id_reaches_connection", "-", s!"packet for {hx id} was handed to the connection")]
      else if !reached && live then [("issued_id_not_routed", "-", s!"packet for issued connection ID {hx id} was not handed to the connection")]
      else []
    let inClosing := s.gg.closed && s.gg.closedIDs.contains id && s.gg.clock < s.gg.deadline && !s.gg.second.contains id
    let pf3 : List Fail := if s.gg.second.contains id && (lw.headD "") != "conn2" then
        [("expiry_keeps_foreign_entry", "-", s!"packet for {hx id} did not reach the second connection ({lw.headD ""})")] else []
    let n := s.gg.closedPkts + 1
    let pf2 : List Fail := if !inClosing then [] else
      let wantCC := if s.gg.closedLocal && isPow2 n then 1 else 0
      if cc == wantCC then [] else
        [("closed_conn_backoff", "-", s!"packet {n} to the closed connection: {cc} CONNECTION_CLOSE retransmissions, expected {wantCC}")]
    let gg' := if inClosing then { s.gg with closedPkts := n } else s.gg
    gFinish s s.g r' head "-" gg' right
      [match dl with | .none => "pkt:none" | .conn c => (if c == 0 then "pkt:conn" else "pkt:conn2") | .closedLocal b => if b then "pkt:local-resend" else "pkt:local-quiet"
                     | .closedRemote => "pkt:remote"] (pf1 ++ pf2 ++ pf3)
  | ["dial2", id] =>
    if !s.gclosed then skip else
    let id := unhx id
    let r' := s.r.install id 1
    let gg' := { s.gg with second := if s.gg.second.contains id then s.gg.second else id :: s.gg.second }
    gFinish s s.g r' "ok" "-" gg' right
      [if s.gg.closedIDs.contains id && s.gg.clock < s.gg.deadline then "dial2:over-standin" else "dial2:fresh"] []
  | _ => (s, { model := "skip", tags := ["skip"] })

def step (s : St) (op impl : String) : St × StepOut :=
  let (s', out) := stepCore s op impl
  -- after an error or a panic the connection is closed: the acceptance monitor judges healthy connections only
  let isGen := op.startsWith "g." || op.startsWith "pkt " || op.startsWith "timer " || op.startsWith "dial2 "
  let bad := !isGen && (impl.startsWith "E:" || impl.startsWith "PANIC")
  ({ s' with mg := { s'.mg with dead := s'.mg.dead || bad } }, out)

def main : IO Unit := run { init := ({} : St), step := step }
