import Uquic.Oracle.Frame
import Uquic.Model.Streams.Life

/-!
Oracle for the C15 stream-lifecycle driver (`slife`): the real connection's incoming streams from the peer's
first frame to the MAX_STREAMS credit. Model = whole streams map (`Map`) + the completion logic of the stream
objects (`Core`); the send half of a bidirectional stream is an environment input read from the `sd=[…]` field
of the implementation's line (judged by a monitor). `fr=[…]` (everything popped from the framer) is echoed.
-/

open Uquic.Oracle Uquic.Model.Streams

abbrev Fail := String × String × String

/-- what the monitors know of one stream of the peer: from the operations and the implementation's answers only -/
structure GStream where
  id : Int
  final : Bool := false      -- the peer sent FIN or RESET_STREAM (frame accepted)
  accepted : Bool := false
  readEnd : Bool := false    -- Read returned io.EOF / a stream error
  cancelled : Bool := false  -- CancelRead was called
  sendTouched : Bool := false -- Write/Close/CancelWrite was called or STOP_SENDING arrived

def GStream.complete (s : GStream) : Bool :=
  s.final && (s.readEnd || s.cancelled) && (typeOf s.id == .uni || s.sendTouched)

structure GT where
  limit : Int := 0
  first : Int := 0
  /-- highest count of streams the implementation has allowed (initial limit, MAX_STREAMS seen) -/
  adv : Int := 0
  streams : List GStream := []

structure Ghost where
  pers : Persp := .server
  b : GT := {}
  u : GT := {}

def Ghost.tg (g : Ghost) : STyp → GT
  | .bidi => g.b
  | .uni => g.u
def Ghost.setTG (g : Ghost) (t : STyp) (x : GT) : Ghost :=
  match t with
  | .bidi => { g with b := x }
  | .uni => { g with u := x }

def GT.upd (x : GT) (id : Int) (f : GStream → GStream) : GT :=
  { x with streams := x.streams.map fun s => if s.id == id then f s else s }
def GT.opened (x : GT) : Int := x.streams.length
def GT.nComplete (x : GT) (needAccepted : Bool) : Int :=
  (x.streams.filter fun s => s.complete && (s.accepted || !needAccepted)).length
def GT.nUnfinished (x : GT) : Int := (x.streams.filter fun s => !s.final).length
/-- open every stream up to `id` -/
def GT.openUpTo (x : GT) (id : Int) : GT :=
  let have_ := x.first + 4 * x.opened
  if id < have_ then x
  else
    let k := ((id - have_) / 4 + 1).toNat
    { x with streams := x.streams ++ (List.range k).map fun (i : Nat) => ({ id := have_ + 4 * (i : Int) } : GStream) }

structure St where
  m : Option Map := none
  core : Core := {}
  accepted : List Int := []
  nextCaller : Nat := 1
  g : Ghost := {}

def b01 (b : Bool) : String := if b then "1" else "0"
def tName : STyp → String
  | .bidi => "b"
  | .uni => "u"
def parseT : String → Option STyp
  | "b" => some .bidi
  | "u" => some .uni
  | _ => none

def outDigest (o : Outgoing) : String :=
  s!"{o.nextStream},{o.maxStream},{b01 o.blockedSent},{o.openQueue.length},{o.streams.length}"
def inDigest (i : Incoming) : String :=
  s!"{i.nextAccept},{i.nextOpen},{i.maxStream},{i.streams.length},{(i.streams.filter (·.2)).length}"
def digest (m : Map) : String :=
  s!"ob={outDigest m.outBidi} ou={outDigest m.outUni} ib={inDigest m.inBidi} iu={inDigest m.inUni} rs={b01 m.reset}"

def fmtFrame : Frame → String
  | .maxStreams t n => s!"MS:{tName t}:{n}"
  | .streamsBlocked t l => s!"SB:{tName t}:{l}"

def insertBy {α} (lt : α → α → Bool) (x : α) : List α → List α
  | [] => [x]
  | y :: ys => if lt x y then x :: y :: ys else y :: insertBy lt x ys
def sortBy {α} (lt : α → α → Bool) (l : List α) : List α := l.foldl (fun acc x => insertBy lt x acc) []

def bracket (w : String) (pre : String) : Option String :=
  if w.startsWith pre && w.endsWith "]" then some ((w.drop pre.length).dropEnd 1).toString else none

def field (iw : List String) (pre : String) : String := (iw.findSome? (bracket · pre)).getD ""

def implCredit (iw : List String) : List (String × STyp × Int) :=
  ((field iw "ms=[").splitOn ";").filterMap fun it =>
    match it.splitOn ":" with
    | [k, t, n] => (parseT t).map fun t => (k, t, intOf n)
    | _ => none

def implSendDone (iw : List String) : List Int :=
  ((field iw "sd=[").splitOn ",").filterMap String.toInt?

/-- (len(streams), #shouldDelete) of the incoming maps as the implementation printed them -/
def implIncoming (iw : List String) (t : STyp) : Option (Int × Int) :=
  let pre := if t == .bidi then "ib=" else "iu="
  match iw.find? (·.startsWith pre) with
  | none => none
  | some w =>
    match ((w.drop 3).toString).splitOn "," with
    | [_, _, _, len, marked] => some (intOf len, intOf marked)
    | _ => none

/-- `Conn.onStreamCompleted` on the whole map -/
def fireDelete (m : Map) (id : Int) (fire : Bool) : Map × List Frame :=
  if fire then
    let (m', ev) := m.step (.delete id)
    (m', ev.frames)
  else (m, [])

/-- the send halves the implementation reports as completed, not yet known to the model -/
def applySendDone (m : Map) (c : Core) (ids : List Int) : Map × Core × List Frame :=
  ids.foldl (fun (acc : Map × Core × List Frame) id =>
    let (m, c, fs) := acc
    let (c', fire) := c.sendCompleted id
    let (m', fs') := fireDelete m id fire
    (m', c', fs ++ fs')) (m, c, [])

def suffix (m : Map) (frames : List Frame) (iw : List String) : String :=
  let fs := sortBy (fun a b => a < b) (frames.map fmtFrame)
  s!" ms=[{";".intercalate fs}] sd=[{field iw "sd=["}] {digest m} fr=[{field iw "fr=["}]"

/-! ### monitors -/

def peerOwned (g : Ghost) (id : Int) : Bool := initiatedBy id != g.pers

/-- judged on every line: credit, removals, concurrency -/
def monLine (g : Ghost) (iw : List String) : Ghost × List Fail := Id.run do
  let mut g := g
  let mut fails : List Fail := []
  for (k, t, n) in implCredit iw do
    if k == "MS" then
      let x := g.tg t
      let allowed := x.limit + x.nComplete true
      if n > allowed then
        fails := fails ++ [("credit_only_when_complete", "-",
          s!"MAX_STREAMS({tName t}) = {n} although the limit is {x.limit} and only {x.nComplete true} accepted stream(s) of the peer are complete (peer finished, application consumed the end or cancelled, send half closed)")]
      if n > x.adv then g := g.setTG t { x with adv := n }
  for t in [STyp.bidi, STyp.uni] do
    let x := g.tg t
    match implIncoming iw t with
    | some (len, marked) =>
      let gone := x.opened - (len - marked)
      if gone > x.nComplete false then
        fails := fails ++ [("removed_only_when_complete", "-",
          s!"{gone} of the peer's {x.opened} {tName t} stream(s) were dropped from the streams map (or queued for deletion) but only {x.nComplete false} are complete")]
    | none => pure ()
    if x.nUnfinished > x.limit then
      fails := fails ++ [("peer_open_bounded", "-",
        s!"the peer holds {x.nUnfinished} {tName t} streams on which it has sent neither FIN nor RESET_STREAM; the configured limit is {x.limit}")]
  return (g, fails)

def classOf (head : String) : String :=
  if head.startsWith "E:state" then "E:state" else head

def step (s : St) (op impl : String) : St × StepOut :=
  let w := words op
  let iw := words impl
  let head := iw.headD ""
  match w, s.m with
  | ["life", side, mb, mu], none =>
    let pers := if side == "s" then Persp.server else Persp.client
    let lb := intOf mb
    let lu := intOf mu
    if lb < 0 || lu < 0 || lb > 1000 || lu > 1000 then (s, { model := "skip" })
    else
      let m := ((Map.new pers lb lu).step (.params 3 3)).1
      let g : Ghost := { pers := pers,
                         b := { limit := lb, adv := lb, first := firstIncoming .bidi pers },
                         u := { limit := lu, adv := lu, first := firstIncoming .uni pers } }
      let (g, fails) := if head == "ok" then monLine g iw else (g, [])
      ({ s with m := some m, g := g }, { model := "ok" ++ suffix m [] iw, tags := [s!"life:{side}"], fails := fails })
  | _, none => (s, { model := "skip" })
  | ["life", _, _, _], some _ => (s, { model := "skip" })
  | [cmd, arg], some m =>
    if head == "PANIC" then (s, { model := impl }) else
    -- what the operation itself does
    let r : Option (String × Map × Core × List Frame × List Int × Nat × List String) :=
      match cmd with
      | "pkt" =>
        match arg.splitOn ":" with
        | kind :: ids :: rest =>
          let id := intOf ids
          if id < 0 then none else
          let fin := rest == ["1"]
          let rop : Option (Option ROp) := match kind with
            | "S" => some (some (.frame fin))
            | "F" => some (some (.frame true))
            | "R" => some (some .reset)
            | "T" | "M" => some none
            | _ => none
          match rop with
          | none => none
          | some rop =>
            let (m1, ev) := m.step (if rop.isSome then .recvFrame id else .sendFrame id)
            match ev.frameRes with
            | some (.error e) => some ("E:" ++ e.name, m1, s.core, [], s.accepted, s.nextCaller, [s!"pkt:E:{e.name}"])
            | some (.ok none) => some ("ok", m1, s.core, [], s.accepted, s.nextCaller, ["pkt:ignored"])
            | some (.ok (some _)) =>
              match rop with
              | some rop =>
                if peerOwned s.g id then
                  let (c, fire, _) := s.core.recv RHalf.isNewlyCompleted id rop
                  let (m2, fs) := fireDelete m1 id fire
                  some ("ok", m2, c, fs, s.accepted, s.nextCaller, [s!"pkt:{kind}"] ++ (if fire then ["pkt:completes"] else []))
                else some ("ok", m1, s.core, [], s.accepted, s.nextCaller, ["pkt:own"])
              | none => some ("ok", m1, s.core, [], s.accepted, s.nextCaller, [s!"pkt:{kind}"])
            | none => some ("PANIC", m1, s.core, [], s.accepted, s.nextCaller, ["pkt:panic"])
        | _ => none
      | "acc" =>
        match parseT arg with
        | none => none
        | some t =>
          let c := s.nextCaller
          let (m1, ev1) := m.step (.accept t c)
          let (m2, rs2, fs2) := m1.quiesce 64
          let rets := ev1.rets ++ rs2
          match rets.find? (·.1 == c) with
          | some (_, .stream id) => some (toString id, m2, s.core, ev1.frames ++ fs2, id :: s.accepted, c + 1, ["acc:stream"])
          | some (_, .err e) => some ("E:" ++ e.name, m2, s.core, ev1.frames ++ fs2, s.accepted, c + 1, [s!"acc:E:{e.name}"])
          | some (_, .panic) => some ("PANIC", m2, s.core, ev1.frames ++ fs2, s.accepted, c + 1, [])
          | none =>
            let (m3, _) := m2.step (.cancelCtx c)
            let (m4, rs4, fs4) := m3.quiesce 64
            match rs4.find? (·.1 == c) with
            | some (_, .err e) => some ("E:" ++ e.name, m4, s.core, ev1.frames ++ fs2 ++ fs4, s.accepted, c + 1, ["acc:none"])
            | some (_, .stream id) => some (toString id, m4, s.core, ev1.frames ++ fs2 ++ fs4, id :: s.accepted, c + 1, ["acc:stream"])
            | _ => some ("?", m4, s.core, ev1.frames ++ fs2 ++ fs4, s.accepted, c + 1, [])
      | "read" | "cread" =>
        let id := intOf arg
        if !s.accepted.contains id then some ("skip", m, s.core, [], s.accepted, s.nextCaller, [])
        else
          let (c, fire, res) := s.core.recv RHalf.isNewlyCompleted id (if cmd == "read" then .read else .cancelRead)
          let (m1, fs) := fireDelete m id fire
          let txt := match res with | .ended => "end" | .deadline => "deadline" | .none => "ok"
          some (txt, m1, c, fs, s.accepted, s.nextCaller, [s!"{cmd}:{txt}"] ++ (if fire then [s!"{cmd}:completes"] else []) ++
            (if cmd == "cread" then
              [if (s.core.half id).finalKnown then "cread:after-final" else "cread:before-final"] else []))
      | "write" | "close" | "cwrite" =>
        let id := intOf arg
        if !s.accepted.contains id || typeOf id != .bidi then some ("skip", m, s.core, [], s.accepted, s.nextCaller, [])
        else some (head, m, s.core, [], s.accepted, s.nextCaller, [s!"{cmd}:{head}"])
      | "ack" | "lose" => some (head, m, s.core, [], s.accepted, s.nextCaller, [s!"{cmd}:{head}"])
      | _ => none
    match r with
    | none => (s, { model := "bad-op" })
    | some (txt, m1, c1, fs1, acc, nc, tags) =>
      -- the send halves that have completed by now (environment)
      let newSD := (implSendDone iw).filter fun id => !(c1.sendDone id) && acc.contains id && typeOf id == .bidi
      let (m2, c2, fs2) := applySendDone m1 c1 newSD
      let frames := fs1 ++ fs2
      let model := txt ++ suffix m2 frames iw
      -- ghost update (operations and the implementation's answers only), then the monitors
      let g := s.g
      let idArg : Int := match cmd with
        | "pkt" => (match arg.splitOn ":" with | _ :: ids :: _ => intOf ids | _ => -1)
        | "acc" => if head.toInt?.isSome then intOf head else -1
        | _ => intOf arg
      let t := typeOf idArg
      let x := g.tg t
      let (g, fails0) : Ghost × List Fail :=
        if head == "skip" || head == "bad-op" then (g, [])
        else match cmd with
        | "pkt" =>
          if idArg < 0 || !peerOwned g idArg then (g, [])
          else
            let kind := (arg.splitOn ":").headD ""
            let limID := numToID x.adv t g.pers.opposite
            let mustFail := idArg > limID
            -- STOP_SENDING / MAX_STREAM_DATA for a unidirectional stream of the peer is a STREAM_STATE_ERROR whatever the id
            let routed := !((kind == "T" || kind == "M") && t == .uni)
            let f1 : List Fail :=
              if !routed then []
              else if mustFail && head != "E:limit" then
                [("limit_error_iff_above_credit", "-", s!"frame {arg}: stream {idArg} is above the advertised maximum {limID} but the result is {head}")]
              else if !mustFail && head == "E:limit" then
                [("limit_error_iff_above_credit", "-", s!"frame {arg}: stream {idArg} is within the advertised maximum {limID} but the result is STREAM_LIMIT_ERROR")]
              else []
            if head != "ok" then (g, f1)
            else
              let x := x.openUpTo idArg
              let fin := kind == "F" || kind == "R" || (kind == "S" && (arg.splitOn ":").getLastD "" == "1" && (arg.splitOn ":").length == 3)
              let x := if fin then x.upd idArg fun s => { s with final := true } else x
              let x := if kind == "T" then x.upd idArg fun s => { s with sendTouched := true } else x
              (g.setTG t x, f1)
        | "acc" => if idArg ≥ 0 then (g.setTG t (x.upd idArg fun s => { s with accepted := true }), []) else (g, [])
        | "read" => if head == "end" then (g.setTG t (x.upd idArg fun s => { s with readEnd := true }), []) else (g, [])
        | "cread" => (g.setTG t (x.upd idArg fun s => { s with cancelled := true }), [])
        | "write" | "close" | "cwrite" => (g.setTG t (x.upd idArg fun s => { s with sendTouched := true }), [])
        | _ => (g, [])
      -- a send half may only report completion after the application (or the peer's STOP_SENDING) touched it
      let f2 : List Fail := (implSendDone iw).filterMap fun id =>
        match (g.tg (typeOf id)).streams.find? (·.id == id) with
        | some gs => if gs.sendTouched then none else
            some ("send_half_completes_only_when_closed", "-", s!"the send half of stream {id} reports completion although the application never closed or cancelled it")
        | none => none
      let (g, f3) := monLine g iw
      ({ s with m := some m2, core := c2, accepted := acc, nextCaller := nc, g := g },
       { model := model, tags := tags ++ (if fs1 ++ fs2 != [] then ["credit"] else []) ++ (if newSD != [] then ["send-half-done"] else []),
         fails := fails0 ++ f2 ++ f3 })
  | _, _ => (s, { model := "bad-op" })

def main : IO Unit := run { init := ({} : St), step := step }
