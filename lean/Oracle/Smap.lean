import Uquic.Oracle.Frame
import Uquic.Model.Streams.Map
import Uquic.Spec.SmapMon

open Uquic.Oracle Uquic.Model.Streams Uquic.Spec.SmapMon

structure St where
  m : Option Map := none
  used : List Nat := []
  g : Ghost := {}
  hasGhost : Bool := false

abbrev Fail := String × String × String

def parseT : String → Option STyp
  | "b" => some .bidi
  | "u" => some .uni
  | _ => none

def tName : STyp → String
  | .bidi => "b"
  | .uni => "u"

def fmtRet : Ret → String
  | .stream id => toString id
  | .err e => "E:" ++ e.name
  | .panic => "PANIC"

def fmtFrame : Frame → String
  | .maxStreams t n => s!"MS:{tName t}:{n}"
  | .streamsBlocked t l => s!"SB:{tName t}:{l}"

def insertBy {α} (lt : α → α → Bool) (x : α) : List α → List α
  | [] => [x]
  | y :: ys => if lt x y then x :: y :: ys else y :: insertBy lt x ys

def sortBy {α} (lt : α → α → Bool) (l : List α) : List α := l.foldl (fun acc x => insertBy lt x acc) []

/-- ordered selections of `w` distinct elements -/
def selections (l : List Nat) : Nat → List (List Nat)
  | 0 => [[]]
  | w + 1 => l.flatMap fun x => (selections (l.filter (· != x)) w).map (x :: ·)

def b01 (b : Bool) : String := if b then "1" else "0"

def outDigest (o : Outgoing) : String :=
  s!"{o.nextStream},{o.maxStream},{b01 o.blockedSent},{o.openQueue.length},{o.streams.length}"

def inDigest (i : Incoming) : String :=
  s!"{i.nextAccept},{i.nextOpen},{i.maxStream},{i.streams.length},{(i.streams.filter (·.2)).length}"

def digest (m : Map) : String :=
  s!"ob={outDigest m.outBidi} ou={outDigest m.outUni} ib={inDigest m.inBidi} iu={inDigest m.inUni} rs={b01 m.reset}"

def suffix (m : Map) (rets : List (Nat × Ret)) (frames : List Frame) : String :=
  let rs := (sortBy (fun a b => a.1 < b.1) rets).map fun (c, r) => s!"{c}:{fmtRet r}"
  let fs := sortBy (fun a b => a < b) (frames.map fmtFrame)
  s!" r=[{",".intercalate rs}] f=[{";".intercalate fs}] {digest m}"

def Map.hasCaller (m : Map) (c : Nat) : Bool :=
  (([m.outBidi, m.outUni] ++ m.oldOut).any fun o => (o.findProc c).isSome) ||
  (([m.inBidi, m.inUni] ++ m.oldIn).any fun i => (i.findAcc c).isSome)

/-! ### reading the implementation's line -/

def bracket (w : String) (pre : String) : Option String :=
  if w.startsWith pre && w.endsWith "]" then some ((w.drop pre.length).dropEnd 1).toString else none

def implRets (iw : List String) : List (Nat × String) :=
  match iw.findSome? (bracket · "r=[") with
  | none => []
  | some s =>
    (s.splitOn ",").filterMap fun it =>
      match it.splitOn ":" with
      | c :: rest => if it.isEmpty then none else some (natOf c, ":".intercalate rest)
      | [] => none

def implFrames (iw : List String) : List (String × STyp × Int) :=
  match iw.findSome? (bracket · "f=[") with
  | none => []
  | some s =>
    (s.splitOn ";").filterMap fun it =>
      match it.splitOn ":" with
      | [k, t, n] => (parseT t).map fun t => (k, t, intOf n)
      | _ => none

def isNum (s : String) : Bool := s.toInt?.isSome

/-! ### monitors (ghost state from the ops and the implementation's answers only) -/

def removeNat (l : List Nat) (x : Nat) : List Nat := l.filter (· != x)

/-- process the callers that returned in this line -/
def monRets (g : Ghost) (rets : List (Nat × String)) : Ghost × List Fail := Id.run do
  let mut g := g
  let mut fails : List Fail := []
  -- errors first: those callers leave their queues
  for (c, txt) in rets do
    if !isNum txt then
      match g.kinds.find? (·.1 == c) with
      | some (_, true, t) => g := g.setTG t { g.tg t with syncQ := removeNat (g.tg t).syncQ c }
      | some (_, false, t) => g := g.setTG t { g.tg t with accWaiting := removeNat (g.tg t).accWaiting c }
      | none => pure ()
  -- streams handed out, in id order
  let served := sortBy (fun a b => intOf a.2 < intOf b.2) (rets.filter fun r => isNum r.2)
  for (c, txt) in served do
    let id := intOf txt
    match g.kinds.find? (·.1 == c) with
    | some (_, true, t) =>
      let x := g.tg t
      if x.syncQ.head? != some c then
        fails := fails ++ [("sync_fifo", "-", s!"caller {c} got stream {id} but the queue is {x.syncQ}")]
      if id != x.outNext then
        fails := fails ++ [("outgoing_ids", "-", s!"OpenStreamSync returned {id}, expected {x.outNext}")]
      if id > x.outMax t g.pers then
        fails := fails ++ [("outgoing_within_limit", "-", s!"OpenStreamSync returned {id} above the peer's limit {x.outMax t g.pers}")]
      if g.reset then
        fails := fails ++ [("reset_0rtt", "-", s!"OpenStreamSync returned stream {id} before UseResetMaps")]
      g := g.setTG t { x with syncQ := removeNat x.syncQ c, outNext := id + 4 }
    | some (_, false, t) =>
      let x := g.tg t
      if id != x.accNext then
        fails := fails ++ [("accept_in_order", "-", s!"AcceptStream returned {id}, expected {x.accNext}")]
      if id > x.inHighest then
        fails := fails ++ [("accept_unopened", "-", s!"AcceptStream returned {id}, which the peer never opened (highest {x.inHighest})")]
      if g.reset then
        fails := fails ++ [("reset_0rtt", "-", s!"AcceptStream returned stream {id} before UseResetMaps")]
      g := g.setTG t { x with accWaiting := removeNat x.accWaiting c, accNext := id + 4 }
    | none => pure ()
  return (g, fails)

/-- process the control frames queued in this line -/
def monFrames (g : Ghost) (frames : List (String × STyp × Int)) : Ghost × List Fail := Id.run do
  let mut g := g
  let mut fails : List Fail := []
  for (k, t, n) in frames do
    let x := g.tg t
    if k == "MS" then
      if n ≤ x.lastMS then
        fails := fails ++ [("credit_monotone", "-", s!"MAX_STREAMS {n} after {x.lastMS}")]
      if n > maxStreamCount then
        fails := fails ++ [("credit_monotone", "-", s!"MAX_STREAMS {n} exceeds 2^60")]
      if n > x.inLimit + x.fullyDone then
        fails := fails ++ [("credit_only_on_completion", "-", s!"MAX_STREAMS {n} with limit {x.inLimit} and {x.fullyDone} streams accepted and completed")]
      g := g.setTG t { x with lastMS := max x.lastMS n, advMax := max x.advMax (numToID n t g.pers.opposite) }
    else if k == "SB" then
      if n != x.peerLimit then
        fails := fails ++ [("blocked_carries_limit", "-", s!"STREAMS_BLOCKED {n} while the peer's limit is {x.peerLimit}")]
      if x.sbSent.contains n then
        fails := fails ++ [("blocked_once_per_limit", "-", s!"second STREAMS_BLOCKED for limit {n}")]
      g := g.setTG t { x with sbSent := n :: x.sbSent }
  return (g, fails)

/-- conditions that must hold whenever the system is quiescent -/
def monQuiescent (g : Ghost) : List Fail := Id.run do
  let mut fails : List Fail := []
  if g.closed || g.dead then return fails
  for t in [STyp.bidi, STyp.uni] do
    let x := g.tg t
    if !x.syncQ.isEmpty && x.outNext ≤ x.outMax t g.pers then
      fails := fails ++ [("sync_no_lost_wakeup", "-", s!"type {tName t}: callers {x.syncQ} still blocked although stream {x.outNext} is within the limit {x.outMax t g.pers}")]
    if !x.syncQ.isEmpty && !x.sbSent.contains x.peerLimit then
      fails := fails ++ [("blocked_sent_when_blocked", "-", s!"type {tName t}: callers blocked at limit {x.peerLimit} but no STREAMS_BLOCKED for it")]
    if x.accWaiting.length == 1 && x.accNext ≤ x.inHighest then
      fails := fails ++ [("accept_no_lost_wakeup", "-", s!"type {tName t}: acceptor blocked although stream {x.accNext} was opened")]
    if x.openCount > x.inLimit then
      fails := fails ++ [("in_concurrency_bounded", "-", s!"type {tName t}: {x.openCount} incoming streams open, limit {x.inLimit}")]
  return fails

def monitor (g : Ghost) (w : List String) (head : String) (rets : List (Nat × String))
    (frames : List (String × STyp × Int)) : Ghost × List Fail := Id.run do
  let mut g := g
  let mut fails : List Fail := []
  if g.dead || head == "skip" || head == "bad-op" then return (g, [])
  let stateErr := head.startsWith "E:state"
  let limitErr := head == "E:limit"
  let mut needSB : Option STyp := none
  -- a frame opened new incoming streams of this type while acceptors were blocked
  let mut opened : Option (STyp × List Nat) := none
  match w with
  | ["open", t] =>
    match parseT t with
    | none => pure ()
    | some t =>
      let x := g.tg t
      if g.reset && head != "E:0rtt" then
        fails := fails ++ [("reset_0rtt", "-", s!"OpenStream answered {head} before UseResetMaps")]
      if isNum head then
        let id := intOf head
        if !x.syncQ.isEmpty then
          fails := fails ++ [("sync_fifo", "-", s!"OpenStream got stream {id} while callers {x.syncQ} are queued")]
        if id != x.outNext then
          fails := fails ++ [("outgoing_ids", "-", s!"OpenStream returned {id}, expected {x.outNext}")]
        if id > x.outMax t g.pers then
          fails := fails ++ [("outgoing_within_limit", "-", s!"OpenStream returned {id} above the peer's limit {x.outMax t g.pers}")]
        g := g.setTG t { x with outNext := id + 4 }
      else if head == "E:limit-reached" then
        needSB := some t
  | ["opensync", t, c, _] =>
    match parseT t with
    | none => pure ()
    | some t =>
      let c := natOf c
      g := { g with kinds := (c, true, t) :: g.kinds }
      g := g.setTG t { g.tg t with syncQ := (g.tg t).syncQ ++ [c] }
      if g.reset && !(rets.any fun r => r.1 == c && r.2 == "E:0rtt") then
        fails := fails ++ [("reset_0rtt", "-", s!"OpenStreamSync caller {c} not answered with Err0RTTRejected before UseResetMaps")]
  | ["accept", t, c, _] =>
    match parseT t with
    | none => pure ()
    | some t =>
      let c := natOf c
      g := { g with kinds := (c, false, t) :: g.kinds }
      g := g.setTG t { g.tg t with accWaiting := (g.tg t).accWaiting ++ [c] }
      if g.reset && !(rets.any fun r => r.1 == c && r.2 == "E:0rtt") then
        fails := fails ++ [("reset_0rtt", "-", s!"AcceptStream caller {c} not answered with Err0RTTRejected before UseResetMaps")]
  | [kind, id] =>
    if kind == "stream" || kind == "rst" || kind == "sdb" || kind == "stop" || kind == "msd" then
      let id := intOf id
      let t := typeOf id
      let own := initiatedBy id == g.pers
      let sendKind := kind == "stop" || kind == "msd"
      let x := g.tg t
      if head == "PANIC" then
        if !own && !(t == .uni && sendKind) && id > x.advMax then
          fails := fails ++ [("limit_enforced", "-", s!"{kind} for stream {id} above the advertised limit {x.advMax} answered PANIC")]
        g := { g with dead := true }
      else if t == .uni && (own != sendKind) then
        if !stateErr then
          fails := fails ++ [("direction_errors", "-", s!"{kind} for stream {id} of the wrong direction answered {head}")]
      else if own then
        if id ≥ x.outNext then
          if !stateErr then
            fails := fails ++ [("direction_errors", "-", s!"{kind} for local stream {id} that was never opened answered {head}")]
        else if head != "ok" then
          fails := fails ++ [("direction_errors", "-", s!"{kind} for opened local stream {id} answered {head}")]
      else
        if id > x.advMax then
          if !limitErr then
            fails := fails ++ [("limit_enforced", "-", s!"{kind} for stream {id} above the advertised limit {x.advMax} answered {head}")]
        else
          if head != "ok" then
            fails := fails ++ [("limit_enforced", "-", s!"{kind} for stream {id} within the advertised limit {x.advMax} answered {head}")]
          else
            if id > x.inHighest && !x.accWaiting.isEmpty && !g.closed then opened := some (t, x.accWaiting)
            g := g.setTG t { x with inHighest := max x.inHighest id }
    else if kind == "del" then
      let id := intOf id
      let t := typeOf id
      if initiatedBy id != g.pers && head == "ok" then
        g := g.setTG t { g.tg t with inDeleted := id :: (g.tg t).inDeleted }
  | ["maxstreams", t, n] =>
    match parseT t with
    | none => pure ()
    | some t =>
      if head == "ok" then
        g := g.setTG t { g.tg t with peerLimit := max (g.tg t).peerLimit (intOf n) }
  | ["raceopen", t, n] =>
    match parseT t with
    | none => pure ()
    | some t =>
      g := g.setTG t { g.tg t with peerLimit := max (g.tg t).peerLimit (intOf n) }
      if g.reset && head != "E:0rtt" then
        fails := fails ++ [("reset_0rtt", "-", s!"OpenStream answered {head} before UseResetMaps")]
      if head == "E:limit-reached" then needSB := some t
  | ["race", _, t, n] =>
    match parseT t with
    | none => pure ()
    | some t =>
      if head == "ok" then
        g := g.setTG t { g.tg t with peerLimit := max (g.tg t).peerLimit (intOf n) }
  | ["params", nb, nu] =>
    g := g.setTG .bidi { g.b with peerLimit := max g.b.peerLimit (intOf nb) }
    g := g.setTG .uni { g.u with peerLimit := max g.u.peerLimit (intOf nu) }
  | ["close"] => g := { g with closed := true }
  | ["usereset"] => g := { g with reset := false }
  | _ => pure ()
  -- with acceptors blocked, newly opened streams must wake at least one of them
  match opened with
  | some (t, waiting) =>
    if !(rets.any fun r => waiting.contains r.1) then
      fails := fails ++ [("accept_some_wakeup", "-", s!"type {tName t}: acceptors {waiting} stay blocked although the peer opened a new stream")]
  | none => pure ()
  -- callers that returned, then frames
  let (g1, f1) := monRets g rets
  g := g1; fails := fails ++ f1
  -- `raceopen`: OpenStream ran concurrently with the wake-ups caused by the MAX_STREAMS frame
  match w with
  | ["raceopen", t, _] =>
    match parseT t with
    | some t =>
      if isNum head then
        let id := intOf head
        let x := g.tg t
        if rets.any (fun r => isNum r.2 && intOf r.2 > id && (g.kinds.any fun k => k.1 == r.1 && k.2.1 && k.2.2 == t)) then
          fails := fails ++ [("sync_fifo", "-", s!"OpenStream took stream {id} ahead of queued OpenStreamSync callers")]
        else if id != x.outNext then
          fails := fails ++ [("outgoing_ids", "-", s!"OpenStream returned {id}, expected {x.outNext}")]
        if !x.syncQ.isEmpty then
          fails := fails ++ [("sync_fifo", "-", s!"OpenStream got stream {id} while callers {x.syncQ} are queued")]
        if id > x.outMax t g.pers then
          fails := fails ++ [("outgoing_within_limit", "-", s!"OpenStream returned {id} above the peer's limit {x.outMax t g.pers}")]
        g := g.setTG t { x with outNext := max x.outNext (id + 4) }
    | none => pure ()
  | _ => pure ()
  let (g2, f2) := monFrames g frames
  g := g2; fails := fails ++ f2
  match needSB with
  | some t =>
    if !g.closed && !(g.tg t).sbSent.contains (g.tg t).peerLimit then
      fails := fails ++ [("blocked_sent_when_blocked", "-", s!"OpenStream failed at limit {(g.tg t).peerLimit} but no STREAMS_BLOCKED for it")]
  | none => pure ()
  if w == ["reset0rtt"] then
    if head == "ok" then
      for t in [STyp.bidi, STyp.uni] do
        let x := g.tg t
        if !x.syncQ.isEmpty || !x.accWaiting.isEmpty then
          fails := fails ++ [("reset_unblocks_all", "-", s!"type {tName t}: callers {x.syncQ} {x.accWaiting} still blocked after ResetFor0RTT")]
      if !g.closed && rets.any (fun r => r.2 != "E:0rtt") then
        fails := fails ++ [("reset_0rtt", "-", s!"a blocked caller returned something else than Err0RTTRejected")]
      g := { Ghost.fresh g.pers g.b.inLimit g.u.inLimit with kinds := g.kinds, reset := true, prevPeer := some (g.b.peerLimit, g.u.peerLimit) }
    else
      g := { g with reset := true, closed := true }
  fails := fails ++ monQuiescent g
  return (g, fails)

/-! ### the step function -/

def FUEL : Nat := 100000

def step (s : St) (op impl : String) : St × StepOut :=
  let w := words op
  let iw := words impl
  let head := iw.headD ""
  match w, s.m with
  | ["new", p, a, b], none =>
    let pers := if p == "s" then Persp.server else Persp.client
    let m := Map.new pers (intOf a) (intOf b)
    ({ s with m := some m, g := Ghost.fresh pers (intOf a) (intOf b), hasGhost := true },
     { model := "ok" ++ suffix m [] [], tags := ["new:" ++ p] })
  | _, none => (s, { model := "skip" })
  | _, some m =>
    if m.dead then (s, { model := "skip" }) else
    -- translate the line into model steps
    let plan : Option (List MapOp × (MapEv → String) × List Nat) :=
      match w with
      | ["new", _, _, _] => none
      | ["open", t] => (parseT t).map fun t =>
          ([.openStream t], (fun ev => match ev.opened with | some r => fmtRet r | none => "?"), [])
      | ["opensync", t, c, pre] => (parseT t).bind fun t =>
          let c := natOf c
          if s.used.contains c then none else some ([.openSync t c (pre == "1")], (fun _ => "-"), [c])
      | ["accept", t, c, pre] => (parseT t).bind fun t =>
          let c := natOf c
          if s.used.contains c then none
          else some ([MapOp.accept t c] ++ (if pre == "1" then [MapOp.cancelCtx c] else []), (fun _ => "-"), [c])
      | ["cancel", c] =>
          let c := natOf c
          if Map.hasCaller m c then some ([.cancelCtx c], (fun _ => "ok"), []) else none
      | [k, id] =>
          let res := fun (ev : MapEv) => match ev.frameRes with
            | some (.error e) => "E:" ++ e.name
            | some (.ok _) => "ok"
            | none => if ev.panic then "PANIC" else "?"
          let i := m.inc (typeOf (intOf id))
          let far := initiatedBy (intOf id) != m.pers && intOf id ≤ i.maxStream && intOf id - i.nextOpen > 4 * 20000
          if (k == "stream" || k == "rst" || k == "sdb" || k == "stop" || k == "msd") && far then
            some ([], (fun _ => "too-far"), [])     -- the harness never asks for this many streams at once
          else if k == "stream" || k == "rst" || k == "sdb" then some ([.recvFrame (intOf id)], res, [])
          else if k == "stop" || k == "msd" then some ([.sendFrame (intOf id)], res, [])
          else if k == "del" then
            some ([.delete (intOf id)], (fun ev => match ev.del with
              | some (some e) => "E:" ++ e.name | some none => "ok" | none => "?"), [])
          else none
      | ["maxstreams", t, n] => (parseT t).map fun t =>
          if intOf n > maxStreamCount then ([], (fun _ => "E:parse"), [])
          else ([.maxStreams t (intOf n)], (fun _ => "ok"), [])
      | ["params", nb, nu] => some ([.params (intOf nb) (intOf nu)], (fun _ => "ok"), [])
      | ["close"] => some ([.close .closed], (fun ev => if ev.panic then "PANIC" else "ok"), [])
      | ["reset0rtt"] => some ([.resetFor0RTT], (fun ev => if ev.panic then "PANIC" else "ok"), [])
      | ["usereset"] => some ([.useResetMaps], (fun _ => "ok"), [])
      | _ => none
    -- `race`: the Go scheduler decides whether the cancelled caller sees ctx.Done() before or after the
    -- MAX_STREAMS frame is handled, and which select case wins; the model tries the three schedules and
    -- follows the one the implementation took (the monitors judge the outcome either way)
    let raceOf : Option (Nat × STyp × Int) := match w with
      | ["race", c, t, n] => (parseT t).bind fun t =>
          if ([m.outBidi, m.outUni] ++ m.oldOut).any (fun o => (o.findProc (natOf c)).isSome) then some (natOf c, t, intOf n) else none
      | _ => none
    let raceOpenOf : Option (STyp × Int) := match w with
      | ["raceopen", t, n] => (parseT t).map fun t => (t, intOf n)
      | _ => none
    match raceOpenOf with
    | some (t, n) =>
      -- schedule A: the woken callers run first, then OpenStream; schedule B: OpenStream runs first
      let fmtOpened := fun (ev : MapEv) => match ev.opened with | some r => fmtRet r | none => "?"
      let (ma, ea) := m.step (.maxStreams t n)
      let schedA : Map × String :=
        let (m2, rs, fs) := ma.quiesce FUEL
        let (m3, eo) := m2.step (.openStream t)
        let (m4, rs2, fs2) := m3.quiesce FUEL
        (m4, fmtOpened eo ++ suffix m4 (ea.rets ++ rs ++ eo.rets ++ rs2) (ea.frames ++ fs ++ eo.frames ++ fs2))
      let schedB : Map × String :=
        let (m3, eo) := ma.step (.openStream t)
        let (m4, rs2, fs2) := m3.quiesce FUEL
        (m4, fmtOpened eo ++ suffix m4 (ea.rets ++ eo.rets ++ rs2) (ea.frames ++ eo.frames ++ fs2))
      let pick := if schedB.2 == impl && schedA.2 != impl then ("raceopen:open-first", schedB) else ("raceopen:waiters-first", schedA)
      let (g', fails) := if s.hasGhost then monitor s.g w head (implRets iw) (implFrames iw) else (s.g, [])
      ({ s with m := some pick.2.1, g := g' }, { model := pick.2.2, tags := [pick.1], fails := fails })
    | none =>
    match raceOf with
    | some (c, t, n) =>
      let runSched (ops : List MapOp) : Map × String :=
        let (m1, rets, frames) := ops.foldl (fun (acc : Map × List (Nat × Ret) × List Frame) o =>
            let (m', e) := acc.1.step o
            (m', acc.2.1 ++ e.rets, acc.2.2 ++ e.frames)) (m, [], [])
        let (m2, rs, fs) := m1.quiesce FUEL
        (m2, "ok" ++ suffix m2 (rets ++ rs) (frames ++ fs))
      let scheds : List (String × List MapOp) := [
        ("race:cancel-first", [.cancelCtx c, .outCtxDone c, .outCancelLocked c, .maxStreams t n]),
        ("race:frame-first-ctx-wins", [.cancelCtx c, .maxStreams t n, .outCtxDone c, .outCancelLocked c]),
        ("race:frame-first-token-wins", [.cancelCtx c, .maxStreams t n, .outRecv c, .outWakeLocked c])]
      let cands := scheds.map fun (tag, ops) => (tag, runSched ops)
      let pick := match cands.find? (fun x => x.2.2 == impl) with
        | some x => x
        | none => cands.headD ("race:none", (m, "?"))
      let (g', fails) := if s.hasGhost then monitor s.g w head (implRets iw) (implFrames iw) else (s.g, [])
      ({ s with m := some pick.2.1, g := g' }, { model := pick.2.2, tags := [pick.1], fails := fails })
    | none =>
    match plan with
    | none =>
      let model := match w with
        | "opensync" :: _ | "accept" :: _ | "cancel" :: _ | "new" :: _ | "race" :: _ => "skip"
        | _ => "bad-op"
      (s, { model := model, tags := ["skip"] })
    | some (ops, resOf, newCids) =>
      -- the primary step(s)
      let (m1, ev) := ops.foldl (fun (acc : Map × MapEv) o =>
          let (m', e) := acc.1.step o
          (m', { e with opened := e.opened <|> acc.2.opened, frameRes := e.frameRes <|> acc.2.frameRes,
                        del := e.del <|> acc.2.del, rets := acc.2.rets ++ e.rets,
                        frames := acc.2.frames ++ e.frames, panic := acc.2.panic || e.panic })) (m, {})
      let res := resOf ev
      let s1 := { s with used := newCids ++ s.used }
      if m1.dead then
        -- the panic left an incoming map locked: nothing else is observable
        let (g', fails) := if s.hasGhost then monitor s.g w head [] [] else (s.g, [])
        ({ s1 with m := some m1, g := g' }, { model := res, tags := ["frame:panic-locked"], fails := fails })
      else
        -- Several AcceptStream callers asleep on the same newStreamChan while a frame opens k new
        -- streams: the runtime decides which of them receive the tokens sent by the creation loop
        -- (a send hands over directly to a parked receiver, so up to k of them wake) and in which
        -- order the woken ones take the mutex.  The model enumerates the schedules and follows the
        -- one the implementation took (the monitors judge the outcome either way).  One call that
        -- opens k streams is rendered as k successive single-stream calls (same effect on the map),
        -- so that the receives can be placed between the sends.
        let frameKind : Option (SID → MapOp) := match ops with
          | [.recvFrame _] => some MapOp.recvFrame
          | [.sendFrame _] => some MapOp.sendFrame
          | _ => none
        let tgt : STyp := match ops with
          | [.recvFrame id] | [.sendFrame id] => typeOf id
          | _ => .bidi
        let i0 := m.inc tgt
        let i1 := m1.inc tgt
        let k := ((i1.nextOpen - i0.nextOpen) / 4).toNat
        let sleepers := (i0.accs.filter (fun a => !a.ready)).map (·.aid)
        let runFrom := fun (mm : Map) (pre : List MapOp) (rets0 : List (Nat × Ret)) (frames0 : List Frame) =>
          let (ma, ra, fa) := pre.foldl (fun (acc : Map × List (Nat × Ret) × List Frame) o =>
              let (m', e) := acc.1.step o
              (m', acc.2.1 ++ e.rets, acc.2.2 ++ e.frames)) (mm, rets0, frames0)
          let (mb, rs, fs) := ma.quiesce FUEL
          (mb, ra ++ rs, fa ++ fs)
        let cands : List (String × Map × List (Nat × Ret) × List Frame) :=
          match frameKind with
          | some mk =>
            if k ≥ 1 && sleepers.length ≥ 2 && !i0.chanClosed then
              let ids := (List.range k).map fun (j : Nat) => i0.nextOpen + 4 * (j : Int)
              let wn := min k sleepers.length
              let handoff := (selections sleepers wn).map fun sel =>
                let sends := (ids.zipIdx).flatMap fun (id, j) =>
                  [mk id] ++ (match sel[j]? with | some a => [MapOp.accRecv a] | none => [])
                ("accept:handoff", runFrom m (sends ++ sel.map MapOp.accLocked) [] [])
              let single := if wn ≥ 2 then sleepers.map fun a =>
                  ("accept:single-slot", runFrom m1 [MapOp.accRecv a] ev.rets ev.frames) else []
              handoff ++ single
            else [("", runFrom m1 [] ev.rets ev.frames)]
          | none => [("", runFrom m1 [] ev.rets ev.frames)]
        let pick := match cands.find? (fun c => res ++ suffix c.2.1 c.2.2.1 c.2.2.2 == impl) with
          | some c => c
          | none => cands.headD ("", runFrom m1 [] ev.rets ev.frames)
        let m2 := pick.2.1
        let rets := pick.2.2.1
        let frames := pick.2.2.2
        let model := res ++ suffix m2 rets frames
        -- branch tags
        let kind := w.headD "?"
        let resTag := if isNum res then "stream" else res
        let tags := [s!"{kind}:{resTag}"] ++ (if pick.1 == "" then [] else [pick.1]) ++
          (frames.map fun f => match f with | .maxStreams .. => "frame:MAX_STREAMS" | .streamsBlocked .. => "frame:STREAMS_BLOCKED") ++
          (rets.filterMap fun (_, r) => match r with
            | .stream _ => if kind == "opensync" || kind == "accept" || kind == "open" then none else some s!"woken-by:{kind}"
            | .err e => some s!"ret:{e.name}" | .panic => some "ret:PANIC") ++
          (match ev.frameRes with
            | some (.ok none) => ["frame:stream-gone"]
            | some (.ok (some _)) => [if m1.inBidi.nextOpen != m.inBidi.nextOpen || m1.inUni.nextOpen != m.inUni.nextOpen then "frame:opens" else "frame:existing"]
            | _ => []) ++
          (if kind == "opensync" && rets.isEmpty then ["opensync:queued"] else []) ++
          (if kind == "accept" && rets.isEmpty then ["accept:blocked"] else []) ++
          (if kind == "del" && res == "ok" && frames.isEmpty && initiatedBy (intOf (w.getD 1 "0")) != m.pers then ["del:deferred-or-no-credit"] else []) ++
          (match kind, s.g.prevPeer, w with
            | "params", some (rb, ru), [_, nb, nu] =>
              -- transport parameters of the handshake that rejected 0-RTT, against the remembered ones
              let cmp := fun (n r : Int) => if n < r then "smaller" else if n == r then "equal" else "larger"
              if s.g.b.peerLimit == 0 && s.g.u.peerLimit == 0 then
                [s!"zrtt:params-bidi-{cmp (intOf nb) rb}", s!"zrtt:params-uni-{cmp (intOf nu) ru}"] else []
            | "open", some (rb, ru), [_, t] =>
              let (lim, rem) := if t == "b" then (s.g.b.peerLimit, rb) else (s.g.u.peerLimit, ru)
              if res == "E:limit-reached" && !s.g.reset && lim < rem then ["zrtt:open-refused-below-remembered-limit"] else []
            | _, _, _ => []) ++
          (if kind == "maxstreams" && res == "ok" then
             [if m1.outBidi.maxStream != m.outBidi.maxStream || m1.outUni.maxStream != m.outUni.maxStream then "maxstreams:raise" else "maxstreams:stale"] else [])
        let (g', fails) := if s.hasGhost then monitor s.g w head (implRets iw) (implFrames iw) else (s.g, [])
        ({ s1 with m := some m2, g := g' }, { model := model, tags := tags, fails := fails })

def main : IO Unit := run { init := ({} : St), step := step }
