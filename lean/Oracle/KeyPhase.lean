import Uquic.Oracle.Frame
import Uquic.Model.Crypto.KeyPhase
import Uquic.Model.Crypto.PN
import Uquic.Model.Crypto.PackGlue
import Uquic.Spec.PNMon
import Uquic.Spec.KeyPhaseMon
import Uquic.Model.Crypto.Prim
import Uquic.Generated.Handshake

open Uquic.Oracle Uquic.Model.KeyPhase Uquic.Spec.KeyPhaseMon

open Uquic.Model.Bytes (toHex ofHex beBytes nonce)
open Uquic.Model.Prim (hkdfExpandLabel trafficKeys gcmSealWith expandKey)

/-- the fixed write secret of endpoint `i` in the driver (`byte(17*i + 3*j + 1)`, 32 bytes) -/
def harnessSecret (i : Nat) : List UInt8 := (List.range 32).map fun j => UInt8.ofNat (17 * i + 3 * j + 1)

/-- one step of the key-update chain as the CODE does it (label regenerated from the source, the same for
    every version) and as RFC 9001 §6.1 / RFC 9369 §3.3.2 prescribe it -/
def codeNext (ver : Nat) (s : List UInt8) : List UInt8 :=
  hkdfExpandLabel s (if ver == 2 then Uquic.Gen.Handshake.keyUpdateLabelV2 else Uquic.Gen.Handshake.keyUpdateLabelV1) 32

/-- write-secret chain of one endpoint: entry `g` = (code's secret, RFC's secret) of generation `g` -/
abbrev Chain := List (List UInt8 × List UInt8)

def Chain.extend (c : Chain) (ver : Nat) (g : Nat) : Chain := Id.run do
  let mut c := c
  for _ in [c.length : g + 1] do
    match c.getLast? with
    | some (a, b) => c := c ++ [(codeNext ver a, Uquic.Model.Prim.nextSecret ver b)]
    | none => c := c
  return c

/-- cached AES-128-GCM material of one (endpoint, generation): IV and expanded key, for the code's chain and
    for the RFC's chain -/
structure GenKeys where
  ep : Nat
  gen : Nat
  codeIV : List UInt8
  codeRK : Array (List UInt8)
  rfcIV : List UInt8
  rfcRK : Array (List UInt8)

/-- the driver's associated data and plaintext of packet `id` -/
def adOf (bit : Int) (pn : Int) : List UInt8 := [UInt8.ofNat bit.toNat] ++ beBytes 8 pn.toNat
def msgOf (id : Nat) : List UInt8 := (List.range (id % 7)).map fun i => UInt8.ofNat (id * 31 + i)

structure St where
  suite : Nat := 0
  ver : Nat := 1
  ch0 : Chain := [(harnessSecret 0, harnessSecret 0)]
  ch1 : Chain := [(harnessSecret 1, harnessSecret 1)]
  gk : List GenKeys := []
  env : Env := { pto3 := 600000000, keyUpdateInterval := 100000, firstKeyUpdateInterval := 100,
                 invalidPacketLimit := Uquic.Gen.Protocol.InvalidPacketLimitAES }
  a0 : KA := {}
  a1 : KA := {}
  g0 : EpGhost := {}
  g1 : EpGhost := {}
  /-- model's packet table: id ↦ (sender, generation according to the MODEL, pn, bit) -/
  mp : List (Nat × PktInfo) := []
  /-- ghost packet table: generation according to the IMPLEMENTATION's report -/
  gp : List (Nat × PktInfo) := []

def St.chain (s : St) (ep : Nat) : Chain := if ep == 0 then s.ch0 else s.ch1
def St.extend (s : St) (ep : Nat) (g : Nat) : St :=
  if ep == 0 then { s with ch0 := s.ch0.extend s.ver g } else { s with ch1 := s.ch1.extend s.ver g }
/-- secrets of the hash function the oracle implements (SHA-256 suites) -/
def St.sha256Suite (s : St) : Bool := s.suite != 1

def St.a (s : St) (ep : Nat) : KA := if ep == 0 then s.a0 else s.a1
def St.setA (s : St) (ep : Nat) (a : KA) : St := if ep == 0 then { s with a0 := a } else { s with a1 := a }
def St.g (s : St) (ep : Nat) : EpGhost := if ep == 0 then s.g0 else s.g1
def St.setG (s : St) (ep : Nat) (g : EpGhost) : St := if ep == 0 then { s with g0 := g } else { s with g1 := g }

def lookup (l : List (Nat × PktInfo)) (id : Nat) : Option PktInfo := (l.find? (·.1 == id)).map (·.2)
def insert (l : List (Nat × PktInfo)) (id : Nat) (p : PktInfo) : List (Nat × PktInfo) :=
  (id, p) :: l.filter (·.1 != id)

def fmtState (a : KA) : String :=
  s!"kp={a.keyPhase} la={a.largestAcked} fp={a.firstPacketNumber} hc={if a.handshakeConfirmed then 1 else 0} ic={a.invalidPacketCount} exp={a.prevRcvAEADExpiry} prev={if a.prevPresent then 1 else 0} fr={a.firstRcvdWithCurrentKey} fs={a.firstSentWithCurrentKey} hi={a.highestRcvdPN} nr={a.numRcvdWithCurrentKey} ns={a.numSentWithCurrentKey}"

def fmtRes : Res → String
  | .ok => "ok" | .decryptionFailed => "E:decrypt" | .keysDropped => "E:dropped"
  | .keyUpdateError => "E:keyupdate" | .aeadLimitReached => "E:aeadlimit"

def implField (impl : String) (key : String) : Option String :=
  (words impl).findSome? fun w => if w.startsWith key then some (w.drop key.length).toString else none

def implInt (impl key : String) (dflt : Int) : Int := ((implField impl key).map intOf).getD dflt

abbrev Fail := String × String × String

def mk (model : String) (tags : List String := []) (fails : List Fail := []) : StepOut :=
  { model := model, tags := tags, fails := fails }

/-- monitor of a possible LOCAL key update observed in the implementation's output of a seal/kp op -/
def localRollMon (g : EpGhost) (implPhase : Int) : List Fail × EpGhost :=
  if implPhase > g.phase then
    let f1 : List Fail := if !g.localUpdateAllowed then
      [("local_update_early", "-", s!"phase {g.phase}->{implPhase} confirmed={g.confirmed} firstSent={g.firstSent} acked={g.ackedOK}")] else []
    let f2 : List Fail := if g.phase > 0 && g.rcvdInPhase == 0 && g.monotoneSeal && g.ackWithinSent then
      [("local_update_before_peer_confirmed", "-", s!"phase {g.phase}->{implPhase} but nothing received in phase {g.phase}")] else []
    let f3 : List Fail := if implPhase ≠ g.phase + 1 then [("update_skips_generation", "-", s!"{g.phase}->{implPhase}")] else []
    (f1 ++ f2 ++ f3, g.rolled implPhase)
  else if implPhase < g.phase then ([("key_phase_decreased", "-", s!"{g.phase}->{implPhase}")], { g with phase := implPhase })
  else ([], g)

def step (s : St) (op impl : String) : St × StepOut :=
  let w := words op
  let arg (i : Nat) : Int := intOf (w.getD i "0")
  let ep : Nat := (arg 1).toNat % 2
  let implHead := (words impl).headD ""
  let implPhase := implInt impl "kp=" 0
  match w.headD "" with
  | "init" =>
    let pto3 := implInt impl "pto3=" 0
    let limit := if (arg 1) % 3 == 2 then Uquic.Gen.Protocol.InvalidPacketLimitChaCha else Uquic.Gen.Protocol.InvalidPacketLimitAES
    ({ suite := (arg 1).toNat % 3, ver := if arg 2 == 2 then 2 else 1, gk := [],
       env := { pto3 := pto3, keyUpdateInterval := arg 3, firstKeyUpdateInterval := arg 4, invalidPacketLimit := limit } },
     { model := s!"pto3={pto3} limit={limit}", tags := ["init"] })
  | "confirm" =>
    let a := (s.a ep).setHandshakeConfirmed
    let g := { s.g ep with confirmed := true }
    ((s.setA ep a).setG ep g, { model := "ok " ++ fmtState a, tags := ["confirm"] })
  | "kp" =>
    let (a, b) := (s.a ep).keyPhaseBit s.env
    let (fails, g) := localRollMon (s.g ep) implPhase
    ((s.setA ep a).setG ep g, mk (s!"bit={b} " ++ fmtState a)
       [if a.keyPhase ≠ (s.a ep).keyPhase then "kp:roll" else "kp:same"] fails)
  | "seal" | "sealraw" =>
    let id := (arg 2).toNat; let pn := arg 3
    let a0 := s.a ep
    let (a1, b) := if w.headD "" == "seal" then a0.keyPhaseBit s.env else (a0, bit a0.keyPhase)
    let (a2, gen) := a1.seal pn
    let rolled := a1.keyPhase ≠ a0.keyPhase
    -- ghost / monitors on the implementation's output
    let (fails, g) := localRollMon (s.g ep) implPhase
    let implGen := implInt impl "gen=" 0
    let implBit := implInt impl "bit=" 0
    let implLen := implInt impl "len=" 16
    let fails := fails ++
      (if implBit ≠ implGen % 2 then [("wire_bit_matches_generation", "-", s!"bit={implBit} gen={implGen}")] else []) ++
      (if implLen ≠ 16 then [("protected_length", "-", s!"overhead {implLen}")] else [])
    let g := { g with sentInPhase := pn :: g.sentInPhase, monotoneSeal := g.monotoneSeal && decide (pn > g.lastSealed), lastSealed := pn }
    let s := (s.setA ep a2).setG ep g
    -- the sealed bytes: predicted for TLS_AES_128_GCM_SHA256 from the key-update chain, a witness otherwise
    let implCt := (implField impl "ct=").getD ""
    -- expanded keys are cached per (endpoint, generation); the RFC comparison uses the generation the
    -- IMPLEMENTATION reported, the model prediction the model's
    let ensure (s : St) (g : Nat) : St :=
      if s.suite == 0 && g ≤ 4096 && !(s.gk.any fun k => k.ep == ep && k.gen == g) then
        let s := s.extend ep g
        match (s.chain ep)[g]? with
        | some (codeSec, rfcSec) =>
          let ck := trafficKeys s.ver codeSec; let rk := trafficKeys s.ver rfcSec
          { s with gk := { ep := ep, gen := g, codeIV := ck.iv, codeRK := expandKey ck.key,
                           rfcIV := rk.iv, rfcRK := expandKey rk.key } :: s.gk }
        | none => s
      else s
    let s := ensure (ensure s gen.toNat) implGen.toNat
    let sealWith (rk : Array (List UInt8)) (iv : List UInt8) (bit : Int) : String :=
      toHex (gcmSealWith rk (nonce iv pn.toNat) (adOf bit pn) (msgOf id))
    let (ctModel, ctFails) : String × List Fail :=
      if s.suite == 0 then
        let mc := match s.gk.find? (fun k => k.ep == ep && k.gen == gen.toNat) with
          | some k => sealWith k.codeRK k.codeIV b
          | none => implCt
        let ctFails : List Fail := match s.gk.find? (fun k => k.ep == ep && k.gen == implGen.toNat) with
          | some k =>
            let rc := sealWith k.rfcRK k.rfcIV implBit
            if implCt ≠ rc then
              [("aead_matches_rfc", "-",
                s!"version {s.ver} generation {implGen} pn={pn}: sealed {implCt}, RFC 9001 §6.1 / RFC 9369 §3.3.2 key chain gives {rc}")] else []
          | none => []
        (mc, ctFails)
      else (implCt, [])
    let fails := fails ++ ctFails
    ({ s with mp := insert s.mp id { sender := ep, gen := gen, pn := pn, bit := b },
              gp := insert s.gp id { sender := ep, gen := implGen, pn := pn, bit := implBit } },
     mk (s!"bit={b} gen={gen} len=16 ct={ctModel} " ++ fmtState a2)
       ([if rolled then "seal:roll" else "seal:same"] ++ (if a0.firstSentWithCurrentKey = invalidPN then ["seal:first-in-phase"] else []))
       fails)
  | "pack" =>
    -- pack <ep> <id> <path> <uquic> <pnlen> <pn> <src> <flag> <long> <hsdata>
    if w.length < 11 then (s, { model := "skip" }) else
    let id := (arg 2).toNat; let pnLen := (arg 5).toNat; let pn := arg 6; let src := (arg 7).toNat
    if pnLen < 1 || pnLen > 4 || pn < 0 then (s, { model := "skip" }) else
    match Uquic.Model.PackGlue.Path.ofString (w.getD 3 "") with
    | none => (s, mk ("E:pack " ++ fmtState (s.a ep)) ["pack:bad-path"])
    | some path =>
      let v : Uquic.Model.PackGlue.Avail := { data := src % 2 == 1, ack := (src / 2) % 2 == 1, flag := (arg 8) % 2 == 1 }
      let a0 := s.a ep
      let (a2, out) := Uquic.Model.PackGlue.pack path v a0 s.env pn
      let rolled := a2.keyPhase ≠ a0.keyPhase
      let (fails, g) := localRollMon (s.g ep) implPhase
      let pathTag := w.getD 3 "" ++ (if arg 4 % 2 == 1 then ":u" else "")
      match out with
      | none =>
        -- the implementation may nevertheless have produced a packet: remember it for the deliveries
        let produced := implHead ≠ "none" && (implField impl "gen=").isSome
        let implGen := implInt impl "gen=" 0; let implBit := implInt impl "bit=" 0
        let s := (s.setA ep a2).setG ep g
        let s := if produced then
          { s with gp := insert s.gp id { sender := ep, gen := implGen, pn := pn, bit := implBit, packed := true, pnLen := pnLen,
                                          cidLen := if ep == 0 then 8 else 0, dataLen := (implInt impl "len=" 0).toNat } } else s
        (s, mk ("none " ++ fmtState a2) [s!"pack:{pathTag}:none", if rolled then "pack:none-roll" else "pack:none-same"] fails)
      | some q =>
        let implGen := implInt impl "gen=" 0
        let implBit := implInt impl "bit=" 0
        let produced := (implField impl "gen=").isSome
        let dataLen := (implInt impl "len=" 0).toNat
        let cidLen := if ep == 0 then 8 else 0
        let fails := fails ++
          (if produced && implBit ≠ implGen % 2 then
            [("wire_bit_matches_generation", "-", s!"{w.getD 3 ""}: short header key-phase bit {implBit} on a packet sealed with key generation {implGen}")] else []) ++
          (if produced && (implInt impl "pn=" (-1) ≠ pn || implInt impl "pnlen=" 0 ≠ pnLen || implInt impl "popped=" 0 ≠ 1) then
            [("packed_with_peeked_pn", "-", s!"peeked pn={pn} pnLen={pnLen}, packet reports {impl}")] else []) ++
          (if produced && dataLen < 1 + cidLen + 4 + 16 then
            [("protect_needs_sample", "-", s!"packet of {dataLen} bytes leaves no header-protection sample")] else [])
        let g := if produced then
          { g with sentInPhase := pn :: g.sentInPhase, monotoneSeal := g.monotoneSeal && decide (pn > g.lastSealed), lastSealed := pn } else g
        let s := (s.setA ep a2).setG ep g
        let info (gen bit : Int) : PktInfo :=
          { sender := ep, gen := gen, pn := pn, bit := bit, packed := true, pnLen := pnLen, cidLen := cidLen, dataLen := dataLen }
        let s := { s with mp := insert s.mp id (info q.gen q.bit) }
        let s := if produced then { s with gp := insert s.gp id (info implGen implBit) } else s
        (s, mk (s!"bit={q.bit} gen={q.gen} pn={pn} pnlen={pnLen} popped=1 len={dataLen} " ++ fmtState a2)
              [s!"pack:{pathTag}", if rolled then "pack:roll" else "pack:same", s!"pack:pnlen{pnLen}"] fails)
  | "forge" =>
    let id := (arg 2).toNat; let gen := arg 3; let pn := arg 4
    if gen < 0 || gen > 1000 then (s, { model := "skip" }) else
    let p : PktInfo := { sender := ep, gen := gen, pn := pn, bit := gen % 2 }
    ({ s with mp := insert s.mp id p, gp := insert s.gp id p }, { model := "ok", tags := ["forge"] })
  | "open" =>
    match lookup s.mp (arg 2).toNat, lookup s.gp (arg 2).toNat with
    | some p, some q => Id.run do
      if p.packed && p.sender == ep then return (s, { model := "skip" })
      let t := arg 3; let kpflip := (arg 4) % 2; let bf := arg 6
      -- a packet of the real packer: the packet number travels truncated and is decoded by the receiver;
      -- tampering = the key-phase bit of the protected first byte, or a bit behind the sample
      let pnd := if p.packed then 0 else arg 5
      let mutated := if p.packed then bf > 0 && p.dataLen > 1 + p.cidLen + 20 else bf != 0
      let a0 := s.a ep
      let mpn := if p.packed then Uquic.Model.PN.decodePN p.pnLen a0.decodeBase (p.pn % 2 ^ (8 * p.pnLen)) else p.pn + pnd
      let authentic := p.sender ≠ ep && kpflip == 0 && pnd == 0 && !mutated && mpn == p.pn
      let kp := (p.bit + kpflip) % 2
      let (a, r, used) := a0.openU s.env t mpn kp { gen := p.gen, authentic := authentic }
      -- ghost / monitors
      let g := s.g ep
      let qkp := (q.bit + kpflip) % 2
      let pn := q.pn + pnd
      let ok := implHead == "ok"
      -- untampered, and (real packer) the truncated packet number decodes at a receiver that has seen `highRcvd`
      let decodable := !q.packed || Uquic.Spec.PNMon.inWindow q.pnLen q.pn g.highRcvd
      let authentic := q.sender ≠ ep && kpflip == 0 && pnd == 0 && !mutated
      -- previous key dropped by now?
      let dropNow := match g.prevDropAt with | some d => decide (t > d) | none => false
      let g := if dropNow then { g with prevDropped := true, prevDropAt := none } else g
      let isOld := g.isOld pn
      let tooQuick := g.phase > 0 && g.sentInPhase.isEmpty
      let mut fails : List Fail := []
      if implHead == "ok-WRONG-PLAINTEXT" then
        fails := fails ++ [("roundtrip_exact", "-", s!"id={arg 2} opened to a different plaintext")]
      if !authentic && (ok || implHead == "ok-WRONG-PLAINTEXT") then
        fails := fails ++ [("tamper_rejected", "-", s!"id={arg 2} sender={q.sender} kpflip={kpflip} pndelta={pnd} bitflip={bf} accepted")]
      if authentic && ok && !(q.gen == g.phase || q.gen == g.phase - 1 || q.gen == g.phase + 1) then
        fails := fails ++ [("wrong_generation_rejected", "-", s!"gen={q.gen} phase={g.phase}")]
      -- an untampered packet sealed with the receiver's CURRENT generation must open — whatever key-phase bit
      -- the sender wrote (a wrong bit is the sender's defect, not a reason to lose the packet)
      if authentic && decodable && q.gen == g.phase && !ok then
        fails := fails ++ [("current_generation_opens", "-", s!"gen={q.gen} bit={qkp} pn={pn} packed={q.packed} result={implHead}")]
      if q.packed && ok && (implInt impl "wbit=" qkp ≠ qkp || implInt impl "dpn=" pn ≠ pn) then
        fails := fails ++ [("roundtrip_exact", "-", s!"packed bit={q.bit} pn={pn}: receiver read {impl}")]
      if q.packed && ok && (implField impl "frames=").getD "ok" ≠ "ok" then
        fails := fails ++ [("payload_is_frames", "-", s!"pn={pn}: the decrypted payload of a packed packet is not the frames the packer was given plus PADDING: {impl}")]
      if authentic && decodable && q.gen == g.phase + 1 && qkp ≠ g.phase % 2 && !isOld && !tooQuick && !ok then
        fails := fails ++ [("next_generation_opens", "-", s!"gen={q.gen} pn={pn} result={implHead}")]
      if authentic && decodable && q.gen == g.phase - 1 && qkp ≠ g.phase % 2 && isOld && !g.prevDropped && !ok then
        fails := fails ++ [("previous_generation_opens_in_window", "-", s!"gen={q.gen} pn={pn} firstRcvd={g.firstRcvdInPhase} result={implHead}")]
      if authentic && q.gen == g.phase - 1 && ok && !isOld then
        fails := fails ++ [("reordering_rule", "-", s!"gen={q.gen} pn={pn} firstRcvd={g.firstRcvdInPhase}: old key used for a packet that is not older")]
      if implHead == "E:keyupdate" && !(authentic && q.gen == g.phase + 1 && tooQuick) then
        fails := fails ++ [("spurious_key_update_error", "-", s!"gen={q.gen} phase={g.phase}")]
      if authentic && decodable && q.gen == g.phase + 1 && qkp ≠ g.phase % 2 && !isOld && tooQuick && implHead ≠ "E:keyupdate" then
        fails := fails ++ [("remote_update_too_quick_accepted", "-", s!"phase={g.phase} result={implHead}")]
      -- RFC 9001 §6.6: at the limit the failure must be reported as AEAD_LIMIT_REACHED
      let implIC := implInt impl "ic=" 0
      if implHead == "E:decrypt" && implIC ≥ s.env.invalidPacketLimit then
        fails := fails ++ [("aead_limit_enforced", "-", s!"invalid packet count {implIC} >= limit {s.env.invalidPacketLimit} but plain decryption failure reported")]
      if implHead == "E:aeadlimit" && implIC < s.env.invalidPacketLimit then
        fails := fails ++ [("aead_limit_enforced", "-", s!"AEAD_LIMIT_REACHED at count {implIC} < limit {s.env.invalidPacketLimit}")]
      let mut g := g
      if ok then g := { g with highRcvd := max g.highRcvd pn }
      if implPhase > g.phase then
        -- the implementation accepted a REMOTE key update
        if !(authentic && q.gen == g.phase + 1 && ok) then
          fails := fails ++ [("remote_update_unauthentic", "-", s!"phase {g.phase}->{implPhase} gen={q.gen} authentic={authentic}")]
        if tooQuick then
          fails := fails ++ [("remote_update_early", "-", s!"phase {g.phase}->{implPhase} before anything was sent in phase {g.phase}")]
        if implPhase ≠ g.phase + 1 then
          fails := fails ++ [("update_skips_generation", "-", s!"{g.phase}->{implPhase}")]
        g := { g.rolled implPhase with rcvdInPhase := 0, firstRcvdInPhase := some pn, prevDropAt := some (t + s.env.pto3) }
      else if implPhase < g.phase then
        fails := fails ++ [("key_phase_decreased", "-", s!"{g.phase}->{implPhase}")]
      else if ok && authentic && q.gen == g.phase then
        g := { g with rcvdInPhase := g.rcvdInPhase + 1 }
        if g.firstRcvdInPhase.isNone then
          g := { g with firstRcvdInPhase := some pn, prevDropAt := if g.phase > 0 then some (t + s.env.pto3) else g.prevDropAt }
      let usedTag := match used with | .none => "none" | .prev => "prev" | .cur => "cur" | .next => "next"
      return ((s.setA ep a).setG ep g,
       mk (fmtRes r ++ (if p.packed && r == .ok then s!" wbit={kp} dpn={mpn} frames=ok" else "") ++ " " ++ fmtState a)
         ([s!"open:{fmtRes r}:{usedTag}"] ++ (if p.packed then [s!"open:packed:{fmtRes r}"] else []) ++ (if a.keyPhase ≠ a0.keyPhase then ["open:remote-roll"] else []) ++
                 (if (a0.dropExpired t).prevPresent ≠ a0.prevPresent then ["open:prev-dropped"] else []))
         fails)
    | _, _ => (s, { model := "skip" })
  | "ack" =>
    let pn := arg 2
    let (a, okb) := (s.a ep).setLargestAcked pn
    let g := s.g ep
    let implOk := implHead == "ok"
    let mustReject := (match g.firstSent with | some fs => decide (pn ≥ fs) | none => false) && g.rcvdInPhase == 0
    let fails : List Fail :=
      (if mustReject && implOk then [("ack_for_unconfirmed_phase_accepted", "-", s!"pn={pn} firstSent={g.firstSent} phase={g.phase}")] else []) ++
      (if !mustReject && !implOk then [("spurious_key_update_error", "-", s!"ack pn={pn}")] else [])
    let g := { g with ackWithinSent := g.ackWithinSent && decide (pn ≤ g.lastSealed) }
    let g := if implOk then { g with ackedOK := some (match g.ackedOK with | some x => max x pn | none => pn) } else g
    -- (SetLargestAcked overwrites; the ghost keeps the maximum: an accepted ACK stays an ACK)
    ((s.setA ep a).setG ep g, mk ((if okb then "ok " else "E:keyupdate ") ++ fmtState a)
       [if okb then "ack:ok" else "ack:keyupdate"] fails)
  | "secrets" =>
    let g := ((s.a ep).keyPhase + 1).toNat
    if !s.sha256Suite then (s, mk impl ["secrets:sha384-witness"]) else
    let ig := (implInt impl "gen=" 0).toNat
    let top := if ig ≤ 4096 then max g ig else g
    let s := (s.extend 0 top).extend 1 top
    let fmt (g : Nat) (code : Bool) : String :=
      match (s.chain ep)[g]?, (s.chain (1 - ep))[g]? with
      | some (sc, sr), some (rc, rr) => if code then s!"gen={g} nrcv={toHex rc} nsend={toHex sc}" else s!"gen={g} nrcv={toHex rr} nsend={toHex sr}"
      | _, _ => "<chain>"
    let model := fmt g true
    -- judged at the generation the implementation reports
    let rfc := fmt ig false
    let fails : List Fail := if impl ≠ rfc then
      [("key_update_secret_rfc", "-",
        s!"version {s.ver}: next-generation secrets {impl}; RFC 9001 §6.1 / RFC 9369 §3.3.2 give {rfc}")] else []
    (s, mk model ["secrets", s!"secrets:v{s.ver}"] fails)
  | "setic" =>
    let a := { s.a ep with invalidPacketCount := s.env.invalidPacketLimit - arg 2 }
    (s.setA ep a, { model := "ok " ++ fmtState a, tags := ["setic"] })
  | "dec" =>
    let r := Uquic.Model.PN.decodePN (arg 2).toNat (s.a ep).decodeBase (arg 3)
    (s, { model := s!"{r}", tags := ["dec"] })
  | _ => (s, { model := "bad-op" })

def main : IO Unit := run { init := ({} : St), step := step }
