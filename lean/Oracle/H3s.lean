/-
Oracle of the h3s driver (property C18, unit level): replays every operation on the models
`Uquic.Model.H3.*` and judges the implementation's answers with the monitors below.

Monitors (ghost state from the operations and the implementation's own outputs only):
  reassembly_prefix / reassembly_complete — bytes read = DATA payloads of the fed stream, in order,
      nothing from unknown frames, complete at EOF;
  forbidden_frame_error — a reserved frame type ends the body with an error and closes the
      connection with H3_FRAME_UNEXPECTED, never with a clean EOF;
  nothing_after_error — no bytes after a terminal error;
  content_length_enforced (class under_length_body = listed known finding), content_length_overrun,
      over_length_not_reported;
  roundtrip_body_equal — Read∘Write returns the written bytes for every chunking;
  no_body_for_head_204_304, response_frame_order; no_panic.
-/
import Uquic.Oracle.Frame
import Uquic.Spec.H3Mon

open Uquic.Oracle Uquic.Model.H3 Uquic.Spec.H3Mon

def maxHdrDrv : Nat := 1000

/-! ### text helpers -/

def hexDigit (n : Nat) : Char := "0123456789abcdef".toList.getD n '0'

def hexOf (bs : List Nat) : String :=
  if bs.isEmpty then "-" else String.ofList (bs.foldr (fun b acc => hexDigit (b / 16) :: hexDigit (b % 16) :: acc) [])

def hexVal (c : Char) : Nat :=
  if c.isDigit then c.toNat - 48 else if 'a' ≤ c ∧ c ≤ 'f' then c.toNat - 87 else if 'A' ≤ c ∧ c ≤ 'F' then c.toNat - 55 else 0

def unhexL : List Char → List Nat
  | a :: b :: rest => (hexVal a * 16 + hexVal b) :: unhexL rest
  | _ => []

def unhex (s : String) : List Nat := if s == "-" then [] else unhexL s.toList

def fmtErr : Option Err → String
  | none => "-"
  | some e => match e with
    | .block => "E:block" | .eof => "E:eof" | .ueof => "E:ueof"
    | .reset c => s!"E:str:{c}:1" | .cancelled c => s!"E:str:{c}:0" | .connClosed c => s!"E:app:{c}"
    | .h3 c r => s!"E:h3:{c}:{if r then 1 else 0}"
    | .reserved _ => "E:reserved" | .settingsSize => "E:settings-size" | .settingsDup => "E:settings-dup"
    | .settingsVal => "E:settings-val" | .goawayLen => "E:goaway-len"
    | .dataAfterTrailers => "E:data-after-trailers" | .headersAfterTrailers => "E:headers-after-trailers"
    | .unexpectedFrame => "E:unexpected-frame" | .headersTooLarge => "E:headers-too-large"
    | .tooMuchData => "E:toomuch" | .closedWrite => "E:closed"
    | .bodyNotAllowed => "E:bodynotallowed" | .contentLength => "E:contentlength" | .fuel => "E:fuel"

def escVal (s : String) : String :=
  String.ofList (s.toList.map fun c => if c == ' ' then '~' else if c == ',' then '|' else c)

def unescArg (s : String) : String :=
  String.ofList (s.toList.map fun c => if c == '~' then ' ' else c)

def fmtFields (fs : List (String × String)) : String :=
  "H{" ++ ";".intercalate (fs.map fun kv => kv.1 ++ "=" ++ escVal kv.2) ++ "}"

def fmtEv : Ev → String
  | .cancelRead c => s!"cr:{c}" | .cancelWrite c => s!"cw:{c}" | .close => "close"

def fieldOf (impl key : String) : String :=
  ((words impl).findSome? fun w => if w.startsWith key then some (w.drop key.length).toString else none).getD ""

/-- the implementation's write records of this operation -/
def implRecords (impl : String) : List String :=
  let o := fieldOf impl "out="
  if o == "-" || o == "" then [] else o.splitOn ","

/-- bytes of an implementation write record (`B<hex>` or `H{…}#<hex>`) -/
def recBytes (r : String) : List Nat :=
  if r.startsWith "B" then unhex (r.drop 1).toString
  else match r.splitOn "#" with
    | [_, h] => unhex h
    | _ => []

/-- a HEADERS witness is a type-1 frame whose length field covers exactly the rest -/
def hdrWitnessOk (bs : List Nat) : Bool :=
  match bs with
  | 1 :: rest => match decVarint rest with
    | some (l, _, pl) => pl.length == l
    | none => false
  | _ => false

/-! ### oracle state -/

structure Ghost where
  hasCL : Bool := false
  cl : Nat := 0
  nobody : Bool := false
  isHead : Bool := false
  fed : List Nat := []
  sp : SpecOut := {}
  gotLen : Nat := 0
  got : List Nat := []
  restExp : List Nat := []
  finSeen : Bool := false
  resetSeen : Bool := false
  desync : Bool := false
  rawOps : Bool := false
  termErr : Bool := false
  anyErr : Bool := false
  emptyRun : Nat := 0
  sent : List Nat := []
  accepted : List Nat := []
  acceptedAtPipe : Option (List Nat) := none
  wfailSeen : Bool := false
  panicSeen : Bool := false
  finishSeen : Bool := false
  finishAtPipe : Bool := false
  usedRW : Bool := false
  finalStatus : Option Nat := none
  phase : Nat := 0
  orderBroken : Bool := false

structure St where
  active : Bool := false
  w : RW := {}
  b : Body := {}          -- parameters of the body over `w.str` (its `str` field is synchronised)
  viaBody : Bool := false
  peer : Option Body := none   -- the reader created by `pipe`
  peerVia : Bool := false
  sent : List Nat := []   -- model side of the bytes written and not yet piped
  lastHdr : Nat := 0
  g : Ghost := {}

abbrev Fail := String × String × String

def St.reader (s : St) : Body := match s.peer with
  | some b => b
  | none => { s.b with str := s.w.str }

def St.setReader (s : St) (b : Body) : St := match s.peer with
  | some _ => { s with peer := some b }
  | none => { s with b := b, w := { s.w with str := b.str } }

def St.readerVia (s : St) : Bool := match s.peer with
  | some _ => s.peerVia
  | none => s.viaBody

def St.cc (s : St) : Option Nat := s.w.str.m.p.cc

def respec (g : Ghost) : Ghost :=
  let sp := spec maxHdrDrv g.fed
  { g with sp := sp, restExp := sp.payload.drop g.gotLen }

/-- suffix ` out=… ev=… cc=…` predicted by the model; `hdr` records take their bytes from the
    implementation's record at the same position (QPACK is not modelled). Returns the text, the
    bytes written (for `pipe`) and the stream with the per-operation logs cleared. -/
def modelSuffix (str : Str) (cc : Option Nat) (impl : String) : String × List Nat × Str :=
  let irs := implRecords impl
  let rec go (ws : List WriteRec) (i : Nat) (accS : List String) (accB : List Nat) : List String × List Nat :=
    match ws with
    | [] => (accS.reverse, accB)
    | .raw bs :: rest => go rest (i + 1) (("B" ++ (if bs.isEmpty then "" else hexOf bs)) :: accS) (accB ++ bs)
    | .hdr fs :: rest =>
      let ir := irs.getD i ""
      let wb := if ir.startsWith "H" then recBytes ir else []
      let tag := if hdrWitnessOk wb then hexOf wb else "?"
      go rest (i + 1) ((fmtFields fs ++ "#" ++ tag) :: accS) (accB ++ wb)
  let (ss, bytes) := go str.writes 0 [] []
  let out := if ss.isEmpty then "-" else ",".intercalate ss
  let ev := if str.evs.isEmpty then "-" else ",".intercalate (str.evs.map fmtEv)
  let ccs := match cc with | some c => toString c | none => "-"
  (s!" out={out} ev={ev} cc={ccs}", bytes, { str with writes := [], evs := [] })

/-- ` pev=… pcc=…`: stream calls and connection close code on the peer reader's side -/
def peerSuffix (peer : Option Body) : String × Option Body :=
  match peer with
  | none => (" pev=- pcc=-", none)
  | some pb =>
    let ev := if pb.str.evs.isEmpty then "-" else ",".intercalate (pb.str.evs.map fmtEv)
    let ccs := match pb.str.m.p.cc with | some c => toString c | none => "-"
    (s!" pev={ev} pcc={ccs}", some { pb with str := { pb.str with evs := [], writes := [] } })

def sortPairs (l : List (Nat × Nat)) : List (Nat × Nat) := l.mergeSort (fun a b => a.1 ≤ b.1)

def fmtFrame : Frame → String
  | .data l => s!"data {l}"
  | .headers l hl => s!"headers {l} {hl}"
  | .settings s =>
    let o := if s.other.isEmpty then "-" else ",".intercalate ((sortPairs s.other).map fun kv => s!"{kv.1}:{kv.2}")
    s!"settings mfs={s.maxFieldSectionSize} dg={if s.datagram then 1 else 0} ec={if s.extendedConnect then 1 else 0} other={o}"
  | .goaway id => s!"goaway {id}"

/-- kinds of the implementation's write records: 'I' informational header, 'F' final header,
    'T' trailer section, 'B' raw bytes -/
def recKind (r : String) : Char :=
  if r.startsWith "H{:status=1" then 'I'
  else if r.startsWith "H{:status=" then 'F'
  else if r.startsWith "H{" then 'T'
  else 'B'

def isTerminalErr (e : String) : Bool :=
  e == "E:eof" || e == "E:toomuch" || e.startsWith "E:str:" || e.startsWith "E:h3:" || e.startsWith "E:app:"

/-! ### one operation -/

def step (s : St) (op impl : String) : St × StepOut :=
  let a := words op
  let iw := words impl
  let head := a.headD ""
  if head == "new" then
    match a with
    | [_, via, cl, nobody, _q, hd, lg] =>
      let clI := intOf cl
      let str : Str := { m := { maxHdr := maxHdrDrv } }
      let w : RW := { str := str, isHead := hd == "1", loggerNil := lg != "1" }
      let b := Body.new str clI
      let g : Ghost := { hasCL := clI ≥ 0, cl := clI.toNat, nobody := nobody == "1", isHead := hd == "1" }
      ({ active := true, w := w, b := b, viaBody := via == "B", g := respec g },
       { model := "ok out=- ev=- cc=- pev=- pcc=-", tags := [s!"new:{via}{if clI ≥ 0 then "+cl" else ""}"] })
    | _ => (s, { model := "bad-op" })
  else if !s.active then (s, { model := "skip" })
  else Id.run do
    let mut fails : List Fail := []
    let mut tags : List String := []
    let mut res := "bad-op"
    let mut s := s
    let implPanic := (iw.headD "").startsWith "PANIC"
    let rcc := if s.peer.isSome then fieldOf impl "pcc=" else fieldOf impl "cc="
    -- ghost: bytes the implementation wrote in this operation, response frame order
    let irs := implRecords impl
    let mut g := s.g
    g := { g with sent := g.sent ++ (irs.map recBytes).flatten }
    -- what a handler can reach: Header / WriteHeader / Write / Flush, then the server's tail (`finish`)
    let rwOp := ["wh", "w", "fl", "fle", "finish"].contains head
    if rwOp && !g.finishSeen then
      g := { g with usedRW := true }
      for r in irs do
        let k := recKind r
        -- (I)* F (B)* (T)?  — raw bytes of a response only after the final header, nothing after the trailers
        let bad := match k with
          | 'I' => g.phase != 0
          | 'F' => g.phase != 0
          | 'B' => g.phase != 1
          | _ => g.phase != 1
        if bad && !g.orderBroken then
          fails := fails ++ [("response_frame_order", "-", s!"record {r.take 24} in phase {g.phase}")]
          g := { g with orderBroken := true }
        g := { g with phase := match k with | 'F' => 1 | 'T' => 2 | _ => g.phase }
        if k == 'B' && (g.isHead || g.finalStatus == some 204 || g.finalStatus == some 304) then
          fails := fails ++ [("no_body_for_head_204_304", "-", s!"bytes written: {r.take 24}")]
    if implPanic then
      let byContract := head == "wh" && (natOf (a.getD 1 "") < 100 || natOf (a.getD 1 "") > 999)
      if !byContract then
        fails := fails ++ [("no_panic", "-", s!"{op} panicked (logger unset: {s.w.loggerNil})")]
      g := { g with panicSeen := true }
    match a with
    | ["feed", h] =>
      let bs := unhex h
      let rd := s.reader
      if rd.str.m.p.u.term == .open && !bs.isEmpty then
        s := s.setReader { rd with str := { rd.str with m := rd.str.m.setU (rd.str.m.p.u.feed bs) } }
        g := respec { g with fed := g.fed ++ bs }
        res := "ok"; tags := ["feed"]
      else
        res := "ignored"; tags := ["feed:ignored"]
    | ["fin"] =>
      let rd := s.reader
      if rd.str.m.p.u.term == .open then
        s := s.setReader { rd with str := { rd.str with m := rd.str.m.setU rd.str.m.p.u.finish } }
        g := { g with finSeen := true }
        res := "ok"; tags := ["fin"]
      else
        res := "ignored"
    | ["reset", c] =>
      let rd := s.reader
      s := s.setReader { rd with str := { rd.str with m := rd.str.m.setU (rd.str.m.p.u.abort (.reset (natOf c))) } }
      g := { g with resetSeen := true }
      res := "ok"; tags := ["reset"]
    | ["read", n] =>
      let n := natOf n
      let rd := s.reader
      let (rd', d, e) :=
        if s.readerVia then rd.read n
        else
          let r := rd.str.m.read n
          ({ rd with str := { rd.str with m := r.1 } }, r.2.1, r.2.2)
      s := s.setReader rd'
      res := s!"{hexOf d} {fmtErr e} rem={rd'.str.m.remaining}"
      tags := [s!"read:{if d.isEmpty then "0" else "n"}:{fmtErr e}"] ++
        (if rd.str.m.remaining == 0 then ["read:parse"] else []) ++
        (if rd'.str.m.parsedTrailer && !rd.str.m.parsedTrailer then ["read:trailers"] else [])
      -- monitors on the implementation's answer
      let id := unhex (iw.getD 0 "-")
      let ie := iw.getD 1 "-"
      if g.termErr && !id.isEmpty then
        fails := fails ++ [("nothing_after_error", "-", s!"{id.length} bytes returned after a terminal error")]
      if !g.desync && !g.rawOps && !g.anyErr then
        match stripPrefix id g.restExp with
        | some rest => g := { g with restExp := rest }
        | none =>
          fails := fails ++ [("reassembly_prefix", "-", s!"read returned {hexOf (id.take 16)}… which is not the next DATA payload bytes (already {g.gotLen})")]
          g := { g with desync := true }
      g := { g with gotLen := g.gotLen + id.length, got := g.got ++ id }
      if g.hasCL && s.readerVia && g.gotLen > g.cl then
        fails := fails ++ [("content_length_overrun", "-", s!"{g.gotLen} body bytes delivered, Content-Length {g.cl}")]
      if ie == "E:block" then g := { g with desync := true }
      if ie == "E:eof" && !g.anyErr then
        if !g.desync && !g.rawOps && !g.resetSeen then
          match g.sp.ending with
          | .forbidden t =>
            fails := fails ++ [("forbidden_frame_error", "-", s!"clean EOF although the stream carries reserved frame type {t}")]
          | .afterTrailers t =>
            fails := fails ++ [("forbidden_frame_error", "-", s!"clean EOF although frame type {t} follows the trailers")]
          | .illPlaced t =>
            -- listed known finding: a SETTINGS / GOAWAY frame on a request stream whose payload is
            -- truncated or malformed surfaces as io.EOF instead of H3_FRAME_UNEXPECTED
            fails := fails ++ [("forbidden_frame_error", "illplaced_control_frame_eof", s!"clean EOF although the stream carries frame type {t}, which is not allowed on a request stream")]
          | _ =>
            if !g.restExp.isEmpty && !(g.hasCL && s.readerVia) then
              fails := fails ++ [("reassembly_complete", "-", s!"EOF after {g.gotLen} bytes, the stream carries {g.sp.payload.length} DATA payload bytes")]
        if g.hasCL && s.readerVia && !g.nobody && g.gotLen ≠ g.cl then
          let cls := if g.gotLen < g.cl then "under_length_body" else "-"
          fails := fails ++ [("content_length_enforced", cls, s!"clean EOF after {g.gotLen} body bytes, declared Content-Length {g.cl}")]
        -- Read∘Write
        match g.acceptedAtPipe with
        | some acc =>
          if !g.wfailSeen && !g.panicSeen && !g.desync && (!g.usedRW || g.finishAtPipe) && g.got != acc then
            fails := fails ++ [("roundtrip_body_equal", "-", s!"read back {g.gotLen} bytes, {acc.length} were written")]
        | none => pure ()
      if ie != "-" && ie != "E:block" then
        -- a reserved frame: the connection must be closed with H3_FRAME_UNEXPECTED
        if !g.anyErr && !g.desync && !g.rawOps && !g.resetSeen && g.restExp.isEmpty then
          match g.sp.ending with
          | .forbidden t =>
            if ie != "E:eof" && rcc != "261" && !(g.hasCL && s.readerVia) then
              fails := fails ++ [("forbidden_frame_error", "-", s!"reserved frame type {t}: error {ie} but connection close code {rcc}")]
          | _ => pure ()
        let eofNoEnd := ie == "E:eof" && (!g.finSeen || (match g.sp.ending with | .illPlaced _ => true | _ => false))
        if (isTerminalErr ie && !eofNoEnd) || rcc != "-" then g := { g with termErr := true }
        g := { g with anyErr := true, emptyRun := 0 }
      else if ie == "-" && n > 0 && id.isEmpty then
        g := { g with emptyRun := g.emptyRun + 1 }
        if g.hasCL && s.readerVia && !g.desync && !g.rawOps && !g.resetSeen && !g.anyErr &&
            g.sp.payload.length > g.cl && g.gotLen == g.cl && g.finSeen && g.emptyRun > g.sp.nframes + 2 then
          fails := fails ++ [("over_length_not_reported", "-", s!"stream carries {g.sp.payload.length} DATA bytes, Content-Length {g.cl}, reads return nothing and no error")]
          g := { g with anyErr := true }
      else g := { g with emptyRun := 0 }
    | ["pn"] =>
      let rd := s.reader
      let (p', r) := parseNext rd.str.m.p.fuel rd.str.m.p
      s := s.setReader { rd with str := { rd.str with m := { rd.str.m with p := p' } } }
      g := { g with rawOps := true }
      s := { s with lastHdr := 0 }
      -- a response is read back as HEADERS (pn + skiph) then body reads; anything else consumed by
      -- the raw parser operations takes the body monitors out of play
      if !(iw.headD "").startsWith "headers" then g := { g with desync := true }
      match r with
      | .ok f =>
        res := fmtFrame f
        match f with
        | .headers l _ => s := { s with lastHdr := l }
        | _ => pure ()
        tags := [s!"pn:{(res.splitOn " ").headD ""}"]
      | .error e => res := fmtErr (some e); tags := [s!"pn:{res}"]
    | "skip" :: _ | "skiph" :: _ =>
      let n := if head == "skiph" then s.lastHdr else natOf (a.getD 1 "0")
      let n := if n > 1048576 then 1048576 else n
      if head == "skiph" then s := { s with lastHdr := 0 } else g := { g with desync := true }
      let rd := s.reader
      let avail := (rd.str.m.p.u.cells.take n).length
      let (u', r) := rd.str.m.p.u.readFull n
      s := s.setReader { rd with str := { rd.str with m := rd.str.m.setU u' } }
      g := { g with rawOps := true }
      match r with
      | .ok _ => res := s!"{n} -"; tags := ["skip:ok"]
      | .error e => res := s!"{avail} {fmtErr (some e)}"; tags := [s!"skip:{fmtErr (some e)}"]
    | ["wfail", k, c] =>
      if s.w.str.st.live then s := { s with w := { s.w with str := { s.w.str with st := .failAfter (natOf k) (natOf c) } } }
      g := { g with wfailSeen := true }
      res := "ok"; tags := ["wfail"]
    | ["sw", l, sd] =>
      let p := pattern (natOf l) (natOf sd)
      let (str', n, e) := s.w.str.writeData p
      s := { s with w := { s.w with str := str' } }
      res := s!"{n} {fmtErr e}"
      tags := [s!"sw:{fmtErr e}"]
      if iw.getD 0 "" == l && iw.getD 1 "" == "-" then g := { g with accepted := g.accepted ++ p }
    | "h" :: kind :: name :: rest =>
      let v := unescArg (((rest.headD "v:").drop 2).toString)
      let hd := s.w.header
      let hd' := match kind with
        | "set" => hd.put name [v]
        | "add" => hd.add name v
        | "del" => hd.del name
        | "nil" => hd.put name []
        | _ => hd
      s := { s with w := { s.w with header := hd' } }
      res := "ok"; tags := [s!"h:{kind}"]
    | ["wh", st] =>
      let stN := natOf st
      if !s.w.headerComplete && stN ≥ 200 && stN ≤ 999 && g.finalStatus.isNone then g := { g with finalStatus := some stN }
      match s.w.WriteHeader stN with
      | none => res := "PANIC"; tags := ["wh:panic"]
      | some w' =>
        tags := [if s.w.headerComplete then "wh:noop" else if stN < 200 then "wh:1xx" else s!"wh:final{if bodyAllowedForStatus stN then "" else ":nobody"}"]
        if w'.panicked then res := "PANIC"; s := { s with w := { w' with panicked := false } }
        else res := "ok"; s := { s with w := w' }
    | ["w", l, sd] =>
      if g.finalStatus.isNone then g := { g with finalStatus := some 200 }
      let p := pattern (natOf l) (natOf sd)
      let (w', n, e) := s.w.Write p
      tags := [s!"w:{fmtErr e}"] ++
        (if w'.small.length > s.w.small.length then ["w:buffered"] else []) ++
        (if w'.headerWritten && !s.w.headerWritten then ["w:hdr"] else []) ++
        (if s.w.isHead && e.isNone then ["w:head"] else [])
      if w'.panicked then res := "PANIC"; s := { s with w := { w' with panicked := false } }
      else res := s!"{n} {fmtErr e}"; s := { s with w := w' }
      if iw.getD 0 "" == l && iw.getD 1 "" == "-" && !g.isHead then g := { g with accepted := g.accepted ++ p }
    | ["fl"] =>
      if g.finalStatus.isNone then g := { g with finalStatus := some 200 }
      let w' := s.w.Flush
      tags := ["fl"] ++ (if w'.headerWritten && !s.w.headerWritten then ["fl:hdr"] else [])
      if w'.panicked then res := "PANIC"; s := { s with w := { w' with panicked := false } }
      else res := "ok"; s := { s with w := w' }
    | ["fle"] =>
      if g.finalStatus.isNone then g := { g with finalStatus := some 200 }
      let (w', e) := s.w.FlushError
      tags := [s!"fle:{fmtErr e}"]
      if w'.panicked then res := "PANIC"; s := { s with w := { w' with panicked := false } }
      else res := fmtErr e; s := { s with w := w' }
    | ["ft"] =>
      let w' := s.w.flushTrailers
      tags := ["ft"] ++ (if w'.trailerWritten && !s.w.trailerWritten then ["ft:written"] else [])
      if w'.panicked then res := "PANIC"; s := { s with w := { w' with panicked := false } }
      else res := "ok"; s := { s with w := w' }
    | ["finish"] =>
      if g.finalStatus.isNone then g := { g with finalStatus := some 200 }
      let w' := s.w.finish
      tags := ["finish"] ++ (if w'.headerWritten && !s.w.headerWritten then ["finish:hdr"] else []) ++
        (if w'.trailerWritten && !s.w.trailerWritten then ["finish:trailers"] else []) ++
        (if !w'.headerWritten then ["finish:hdr-failed"] else [])
      g := { g with finishSeen := true }
      if w'.panicked then res := "PANIC"; s := { s with w := { w' with panicked := false } }
      else res := "ok"; s := { s with w := w' }
    | "pipe" :: via :: cl :: sizes =>
      let data := s.sent
      s := { s with sent := [] }
      let gsent := g.sent
      let sizes := (sizes.map natOf).filter (· > 0)
      let rec cut (fuel : Nat) (i : Nat) (d : List Nat) (u : Under) : Under :=
        match fuel with
        | 0 => u
        | fuel + 1 =>
          if d.isEmpty then u
          else
            let k := if sizes.isEmpty then d.length else min (sizes.getD (i % sizes.length) d.length) d.length
            cut fuel (i + 1) (d.drop k) (u.feed (d.take k))
      let u' := cut (data.length + 1) 0 data {}
      let clI := intOf cl
      let pstr : Str := { m := { maxHdr := maxHdrDrv, p := { u := u' } } }
      let firstPipe := g.acceptedAtPipe.isNone
      s := { s with peer := some (Body.new pstr clI), peerVia := via == "B", lastHdr := 0 }
      -- the ghost starts over for the new reader
      g := respec { g with sent := [], fed := gsent, gotLen := 0, got := [], finSeen := false, resetSeen := false,
                           desync := !firstPipe, rawOps := false, termErr := false, anyErr := false, emptyRun := 0,
                           hasCL := clI ≥ 0, cl := clI.toNat,
                           nobody := g.isHead || g.finalStatus == some 204 || g.finalStatus == some 304,
                           acceptedAtPipe := if firstPipe then some g.accepted else g.acceptedAtPipe,
                           finishAtPipe := g.finishSeen }
      res := toString data.length; tags := ["pipe"]
    | _ => res := "bad-op"
    -- the suffix
    let (sfx, bytes, str') := modelSuffix s.w.str s.cc impl
    s := { s with w := { s.w with str := str' }, sent := s.sent ++ bytes }
    let (psfx, peer') := peerSuffix s.peer
    s := { s with peer := peer' }
    let sfx := sfx ++ psfx
    return ({ s with g := g }, { model := res ++ sfx, tags := tags, fails := fails })

def main : IO Unit := run { init := ({} : St), step := step }
