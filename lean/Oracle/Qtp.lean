import Uquic.Oracle.Frame
import Uquic.Model.UQuic.QTP
import Uquic.Spec.QtpMon
import Uquic.Model.UQuic.FrameKinds
import Uquic.Model.UQuic.CloneSpec
import Uquic.Model.UQuic.SpecLife

/-!
Oracle for the `qtp` driver (property C11). Ops (see harness/drivers/qtp/qtp_test.go):

  suppress <tokens> <ids>      => in=<canon> out=<canon> again=<canon>
  ids <tokens> <ids>           => in=<canon> ids=<ids> left=<canon>
  shuffle <tokens>             => in=<canon> out=<canon>
  marshal <tokens>             => in=<canon> hdr=<hex> b=<hex>
  populate <tokens> <scid>     => in=<canon> n=… dm=… scid=… ov=… wire=… left=<canon> | PANIC
  spec <QUICID> <rand> <ids> <tokens|=> => in=<canon> cs=… want=… scidlen=…
  tpids                        => ids=<ids> left=<canon: the spec's list after the inspection>
  setsup <ids> / addsup <ids>  => sup=<ids> list=<canon>          (edit of the current spec value)
  addparam <token>             => in=<canon> list=<canon>
  setrand <0|1>                => rand=<0|1>
  dial                         => cs=… exts=… sexts=… qtp=<hex> scid=<hex> frames=… fp=… rec=<logged own parameters>
                                  ov=<ClientOverride hex> … kx=<digest of the key_share body> rnd=<ClientHello.random> ver=<hex>
                                  after=<canon: the spec's list after the dial>
  dialvn <0|1>                 => the same for the connection re-created after Version Negotiation, followed by the
                                  abandoned first attempt with every key prefixed by `1`
  shufdist <n> <N> / dialdist <QUICID> <n> <N> => c=<counts per permutation, lexicographic>

Random parts (GREASE ids/values drawn by uTLS, shuffle draws, everything of a real dial) are recovered
from the implementation's output as witnesses and validated; the model then has to reproduce the text.
-/

open Uquic.Oracle Uquic.Model.QTP Uquic.Spec.QtpMon Uquic.Model.FrameKinds Uquic.Model.CloneSpec Uquic.Model.SpecLife

/-- a parameter with the byte mask of its re-drawn GREASE-version slots -/
structure TP where
  p : Param
  mask : List Bool := []
deriving Repr

/-! ### text helpers -/

def hexDigit (c : Char) : Option Nat :=
  if '0' ≤ c && c ≤ '9' then some (c.toNat - '0'.toNat)
  else if 'a' ≤ c && c ≤ 'f' then some (c.toNat - 'a'.toNat + 10)
  else if 'A' ≤ c && c ≤ 'F' then some (c.toNat - 'A'.toNat + 10)
  else none

def parseHexChars : List Char → Option (List Nat)
  | [] => some []
  | a :: b :: r => do
    let x ← hexDigit a; let y ← hexDigit b; let t ← parseHexChars r
    pure ((x * 16 + y) :: t)
  | _ => none

def parseHex (s : String) : Option (List Nat) :=
  if s == "-" || s == "" then some [] else parseHexChars s.toList

def hexChar (n : Nat) : Char := if n < 10 then Char.ofNat (48 + n) else Char.ofNat (87 + n)

def fmtHex (bs : List Nat) : String :=
  if bs.isEmpty then "-" else String.ofList (bs.flatMap fun b => [hexChar (b / 16 % 16), hexChar (b % 16)])

def parseNats (s : String) : List Nat :=
  if s == "-" || s == "" then [] else (s.splitOn ",").filterMap (·.toNat?)

def fmtNats (l : List Nat) : String :=
  if l.isEmpty then "-" else ",".intercalate (l.map toString)

def be32 (v : Nat) : List Nat := [v / 16777216 % 256, v / 65536 % 256, v / 256 % 256, v % 256]

def slotMask (nversions : Nat) (slots : List Nat) : List Bool :=
  (List.replicate 4 false) ++ (List.range nversions).flatMap fun i => List.replicate 4 (slots.contains i)

def afterPrefix (s pre : String) : String := (s.drop pre.length).toString

/-- `<id>:<hex|->:<T|R>[:g<i.j>]` -/
def parseCanon (s : String) : Option TP :=
  match s.splitOn ":" with
  | id :: v :: k :: rest => do
    let id ← id.toNat?
    let val ← parseHex v
    let typed := k == "T"
    let mask := match rest with
      | [g] => if g.startsWith "g" then slotMask (val.length / 4 - 1) ((afterPrefix g "g").splitOn "." |>.filterMap (·.toNat?)) else []
      | _ => []
    pure { p := { id := id, val := val, typed := typed }, mask := mask }
  | _ => none

def parseCanons (s : String) : Option (List TP) :=
  if s == "-" || s == "" then some [] else (s.splitOn ",").mapM parseCanon

def fmtCanon (t : TP) : String :=
  let g := (List.range (t.mask.length / 4)).filter fun i => i ≥ 1 && t.mask.getD (4 * i) false
  s!"{t.p.id}:{fmtHex t.p.val}:{if t.p.typed then "T" else "R"}" ++
    (if g.isEmpty then "" else ":g" ++ ".".intercalate (g.map fun i => toString (i - 1)))

def fmtCanons (l : List TP) : String :=
  if l.isEmpty then "-" else ",".intercalate (l.map fmtCanon)

/-! ### tokens of the ops -/

inductive Tok where
  | pinned (t : TP)
  | gRand (len : Nat)
  | gVar (maxLen : Nat)
  | bad

def stdTyped (id : Nat) : Bool := [1, 3, 4, 5, 6, 7, 8, 9, 11, 14, 32].contains id

def parseToken (t : String) : Tok :=
  let (key, val) := match t.splitOn "=" with
    | [k] => (k, "")
    | k :: v :: _ => (k, v)
    | [] => ("", "")
  let raw (id : Nat) : Tok := match parseHex val with
    | some b => .pinned { p := { id := id, val := b, typed := false } }
    | none => .bad
  if key == "D" then .pinned { p := { id := 12, val := [], typed := true } }
  else if key == "Q" then .pinned { p := { id := 10930, val := [], typed := false } }
  else if key == "C" then match parseHex val with
    | some b => .pinned { p := { id := 15, val := b, typed := true } }
    | none => .bad
  else if key == "P" then raw 21
  else if key.startsWith "S" then
    match (afterPrefix key "S").toNat?, val.toNat? with
    | some id, some v => if stdTyped id then .pinned { p := { id := id, val := varint v, typed := true } } else .bad
    | _, _ => .bad
  else if key.startsWith "V" then
    match val.splitOn ";" with
    | c :: vs =>
      match parseHex c with
      | some cb =>
        let bytes := vs.map fun v => if v == "G" || v == "0a0a0a0a" then some (be32 168430090) else parseHex v
        if cb.length == 4 && bytes.all (fun b => (b.map (·.length)) == some 4) then
          let slots := (List.range vs.length).filter fun i => (vs.getD i "") == "G" || (vs.getD i "") == "0a0a0a0a"
          .pinned { p := { id := if key == "V1" then 16741339 else 17, val := cb ++ (bytes.filterMap id).flatten, typed := false },
                    mask := if slots.isEmpty then [] else slotMask vs.length slots }
        else .bad
      | none => .bad
    | [] => .bad
  else if key.startsWith "F" then
    match (afterPrefix key "F").toNat? with
    | some id => raw id
    | none => .bad
  else if key.startsWith "GV" then
    match (afterPrefix key "GV").toNat? with | some n => .gVar n | none => .bad
  else if key.startsWith "G?" then
    match (afterPrefix key "G?").toNat? with | some n => .gRand n | none => .bad
  else if key.startsWith "G" then
    match (afterPrefix key "G").toNat? with
    | some id => raw id
    | none => .bad
  else .bad

def parseTokens (s : String) : List Tok :=
  if s == "-" || s == "" then [] else (s.splitOn ",").map parseToken

def maskEq (a b : List Bool) : Bool := a == b || (!a.any id && !b.any id)

def tpEq (a b : TP) : Bool := a.p == b.p && maskEq a.mask b.mask

/-- resolve the op's tokens with the implementation's `in=` list as the witness for the random draws;
returns the list the operation ran on and whether every draw was a legal one -/
def resolve (toks : List Tok) (impl : List TP) : List TP × Bool :=
  let rec go : List Tok → List TP → List TP × Bool
    | [], rest => ([], rest.isEmpty)
    | .pinned t :: ts, i :: is => let (l, ok) := go ts is; (t :: l, ok && tpEq t i)
    | .pinned t :: ts, [] => let (l, _) := go ts []; (t :: l, false)
    | .gRand n :: ts, i :: is =>
      let (l, ok) := go ts is
      (i :: l, ok && greaseID i.p.id && i.p.val.length == n && !i.p.typed && i.p.id < 4611686018427387904)
    | .gVar m :: ts, i :: is =>
      let (l, ok) := go ts is
      let m' := if m > 65535 then 65535 else m
      (i :: l, ok && greaseID i.p.id && (if m' ≤ 1 then i.p.val.isEmpty else i.p.val.length < m') && !i.p.typed)
    | _ :: ts, [] => let (l, _) := go ts []; ({ p := { id := 27, val := [] } } :: l, false)
    | .bad :: ts, _ :: is => let (l, _) := go ts is; ({ p := { id := 27, val := [] } } :: l, false)
  go toks impl

/-- attach masks to model output parameters by looking them up in the input -/
def withMasks (inp : List TP) (ps : List Param) : List TP :=
  ps.map fun p => match inp.find? (fun t => t.p == p) with
    | some t => t
    | none => { p := p }

def field (impl key : String) : Option String :=
  (words impl).findSome? fun w => if w.startsWith key then some (afterPrefix w key) else none

def fullMask (l : List TP) : List Bool :=
  l.flatMap fun t =>
    List.replicate ((varint t.p.id).length + (varint t.p.val.length).length) false ++
      (if t.mask.isEmpty then List.replicate t.p.val.length false else t.mask)

def toInt64 (x : Nat) : Int :=
  let m := x % 18446744073709551616
  if m < 9223372036854775808 then (m : Int) else (m : Int) - 18446744073709551616

/-- the integer parameters uTLS has a dedicated type for; the driver prints the connection's field for each -/
def numIDs : List Nat := [1, 3, 4, 5, 6, 7, 8, 9, 11, 14, 32]

/-- ids the regenerated switch of `PopulateFromUQUIC` reads with a type assertion but the driver does not observe:
they are appended to the model text so that a new case shows up as a broken correspondence, not as silence -/
def unobservedIDs : List Nat :=
  (Uquic.Gen.UQuic.populateCases.filter fun c => c.2.1 == "assert" && !numIDs.contains c.1).map (·.1)

def fmtNum (id v : Nat) : String :=
  if id == 1 || id == 11 then toString (toInt64 (v * 1000000)) else toString v

def matchPair (w : Nat × List Nat) (e : TP) : Bool :=
  w.1 == e.p.id && eqMod w.2 e.p.val e.mask

def isGreaseU16 (x : Nat) : Bool := x % 16 == 10 && x / 16 % 16 == x / 4096 % 16 && x / 256 % 16 == 10
def canonU16 (x : Nat) : Nat := if isGreaseU16 x then 2570 else x

/-- `<type>:<hex>,…` -/
def parseBodies (s : String) : List (Nat × List Nat) :=
  if s == "-" || s == "" then [] else
  (s.splitOn ",").filterMap fun e => match e.splitOn ":" with
    | [t, b] => match t.toNat?, parseHex b with
      | some t, some b => some (t, b)
      | _, _ => none
    | _ => none

/-! ### state -/

structure Ghost where
  hasSpec : Bool := false
  key : String := ""              -- spec configuration (everything but the randomisation flag)
  base : String := ""
  custom : Bool := false
  rand : Bool := false
  sup : List Nat := []
  list : List TP := []            -- the spec's parameters as built (before suppression)
  cs : List Nat := []
  want : String := ""
  dials : Nat := 0                -- dials made with this spec value
  tpids : Option (List Nat) := none
  refs : List (String × String × List Nat × String) := []   -- key ↦ (fingerprint, frame types, canonical view)

abbrev St := Ghost

def recorded (base : String) : Bool :=
  base.startsWith "QUICFirefox_116" || base.startsWith "QUICChrome_115"

def setMinus (a b : List Nat) : List Nat := a.filter (!b.contains ·)

/-- PING bounds of the base spec's random frame builder (regenerated from u_parrot.go) -/
def pingBounds (base : String) : Option (Nat × Nat) :=
  (Uquic.Gen.UQuic.randomFramePing.find? fun b => b.1 == base).map (·.2)

/-- the listed finding applies only while the base spec's own bounds allow both zero and some PING frames -/
def pingUnstable (base : String) : Bool :=
  match pingBounds base with
  | some (mn, mx) => !pingStableB mn mx
  | none => false

def pingClass (base : String) (f1 f2 : List Nat) : String :=
  if pingUnstable base && (f1.contains 1 != f2.contains 1) && setMinus f1 [1] == setMinus f2 [1] then "frameset_without_ping" else "-"

/-! ### steps -/

def failIf (c : Bool) (name cls det : String) : List (String × String × String) :=
  if c then [(name, cls, det)] else []

def stepSuppress (toksS idsS impl : String) : StepOut :=
  let S := parseNats idsS
  let implIn := (field impl "in=").bind parseCanons |>.getD []
  let (inp, okDraw) := resolve (parseTokens toksS) implIn
  let ps := inp.map (·.p)
  let out := suppress ps S
  let again := suppress out S
  let model := s!"in={fmtCanons inp} out={fmtCanons (withMasks inp out)} again={fmtCanons (withMasks inp again)}"
  -- monitors on what Go printed
  let iout := (field impl "out=").bind parseCanons
  let iagain := (field impl "again=").bind parseCanons
  let expect := specSuppress ps S
  let fails :=
    failIf (!okDraw) "grease_draw_valid" "-" s!"in={(field impl "in=").getD "?"}" ++
    (match iout with
     | some o => failIf (o.map (·.p) != expect) "suppress_exact" "-" s!"ids={idsS} got={fmtCanons o}"
     | none => [("suppress_exact", "-", "no output")]) ++
    (match iout, iagain with
     | some o, some a => failIf (o.map (·.p) != a.map (·.p)) "suppress_idempotent" "-" s!"second application gave {fmtCanons a}"
     | _, _ => [])
  let tags := ["suppress"] ++
    (if S.isEmpty then ["suppress:empty-set"] else []) ++
    (if S.contains 27 && ps.any (fun p => isGrease p.id) then ["suppress:grease"] else []) ++
    (if ps.any (fun p => p.id != 27 && S.contains p.id) then ["suppress:exact"] else []) ++
    (if !S.isEmpty && out.length == ps.length then ["suppress:nothing-removed"] else []) ++
    (if ps.any (fun p => isGrease p.id && S.contains p.id && !S.contains 27 && p.id != 27) then ["suppress:grease-id-exact"] else []) ++
    (if out.length + 1 < ps.length then ["suppress:many"] else [])
  { model := model, tags := tags, fails := fails }

def stepIds (toksS idsS impl : String) : StepOut :=
  let S := parseNats idsS
  let implIn := (field impl "in=").bind parseCanons |>.getD []
  let (inp, okDraw) := resolve (parseTokens toksS) implIn
  let ps := inp.map (·.p)
  let ids := transportParameterIDs ps S
  let left := suppress ps S
  let model := s!"in={fmtCanons inp} ids={fmtNats ids} left={fmtCanons (withMasks inp left)}"
  let iids := (field impl "ids=").map parseNats
  let ileft := (field impl "left=").bind parseCanons
  let wireIDs := (specSuppress ps S).map (·.id)
  let fails :=
    failIf (!okDraw) "grease_draw_valid" "-" s!"in={(field impl "in=").getD "?"}" ++
    (match iids with
     | some l => failIf (!isCanonSortOf l wireIDs) "ids_reported_eq_canon_sort" "-" s!"reported={fmtNats l} wire-ids={fmtNats wireIDs}"
     | none => [("ids_reported_eq_canon_sort", "-", "no output")]) ++
    (match ileft with
     | some l => failIf (l.map (·.p) != specSuppress ps S) "suppress_exact" "-" s!"list after TransportParameterIDs={fmtCanons l}"
     | none => [])
  let tags := ["ids"] ++
    (if ids.length != ids.eraseDups.length then ["ids:dup"] else []) ++
    (if ps.any (fun p => isGrease p.id && p.id != 27) && ids.contains 27 then ["ids:grease-folded"] else []) ++
    (if left.length < ps.length then ["ids:suppressed"] else []) ++
    (if ids != (left.map (·.id)) then ["ids:reordered"] else [])
  { model := model, tags := tags, fails := fails }

def stepShuffle (toksS impl : String) : StepOut :=
  let implIn := (field impl "in=").bind parseCanons |>.getD []
  let (inp, okDraw) := resolve (parseTokens toksS) implIn
  let ps := inp.map (·.p)
  let iout := ((field impl "out=").bind parseCanons).getD []
  let draws := recoverDraws ps (iout.map (·.p))
  let out := shuffleWith draws ps
  let model := s!"in={fmtCanons inp} out={fmtCanons (withMasks inp out)}"
  let fails :=
    failIf (!okDraw) "grease_draw_valid" "-" s!"in={(field impl "in=").getD "?"}" ++
    failIf (!(iout.map (·.p)).isPerm ps) "shuffle_is_permutation" "-" s!"out={fmtCanons iout}" ++
    failIf (ps.length ≥ 14 && ps.eraseDups.length == ps.length && iout.map (·.p) == ps) "shuffle_moves" "-"
      s!"{ps.length} distinct parameters came back in their original order (probability 1/{ps.length}! < 2e-11)"
  let tags := ["shuffle"] ++ (if ps.length ≥ 2 then ["shuffle:n>=2"] else ["shuffle:trivial"]) ++
    (if out != ps then ["shuffle:moved"] else []) ++ (if ps.eraseDups.length != ps.length then ["shuffle:dups"] else [])
  { model := model, tags := tags, fails := fails }

def stepMarshal (toksS impl : String) : StepOut :=
  let implIn := (field impl "in=").bind parseCanons |>.getD []
  let (inp, okDraw) := resolve (parseTokens toksS) implIn
  let ps := inp.map (·.p)
  let body := marshal ps
  let ibody := (field impl "b=").bind parseHex
  let agree := match ibody with | some b => eqMod b body (fullMask inp) | none => false
  let shown := if agree then ibody.getD body else body
  let hdr := [0, 57, body.length / 256 % 256, body.length % 256]
  let model := s!"in={fmtCanons inp} hdr={fmtHex hdr} b={fmtHex shown}"
  let parsed := ibody.bind parseQTP
  let fails :=
    failIf (!okDraw) "grease_draw_valid" "-" s!"in={(field impl "in=").getD "?"}" ++
    (match parsed with
     | some ws => failIf (!(ws.length == inp.length && (ws.zip inp).all fun (w, e) => matchPair w e)) "wire_is_spec" "-"
        s!"the extension body does not read back as the parameter list: {(field impl "b=").getD "?"}"
     | none => [("wire_is_spec", "-", "extension body is not a sequence of (varint id, varint len, value)")])
  let tags := ["marshal"] ++
    (if ps.any (fun p => p.id ≥ 1073741824) then ["marshal:id8"] else []) ++
    (if ps.any (fun p => p.id ≥ 16384 && p.id < 1073741824) then ["marshal:id4"] else []) ++
    (if ps.any (fun p => p.val.length ≥ 64) then ["marshal:len2"] else []) ++
    (if inp.any (fun t => t.mask.any id) then ["marshal:grease-version"] else []) ++
    (if ps.isEmpty then ["marshal:empty"] else [])
  { model := model, tags := tags, fails := fails }

def lastWire (ws : List (Nat × List Nat)) (id : Nat) : Option (List Nat) :=
  (ws.reverse.find? (fun w => w.1 == id)).map (·.2)

def stepPopulate (toksS scidS impl : String) : StepOut :=
  let toks := parseTokens toksS
  let scid := (parseHex scidS).getD []
  if impl == "PANIC" then
    -- no witness for random draws: GREASE ids are never ids the switch knows, so any legal draw does
    let inp := toks.map fun
      | .pinned t => t
      | _ => ({ p := { id := 27, val := [] } } : TP)
    match populate scid (inp.map (·.p)) with
    | none => { model := "PANIC", tags := ["populate", "populate:panic"] }
    | some _ => { model := "ok", tags := ["populate"] }
  else
  let implIn := (field impl "in=").bind parseCanons |>.getD []
  let (inp, okDraw) := resolve toks implIn
  let ps := inp.map (·.p)
  match populate scid ps with
  | none => { model := "PANIC", tags := ["populate", "populate:panic"] }
  | some (own, left) =>
    let wire := marshal left
    let leftTP := withMasks inp left
    let mask := fullMask leftTP
    let iov := (field impl "ov=").bind parseHex
    let iwire := (field impl "wire=").bind parseHex
    let showOv := match iov with | some b => if eqMod b own.override mask then b else own.override | none => own.override
    let showWire := match iwire with | some b => if eqMod b wire mask then b else wire | none => wire
    let nums := ",".intercalate (numIDs.map fun id => fmtNum id ((getNum own.nums id).getD 0)) ++
      (if unobservedIDs.isEmpty then "" else s!",unobserved:{fmtNats unobservedIDs}")
    let model := s!"in={fmtCanons inp} n={nums} dm={if own.disableMigration then 1 else 0} scid={fmtHex own.scid} ov={fmtHex showOv} wire={fmtHex showWire} left={fmtCanons leftTP}"
    -- monitors: the connection's own record against the wire bytes of the same extension value
    let inums := ((field impl "n=").map fun s => (s.splitOn ",").map (·.toInt?.getD 0)).getD []
    let iscid := (field impl "scid=").bind parseHex
    let ws := (iwire.bind parseQTP).getD []
    let allTyped := ps.all fun p => p.typed || !(numIDs.contains p.id || p.id == 15)
    let fails :=
      failIf (!okDraw) "grease_draw_valid" "-" s!"in={(field impl "in=").getD "?"}" ++
      (match iov, iwire with
       | some o, some w => failIf (!(eqMod o w (mask.map fun _ => false) || eqMod o w mask && eqMod w o mask)) "own_record_equals_wire" "-"
          s!"ClientOverride={fmtHex o} wire={fmtHex w}"
       | _, _ => [("own_record_equals_wire", "-", "no output")]) ++
      (if allTyped then
        (numIDs.zip inums).flatMap (fun (id, got) =>
          match lastWire ws id with
          | some v => failIf (got != toInt64 (if id == 1 || id == 11 then numOf v * 1000000 else numOf v)) "own_record_equals_wire" "-"
              s!"field of parameter {id} is {got}, the wire carries {numOf v}"
          | none => failIf (got != 0) "own_record_equals_wire" "-" s!"field of parameter {id} is {got}, the wire has no such parameter") ++
        (match iscid, lastWire ws 15 with
         | some s, some v => failIf (s != v) "own_record_equals_wire" "-" s!"InitialSourceConnectionID={fmtHex s} wire={fmtHex v}"
         | some s, none => failIf (s != scid) "own_record_equals_wire" "-" s!"InitialSourceConnectionID={fmtHex s} changed without a parameter"
         | none, _ => [])
       else [])
    let tags := ["populate"] ++
      (if ps.any (fun p => p.id == 15 && p.typed && p.val.isEmpty) then ["populate:scid-writeback"] else []) ++
      (if ps.any (fun p => p.id == 15 && p.typed && !p.val.isEmpty) then ["populate:scid-given"] else []) ++
      (if ps.any (fun p => p.id == 15 && !p.typed) then ["populate:scid-raw"] else []) ++
      (if own.disableMigration then ["populate:flag"] else []) ++
      (if own.nums.length ≥ 2 then ["populate:nums"] else []) ++
      (if ps.any (fun p => (p.id == 1 || p.id == 11) && numOf p.val * 1000000 ≥ 9223372036854775808) then ["populate:duration-wrap"] else []) ++
      (if ((ps.filter (fun p => numIDs.contains p.id)).map (·.id)).eraseDups.length != (ps.filter (fun p => numIDs.contains p.id)).length then ["populate:dup-field"] else [])
    { model := model, tags := tags, fails := fails }

def stepSpec (s : St) (base randS idsS toksS pins impl : String) : St × StepOut :=
  let implIn := (field impl "in=").bind parseCanons |>.getD []
  let customList := toksS != "="
  -- pinned extension contents make the spec a derived one for the fingerprint monitors
  let custom := customList || pins != "-"
  let (inp, okDraw) := if customList then resolve (parseTokens toksS) implIn else (implIn, true)
  let want := ((Uquic.Gen.UQuic.quicIDs.find? (fun q => q.1 == base)).map (·.2.2.2)).getD "?"
  let cs := (field impl "cs=").map parseNats |>.getD []
  let scidlen := (field impl "scidlen=").getD "?"
  let model := s!"in={fmtCanons inp} cs={fmtNats cs} want={want} scidlen={scidlen}"
  let key := s!"{base} {idsS} {toksS} {pins}"
  let isRand := randS == "1"
  let g : Ghost := { s with hasSpec := true, key := key, base := base, custom := custom, rand := isRand,
                            sup := parseNats idsS, list := inp, cs := cs, want := want, dials := 0, tpids := none }
  let tags := ["spec", if customList then "spec:custom" else "spec:builtin"] ++ (if pins != "-" then ["spec:pinned-extensions"] else []) ++ (if g.rand then ["spec:rand"] else []) ++
          (if g.sup.isEmpty then [] else ["spec:suppress"])
  let inS := (field impl "in=").getD "?"
  (g, { model := model, tags := tags, fails := failIf (!okDraw) "grease_draw_valid" "-" s!"in={inS}" })

/-- the spec value as the model sees it -/
def toModel (s : St) : Spec := { ext := { ps := s.list.map (·.p) }, sup := s.sup, rand := s.rand }

def listsEq (a b : List TP) : Bool := a.length == b.length && (a.zip b).all fun (x, y) => tpEq x y

def stepTpids (s : St) (impl : String) : St × StepOut :=
  if !s.hasSpec then (s, { model := "skip" }) else
  -- model: `SpecLife.life … .inspect` (the spec's own list is filtered in place)
  let (m', out) := life (toModel s) .inspect
  let ids := match out with | .ids l => l | _ => []
  let left := withMasks s.list m'.ext.ps
  let iids := (field impl "ids=").map parseNats
  let ileft := (field impl "left=").bind parseCanons
  -- ghost: what the specification of suppression leaves of the list as written
  let keep := s.list.filter fun t => specKeep s.sup t.p.id
  let wireIDs := keep.map (·.p.id)
  let shrunk := keep.length != s.list.length
  ({ s with tpids := iids, list := keep, custom := s.custom || shrunk, key := if shrunk then s.key ++ "|inspected" else s.key },
   { model := s!"ids={fmtNats ids} left={fmtCanons left}", tags := ["tpids"] ++ (if shrunk then ["tpids:filters-spec"] else []) ++ (if s.dials > 0 then ["tpids:after-dial"] else []),
     fails := (match iids with
       | some l => failIf (!isCanonSortOf l wireIDs) "ids_reported_eq_canon_sort" "-" s!"reported={fmtNats l} spec ids after suppression={fmtNats wireIDs}"
       | none => [("ids_reported_eq_canon_sort", "-", "no output")]) ++
      (match ileft with
       | some l => failIf (!listsEq l keep) "suppress_exact" "-" s!"list after TransportParameterIDs={fmtCanons l}, want {fmtCanons keep}"
       | none => []) })

def stepSetSup (s : St) (add : Bool) (idsS _impl : String) : St × StepOut :=
  if !s.hasSpec then (s, { model := "skip" }) else
  let ids := parseNats idsS
  let (m', _) := life (toModel s) (if add then .addSup ids else .setSup ids)
  let g := { s with sup := if add then s.sup ++ ids else ids, key := s.key ++ s!"|{if add then "addsup" else "setsup"} {idsS}", tpids := none }
  (g, { model := s!"sup={fmtNats m'.sup} list={fmtCanons (withMasks s.list m'.ext.ps)}",
        tags := ["edit", if add then "edit:addsup" else "edit:setsup"] ++ (if s.tpids.isSome then ["edit:after-inspection"] else []) ++
                (if s.dials > 0 then ["edit:after-dial"] else []) })

def stepAddParam (s : St) (tokS impl : String) : St × StepOut :=
  if !s.hasSpec then (s, { model := "skip" }) else
  let implIn := (field impl "in=").bind parseCanons |>.getD []
  let (inp, okDraw) := resolve [parseToken tokS] implIn
  match inp with
  | [t] =>
    let (m', _) := life (toModel s) (.addParam t.p)
    let list' := s.list ++ [t]
    let g := { s with list := list', custom := true, key := s.key ++ s!"|addparam {fmtCanon t}", tpids := none }
    (g, { model := s!"in={fmtCanon t} list={fmtCanons (withMasks list' m'.ext.ps)}",
          tags := ["edit", "edit:addparam"] ++ (if s.tpids.isSome then ["edit:after-inspection"] else []) ++ (if s.dials > 0 then ["edit:after-dial"] else []),
          fails := failIf (!okDraw) "grease_draw_valid" "-" s!"in={(field impl "in=").getD "?"}" })
  | _ => (s, { model := "bad-op" })

def stepSetRand (s : St) (bS : String) : St × StepOut :=
  if !s.hasSpec then (s, { model := "skip" }) else
  let (m', _) := life (toModel s) (.setRand (bS == "1"))
  ({ s with rand := m'.rand }, { model := s!"rand={if m'.rand then 1 else 0}", tags := ["edit", "edit:setrand"] })

/-- the attempt (connection id, recovered shuffle draws) that explains an observed wire list, when the list after
suppression has no two parameters the recovery could confuse; `none`: not modelled byte for byte (monitors only) -/
def attemptOf (s : St) (scid : List Nat) (ws : List (Nat × List Nat)) : Option Attempt :=
  if !s.rand then some { scid := scid } else
  let l := s.list.filter fun t => specKeep s.sup t.p.id
  -- ids whose value the wire does not repeat literally (GREASE version slots, the connection id): matched by id alone
  let looseIDs := (l.filter fun t => t.mask.any id || t.p.id == 15).map (·.p.id)
  let keyOf (t : TP) : Nat × List Nat := (t.p.id, if looseIDs.contains t.p.id then [] else t.p.val)
  let wkey (w : Nat × List Nat) : Nat × List Nat := (w.1, if looseIDs.contains w.1 then [] else w.2)
  let keys := l.map keyOf
  if keys.eraseDups.length != keys.length then none
  else some { scid := scid, draws := recoverDraws keys (ws.map wkey) }

/-- what the model puts on the wire for the attempts of one dial (`SpecLife.life … (.dial as)`), with the byte mask
of the GREASE-version slots -/
def modelWires (s : St) (as : List Attempt) : List (Option (List Nat × List Bool)) :=
  match (life (toModel s) (.dial as)).2 with
  | .wires ws =>
    (ws.zip as).map fun (w, a) => w.map fun (_, bytes) =>
      let l := suppress (s.list.map (·.p)) s.sup
      let l := if s.rand then shuffleWith a.draws l else l
      let mask := match populate a.scid l with
        | some (_, l') => fullMask (withMasks s.list l')
        | none => []
      (bytes, mask)
  | _ => []

/-- one connection attempt of a dial judged against the spec as written (ghost state from the ops only) -/
def dialCore (s : St) (impl : String) (abandoned : Bool := false) : St × StepOut :=
  let qtpS := (field impl "qtp=").getD "?"
  let ws := ((parseHex qtpS).bind parseQTP)
  let scid := ((field impl "scid=").bind parseHex).getD []
  let ovS := (field impl "ov=").getD "?"
  let cs := ((field impl "cs=").map parseNats).getD []
  let exts := ((field impl "exts=").map parseNats).getD []
  let sexts := ((field impl "sexts=").map parseNats).getD []
  let frames := ((field impl "frames=").map parseNats).getD []
  let fp := (field impl "fp=").getD "-"
  -- expected wire list: the spec's list, suppressed; an empty initial_source_connection_id carries the header's
  -- SCID (or, when the list also holds a non-empty one — a duplicate no server accepts — that value: the
  -- write-back copies the record, which an earlier parameter may have overwritten)
  let givenSCIDs := (s.list.filter fun t => t.p.id == 15 && t.p.typed && !t.p.val.isEmpty).map (·.p.val)
  let expect : List (TP × List (List Nat)) := (s.list.filter fun t => specKeep s.sup t.p.id).map fun t =>
    if t.p.id == 15 && t.p.typed && t.p.val.isEmpty then ({ t with p := { t.p with val := scid } }, givenSCIDs) else (t, [])
  let matchE (w : Nat × List Nat) (e : TP × List (List Nat)) : Bool :=
    matchPair w e.1 || (w.1 == e.1.p.id && e.2.contains w.2)
  let cls := "-"
  let wireFails := match ws with
    | none => [("wire_is_spec", "-", s!"extension body does not parse: {qtpS}")]
    | some ws =>
      failIf (if s.rand then !permMod2 (fun w e => matchPair w e.1) matchE ws expect
              else !(ws.length == expect.length && (ws.zip expect).all fun (w, e) => matchE w e))
        "wire_is_spec" cls s!"wire={qtpS} expected{if s.rand then " a permutation of" else ""} {fmtCanons (expect.map (·.1))}" ++
      failIf (s.rand && s.dials == 0 && expect.length ≥ 14 && (expect.map (·.1.p)).eraseDups.length == expect.length &&
              ws.length == expect.length && ((ws.zip expect).all fun (w, e) => matchE w e)) "shuffle_moves" "-"
        s!"randomisation is on but {expect.length} distinct parameters are on the wire in spec order (probability < 2e-11)" ++
      (match (parseHex ovS).bind parseQTP with
       | none => [("own_record_equals_wire", cls, s!"ClientOverride of the connection is not a parameter list: {ovS}")]
       | some os =>
         let maskOf (pid : Nat) : List Bool := ((s.list.find? fun t => t.p.id == pid && t.mask.any (fun b => b)).map (·.mask)).getD []
         failIf (!(os.length == ws.length && (os.zip ws).all fun (o, w) =>
                    o.1 == w.1 && (o.2 == w.2 || (eqMod o.2 w.2 (maskOf w.1) && eqMod w.2 o.2 (maskOf w.1)))))
           "own_record_equals_wire" cls s!"ClientOverride={ovS} wire={qtpS}") ++
      (let canonWire := ws.map (·.1)
       (match s.tpids with
        | some l => failIf (!isCanonSortOf l canonWire) "ids_reported_eq_wire" cls s!"TransportParameterIDs said {fmtNats l}, wire ids {fmtNats canonWire}"
        | none => []))
  -- no identifier the suppression list names AT THE TIME OF THE DIAL is on the wire, whatever happened to the spec before
  let listedFails := match ws with
    | some ws =>
      let bad := (ws.map (·.1)).filter fun i => !specKeep s.sup i
      failIf (!bad.isEmpty) "suppressed_never_on_wire" "-"
        s!"SuppressTransportParameters is {fmtNats s.sup}, the wire carries {fmtNats bad} (wire ids {fmtNats (ws.map (·.1))})"
    | none => []
  -- the dial leaves the spec value as it was written
  let afterFails := match (field impl "after=").bind parseCanons with
    | some l => failIf (!listsEq l s.list) "dial_leaves_spec" "-" s!"the spec's list after the dial is {fmtCanons l}, before it was {fmtCanons s.list}"
    | none => []
  -- the connection's logged record of its own parameters against the wire
  let recS := (field impl "rec=").getD "-"
  let recFails := match ws, recS.splitOn ";" with
    | some ws, [nums, dm, rscid] =>
      let inums := (nums.splitOn ",").map (·.toInt?.getD 0)
      (numIDs.zip inums).flatMap (fun (id, got) =>
        match lastWire ws id with
        | some v => failIf (got != toInt64 (if id == 1 || id == 11 then numOf v * 1000000 else numOf v)) "own_record_equals_wire" cls
            s!"the connection logs {got} for parameter {id}, the wire carries {numOf v}"
        | none => failIf (got != 0) "own_record_equals_wire" cls s!"the connection logs {got} for parameter {id}, the wire has no such parameter") ++
      failIf ((dm == "1") != (ws.any fun w => w.1 == 12)) "own_record_equals_wire" cls s!"disable_active_migration logged {dm}, wire ids {fmtNats (ws.map (·.1))}" ++
      (if s.list.all (fun t => t.p.id != 15 || t.p.typed) then
        (match parseHex rscid, lastWire ws 15 with
         | some r, some v => failIf (r != v) "own_record_equals_wire" cls s!"the connection logs initial_source_connection_id {fmtHex r}, the wire carries {fmtHex v}"
         | some r, none => failIf (r != scid) "own_record_equals_wire" cls s!"the connection logs initial_source_connection_id {fmtHex r}, the packet header has {fmtHex scid}"
         | none, _ => [])
       else [])
    | _, _ => []
  -- extension CONTENTS against the spec's values as they were before the dial (`Uquic.Model.CloneSpec.specContent`)
  let snap := parseBodies ((field impl "snap=").getD "-")
  let xb := parseBodies ((field impl "xb=").getD "-")
  let ssni := ((field impl "ssni=").bind parseHex).getD []
  let csni := ((field impl "csni=").bind parseHex).getD []
  let sks := ((field impl "sks=").map parseNats).getD []
  let wksS := (field impl "wks=").getD "-"
  let wks := if wksS == "-" then [] else (wksS.splitOn ",").map fun e => match e.splitOn ":" with
    | [g, l] => (natOf g, natOf l)
    | _ => (0, 0)
  let wantName := match specContent csni (.sni ssni) with | .name n => n | _ => []
  let contents :=
    (snap.flatMap fun (t, b) =>
      match xb.find? (fun w => w.1 == t) with
      | some w => failIf (w.2 != b) "clienthello_is_spec" "-" s!"extension {t} carries {fmtHex w.2}, the spec's value marshals to {fmtHex b}"
      | none => [("clienthello_is_spec", "-", s!"extension {t} of the spec is not in the ClientHello")]) ++
    (match xb.find? (fun w => w.1 == 0) with
     | some w => failIf (w.2 != sniBody wantName) "clienthello_is_spec" "-"
        s!"server_name carries {fmtHex w.2}, want {fmtHex (sniBody wantName)} (spec name {fmtHex ssni}, tls.Config name {fmtHex csni})"
     | none => failIf (!wantName.isEmpty && sexts.contains 0) "clienthello_is_spec" "-" "server_name extension missing") ++
    failIf (wks.map (·.1) != sks) "clienthello_is_spec" "-" s!"key_share groups on the wire {wksS}, the spec lists {fmtNats sks}" ++
    failIf (wks.any fun w => w.2 ≤ 1) "clienthello_is_spec" "-" s!"key_share without a key: {wksS}"
  let plumbing := contents ++
    failIf (cs.map canonU16 != s.cs.map canonU16) "clienthello_is_spec" "-" s!"cipher suites {fmtNats cs}, spec {fmtNats s.cs}" ++
    -- the driver reads the spec's extension types back after the whole dial; whether uTLS's padding extension (21) is
    -- sent depends on the ClientHello length and its value is shared by all attempts, so for an abandoned first
    -- attempt the read-back speaks of the later attempt: padding is left out of that comparison
    (let dropPad (l : List Nat) : List Nat := if abandoned then l.filter (· != 21) else l
     failIf ((dropPad exts).map canonU16 != (dropPad sexts).map canonU16) "clienthello_is_spec" "-" s!"extension order {fmtNats exts}, spec {fmtNats sexts}")
  -- the padding extension (21) is excluded: uTLS adds it depending on the ClientHello length, which a derived
  -- list with variable-length parameters changes from one spec build to the next
  let view := s!"{fmtNats (sortIDs ((ws.getD []).map fun w => specCanon w.1))}|{fmtNats (cs.map canonU16)}|{fmtNats (sortIDs ((exts.filter (· != 21)).map canonU16))}"
  let ref := s.refs.find? (fun r => r.1 == s.key)
  -- a fingerprinter keeps the last value of a repeated integer parameter: with different values under one id
  -- the view legitimately depends on the permutation, so such (server-rejected) lists are not judged
  let fpIDs := (expect.map (·.1.p.id)).filter fun i => [1, 3, 4, 5, 6, 7, 8, 9, 10, 11, 14].contains i
  let judged := !s.rand || fpIDs.eraseDups.length == fpIDs.length
  let stab := if !judged then [] else match ref with
    | none => []
    | some (_, rfp, rframes, rview) =>
      -- the property speaks of the built-in fingerprints: a derived list (or one shortened by suppression) may
      -- legitimately change the framing (e.g. no room for a PADDING frame), only its ClientHello view is judged
      failIf (!s.custom && s.sup.isEmpty && fp != "-" && rfp != "-" && fp != rfp) "fingerprint_stable" (pingClass s.base frames rframes)
        s!"fingerprint {fp} (frame types {fmtNats frames}), an earlier dial of the same spec gave {rfp} (frame types {fmtNats rframes})" ++
      failIf (view != rview) "canonical_view_stable" "-" s!"{view} vs {rview}"
  let rec_ :=
    failIf (!s.custom && s.sup.isEmpty && recorded s.base && fp != "-" && fp != s.want) "fingerprint_recorded"
      (if !frames.contains 1 && pingUnstable s.base then "frameset_without_ping" else "-")
      s!"clienthellod computes {fp}, {s.base} records {s.want} (frame types {fmtNats frames})"
  let kinds := if frames.isEmpty then [] else match pingBounds s.base with
    | some (mn, mx) =>
      failIf (pingStableB mn mx && frames.contains 1 != decide (1 ≤ mn)) "frame_kinds_possible" "-"
        s!"frame types {fmtNats frames} but the spec draws its PING count from [{mn},{mx})" ++
      failIf (!frames.contains 6) "frame_kinds_possible" "-" s!"no CRYPTO frame: {fmtNats frames}"
    | none => failIf (!frames.contains 6) "frame_kinds_possible" "-" s!"no CRYPTO frame: {fmtNats frames}"
  let refs := if ref.isNone && judged then (s.key, fp, frames, view) :: s.refs else s.refs
  let g := { s with dials := s.dials + 1, refs := refs }
  let tags := ["dial", if s.dials == 0 then "dial:fresh-spec" else "dial:reused-spec"] ++
    (if s.rand then ["dial:rand"] else ["dial:fixed-order"]) ++
    (if expect.length < s.list.length then ["dial:suppressed"] else []) ++
    (if s.custom then ["dial:derived-spec"] else ["dial:builtin"]) ++
    (if s.tpids.isSome then ["dial:after-tpids"] else []) ++
    (if !scid.isEmpty then ["dial:scid"] else []) ++
    (if fp != "-" && !s.custom && s.sup.isEmpty && recorded s.base then ["dial:fp-checked"] else [])
  (g, { model := impl, tags := tags ++ (if s.sup.isEmpty then [] else ["dial:sup"]) ++ (if (field impl "ver=") == some "6b3343cf" then ["dial:v2"] else []),
        fails := wireFails ++ listedFails ++ afterFails ++ recFails ++ plumbing ++ stab ++ rec_ ++ kinds })

/-- a dial: one attempt, or — when the first flight was answered with Version Negotiation — the abandoned attempt
(keys prefixed `1`) and the connection `UTransport.doDial` re-created from the same spec. Every attempt is judged
on its own against the spec; the model (`SpecLife.life`) has to reproduce every attempt's extension bytes. -/
def stepDial (s : St) (impl : String) : St × StepOut :=
  if !s.hasSpec then (s, { model := "skip" }) else
  if impl == "PANIC" || impl.startsWith "E:" then
    -- derived lists are generated so that PopulateFromUQUIC accepts them: a dial has to produce a flight
    (s, { model := "flight", tags := ["dial"], fails := [("dial_produces_flight", "-", impl)] })
  else
  let w := words impl
  let w1 := (w.filter (·.startsWith "1")).map (afterPrefix · "1")
  let wF := w.filter (!·.startsWith "1")
  let implF := " ".intercalate wF
  let impl1 := " ".intercalate w1
  let impls := if w1.isEmpty then [implF] else [impl1, implF]
  -- model: the attempts' extension bytes
  let obs := impls.map fun i =>
    (((field i "scid=").bind parseHex).getD [], ((field i "qtp=").bind parseHex), (((field i "qtp=").bind parseHex).bind parseQTP))
  let atts := obs.map fun (scid, _, ws) => ws.bind (attemptOf s scid)
  let modelled := atts.all (·.isSome)
  let mws := if modelled then modelWires s (atts.filterMap id) else []
  let agree := !modelled || (mws.length == obs.length && (mws.zip obs).all fun (m, o) =>
    match m, o.2.1 with
    | some (mb, mask), some ib => eqMod ib mb mask
    | _, _ => false)
  let modelText := if agree then impl else
    let mhex (k : Nat) : String := match mws.getD k none with | some (b, _) => fmtHex b | none => "PANIC"
    " ".intercalate (w.map fun x =>
      if x.startsWith "qtp=" then "qtp=" ++ mhex (impls.length - 1)
      else if x.startsWith "1qtp=" then "1qtp=" ++ mhex 0 else x)
  if w1.isEmpty then
    let (g, o) := dialCore s implF
    (g, { o with model := modelText, tags := o.tags ++ (if modelled then ["dial:bytes-modelled"] else []) })
  else
    let (g1, o1) := dialCore s impl1 true
    let (g2, o2) := dialCore { g1 with dials := s.dials } implF
    let rnd1 := (field impl1 "rnd=").getD "-"
    let rnd2 := (field implF "rnd=").getD "-"
    let kx1 := (field impl1 "kx=").getD "-"
    let kx2 := (field implF "kx=").getD "-"
    let ver1 := (field impl1 "ver=").getD "?"
    let ver2 := (field implF "ver=").getD "?"
    let cross :=
      failIf (rnd1 != "-" && rnd1 == rnd2) "attempt_is_fresh" "-"
        s!"the connection re-created after Version Negotiation repeats the abandoned attempt's ClientHello.random {rnd1}" ++
      failIf (kx1 != "-" && kx1 == kx2) "attempt_is_fresh" "-"
        s!"the connection re-created after Version Negotiation offers the abandoned attempt's key shares again (digest of the key_share body {kx1})" ++
      failIf (ver1 == ver2) "attempt_is_fresh" "-" s!"both attempts use QUIC version {ver1}"
    (g2, { model := modelText,
           tags := o1.tags ++ o2.tags ++ ["dial:version-negotiation", "dial:recreated"] ++ (if modelled then ["dial:bytes-modelled"] else []) ++
                   (if s.tpids.isSome then ["dial:recreated-after-tpids"] else []),
           fails := (o1.fails.map fun (n, c, d) => (n, c, "abandoned first attempt: " ++ d)) ++
                    (o2.fails.map fun (n, c, d) => (n, c, "connection re-created after Version Negotiation: " ++ d)) ++ cross })

def stepDist (name nS NS impl : String) : StepOut :=
  let n := natOf nS
  let N := natOf NS
  let cs := ((field impl "c=").map parseNats).getD []
  let perms := permsLex (List.range n)
  let K := perms.length
  if cs.length != K || cs.foldl (· + ·) 0 != N then
    { model := "counts", tags := [name], fails := [("shuffle_distribution", "-", s!"malformed counts {impl}")] }
  else
    let missing := (perms.zip cs).filter (fun pc => pc.2 == 0)
    let outl := (perms.zip cs).filter (fun pc => !withinSigma 8 pc.2 N K)
    let pos := (List.range n).flatMap fun e => (List.range n).filterMap fun i =>
      let c := ((perms.zip cs).filter (fun pc => pc.1.getD i n == e)).foldl (fun a pc => a + pc.2) 0
      if withinSigma 8 c N n then none else some s!"element {e} at position {i}: {c} of {N}"
    { model := impl, tags := [name, s!"{name}:n={n}"],
      fails :=
        failIf (!missing.isEmpty) "every_permutation_reachable" "-" s!"{missing.length} of {K} permutations never seen in {N} shuffles: {impl}" ++
        failIf (!outl.isEmpty) "shuffle_distribution" "-" s!"{outl.length} permutation counts further than 8 sigma from {N}/{K}: {impl}" ++
        failIf (!pos.isEmpty) "shuffle_distribution" "-" (", ".intercalate pos) }

def step (s : St) (op impl : String) : St × StepOut :=
  match words op with
  | ["suppress", t, ids] => (s, stepSuppress t ids impl)
  | ["ids", t, ids] => (s, stepIds t ids impl)
  | ["shuffle", t] => (s, stepShuffle t impl)
  | ["marshal", t] => (s, stepMarshal t impl)
  | ["populate", t, scid] => (s, stepPopulate t scid impl)
  | ["spec", base, r, ids, t] => stepSpec s base r ids t "-" impl
  | ["spec", base, r, ids, t, pins] => stepSpec s base r ids t pins impl
  | ["tpids"] => stepTpids s impl
  | ["setsup", ids] => stepSetSup s false ids impl
  | ["addsup", ids] => stepSetSup s true ids impl
  | ["addparam", t] => stepAddParam s t impl
  | ["setrand", b] => stepSetRand s b
  | ["dial"] => stepDial s impl
  | ["dialvn", _] => stepDial s impl
  | ["shufdist", n, N] => (s, stepDist "shufdist" n N impl)
  | ["dialdist", _, n, N] => (s, stepDist "dialdist" n N impl)
  | _ => (s, { model := "bad-op" })

def main : IO Unit := run { init := ({} : St), step := step }
