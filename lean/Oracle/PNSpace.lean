import Uquic.Oracle.Frame
import Uquic.Model.Crypto.PNSpace

open Uquic.Oracle Uquic.Model.PN Uquic.Model.PNSpace

abbrev Fail := String × String × String

/-- ghost of one packet number space over the handler's whole life (never reset by a Retry) -/
structure SpaceGhost where
  last : Option Int := none     -- largest number handed out so far
deriving Repr

structure St where
  sp : Spaces := Spaces.new 0 0
  /-- the model no longer knows the generator state (draw out of range): predictions stop, monitors go on -/
  lost : Bool := true   -- until `hnew` tells the draw of the application-data generator
  gI : SpaceGhost := {}
  gH : SpaceGhost := {}
  gA : SpaceGhost := {}

def mk (model : String) (tags : List String := []) (fails : List Fail := []) : StepOut :=
  { model := model, tags := tags, fails := fails }

def implField (impl : String) (key : String) : Option String :=
  (words impl).findSome? fun w => if w.startsWith key then some (w.drop key.length).toString else none

def parseLevel : String → Level
  | "I" => .initial | "H" => .handshake | "Z" => .zeroRTT | _ => .oneRTT

def drawOkNew (d : Int) : Bool := decide (0 ≤ d) && decide (d < 2 * skipInitialPeriod)

def step (s : St) (op impl : String) : St × StepOut :=
  let w := words op
  let nts := ((implField impl "nts=").map intOf).getD 0
  match w with
  | ["hnew", pn, _] =>
    let d := nts - 0 - 3
    if drawOkNew d then ({ sp := Spaces.new (intOf pn) d, lost := false }, mk s!"nts={nts}" ["hnew"])
    else ({ lost := true }, mk "nts=<draw-out-of-range>")
  | ["send", l] =>
    let lvl := parseLevel l
    -- monitors first (ghost only): within one packet number space a number is never handed out twice, over
    -- the whole life of the handler including Retries; Peek announces what Pop returns
    let isApp := lvl == .zeroRTT || lvl == .oneRTT
    let gh := if lvl == .initial then s.gI else if lvl == .handshake then s.gH else s.gA
    let implSkip := impl == "skip"
    let ipn := intOf ((words impl).headD "0")
    let ipeek := ((implField impl "peek=").map intOf).getD ipn
    let fails : List Fail := if implSkip then [] else
      (match gh.last with
        | some p => if ipn ≤ p then [("pn_reused_in_space", "-", s!"level {l}: packet number {ipn} handed out after {p} (same number space, 0-RTT/1-RTT keys are not changed by a Retry)")] else []
        | none => []) ++
      (if ipeek ≠ ipn then [("peek_matches_pop", "-", s!"level {l}: peek={ipeek} pop={ipn}")] else [])
    let gh' : SpaceGhost := if implSkip then gh else { last := some (match gh.last with | some p => max p ipn | none => ipn) }
    let s := if lvl == .initial then { s with gI := gh' } else if lvl == .handshake then { s with gH := gh' } else { s with gA := gh' }
    -- model
    if s.lost then (s, mk (if implSkip then "skip" else "<model-diverged>") [] fails) else
    match s.sp.peek lvl with
    | none => (s, mk "skip" ["send:dropped"] fails)
    | some peek =>
      let g := s.sp.app
      let willSkip := isApp && g.next = g.nextToSkip
      let d := if willSkip then nts - (g.next + 2) - 3 else 0
      if willSkip && !(({ g with next := g.next + 2 } : SkipGen).drawOk d) then
        ({ s with lost := true }, mk "<draw-out-of-range>" [] fails)
      else
        let (sp', pn) := s.sp.pop lvl d
        let pn := pn.getD (-1)
        let len := pnLenForHeader pn invalidPN
        let mnts := if isApp then sp'.app.nextToSkip else -1
        ({ s with sp := sp' }, mk s!"{pn} len={len} peek={peek} nts={mnts}"
          [s!"send:{l}", if willSkip then "send:skip" else "send:plain", s!"send:len{len}"] fails)
  | ["retry"] =>
    if s.lost then (s, mk (if impl == "skip" then "skip" else "<model-diverged>")) else
    match s.sp.initial with
    | none => (s, mk "skip" ["retry:no-initial"])
    | some _ =>
      let d := nts - s.sp.app.peek - 3
      if !drawOkNew d then ({ s with lost := true }, mk "nts=<draw-out-of-range>") else
      match s.sp.resetForRetry d with
      | some sp' => ({ s with sp := sp' }, mk s!"nts={sp'.app.nextToSkip}" ["retry", if s.sp.app.next = s.sp.app.nextToSkip then "retry:at-skip" else "retry:plain"])
      | none => (s, mk "skip")
  | ["drop", l] =>
    ({ s with sp := s.sp.drop (parseLevel l) }, mk "ok" [s!"drop:{l}"])
  | _ => (s, mk "bad-op")

def main : IO Unit := run { init := ({} : St), step := step }
