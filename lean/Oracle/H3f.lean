import Uquic.Oracle.Frame
import Uquic.Model.H3.Fields
import Uquic.Model.H3.Writer
import Uquic.Spec.H3FieldsWF
import Uquic.Spec.H3FieldsMon

open Uquic.Oracle Uquic.Model.H3.Fields Uquic.Model.H3.Writer
open Uquic.Spec.H3Fields (failingClauses trailerFailingClauses connectionSpecific trailerForbidden)
open Uquic.Spec.H3FieldsMon

abbrev Fail := String × String × String

/-! ## text helpers -/

def hexDigit (n : Nat) : Char := if n < 10 then Char.ofNat (48 + n) else Char.ofNat (87 + n)
def hx (bs : List Nat) : String := String.ofList (bs.flatMap fun b => [hexDigit (b / 16), hexDigit (b % 16)])

def hexVal (c : Char) : Nat :=
  let n := c.toNat
  if 48 ≤ n && n ≤ 57 then n - 48 else if 97 ≤ n && n ≤ 102 then n - 87 else if 65 ≤ n && n ≤ 70 then n - 55 else 0

def unhxL : List Char → List Nat
  | a :: b :: rest => (hexVal a * 16 + hexVal b) :: unhxL rest
  | _ => []
def unhx (s : String) : List Nat := unhxL s.toList

def splitFirst (s : String) (sep : String) : String × String :=
  match s.splitOn sep with
  | [] => ("", "")
  | [a] => (a, "")
  | a :: rest => (a, sep.intercalate rest)

/-- a field token `<hexname>=<hexvalue>[^]` → (field, flagged) -/
def parseFieldTok (t : String) : (List Nat × List Nat) × Bool :=
  let flagged := t.endsWith "^"
  let t := if flagged then (t.dropEnd 1).toString else t
  let (n, v) := splitFirst t "="
  ((unhx n, unhx v), flagged)

def parseFieldToks (ts : List String) : List (List Nat × List Nat) × List (List Nat) :=
  let ps := (ts.filter (fun t => t.contains '=')).map parseFieldTok
  (ps.map (·.1), (ps.filter (·.2)).map (·.1.1))

/-- `strings.ToLower(name) == name` for names with a byte ≥ 0x80: taken from the op line -/
def extOf (flagged : List (List Nat)) : List Nat → Bool := fun n => !flagged.contains n

def fmtFieldTok (flagged : List (List Nat)) (f : List Nat × List Nat) : String :=
  hx f.1 ++ "=" ++ hx f.2 ++ (if flagged.contains f.1 then "^" else "")

def ltBytes : List Nat → List Nat → Bool
  | [], [] => false
  | [], _ :: _ => true
  | _ :: _, [] => false
  | a :: as, b :: bs => if a < b then true else if a > b then false else ltBytes as bs

def insertBy {α} (lt : α → α → Bool) (x : α) : List α → List α
  | [] => [x]
  | y :: ys => if lt x y then x :: y :: ys else y :: insertBy lt x ys
/-- stable insertion sort -/
def sortBy {α} (lt : α → α → Bool) (l : List α) : List α := l.foldr (fun x acc => insertBy lt x acc) []

def dedupL (l : List (List Nat)) : List (List Nat) :=
  l.foldl (fun acc x => if acc.contains x then acc else acc ++ [x]) []

/-- Go `fmtHdrs`: keys sorted, values in insertion order -/
def fmtHdrs (h : Headers) : String :=
  if h.isEmpty then "-"
  else
    let keys := sortBy ltBytes (dedupL (h.map (·.1)))
    ";".intercalate (keys.map fun k => hx k ++ ":" ++ ",".intercalate ((hdrValues h k).map hx))

def fmtTrailerKeys : Option (List (List Nat)) → String
  | none => "nil"
  | some ks => "[" ++ ",".intercalate ((sortBy ltBytes (dedupL ks)).map hx) ++ "]"

/-- `<hdrs>` of an op line: key:v,v;key:… in the order written; `_` is the empty string -/
def parseHdrsOp (s : String) : List (List Nat × List (List Nat)) :=
  if s == "-" || s == "" then []
  else (s.splitOn ";").filterMap fun (kv : String) =>
    if !kv.contains ':' then none
    else
      let (k, vs) := splitFirst kv ":"
      some (unhx k, if vs == "" then [] else (vs.splitOn ",").map fun v => if v == "_" then [] else unhx v)

def argOf (ws : List String) (key : String) : String :=
  match ws.find? (fun w => w.startsWith (key ++ "=")) with
  | some w => (w.drop (key.length + 1)).toString
  | none => ""

def fmtInt (i : Int) : String := toString i

/-! ## model results as text -/

def fmtHdrRes : Except Err Hdr → String
  | .error e => e.text
  | .ok h => s!"ok p={hx h.path} m={hx h.method} a={hx h.authority} s={hx h.scheme} st={hx h.status} pr={hx h.protocol} cl={fmtInt h.contentLength} h={fmtHdrs h.headers}"

def fmtReqRes : Except Err Req → String
  | .error e => e.text
  | .ok r => s!"ok m={hx r.method} proto={hx r.proto} host={hx r.host} uri={hx r.requestURI} cl={fmtInt r.contentLength} h={fmtHdrs r.headers} tr={fmtTrailerKeys r.trailer}"

def fmtRspRes : Except Err Resp → String
  | .error e => e.text
  | .ok r => s!"ok code={fmtInt r.status} cl={fmtInt r.contentLength} h={fmtHdrs r.headers} tr={fmtTrailerKeys r.trailer}"

def fmtTrlRes : Except Err Headers → String
  | .error e => e.text
  | .ok h => "ok h=" ++ fmtHdrs h

def errTag (pfx : String) {α} : Except Err α → String
  | .error e => pfx ++ ":" ++ (match e with
      | .forbiddenName => "E:forbidden"
      | e => e.text)
  | .ok _ => pfx ++ ":ok"

def bitmap (p : Nat → Bool) : String :=
  hx ((List.range 32).map fun i => (List.range 8).foldl (fun acc j => if p (i * 8 + j) then acc + 2 ^ j else acc) 0)

/-! ## monitors on parser verdicts -/

def clValuesOf (fs : List (List Nat × List Nat)) : List (List Nat) :=
  (fs.filter (fun (f : List Nat × List Nat) => f.1 == nContentLength)).map (·.2)

/-- main monitor: an accepted header section satisfies the reference predicate -/
def monAccepted (what : String) (isReq : Bool) (lim : Int) (fs : List (List Nat × List Nat)) (qerr : Bool) (implOk : Bool) : List Fail :=
  if !implOk then []
  else
    let bad := failingClauses isReq lim fs
    (if bad.isEmpty then []
     else
       [("accept_wellformed", "-", s!"{what} accepted a section violating: {",".intercalate bad}")]) ++
    (if qerr then [("qpack_error_ignored", "-", s!"{what} accepted although the decoder reported an error")] else [])

/-- the Content-Length handed to net/http is the decimal value of the field (a non-negative int64), -1 without one -/
def monClValue (what : String) (fs : List (List Nat × List Nat)) (impl : String) : List Fail :=
  if !impl.startsWith "ok" then []
  else
    let got := ((words impl).find? (fun w => w.startsWith "cl=")).map (fun w => (w.drop 3).toString)
    let exp : Int := match clValuesOf fs with
      | v :: _ => (Uquic.Spec.H3Fields.decimalValue v : Int)
      | [] => -1
    if got == some (toString exp) then [] else
      [("content_length_value", "-", s!"{what}: ContentLength {got.getD "?"} handed over, the field section says {exp}")]

/-- completeness direction, only for what the statement covers: a well-formed section whose
    Content-Length fits 63 bits must not be rejected by parseHeaders -/
def monRejected (isReq : Bool) (lim : Int) (fs : List (List Nat × List Nat)) (qerr : Bool) (impl : String) : List Fail :=
  if !impl.startsWith "E:" || qerr then []
  else if (failingClauses isReq lim fs).isEmpty then
    [("reject_wellformed", "-", s!"well-formed section rejected with {impl}")]
  else []

/-! ## the driver -/

structure St where
  dummy : Unit := ()

def step (s : St) (op impl : String) : St × StepOut :=
  let w := words op
  let implOk := impl.startsWith "ok"
  match w with
  | "table" :: probes =>
    let ps := probes.map unhx
    let model := s!"tok={bitmap fun b => validFieldName [b]} val={bitmap fun b => validFieldValue [b]} host={bitmap fun b => validHost [b]}" ++
      s!" bad={String.join (ps.map fun p => if validTrailerHeader p then "0" else "1")} canon={",".intercalate (ps.map fun p => hx (canonKey p))}" ++
      s!" ua={hx Uquic.Gen.H3Fields.defaultUserAgent}"
    (s, { model := model, tags := ["table"] })
  | "hdr" :: kind :: lim :: q :: toks =>
    let (fs, flagged) := parseFieldToks toks
    let isReq := kind == "req"
    let lim := intOf lim
    let qerr := q == "q1"
    let r := parseHeadersQ (extOf flagged) isReq lim fs qerr
    let tags := [errTag "hdr" r] ++ (match r with
      | .ok h => (if h.contentLength ≥ 0 then ["hdr:cl"] else []) ++ (if h.headers.isEmpty then [] else ["hdr:regular"])
      | _ => [])
    (s, { model := fmtHdrRes r, tags := tags,
          fails := monAccepted "parseHeaders" isReq lim fs qerr implOk ++ monRejected isReq lim fs qerr impl ++
            monClValue "parseHeaders" fs impl })
  | "req" :: lim :: q :: toks =>
    let (fs, flagged) := parseFieldToks toks
    let lim := intOf lim
    let qerr := q == "q1"
    let r := requestFromHeaders (extOf flagged) (fun _ => impl != "E:url") lim fs qerr
    let fails := monAccepted "requestFromHeaders" true lim fs qerr implOk ++ monClValue "requestFromHeaders" fs impl ++
      (if implOk && !requestRules fs then [("request_rules", "-", "accepted request violates the pseudo-header rules")] else [])
    let tags := [errTag "req" r] ++ (match r with
      | .ok x => (if x.method == mConnect then [if x.proto == vHTTP30 then "req:connect" else "req:extconnect"] else []) ++
                 (if x.trailer.isSome then ["req:trailer"] else []) ++
                 (if (hdrValues x.headers kCookie).isEmpty then [] else ["req:cookie"])
      | _ => [])
    (s, { model := fmtReqRes r, tags := tags, fails := fails })
  | "rsp" :: lim :: q :: toks =>
    let (fs, flagged) := parseFieldToks toks
    let lim := intOf lim
    let qerr := q == "q1"
    let r := updateResponseFromHeaders (extOf flagged) lim fs qerr
    let fails := monAccepted "updateResponseFromHeaders" false lim fs qerr implOk ++ monClValue "updateResponseFromHeaders" fs impl ++
      (if implOk && !responseRules fs then [("response_rules", "-", "accepted response without a numeric :status")] else [])
    (s, { model := fmtRspRes r, tags := [errTag "rsp" r], fails := fails })
  | "trl" :: lim :: q :: toks =>
    let (fs, flagged) := parseFieldToks toks
    let lim := intOf lim
    let qerr := q == "q1"
    let r := parseTrailersQ (extOf flagged) lim fs qerr
    let bad := trailerFailingClauses lim fs
    let fails := (if implOk && !bad.isEmpty then [("trailers_wellformed", "-", s!"parseTrailers accepted a section violating: {",".intercalate bad}")] else []) ++
      (if implOk && qerr then [("qpack_error_ignored", "-", "parseTrailers accepted although the decoder reported an error")] else [])
    (s, { model := fmtTrlRes r, tags := [errTag "trl" r], fails := fails })
  | "qpack" :: _ =>
    (s, { model := "ok", tags := ["qpack"],
          fails := if impl != "ok" then [("qpack_roundtrip", "-", "the QPACK encoder/decoder pair did not return the fields it was given")] else [] })
  | "reqwrite" :: args =>
    if impl == "new=E" then (s, { model := impl, tags := ["reqwrite:newrequest-rejects"] })
    else
      let parts := impl.splitOn " | "
      let xs := ((parts.headD "").drop 2).toString.splitOn ","
      let uri := unhx (xs.getD 0 ""); let scheme := unhx (xs.getD 1 ""); let uhost := unhx (xs.getD 2 "")
      let punyS := xs.getD 3 "!"
      let puny : Option (List Nat) := if punyS == "!" then none else some (unhx punyS)
      let m0 := unhx (argOf args "m")
      let method := if m0.isEmpty then B "GET" else m0
      let proto0 := unhx (argOf args "proto")
      let proto := if proto0.isEmpty then vHTTP11 else proto0
      let cl := intOf (argOf args "cl")
      let hasBody := argOf args "body" == "1"
      let acl : Int := if !hasBody then 0 else if cl != 0 then cl else -1
      let H := parseHdrsOp (argOf args "H")
      let T := let t := argOf args "T"; if t == "-" || t == "" then [] else (t.splitOn ",").map unhx
      let gz := argOf args "gz" == "1"
      let lim := intOf (argOf args "lim")
      -- impl's emitted list (recovers Go's map iteration order)
      let wpart := parts.getD 1 ""
      let implW := (wpart.drop 2).toString
      let (ifs, iflag) := parseFieldToks ((words implW).drop 1)
      let wr : WReq := { method := method, proto := proto, puny := puny, reqURI := uri, scheme := scheme,
                         headers := H, trailerKeys := T, contentLength := acl, gzip := gz }
      let mres := encodeHeaders Uquic.Gen.H3Fields.defaultUserAgent wr
      let byName := fun (a b : List Nat × List Nat) => ltBytes a.1 b.1
      let (modelW, agree) := match mres with
        | .error e => (e.text, false)
        | .ok mfs =>
          -- same list up to the iteration order of req.Header / req.Trailer
          let same := implW.startsWith "ok" && mfs.takeWhile (fun (f : List Nat × List Nat) => isPseudo f.1) == ifs.takeWhile (fun (f : List Nat × List Nat) => isPseudo f.1) &&
            sortBy byName (mfs.filter (fun (f : List Nat × List Nat) => f.1 != nTrailer)) == sortBy byName (ifs.filter (fun (f : List Nat × List Nat) => f.1 != nTrailer)) &&
            (mfs.filter (fun (f : List Nat × List Nat) => f.1 == nTrailer)).length == (ifs.filter (fun (f : List Nat × List Nat) => f.1 == nTrailer)).length &&
            ((mfs.filter (fun (f : List Nat × List Nat) => f.1 == nTrailer)).flatMap (fun (f : List Nat × List Nat) => sortBy ltBytes (splitOn 44 (f.2.filter (· != 32))))) ==
              ((ifs.filter (fun (f : List Nat × List Nat) => f.1 == nTrailer)).flatMap (fun (f : List Nat × List Nat) => sortBy ltBytes (splitOn 44 (f.2.filter (· != 32)))))
          if same then (implW, true) else ("ok " ++ " ".intercalate (mfs.map (fmtFieldTok [])), false)
      let pres := requestFromHeaders (extOf iflag) (fun _ => !(parts.getD 2 "").endsWith "E:url") lim ifs false
      let modelP := if implW.startsWith "ok" then fmtReqRes pres else "-"
      let model := s!"{parts.headD ""} | w={modelW} | p={modelP}"
      -- ghost: the request as the op describes it (+ net/url, idna results)
      let implP := ((parts.getD 2 "").drop 2).toString
      let hostOk := match puny with
        | some h => !h.isEmpty
        | none => false
      -- a client request has an absolute URL (scheme and host) — net/http's Transport refuses anything else
      let validMsg := validHeaderMap H && T.all isToken && hostOk && !scheme.isEmpty
      let fails : List Fail := Id.run do
        let mut fails : List Fail := []
        if implW.startsWith "ok" && validMsg then
          if implP.startsWith "E:" then
            fails := fails ++ [("writer_output_accepted", "-", s!"request writer output rejected by requestFromHeaders: {implP}")]
          else
            -- decodes to the same fields
            let isConnect := method == mConnect
            let isExt := isConnect && proto != vHTTP11
            let skip := [B "host", B "content-length"] ++ connectionSpecific
            let kept := H.filter (fun (kv : List Nat × List (List Nat)) => !skip.contains (lower kv.1))
            let hasUA := H.any (fun (kv : List Nat × List (List Nat)) => lower kv.1 == B "user-agent")
            let expH : List (List Nat × List (List Nat)) :=
              (kept.filterMap fun (kv : List Nat × List (List Nat)) =>
                let k := capitalise true (lower kv.1)
                if lower kv.1 == B "user-agent" then
                  (match kv.2 with
                   | v :: _ => if v.isEmpty then none else some (k, [v])
                   | [] => none)
                else if lower kv.1 == B "cookie" then (if kv.2.isEmpty then none else some (k, [join [59, 32] kv.2]))
                else if lower kv.1 == B "trailer" then none
                -- TE can only carry "trailers" over HTTP/3 (an accepted section never has another value)
                else if lower kv.1 == B "te" then
                  (let vs := kv.2.filter (· == B "trailers"); if vs.isEmpty then none else some (k, vs))
                else if kv.2.isEmpty then none else some (k, kv.2)) ++
              (if hasUA then [] else [(B "User-Agent", [Uquic.Gen.H3Fields.defaultUserAgent])]) ++
              (if gz then [(B "Accept-Encoding", [B "gzip"])] else []) ++
              (if shouldSendCL method acl then [(B "Content-Length", [(toString acl).toList.map Char.toNat])] else [])
            let expHdrs : Headers := expH.flatMap fun (kv : List Nat × List (List Nat)) => kv.2.map fun v => (kv.1, v)
            let expHost := puny.getD []
            -- for CONNECT (also extended CONNECT) the server puts the authority into RequestURI
            let expUri := if isConnect then expHost else
              (if validPseudoPath uri then uri else trimPrefix (scheme ++ [58, 47, 47] ++ expHost) uri)
            let expCL : Int := if shouldSendCL method acl then acl else -1
            let exp := s!"ok m={hx method} proto={hx (if isExt then proto else vHTTP30)} host={hx expHost} uri={hx expUri} cl={fmtInt expCL} h={fmtHdrs expHdrs}"
            -- the announced trailer keys are compared as a set below
            let implNoTr := (implP.splitOn " tr=").headD ""
            if implNoTr != exp then
              fails := fails ++ [("writer_roundtrip", "-", s!"decoded request differs: got {implNoTr} expected {exp}")]
            let expTr := (T.filter (fun k => !trailerForbidden.contains (lower k) && !(B "if-").isPrefixOf (lower k))).map (fun k => capitalise true (lower k))
            let expTr := expTr ++ ((H.filter (fun (kv : List Nat × List (List Nat)) => lower kv.1 == B "trailer")).flatMap fun (kv : List Nat × List (List Nat)) =>
              kv.2.flatMap fun v => (splitOn 44 v).map fun x =>
                let x := trimString x
                if isToken x then capitalise true (lower x) else x)
            let gotTr := ((implP.splitOn " tr=").getD 1 "")
            let expTrS := if T.isEmpty && !(H.any (fun (kv : List Nat × List (List Nat)) => lower kv.1 == B "trailer" && !kv.2.isEmpty)) then "nil"
              else if expTr.isEmpty then "nil" else fmtTrailerKeys (some expTr)
            if gotTr != expTrS then
              fails := fails ++ [("writer_roundtrip", "-", s!"announced trailers differ: got {gotTr} expected {expTrS}")]
        return fails
      let tags := [match mres with
        | .ok _ => "reqwrite:ok"
        | .error e => "reqwrite:" ++ e.text] ++ (if agree then [] else []) ++
        (if method == mConnect then ["reqwrite:connect"] else []) ++ (if !T.isEmpty then ["reqwrite:trailers"] else []) ++
        (if uhost.isEmpty then ["reqwrite:nohost"] else [])
      (s, { model := model, tags := tags, fails := fails })
  | "trlwrite" :: args =>
    let T := parseHdrsOp (argOf args "T")
    let lim := intOf (argOf args "lim")
    let parts := impl.splitOn " | "
    let implW := ((parts.headD "").drop 2).toString
    let (ifs, iflag) := parseFieldToks ((words implW).drop 1)
    let byName := fun (a b : List Nat × List Nat) => ltBytes a.1 b.1
    let mres := writeTrailers T
    let modelW := match mres with
      | none => "none"
      | some mfs => if implW.startsWith "ok" && sortBy byName mfs == sortBy byName ifs then implW
                    else "ok " ++ " ".intercalate (mfs.map (fmtFieldTok []))
    let modelP := if implW.startsWith "ok" then fmtTrlRes (parseTrailersQ (extOf iflag) lim ifs false) else "-"
    let implP := ((parts.getD 1 "").drop 2).toString
    let validMsg := validHeaderMap T && T.all (fun (kv : List Nat × List (List Nat)) => !connectionSpecific.contains (lower kv.1))
    let fails : List Fail := Id.run do
      let mut fails : List Fail := []
      if implW.startsWith "ok" && validMsg then
        if implP.startsWith "E:" then
          fails := fails ++ [("trailer_output_accepted", "-", s!"trailer writer output rejected by parseTrailers: {implP}")]
        else
          let kept := T.filter (fun (kv : List Nat × List (List Nat)) => !trailerForbidden.contains (lower kv.1) && !(B "if-").isPrefixOf (lower kv.1) && !kv.2.isEmpty)
          let exp : Headers := kept.flatMap fun (kv : List Nat × List (List Nat)) => kv.2.map fun v => (capitalise true (lower kv.1), v)
          if implP != "ok h=" ++ fmtHdrs exp then
            fails := fails ++ [("trailer_roundtrip", "-", s!"decoded trailers differ: got {implP} expected ok h={fmtHdrs exp}")]
      return fails
    (s, { model := s!"w={modelW} | p={modelP}", tags := [if mres.isSome then "trlwrite:ok" else "trlwrite:none"], fails := fails })
  | "resphdr" :: args =>
    let H := parseHdrsOp (argOf args "H")
    let lim := intOf (argOf args "lim")
    let st := intOf (argOf args "st")
    let parts := impl.splitOn " | "
    let implW := ((parts.headD "").drop 2).toString
    let (ifs, iflag) := parseFieldToks ((words implW).drop 1)
    let byNV := fun (a b : List Nat × List Nat) => ltBytes a.1 b.1 || (a.1 == b.1 && ltBytes a.2 b.2)
    let mfs := responseFields st H
    -- same list up to the iteration order of the header map (":status" first)
    -- keys with a byte ≥ 0x80 are lower-cased by Unicode tables (strings.ToLower): outside the model
    let nonAscii := H.any (fun (kv : List Nat × List (List Nat)) => !isASCII kv.1)
    let modelW := if nonAscii then implW
                  else if implW.startsWith "ok" && mfs.head? == ifs.head? && sortBy byNV mfs == sortBy byNV ifs then implW
                  else "ok " ++ " ".intercalate (mfs.map (fmtFieldTok []))
    let modelP := if implW.startsWith "ok" then fmtRspRes (updateResponseFromHeaders (extOf iflag) lim ifs false) else "-"
    let implP := ((parts.getD 1 "").drop 2).toString
    let emitted := H.filter (fun (kv : List Nat × List (List Nat)) => !(B "Trailer:").isPrefixOf kv.1)
    let clVals := (emitted.filter (fun (kv : List Nat × List (List Nat)) => lower kv.1 == B "content-length")).flatMap (·.2)
    let validMsg := validHeaderMap emitted && clVals.length ≤ 1 && clVals.all (fun v => !v.isEmpty && v.all (fun b => 48 ≤ b && b ≤ 57) && decVal v < 2 ^ 63) &&
      100 ≤ st && st ≤ 999
    let fails : List Fail :=
      if validMsg && implW.startsWith "ok" && implP.startsWith "E:" then
        [("response_output_accepted", "-",
          s!"responseWriter.writeHeader output rejected by updateResponseFromHeaders: {implP}")]
      else if validMsg && implP.startsWith "ok" && !implP.startsWith s!"ok code={fmtInt st} " then
        [("response_roundtrip", "-", s!"status differs: {implP} expected {fmtInt st}")]
      else []
    (s, { model := s!"w={modelW} | p={modelP}", tags := ["resphdr"] ++ (if (declaredTrailers H).isEmpty then [] else ["resphdr:declared"]), fails := fails })
  | "respwrite" :: args =>
    let parts := impl.splitOn " | "
    let implW := ((parts.headD "").drop 2).toString
    let lim := intOf (argOf args "lim")
    let st := intOf (argOf args "st")
    let pre := parseHdrsOp (argOf args "pre")
    let post := parseHdrsOp (argOf args "post")
    -- frames the implementation wrote
    let toks := words implW
    let frames : List (String × List String) := Id.run do
      let mut out : List (String × List String) := []
      let mut cur : Option (List String) := none
      for t in toks do
        match cur with
        | none =>
          if t.startsWith "H(" then
            let body := (t.drop 2).toString
            if body.endsWith ")" then
              out := out ++ [("H", [(body.dropEnd 1).toString])]
            else cur := some [body]
          else out := out ++ [(t, [])]
        | some acc =>
          if t.endsWith ")" then
            out := out ++ [("H", acc ++ [(t.dropEnd 1).toString])]
            cur := none
          else cur := some (acc ++ [t])
      return out
    let (modelP, modelT, _, _) := frames.foldl (fun (acc : String × String × Bool × Bool) fr =>
      let (p, t, seenData, seenFinal) := acc
      if fr.1 == "H" then
        let (fs, flagged) := parseFieldToks fr.2
        if !seenFinal && !seenData then
          let isInfo := match fs with
            | f :: _ => f.1 == nStatus && (match f.2 with
                | 49 :: _ => true
                | _ => false)
            | [] => false
          (fmtRspRes (updateResponseFromHeaders (extOf flagged) lim fs false), t, seenData, !isInfo)
        else (p, fmtTrlRes (parseTrailersQ (extOf flagged) lim fs false), seenData, seenFinal)
      else if fr.1.startsWith "D(" then (p, t, true, seenFinal)
      else acc) ("-", "-", false, false)
    let model := if implW.startsWith "E:" then impl else s!"w={implW} | p={modelP} | t={modelT}"
    -- ghost: what the handler set
    let implP := ((parts.getD 1 "").drop 2).toString
    let implT := ((parts.getD 2 "").drop 2).toString
    let clVals := (pre.filter (fun (kv : List Nat × List (List Nat)) => lower kv.1 == B "content-length")).flatMap (·.2)
    let validMsg := validHeaderMap pre && clVals.length ≤ 1
    let declared : List (List Nat) := (pre.filter (fun (kv : List Nat × List (List Nat)) => kv.1 == B "Trailer")).flatMap fun (kv : List Nat × List (List Nat)) =>
      kv.2.flatMap fun v => (splitOn 44 v).map fun x => capitalise true (lower (trimString x))
    let fails : List Fail := Id.run do
      let mut fails : List Fail := []
      if validMsg && !implW.startsWith "E:" then
        if implP.startsWith "E:" then
          fails := fails ++ [("response_output_accepted", "-", s!"response writer output rejected by updateResponseFromHeaders: {implP}")]
        else if implP.startsWith "ok" then
          let expCode : Int := if st ≥ 200 then st else 200
          if !implP.startsWith s!"ok code={fmtInt expCode} " then
            fails := fails ++ [("response_roundtrip", "-", s!"status differs: {implP} expected {fmtInt expCode}")]
          let hs := ((implP.splitOn " h=").getD 1 "").splitOn " tr=" |>.headD ""
          for kv in pre do
            let k := capitalise true (lower kv.1)
            let clash := ((pre ++ post).filter (fun (o : List Nat × List (List Nat)) => lower o.1 == lower kv.1)).length > 1
            -- connection-specific fields and TE cannot be carried over HTTP/3; a writer may only drop them
            let notCarried := connectionSpecific.contains (lower kv.1) || lower kv.1 == B "te"
            if !declared.contains k && !kv.2.isEmpty && k != B "Trailer" && k != B "Content-Length" && !clash && !notCarried then
              let want := hx k ++ ":" ++ ",".intercalate (kv.2.map hx)
              if !(hs.splitOn ";").contains want then
                fails := fails ++ [("response_roundtrip", "-", s!"header {want} missing from decoded response {hs}")]
      let postOk := validHeaderMap (post.map fun (kv : List Nat × List (List Nat)) => (if (B "Trailer:").isPrefixOf kv.1 then kv.1.drop 8 else kv.1, kv.2))
      if validMsg && postOk && implT.startsWith "E:" then
        fails := fails ++ [("response_trailers_accepted", "-", s!"response trailers rejected by parseTrailers: {implT}")]
      return fails
    let tags := ["respwrite"] ++ (if implT != "-" then ["respwrite:trailers"] else []) ++
      (if frames.any (fun (f : String × List String) => f.1.startsWith "D(") then ["respwrite:body"] else []) ++
      (if st < 200 then ["respwrite:1xx"] else [])
    (s, { model := model, tags := tags, fails := fails })
  | _ => (s, { model := "bad-op" })

def main : IO Unit := run { init := ({} : St), step := step }
