import Uquic.Oracle.Frame
import Uquic.Spec.AmpMon
import Uquic.Model.Amp.RecvGlue

/-!
Oracle of the end-to-end support driver `ampe2e` (C14): the property's observable statement
`Uquic.Spec.AmpMon.WireSt.step` is evaluated on the wire events the real server produced; for datagrams the driver
injected (their packets are known exactly from the op text) `Uquic.Model.Recv` predicts how many packets the
connection counts (`pr=`), everything else is echoed.
-/
open Uquic.Oracle Uquic.Spec.AmpMon
open Uquic.Model.Recv (RawPkt Kind)

structure ESt where
  w : WireSt := {}
  retry : Bool := false
  closedLocally : Bool := false
  /-- the server connection's own bytesReceived after the previous op, when exactly one connection existed -/
  prevHr : Option Nat := none
  prevPr : Option Nat := none
  /-- ghost: packets the connection may have accepted so far (every packet of a real client datagram, the authentic new
      packets of injected ones) -/
  maxPkts : Nat := 0
  /-- ghost: bytes of injected datagrams that carry forged long-header packets (they may sit in the connection's buffer) -/
  bufferable : Nat := 0
  /-- ghost: largest excess of the connection's received-bytes counter over the bytes that arrived, seen so far -/
  excess : Nat := 0
  multi : Bool := false

structure WEv where
  isIn : Bool
  size : Nat
  hs : Bool := false
  tok : Bool := false
  injected : Bool := false
  npk : Nat := 0

def parseEv (s : String) : Option WEv :=
  if s.startsWith "i" then
    let rest := (s.drop 1).toString
    let digits := String.ofList (rest.toList.takeWhile Char.isDigit)
    let npk := match rest.splitOn "p" with
      | [_, k] => natOf k
      | _ => 0
    some { isIn := true, size := natOf digits, hs := rest.contains 'H', tok := rest.contains 'T', injected := rest.contains 'J', npk := npk }
  else if s.startsWith "o" then some { isIn := false, size := natOf (s.drop 1).toString }
  else none

/-- the packets of an injected datagram, read off the op text (sizes are not needed for what is predicted) -/
def injectedPkts (w : List String) : Option (List RawPkt) :=
  let ini : RawPkt := { kind := .initial, size := 0, authentic := true }
  let forged (k : Kind) : RawPkt := { kind := k, size := 0, authentic := false }
  match w with
  | ["pinginitial"] => some [ini]
  | ["badinitial"] => some [{ ini with framesOk := false }]
  | ["garbage", _] => some [forged .short]
  | ["forgedhs", _, _] => some [forged .handshake]
  | ["coalesced", kind, k, pad] =>
    let k := natOf k
    let pad := natOf pad
    if kind == "I" then some (List.replicate k ini)
    else if kind == "Z" then some (ini :: List.replicate (k - 1) (forged .zeroRTT))
    else if kind == "H" then some (ini :: List.replicate (k - 1) (forged .handshake))
    else if kind == "Y" then some (List.replicate k (forged .zeroRTT))
    else if kind == "D" then some (ini :: List.replicate (k - 1) { ini with fresh := false })
    else if kind == "G" then some (ini :: (if (k - 1) * pad > 0 then [{ forged .short with headerOk := false }] else []))
    else none
  | _ => none

/-- does the injected datagram carry packets for which the connection may not have keys yet (Handshake, 0-RTT, 1-RTT)? -/
def carriesForgedLong (w : List String) : Bool :=
  match w with
  | ["forgedhs", _, _] => true
  | ["garbage", _] => true
  | ["coalesced", kind, _, _] => kind == "Z" || kind == "H" || kind == "Y"
  | _ => false

def step (s : ESt) (op impl : String) : ESt × StepOut := Id.run do
  let w := words op
  let iw := words impl
  let evs := match iw.findSome? (fun x => if x.startsWith "ev=" then some (x.drop 3).toString else none) with
    | some "-" => []
    | some e => (e.splitOn ",").filterMap parseEv
    | none => []
  let mut s := s
  let mut tags : List String := []
  let mut fails : List (String × String × String) := []
  let opName := w.headD ""
  if opName == "start" then
    s := { s with retry := (w.getD 2 "0") == "1" }
    tags := tags ++ [if s.retry then "start:retry" else "start:plain"]
  if opName == "closeserver" && iw.headD "" == "ok" then
    s := { s with closedLocally := true }
    tags := tags ++ ["close:server"]
  if opName == "badinitial" && iw.headD "" == "ok" then
    s := { s with closedLocally := true }
    tags := tags ++ ["close:badinitial"]
  if opName == "garbage" && iw.headD "" == "ok" then tags := tags ++ ["garbage"]
  if opName == "pinginitial" && iw.headD "" == "ok" then tags := tags ++ ["pinginitial"]
  -- bytes that arrive in this step, and what the connection's own counter says about them afterwards
  let fld (k : String) : Option Nat := (iw.findSome? fun x => if x.startsWith k then some (x.drop k.length).toString else none).bind (·.toNat?)
  let arrivedNow := evs.foldl (fun acc e => if e.isIn then acc + e.size else acc) 0
  match fld "conns=", fld "hr=" with
  | some 1, some hr =>
    let inAfter := s.w.inB + arrivedNow
    if hr > inAfter && hr - inAfter > s.excess then s := { s with excess := hr - inAfter }
  | _, _ => pure ()
  if carriesForgedLong w && iw.headD "" == "ok" then s := { s with bufferable := s.bufferable + arrivedNow }
  -- does the re-credit of buffered packets (known finding) explain a counter that is `x` above the arrivals?
  let recredit (x : Nat) : Bool := x > 0 && x ≤ 2 * s.bufferable
  for e in evs do
    let (isIn, n, hs, tok) := (e.isIn, e.size, e.hs && !e.injected, e.tok && !e.injected)
    if isIn then
      s := { s with w := s.w.step (.inn n) }
      if (hs || (tok && s.retry)) && !s.w.validated then
        s := { s with w := s.w.step .validate }
        tags := tags ++ ["validated"]
    else
      let before := s.w
      s := { s with w := s.w.step (.out n) }
      if !before.validated then
        if belowLimit before.outB before.inB then
          tags := tags ++ [if belowLimit s.w.outB s.w.inB then "out:below" else "out:reaches-limit"]
        else
          -- a datagram left although the budget was exhausted.  Once the connection was closed locally the
          -- only thing the server still writes for it is the CONNECTION_CLOSE datagram (and its retransmissions
          -- by closedLocalConn): that is the listed finding; anything else is a fresh violation.
          let explained := recredit s.excess && belowLimit before.outB (before.inB + s.excess)
          let cls := if s.closedLocally then "close_unaccounted" else if explained then "requeued_credit" else "-"
          tags := tags ++ [if s.closedLocally then "out:close-at-limit" else if explained then "out:on-recredited-budget" else "out:at-limit"]
          fails := fails ++ [("wire_send_at_limit", cls,
            s!"{n} bytes written with sent={before.outB} received={before.inB} (3x = {3 * before.inB}) while the client address is unvalidated")]
        if !s.closedLocally && !boundOk s.w.outB s.w.inB s.w.last then
          let cls := if recredit s.excess && boundOk s.w.outB (s.w.inB + s.excess) s.w.last then "requeued_credit" else "-"
          fails := fails ++ [("wire_amp_bound", cls, s!"sent={s.w.outB} > 3*{s.w.inB} + last datagram {s.w.last}")]
  if opName == "coalesced" && iw.headD "" == "ok" then tags := tags ++ [s!"coalesced:{w.getD 1 "?"}"]
  -- the connection's own accounting against the datagram log: a datagram is credited exactly once
  let realIn := evs.any fun e => e.isIn && !e.injected
  let mut model := impl
  match fld "conns=", fld "hr=" with
  | some conns, some hr =>
    if conns ≥ 1 && hr > s.w.inB then
      let cls := if conns == 1 && recredit (hr - s.w.inB) then "requeued_credit" else "-"
      if cls != "-" then tags := tags ++ ["credited:requeued-again"]
      fails := fails ++ [("datagram_credited_once", cls, s!"the connection credited {hr} received bytes, only {s.w.inB} arrived at the server")]
    if conns == 1 then
      match s.prevHr with
      | some p =>
        -- judged only while the client's address is unvalidated (the phase the property is about): later the
        -- handshake connection IDs are retired and injected datagrams are no longer attributed to the connection
        if !s.retry && !s.closedLocally && !s.w.validated && hr ≠ p + arrivedNow then
          -- more than arrived, in a step in which data of the real client arrived (keys may have been installed), by at
          -- most what sits in the buffer: the second credit of buffered packets (known finding); anything else is fresh
          let cls := if realIn && hr > p + arrivedNow && hr - (p + arrivedNow) ≤ s.bufferable then "requeued_credit" else "-"
          fails := fails ++ [("datagram_credited_once", cls, s!"{arrivedNow} bytes arrived in this step, the connection credited {hr - p}")]
        else tags := tags ++ (if arrivedNow > 0 then ["credited:exact"] else [])
      | none => pure ()
      s := { s with prevHr := some hr }
    else s := { s with prevHr := none }
  | _, _ => s := { s with prevHr := none }
  -- which packets the connection counted (ConnectionStats.PacketsReceived = the handler's ReceivedPacket calls)
  let inj := if iw.headD "" == "ok" then injectedPkts w else none
  let injAccept := match inj with
    | some pkts => (({ h := Uquic.Model.Amp.H.new .server false } : Uquic.Model.Recv.C).datagram 0 pkts).packets
    | none => 0
  let realPkts := evs.foldl (fun acc e => if e.isIn && !e.injected then acc + e.npk else acc) 0
  s := { s with maxPkts := s.maxPkts + injAccept + realPkts }
  match fld "conns=", fld "pr=", fld "hv=" with
  | some conns, some pr, some hv =>
    if conns > 1 then s := { s with multi := true }
    if conns ≥ 1 && hv == 1 && !s.w.validated then
      fails := fails ++ [("validated_without_authenticated_handshake", "-",
        "the server connection counts the client's address as validated although no datagram of the real client containing a Handshake packet (and no Retry token) was delivered to it")]
    if conns == 1 && !s.multi && pr > s.maxPkts then
      fails := fails ++ [("packet_counted_unauthenticated", "-",
        s!"the connection counts {pr} received packets; only {s.maxPkts} packets that it could authenticate arrived")]
    if conns == 1 then
      match s.prevPr, inj with
      | some p, some pkts =>
        -- exact while unvalidated, one connection, nothing but the injected datagram arrived: Model.Recv's count
        if !s.retry && !s.closedLocally && !s.w.validated && !realIn && !pkts.any (fun q => !q.framesOk) then
          let want := p + injAccept
          tags := tags ++ [s!"pr:model:{injAccept}"]
          if pr ≠ want then
            model := " ".intercalate (iw.map fun x => if x.startsWith "pr=" then s!"pr={want}" else x)
      | _, _ => pure ()
      s := { s with prevPr := some pr }
    else s := { s with prevPr := none }
  | _, _, _ => s := { s with prevPr := none }
  if opName == "forgedhs" && iw.headD "" == "ok" then tags := tags ++ [s!"forgedhs:{w.getD 2 "?"}"]
  if opName == "release" && iw.headD "" == "ok" then tags := tags ++ ["release"]
  return (s, { model := model, tags := tags, fails := fails })

def main : IO Unit := run { init := ({} : ESt), step := step }
