import Uquic.Oracle.Frame
import Uquic.Spec.AmpMon

/-!
Oracle of the end-to-end support driver `ampe2e` (C14): there is no model to compare with (the text is
echoed); the property's observable statement `Uquic.Spec.AmpMon.WireSt.step` is evaluated on the wire
events the real server produced.
-/
open Uquic.Oracle Uquic.Spec.AmpMon

structure ESt where
  w : WireSt := {}
  retry : Bool := false
  closedLocally : Bool := false
  /-- the server connection's own bytesReceived after the previous op, when exactly one connection existed -/
  prevHr : Option Nat := none

def parseEv (s : String) : Option (Bool × Nat × Bool × Bool) :=
  -- (isIn, size, hasHandshake, hasToken)
  if s.startsWith "i" then
    let rest := (s.drop 1).toString
    let digits := String.ofList (rest.toList.takeWhile Char.isDigit)
    some (true, natOf digits, rest.contains 'H', rest.contains 'T')
  else if s.startsWith "o" then some (false, natOf (s.drop 1).toString, false, false)
  else none

def step (s : ESt) (op impl : String) : ESt × StepOut := Id.run do
  let w := words op
  let iw := words impl
  let evs := match iw.findSome? (fun x => if x.startsWith "ev=" then some (x.drop 3).toString else none) with
    | some "-" => []
    | some e => (e.splitOn ",").filterMap parseEv
    | none => []
  let mut s := s
  let mut tags : List String := []
  let mut fails : List (String × String × String) := []
  let opName := w.headD ""
  if opName == "start" then
    s := { s with retry := (w.getD 2 "0") == "1" }
    tags := tags ++ [if s.retry then "start:retry" else "start:plain"]
  if opName == "closeserver" && iw.headD "" == "ok" then
    s := { s with closedLocally := true }
    tags := tags ++ ["close:server"]
  if opName == "badinitial" && iw.headD "" == "ok" then
    s := { s with closedLocally := true }
    tags := tags ++ ["close:badinitial"]
  if opName == "garbage" && iw.headD "" == "ok" then tags := tags ++ ["garbage"]
  if opName == "pinginitial" && iw.headD "" == "ok" then tags := tags ++ ["pinginitial"]
  for (isIn, n, hs, tok) in evs do
    if isIn then
      s := { s with w := s.w.step (.inn n) }
      if (hs || (tok && s.retry)) && !s.w.validated then
        s := { s with w := s.w.step .validate }
        tags := tags ++ ["validated"]
    else
      let before := s.w
      s := { s with w := s.w.step (.out n) }
      if !before.validated then
        if belowLimit before.outB before.inB then
          tags := tags ++ [if belowLimit s.w.outB s.w.inB then "out:below" else "out:reaches-limit"]
        else
          -- a datagram left although the budget was exhausted.  Once the connection was closed locally the
          -- only thing the server still writes for it is the CONNECTION_CLOSE datagram (and its retransmissions
          -- by closedLocalConn): that is the listed finding; anything else is a fresh violation.
          let cls := if s.closedLocally then "close_unaccounted" else "-"
          tags := tags ++ [if s.closedLocally then "out:close-at-limit" else "out:at-limit"]
          fails := fails ++ [("wire_send_at_limit", cls,
            s!"{n} bytes written with sent={before.outB} received={before.inB} (3x = {3 * before.inB}) while the client address is unvalidated")]
        if !s.closedLocally && !boundOk s.w.outB s.w.inB s.w.last then
          fails := fails ++ [("wire_amp_bound", "-", s!"sent={s.w.outB} > 3*{s.w.inB} + last datagram {s.w.last}")]
  if opName == "coalesced" && iw.headD "" == "ok" then tags := tags ++ [s!"coalesced:{w.getD 1 "?"}"]
  -- the connection's own accounting against the datagram log: a datagram is credited exactly once
  let fld (k : String) : Option Nat := (iw.findSome? fun x => if x.startsWith k then some (x.drop k.length).toString else none).bind (·.toNat?)
  let arrivedNow := evs.foldl (fun acc (isIn, n, _, _) => if isIn then acc + n else acc) 0
  match fld "conns=", fld "hr=" with
  | some conns, some hr =>
    if conns ≥ 1 && hr > s.w.inB then
      fails := fails ++ [("datagram_credited_once", "-", s!"the connection credited {hr} received bytes, only {s.w.inB} arrived at the server")]
    if conns == 1 then
      match s.prevHr with
      | some p =>
        -- judged only while the client's address is unvalidated (the phase the property is about): later the
        -- handshake connection IDs are retired and injected datagrams are no longer attributed to the connection
        if !s.retry && !s.closedLocally && !s.w.validated && hr ≠ p + arrivedNow then
          fails := fails ++ [("datagram_credited_once", "-", s!"{arrivedNow} bytes arrived in this step, the connection credited {hr - p}")]
        else tags := tags ++ (if arrivedNow > 0 then ["credited:exact"] else [])
      | none => pure ()
      s := { s with prevHr := some hr }
    else s := { s with prevHr := none }
  | _, _ => s := { s with prevHr := none }
  return (s, { model := impl, tags := tags, fails := fails })

def main : IO Unit := run { init := ({} : ESt), step := step }
