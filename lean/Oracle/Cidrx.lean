import Uquic.Oracle.Frame
import Uquic.Model.ConnID.Receive
import Uquic.Spec.CidRxMon

/-!
Oracle of driver `cidrx` (property C16): one real Transport (routing tables) and one real connection; datagrams take
the real way Transport.handlePacket -> Conn.handlePacket -> handlePackets -> handleOnePacket -> unpacker.
Model: `Uquic.Model.ConnID.Receive` on top of `Generator` and `Routing`; monitors `Uquic.Spec.CidRxMon`.
-/

open Uquic.Oracle Uquic.Model.ConnID Uquic.Spec.CidRxMon

def hexVal (c : Char) : Nat :=
  if '0' ≤ c ∧ c ≤ '9' then c.toNat - 48
  else if 'a' ≤ c ∧ c ≤ 'f' then c.toNat - 87
  else if 'A' ≤ c ∧ c ≤ 'F' then c.toNat - 55 else 0

def unhxChars : List Char → Bytes
  | a :: b :: rest => (hexVal a * 16 + hexVal b) :: unhxChars rest
  | _ => []

def unhx (s : String) : Bytes := if s == "-" || s == "" then [] else unhxChars s.toList

def insertBy {α} (lt : α → α → Bool) (x : α) : List α → List α
  | [] => [x]
  | y :: ys => if lt x y then x :: y :: ys else y :: insertBy lt x ys

def sortBy {α} (lt : α → α → Bool) (l : List α) : List α :=
  l.reverse.foldl (fun acc x => insertBy (fun a b => !lt b a) x acc) []

def bytesLt : Bytes → Bytes → Bool
  | [], [] => false
  | [], _ :: _ => true
  | _ :: _, [] => false
  | a :: as, b :: bs => if a < b then true else if a > b then false else bytesLt as bs

/-- the driver's ConnectionIDGenerator -/
def mkID (len : Nat) (k : Nat) : Bytes :=
  (List.range len).map fun i => if i = 0 then (128 + k) % 256 else (i * 17 + k / 128) % 256

def fmtRoutes (r : Routing) : String :=
  let hs := sortBy (fun (a b : Bytes × Handler) => bytesLt a.1 b.1) r.handlers
  let kind : Handler → String
    | .conn c => (if c == 0 then "conn" else "conn2") | .closedLocal _ => "local" | .closedRemote => "remote"
  if hs.isEmpty then "none" else "/".intercalate (hs.map fun kv => s!"{hx kv.1}:{kind kv.2}")

def fmtRes : Res → String
  | .ok => "ok"
  | .panic => "PANIC"
  | .err .protocolViolation => "E:PROTOCOL_VIOLATION"
  | .err _ => "E:other"

structure St where
  inited : Bool := false
  closed : Bool := false
  c : RxConn := { idLen := 0, server := false, hsDest := [] }
  g : Generator := Generator.new 0 [] none
  r : Routing := {}

def parsePkt (s : String) : Option Pkt :=
  if s.startsWith "S." then some { long := false, dcid := unhx (s.drop 2).toString }
  else if s.startsWith "L" then
    match ((s.drop 1).toString).splitOn "." with
    | [t, v, d, sc, tr] =>
      let trunc := natOf tr
      some { long := true, typ := natOf t, ver := natOf v, dcid := unhx d, scid := unhx sc,
             cidOK := trunc != 2, hdrOK := trunc == 0 }
    | _ => none
  else none

/-- packets behind a truncated or a short header packet are not part of the datagram -/
def cutDatagram : List Pkt → List Pkt
  | [] => []
  | p :: rest => if !p.long || !p.hdrOK then [p] else p :: cutDatagram rest

def fmtSeen (l : List Seen) : String :=
  if l.isEmpty then "none" else ",".intercalate (l.map fun s => if s.long then s!"L{s.typ}:{hx s.dcid}" else s!"S:{hx s.dcid}")

def parseSeen (s : String) : List Seen :=
  if s == "none" then [] else (s.splitOn ",").filterMap fun e =>
    match e.splitOn ":" with
    | [k, d] => if k == "S" then some ⟨false, 0, unhx d⟩ else some ⟨true, natOf (k.drop 1).toString, unhx d⟩
    | _ => none

def field (ws : List String) (key : String) : Option String :=
  ws.findSome? fun w => if w.startsWith key then some (w.drop key.length).toString else none

def parseRoutes (ws : List String) : List (Bytes × String) :=
  match field ws "rt=" with
  | some "none" | none => []
  | some s => (s.splitOn "/").filterMap fun e =>
      match e.splitOn ":" with
      | [i, kd] => some (unhx i, kd)
      | _ => none

def applyEvs (r : Routing) (evs : List GEv) : Routing := evs.foldl Routing.applyG r

def step (s : St) (op impl : String) : St × StepOut :=
  if impl == "skip" then (s, { model := "skip", tags := [] }) else
  let w := words op
  let iw := words impl
  let fin (s' : St) (head : String) (tags : List String) (fails : List (String × String × String) := []) : St × StepOut :=
    (s', { model := s!"{head} | rt={fmtRoutes s'.r}", tags := tags, fails := fails })
  match w with
  | ["new", kind, l, ini, dst] =>
    let L := natOf l
    let initial := unhx ini
    let dest := unhx dst
    let server := kind == "server"
    let g := Generator.new L initial (if server then some dest else none)
    let r : Routing := if server then { handlers := [(dest, .conn 0), (initial, .conn 0)] } else { handlers := [(initial, .conn 0)] }
    let c : RxConn := { idLen := L, server := server, hsDest := if server then [0xc1, 0xc1, 0xc1, 0xc1] else dest }
    fin { inited := true, c := c, g := g, r := r } "ok" [s!"new:{kind}", s!"idlen:{if L == 0 then "zero" else "nonzero"}"]
  | ["foreign", i] =>
    let id := unhx i
    match lookupH id s.r.handlers with
    | some _ => fin s "refused" ["foreign:refused"]
    | none => fin { s with r := { s.r with handlers := s.r.handlers ++ [(id, .conn 1)] } } "ok" ["foreign:ok"]
  | ["limit", n] =>
    let x := s.g.setMaxActiveConnIDs (mkID s.c.idLen) (natOf n)
    fin { s with g := x.1, r := applyEvs s.r x.2 } "ok" [if x.2.isEmpty then "limit:none" else "limit:issued"]
  | ["retire", sq, d, e] =>
    let x := s.g.retire (mkID s.c.idLen) (natOf sq) (unhx d) (intOf e)
    fin { s with g := x.1, r := applyEvs s.r x.2.1 } (fmtRes x.2.2)
      [match x.2.2 with | .ok => (if x.2.1.isEmpty then "retire:noop" else "retire:ok") | _ => "retire:err"]
  | ["hsdone", e] =>
    fin { s with g := s.g.setHandshakeComplete (intOf e) } "ok" ["hsdone"]
  | ["expire", n] =>
    let x := s.g.removeRetiredConnIDs (intOf n)
    fin { s with g := x.1, r := applyEvs s.r x.2 } "ok" [if x.2.isEmpty then "expire:none" else "expire:removed"]
  | ["removeall"] =>
    fin { s with closed := true, r := applyEvs s.r s.g.removeAll } "ok" ["removeall"]
  | ["dgram", _, ps] =>
    match (ps.splitOn "/").mapM parsePkt with
    | none => (s, { model := "skip" })
    | some raw =>
      let pkts := cutDatagram raw
      let by_ := routeID s.c.idLen pkts
      let dst := match by_ with
        | none => "none"
        | some id => match lookupH id s.r.handlers with
          | some (.conn 0) => "conn"
          | some (.conn _) => "conn2"
          | _ => "none"
      let x := if dst == "conn" then s.c.datagram pkts else (s.c, [])
      -- monitors on what the implementation printed
      let implTo := (field iw "to=").getD "?"
      let implRx := parseSeen ((field iw "rx=").getD "none")
      let fails := if impl.startsWith "to=" then judge s.c.idLen pkts (parseRoutes iw) implTo implRx else []
      let firstForm := match pkts with | p :: _ => (if p.long then "long" else "short") | [] => "empty"
      let tags := [s!"dgram:to-{dst}", s!"dgram:first-{firstForm}", s!"dgram:packets-{min pkts.length 3}",
        s!"dgram:seen-{min x.2.length 3}"] ++
        (if pkts.length > x.2.length && dst == "conn" then ["dgram:some-dropped"] else []) ++
        (if x.2.any (fun q => !q.long) && x.2.length > 1 then ["dgram:long-then-short"] else [])
      fin { s with c := x.1 } s!"to={dst} rx={fmtSeen x.2} err=-" tags fails
  | _ => (s, { model := "skip" })

def main : IO Unit := run { init := ({} : St), step := step }
