/-
Oracle of the h3w driver (property C18, round 4): the shared request writer of a client connection
under concurrent, piecewise consumed stream writes.  The model is `Uquic.Model.H3.ReqWriter` with
`alias = false`; QPACK is not modelled — the bytes a call enters `Write` with are a witness
(`held:<hex>`), what each stream consumes afterwards is predicted from them.

Monitors (ghost state from the op lines and the witness only):
* `write_slice_stable` — the bytes a stream consumes are the bytes `Write` was entered with;
* `concurrent_headers_intact` — what stream i consumed decodes to request i's own :method, :path and
  x-* fields (and its own trailer sections), whatever was encoded in between.
-/
import Uquic.Oracle.Frame
import Uquic.Model.H3.ReqWriter

open Uquic.Oracle Uquic.Model.H3.ReqWriter

def hexVal (c : Char) : Nat :=
  if '0' ≤ c && c ≤ '9' then c.toNat - 48 else if 'a' ≤ c && c ≤ 'f' then c.toNat - 87 else 0

def unhexChars : List Char → List Nat
  | a :: b :: rest => (hexVal a * 16 + hexVal b) :: unhexChars rest
  | _ => []

def unhex (s : String) : List Nat := unhexChars s.toList

def hexChar (n : Nat) : Char := if n < 10 then Char.ofNat (48 + n) else Char.ofNat (87 + n)
def hexOf (b : List Nat) : String := String.ofList (b.flatMap fun x => [hexChar (x / 16), hexChar (x % 16)])

def getKey (fs : List String) (key : String) : String :=
  (fs.findSome? fun w => if w.startsWith (key ++ "=") then some (w.drop (key.length + 1)).toString else none).getD ""

def expandVal (v : String) : String :=
  if v.startsWith "*" then
    match (v.drop 1).toString.splitOn "." with
    | [a, b] => String.ofList (List.replicate (natOf a) (Char.ofNat (97 + natOf b % 26)))
    | _ => v
  else v

/-- `k:v,k:v` → the `k=v` strings of the x-* fields, sorted -/
def xFields (s : String) : List String :=
  if s == "-" || s == "" then []
  else
    let l := (s.splitOn ",").filterMap fun p =>
      match p.splitOn ":" with
      | k :: rest@(_ :: _) => if k.startsWith "x-" then some (k ++ "=" ++ expandVal (":".intercalate rest)) else none
      | _ => none
    l.mergeSort (fun a b => !(b < a))

structure Req where
  running : Bool := false
  /-- number of Write calls entered so far (the current one is `nw - 1`) -/
  nw : Nat := 0
  /-- expected decoding of what the stream consumed: one entry per HEADERS frame -/
  frames : List String := []
deriving Inhabited

structure St where
  sw : SW := {}
  frame : Nat → List Nat := fun _ => []
  reqs : List (Nat × Req) := []

def St.req (s : St) (i : Nat) : Option Req := s.reqs.lookup i
def St.setReq (s : St) (i : Nat) (r : Req) : St := { s with reqs := (i, r) :: s.reqs.filter (·.1 != i) }

def wid (i n : Nat) : Nat := i * 64 + n

abbrev Fail := String × String × String

/-- the state a call is in after it was started or after its buffer was consumed: the implementation's
    answer is a witness (`held:<hex>`: entered Write (again), `done:<frames>`: returned) -/
def afterWait (s : St) (i : Nat) (r : Req) (st : String) : St × String × List String × List Fail :=
  if st.startsWith "held:" then
    let bs := unhex (st.drop 5).toString
    let id := wid i r.nw
    let fr := fun j => if j = id then bs else s.frame j
    let sw := s.sw.step false fr (.enc id)
    (({ s with sw := sw, frame := fr }).setReq i { r with running := true, nw := r.nw + 1 }, st, ["write:enter"], [])
  else if st.startsWith "done:" then
    let want := "~|~".intercalate (r.frames.map fun f => "H~" ++ f)
    let got := (st.drop 5).toString
    let fails := if got != want then
      [("concurrent_headers_intact", "-", s!"stream {i} consumed `{got}`, request {i} is `{want}`")] else []
    (s.setReq i { r with running := false }, st, ["call:returned"], fails)
  else
    (s.setReq i { r with running := false }, "held:<bytes>", ["call:other"], [])

def step (s : St) (op impl : String) : St × StepOut :=
  match words op with
  | "hdr" :: is :: rest =>
    let i := natOf is
    match s.req i with
    | some _ => (s, { model := "skip", tags := ["hdr:dup"] })
    | none =>
      let desc := ",".intercalate ([":method=" ++ getKey rest "m", ":path=" ++ getKey rest "p"] ++ xFields (getKey rest "h"))
      let (s1, m, tags, fails) := afterWait s i { frames := [desc] } impl
      (s1, { model := m, tags := "hdr" :: tags, fails := fails })
  | "trl" :: is :: rest =>
    let i := natOf is
    match s.req i with
    | none => (s, { model := "skip", tags := ["trl:unknown"] })
    | some r =>
      if r.running then (s, { model := "skip", tags := ["trl:busy"] })
      else
        let desc := ",".intercalate (xFields (getKey rest "t"))
        let (s1, m, tags, fails) := afterWait s i { r with frames := r.frames ++ [desc] } impl
        (s1, { model := m, tags := "trl" :: tags, fails := fails })
  | ["take", is, ks] =>
    let i := natOf is
    let k := natOf ks
    match s.req i with
    | none => (s, { model := "skip", tags := ["take:unknown"] })
    | some r =>
      if !r.running || r.nw == 0 then (s, { model := "skip", tags := ["take:idle"] })
      else
        let id := wid i (r.nw - 1)
        let piece := s.sw.piece false id k
        let sw := s.sw.step false s.frame (.take id k)
        let s1 := { s with sw := sw }
        let others := s.reqs.any fun (j, q) => j != i && q.running
        let implPiece := match words impl with
          | "got" :: h :: _ => h
          | _ => "?"
        let fails1 : List Fail := if implPiece != hexOf piece then
          [("write_slice_stable", "-", s!"stream {i} consumed `{implPiece}` at offset {(s.sw.slot id).off}; Write was entered with `{hexOf piece}` there")] else []
        if sw.complete id then
          let st := match words impl with
            | "got" :: _ :: st :: _ => st
            | _ => ""
          let (s2, m, tags, fails) := afterWait s1 i r st
          (s2, { model := s!"got {hexOf piece} {m}", tags := ["take:last"] ++ (if others then ["take:while-others-pending"] else []) ++ tags,
                 fails := fails1 ++ fails })
        else
          (s1, { model := s!"got {hexOf piece} more", tags := ["take:part"] ++ (if others then ["take:while-others-pending"] else []), fails := fails1 })
  | _ => (s, { model := "bad-op" })

def main : IO Unit := run { init := ({} : St), step := step }
