import Uquic.Oracle.Frame
import Uquic.Model.Cong.Sender
import Uquic.Model.Cong.Glue
import Uquic.Spec.CongMon

/-!
Oracle of the `congh` driver (property C20, glue): the real sentPacketHandler (client or server, ECN
on or off, all three packet number spaces) with a recording proxy in front of its congestion controller.

  init <mds> <ecn> <client> <confirmed> <initial pn>       => ok
  send <lvl> <t> <size> <ae> <kind>                        => pn=<pn> e=<ecn codepoint> | skip   (PopPacketNumber, ECNMode, SentPacket)
       lvl: i Initial, h Handshake, z 0-RTT, a 1-RTT;  kind: 0 ordinary, 1 Path MTU probe, 2 path probe
  ack <lvl> <t> <delayNs> <ect0> <ect1> <ce> r=<lo-hi;…>   => ok|err|skip                        (ReceivedAck)
  timeout <t>                                              => ok|err|skip                        (OnLossDetectionTimeout if armed and due)
  mds <m>                                                  => ok                                 (SetMaxDatagramSize)
  migrate <t> <mds>                                        => ok|skip                            (MigratedPath)
  drop <i|h|z> <t>                                         => ok|skip                            (DropPackets)
  retry <t>                                                => ok|skip                            (ResetForRetry)
  qprobe <lvl>                                             => 1|0|skip                           (QueueProbePacket)
  mode <t>                                                 => any|pacing|ack|none|pto-…          (SendMode)
suffix: ` | w=<cwnd> bif=<bytesInFlight> ss=<0|1> calls=<c,c,…|-> lost=<key;…|-> trk=<key;…|-> pp=<pn;…|-> ph=<pn;…|-> r=<latest>,<min>,<srtt>`
key = level letter of the space (i, h, a) and packet number.
calls: S:t:pn:bytes:ae:bif  X  C:pn:bytes:prior  A:pn:bytes:prior  M:m  — what the handler called on the controller.
Environment taken from the implementation's output: pn / ECN codepoint of a send, which packets left
the histories without being acknowledged (loss detection), the outstanding path probes and their
placeholders, the RTT triple, whether a CE event was raised at all.  PREDICTED by the model: every
call on the controller, the window, the bytes in flight, the `OnLost` callbacks (`lost=`), the tracked set.
-/

open Uquic.Oracle Uquic.Model.Cong Uquic.Spec.CongMon

structure SentRec where
  sp : Nat
  pn : Int
  size : Nat
  ae : Bool
  zero : Bool
  mtu : Bool
  probe : Bool
  /-- not yet acknowledged, reported lost or written off -/
  live : Bool := true

structure HGhost where
  mds : Nat := 1252
  ecn : Bool := false
  sent : List SentRec := []
  /-- the last ack-eliciting packet reported to the controller (its `largestSentPacketNumber`) -/
  lastAE : Int := -1
  lastAESp : Nat := 2
  /-- mirror of the ECN tracker's inputs: largest acknowledged and CE count of the last ACK frame that
      newly acknowledged something and raised the largest acknowledged -/
  gLargestAcked : Int := -1
  gCE : Nat := 0
  /-- what the implementation printed on the previous line -/
  prevTrk : List (Nat × Int) := []
  prevPP : List Int := []
  prevPH : List Int := []
  prevSS : Bool := true
  /-- `lastAE` when a congestion event above the previous mark was last reported -/
  markPN : Int := -1
  lastW : Option Nat := none

/-- the bytes really outstanding: ack-eliciting packets (no path probes) handed to the handler and
neither acknowledged, nor reported lost, nor written off by a reset -/
def HGhost.outstanding (h : HGhost) : Nat :=
  h.sent.foldl (fun a r => if r.live && r.ae && !r.probe then a + r.size else a) 0

def HGhost.kill (h : HGhost) (f : SentRec → Bool) : HGhost :=
  { h with sent := h.sent.map fun r => if f r then { r with live := false } else r }

structure St where
  g : Glue := { s := Sender.new 1252 Rtt.default }
  h : HGhost := {}

def b2s (b : Bool) : String := if b then "1" else "0"

def fieldOf (impl : String) (key : String) : Option String :=
  (words impl).findSome? fun w => if w.startsWith key then some (w.drop key.length).toString else none

def parseInts (s : String) : List Int :=
  if s == "-" || s == "" then [] else (s.splitOn ";").filterMap (·.toInt?)

def spOfLetter (c : String) : Option Nat :=
  if c == "i" then some 0 else if c == "h" then some 1 else if c == "a" || c == "z" then some 2 else none

def letterOf (sp : Nat) : String := if sp == 0 then "i" else if sp == 1 then "h" else "a"

def parseKeys (s : String) : List (Nat × Int) :=
  if s == "-" || s == "" then [] else
  (s.splitOn ";").filterMap fun k =>
    match spOfLetter (k.take 1).toString, (k.drop 1).toString.toInt? with
    | some sp, some pn => some (sp, pn)
    | _, _ => none

def parseRanges (s : String) : List (Int × Int) :=
  if s == "-" || s == "" then [] else
  (s.splitOn ";").filterMap fun r =>
    -- lo-hi with non-negative numbers
    match r.splitOn "-" with
    | [a, b] => match a.toInt?, b.toInt? with
      | some x, some y => some (x, y)
      | _, _ => none
    | _ => none

def parseRtt (impl : String) : Option Rtt :=
  match fieldOf impl "r=" with
  | some v => match v.splitOn "," with
    | [a, b, c] => match a.toInt?, b.toInt?, c.toInt? with
      | some x, some y, some z => some { latest := x, min := y, srtt := z }
      | _, _, _ => none
    | _ => none
  | none => none

/-- `nb` = the handler's counter when `OnPacketSent` is called -/
def fmtCall (nb : Nat) : Call → String
  | .sent t pn b ae => s!"S:{t}:{pn}:{b}:{b2s ae}:{nb}"
  | .exitSS => "X"
  | .cong pn b p => s!"C:{pn}:{b}:{p}"
  | .acked pn b p => s!"A:{pn}:{b}:{p}"
  | .mds m => s!"M:{m}"

def fmtCalls (nb : Nat) (cs : List Call) : String := if cs.isEmpty then "-" else ",".intercalate (cs.map (fmtCall nb))

def fmtInts (l : List Int) : String := if l.isEmpty then "-" else ";".intercalate (l.map toString)

def keyLe (a b : Nat × Int) : Bool := a.1 < b.1 || (a.1 == b.1 && a.2 ≤ b.2)

def insertKey (k : Nat × Int) : List (Nat × Int) → List (Nat × Int)
  | [] => [k]
  | x :: r => if keyLe k x then k :: x :: r else x :: insertKey k r

def sortKeys (l : List (Nat × Int)) : List (Nat × Int) := l.foldl (fun acc k => insertKey k acc) []

def fmtKeys (l : List (Nat × Int)) : String :=
  if l.isEmpty then "-" else ";".intercalate ((sortKeys l).map fun k => letterOf k.1 ++ toString k.2)

/-- parse the implementation's recorded calls -/
def parseCalls (s : String) : List (String × List Int) :=
  if s == "-" || s == "" then [] else
  (s.splitOn ",").map fun c =>
    match c.splitOn ":" with
    | k :: rest => (k, rest.filterMap (·.toInt?))
    | [] => ("?", [])

/-- `lost` = the `OnLost` callbacks the model predicts; `ph` is environment and echoed -/
def suffix (g : Glue) (calls : List Call) (lost : List (Nat × Int)) (ph : List Int) (r : Rtt) : String :=
  let trk := (g.out.filter (!·.probe)).map (·.key)
  let pp := (g.out.filter (·.probe)).map (·.pn)
  s!" | w={g.s.cwnd} bif={g.bytesInFlight} ss={b2s g.s.inSlowStart} calls={fmtCalls g.bytesInFlight calls} lost={fmtKeys lost} trk={fmtKeys trk} pp={fmtInts pp} ph={fmtInts ph} r={r.latest},{r.min},{r.srtt}"

/-- monitors on the window as seen through the handler.  `events` = the packet numbers a congestion
event may be reported for (lost outstanding packets; the largest acknowledged when the CE count rose).
The ghost mark never exceeds the controller's cut-back mark: it moves to the last ack-eliciting packet
sent when the window visibly went down; when a reduction was possible but not visible (window at its
minimum, ECN validation failed, …) it can only move down (packet numbers of different spaces mix). -/
def windowMonitors (h : HGhost) (kind : String) (w' : Nat) (events : List Int) : HGhost × List Fail :=
  let bounds : List Fail :=
    (if w' < 2 * h.mds then [("h_cwnd_lower_bound", "-", s!"cwnd={w'} < 2*{h.mds}")] else []) ++
    (if w' > maxCwndPackets * h.mds + h.mds then [("h_cwnd_upper_bound", "-", s!"cwnd={w'} mds={h.mds}")] else [])
  let trigger := events.any fun pn => decide (pn > h.markPN)
  match h.lastW with
  | none => ({ h with lastW := some w', markPN := if trigger then Min.min h.markPN h.lastAE else h.markPN }, bounds)
  | some w =>
    let f : List Fail :=
      (if w' < w ∧ !trigger then
        [("h_shrinks_once_per_window", "-", s!"cwnd {w} -> {w'} on {kind}: no packet above {h.markPN} (last ack-eliciting packet sent at the previous reduction) was lost or CE-marked")]
       else []) ++
      (if w' > w ∧ kind ≠ "ack" ∧ kind ≠ "mds" then [("h_growth_without_ack", "-", s!"cwnd {w} -> {w'} on {kind}")] else [])
    let mark := if w' < w then h.lastAE else if trigger then Min.min h.markPN h.lastAE else h.markPN
    ({ h with lastW := some w', markPN := mark }, bounds ++ f)

/-- "shrinks at most once per window of packets": one ACK frame / one loss-timer expiry reports losses of
ONE window, so the window after it is never below a single Reno reduction of the window before it.
Known finding `cross_space_packet_numbers`: the controller's once-per-window guard compares packet
numbers, and the handler reports packets of all three packet number spaces with their own numbers; when
the last ack-eliciting packet sent belongs to another space and has a smaller number than the lost
packets, every lost packet of the frame cuts the window again. -/
def oneReductionMonitor (h0 : HGhost) (kind : String) (w0 : Option Nat) (w' : Option Nat) (evSp : Nat) (events : List Int) : List Fail :=
  match w0, w' with
  | some w, some w' =>
    if w' < renoCut w then
      let cross := h0.lastAESp != evSp && events.any fun pn => decide (pn > h0.lastAE)
      [("h_one_reduction_per_ack", if cross then "cross_space_packet_numbers" else "-",
        s!"cwnd {w} -> {w'} on one {kind}: below a single reduction ({renoCut w}); last ack-eliciting packet sent: {letterOf h0.lastAESp}{h0.lastAE}, congestion events for {letterOf evSp}{fmtInts events}")]
    else []
  | _, _ => []

/-- the handler's counter against the bytes really outstanding -/
def bifMonitor (h : HGhost) (impl : String) (kind : String) : List Fail :=
  match (fieldOf impl "bif=").map natOf with
  | some b => if b ≠ h.outstanding then
      [("h_bytes_in_flight", "-", s!"after {kind} the handler counts {b} bytes in flight; sent and neither acknowledged, lost nor written off: {h.outstanding}")]
    else []
  | none => []

/-- packets that left the tracked set other than by this ACK (environment: loss detection) -/
def goneOf (g : Glue) (newly : Pkt → Bool) (trk : List (Nat × Int)) (pp : List Int) : List (Nat × Int) :=
  (g.out.filter fun p => !newly p && (if p.probe then !pp.contains p.pn else !trk.contains p.key)).map (·.key)

/-- is the lost packet one whose loss is reported to the controller -/
def reportedLoss (h : HGhost) (k : Nat × Int) : Bool :=
  h.sent.any fun r => r.sp == k.1 && r.pn == k.2 && r.ae && !r.mtu && !r.probe

def lossCallMonitor (h : HGhost) (implLost : List (Nat × Int)) (c : String × List Int) : Option Fail :=
  let pn := c.2.getD 0 0
  let b := c.2.getD 1 0
  match h.sent.find? (fun r => r.pn == pn && implLost.contains (r.sp, r.pn) && r.live) with
  | none => some ("glue_loss_event_pn", "-", s!"loss event for packet {pn} which was not declared lost, or was resolved before ({fmtKeys implLost})")
  | some r =>
    if r.mtu then some ("glue_mtu_probe_loss_event", "-", s!"the loss of Path MTU probe packet {pn} was reported to the congestion controller")
    else if r.probe then some ("glue_loss_event_pn", "-", s!"the loss of path probe packet {pn} was reported to the congestion controller")
    else if !r.ae ∨ (r.size : Int) ≠ b then some ("glue_loss_event_pn", "-", s!"loss event for packet {pn} with {b} bytes: no such ack-eliciting packet was sent")
    else none

def priorMonitor (prior : Nat) (cs : List (String × List Int)) : List Fail :=
  cs.filterMap fun c =>
    if (c.1 == "C" || c.1 == "A") && c.2.getD 2 0 ≠ (prior : Int) then
      some ("glue_prior_in_flight", "-", s!"{c.1}:{c.2.getD 0 0} reported with priorInFlight={c.2.getD 2 0}; outstanding before the operation: {prior}")
    else none

def setPrev (p : St × StepOut) (impl : String) : St × StepOut :=
  ({ p.1 with h := { p.1.h with prevTrk := parseKeys ((fieldOf impl "trk=").getD "-"),
                                prevPP := parseInts ((fieldOf impl "pp=").getD "-"),
                                prevPH := parseInts ((fieldOf impl "ph=").getD "-"),
                                prevSS := (fieldOf impl "ss=").getD "1" == "1" } }, p.2)

def stepCore (st : St) (op impl : String) : St × StepOut :=
  let w := words op
  let implHead := (words impl).headD ""
  let implW := (fieldOf impl "w=").map natOf
  let implCalls := parseCalls ((fieldOf impl "calls=").getD "-")
  let implLost := parseKeys ((fieldOf impl "lost=").getD "-")
  let implTrk := parseKeys ((fieldOf impl "trk=").getD "-")
  let implPP := parseInts ((fieldOf impl "pp=").getD "-")
  let implPH := parseInts ((fieldOf impl "ph=").getD "-")
  let rtt := (parseRtt impl).getD st.g.s.rtt
  let g0 : Glue := { st.g with s := { st.g.s with rtt := rtt } }
  let prior := st.h.outstanding
  -- an operation the driver turned into a no-op
  let skip (kind : String) : St × StepOut :=
    let (h, f2) := match implW with | some x => windowMonitors st.h kind x [] | none => (st.h, [])
    ({ g := g0, h := h }, { model := implHead ++ suffix g0 [] [] implPH rtt, tags := [kind ++ ":" ++ implHead], fails := f2 ++ bifMonitor h impl kind })
  match w with
  | "init" :: m :: e :: _ =>
    let m := natOf m
    let g : Glue := { s := { (Sender.new m Rtt.default) with rtt := rtt } }
    let h : HGhost := { mds := m, ecn := e == "1" }
    let (h, f) := match implW with | some x => windowMonitors h "init" x [] | none => (h, [])
    ({ g := g, h := h }, { model := "ok" ++ suffix g [] [] [] rtt, tags := ["init"], fails := f ++ bifMonitor h impl "init" })
  | ["send", lvl, t, size, ae, kind] =>
    if implHead == "skip" then skip "send" else
    let t := intOf t; let size := natOf size; let ae := ae == "1"
    let sp := (spOfLetter lvl).getD 2
    let zero := lvl == "z"; let mtu := kind == "1"; let probe := kind == "2"
    let pn := ((fieldOf impl "pn=").map intOf).getD (st.g.largestSent + 1)
    let e := (fieldOf impl "e=").getD "0"
    let (g, calls) := g0.send t pn size ae sp zero mtu probe
    let h := { st.h with sent := st.h.sent ++ [{ sp := sp, pn := pn, size := size, ae := ae, zero := zero, mtu := mtu, probe := probe }],
                         lastAE := if ae && !probe then pn else st.h.lastAE,
                         lastAESp := if ae && !probe then sp else st.h.lastAESp }
    -- glue monitor: a path probe is not reported; anything else by exactly one OnPacketSent with this
    -- packet and the bytes outstanding including it
    let f : List Fail :=
      if probe then
        (if implCalls.isEmpty then [] else [("glue_sent_call", "-", "a path probe packet was reported to the congestion controller: calls=" ++ (fieldOf impl "calls=").getD "-")])
      else match implCalls with
      | [("S", [t', pn', b', ae', nb'])] =>
          (if t' = t ∧ pn' = pn ∧ b' = size ∧ (ae' = 1) = ae then [] else
            [("glue_sent_call", "-", s!"OnPacketSent({t'},{pn'},{b'},{ae'}) for packet {pn} size {size}")]) ++
          (if nb' = (h.outstanding : Int) then [] else
            [("glue_prior_in_flight", "-", s!"OnPacketSent for packet {pn} reported with bytesInFlight={nb'}; outstanding including it: {h.outstanding}")])
      | _ => [("glue_sent_call", "-", "calls=" ++ (fieldOf impl "calls=").getD "-")]
    let (h, f2) := match implW with | some x => windowMonitors h "send" x [] | none => (h, [])
    let modelText := "pn=" ++ toString pn ++ " e=" ++ e ++ suffix g calls [] implPH rtt
    let tags := [(if probe then "send:pathprobe" else if mtu then "send:mtuprobe" else if ae then "send:ae" else "send:ackonly"),
                 "send:" ++ lvl, "ecn:" ++ e]
    ({ g := { g with ph := implPH }, h := h }, { model := modelText, tags := tags, fails := f ++ f2 ++ bifMonitor h impl "send" })
  | ["ack", lvl, _t, _d, _e0, _e1, ce, rs] =>
    if implHead == "skip" then skip "ack" else
    let sp := (spOfLetter lvl).getD 2
    let ce := natOf ce
    let ranges := parseRanges (rs.drop 2).toString
    let largest := largestOf ranges
    if (sp == 2 && largest > st.g.largestSent) ∨ implHead == "err" then
      let (h, f2) := match implW with | some x => windowMonitors st.h "ack-err" x [] | none => (st.h, [])
      ({ g := g0, h := h }, { model := "err" ++ suffix g0 [] [] implPH rtt, tags := ["ack:err"], fails := f2 ++ bifMonitor h impl "ack-err" })
    else
      let congested := implCalls.any fun c => c.1 == "C" && (c.2.getD 1 1) == 0
      let isNew := g0.isNewly sp ranges
      let anyNew := g0.out.any isNew
      let gone := if anyNew then goneOf g0 isNew implTrk implPP else []
      let (g, calls) := g0.ack ranges congested gone sp implPH
      let g := { g with ph := implPH }
      let mLost := if anyNew then (g0.out.filter fun p => !isNew p && p.ae && gone.contains p.key).map (·.key) else []
      -- ghost / glue monitors, from the op and the implementation's outputs only
      let newlyNonEmpty := (st.h.prevTrk.any fun k => k.1 == sp && covered ranges k.2) ||
        (sp == 2 && st.h.prevPP.any fun p => covered ranges p && st.h.prevPH.contains p)
      let consulted := sp == 2 && st.h.ecn && newlyNonEmpty && decide (largest > st.h.gLargestAcked)
      let ceUp := consulted && decide (ce > st.h.gCE)
      let ceCalls := implCalls.filter fun c => c.1 == "C" && (c.2.getD 1 1) == 0
      let lossCalls := implCalls.filter fun c => c.1 == "C" && (c.2.getD 1 0) != 0
      let ackCalls := implCalls.filter fun c => c.1 == "A"
      let f1 : List Fail :=
        (if ceCalls.length > 1 then [("glue_ce_event_pn", "-", "more than one ECN-CE congestion event for one ACK frame")] else []) ++
        (ceCalls.filterMap fun c =>
          let pn := c.2.getD 0 0
          if !ceUp then some ("glue_ce_event_pn", "-", s!"ECN-CE congestion event without a CE count increase (ce={ce} last={st.h.gCE} ecn={st.h.ecn})")
          else if pn ≠ largest then some ("glue_ce_event_pn", "-", s!"ECN-CE congestion event reported for packet {pn}, the ACK's largest acknowledged is {largest}")
          else none) ++
        (lossCalls.filterMap (lossCallMonitor st.h implLost)) ++
        (ackCalls.filterMap fun c =>
          let pn := c.2.getD 0 0
          if !covered ranges pn then some ("glue_acked_pn", "-", s!"OnPacketAcked({pn}) outside the ACK ranges")
          else match st.h.sent.find? (fun r => r.sp == sp && r.pn == pn) with
            | none => some ("glue_acked_pn", "-", s!"OnPacketAcked({pn}): no such packet")
            | some r =>
              if !r.ae ∨ r.probe then some ("glue_acked_pn", "-", s!"OnPacketAcked({pn}) for a packet that was never counted in bytes in flight")
              else if !r.live then some ("glue_acked_pn", "-", s!"OnPacketAcked({pn}) for a packet already resolved")
              else none) ++
        priorMonitor prior implCalls
      let events := (if ceUp then [largest] else []) ++ ((implLost.filter (reportedLoss st.h)).map (·.2))
      -- everything inside the ranges of an accepted ACK frame is resolved, and what was reported lost
      let h := st.h.kill fun r => (r.sp == sp && covered ranges r.pn) || implLost.contains (r.sp, r.pn)
      let h := { h with gCE := if consulted then ce else st.h.gCE,
                        gLargestAcked := if newlyNonEmpty && sp == 2 then Max.max st.h.gLargestAcked largest else st.h.gLargestAcked }
      let w0 := st.h.lastW
      let (h, f2) := match implW with | some x => windowMonitors h "ack" x events | none => (h, [])
      let f3 : List Fail := match w0, implW with
        | some w, some w' =>
          if w' > w ∧ !limited st.h.mds w prior st.h.prevSS then
            [("h_growth_only_when_limited", "-", s!"cwnd {w} -> {w'} on an ACK with {prior} bytes really outstanding (slow start: {st.h.prevSS}, mds {st.h.mds}): not window-limited")]
          else []
        | _, _ => []
      let tags := (if calls.isEmpty then ["ack:nothing-new"] else ["ack:new"]) ++ ["ack:" ++ lvl] ++
        (if congested then [if largest ≤ st.g.s.lastCutback then "ack:ce-same-window" else "ack:ce-cut"] else []) ++
        (if mLost.isEmpty then [] else [if mLost.all (fun p => decide (p.2 ≤ st.g.s.lastCutback)) then "ack:loss-same-window" else "ack:loss-cut"]) ++
        (if g0.out.any (fun p => p.mtu && gone.contains p.key) then ["ack:mtuprobe-lost"] else []) ++
        (if g0.out.any (fun p => p.probe && isNew p) then ["ack:pathprobe-acked"] else []) ++
        (if calls.contains Call.exitSS then ["ack:exitss"] else [])
      let f4 := oneReductionMonitor st.h "ACK frame" w0 implW sp events
      ({ g := g, h := h }, { model := "ok" ++ suffix g calls mLost implPH rtt, tags := tags, fails := f1 ++ f2 ++ f3 ++ f4 ++ bifMonitor h impl "ack" })
  | ["timeout", _t] =>
    if implHead != "ok" then skip "timeout" else
      let gone := goneOf g0 (fun _ => false) implTrk implPP
      let (g, calls) := g0.timeout gone implPH
      let g := { g with ph := implPH }
      let mLost := (g0.out.filter fun p => p.ae && gone.contains p.key).map (·.key)
      let f1 : List Fail := (implCalls.filterMap fun c =>
        let b := c.2.getD 1 0
        if c.1 != "C" then some ("glue_timeout_calls", "-", s!"unexpected call {c.1} from the loss timer")
        else if b == 0 then some ("glue_ce_event_pn", "-", "ECN-CE congestion event from the loss timer")
        else lossCallMonitor st.h implLost c) ++ priorMonitor prior implCalls
      let events := (implLost.filter (reportedLoss st.h)).map (·.2)
      let h := st.h.kill fun r => implLost.contains (r.sp, r.pn)
      let (h, f2) := match implW with | some x => windowMonitors h "timeout" x events | none => (h, [])
      let tags := [(if mLost.isEmpty then "timeout:pto" else "timeout:loss")] ++
        (if g0.out.any (fun p => p.probe && gone.contains p.key) then ["timeout:pathprobe-lost"] else [])
      let evSp := ((implLost.filter (reportedLoss st.h)).head?.map (·.1)).getD 2
      let f4 := oneReductionMonitor st.h "loss-timer expiry" st.h.lastW implW evSp events
      ({ g := g, h := h }, { model := "ok" ++ suffix g calls mLost implPH rtt, tags := tags, fails := f1 ++ f2 ++ f4 ++ bifMonitor h impl "timeout" })
  | ["mds", m] =>
    let m := natOf m
    let calls := [Call.mds m]
    let g := g0.apply calls
    let h := if m ≥ st.h.mds then { st.h with mds := m } else st.h
    let (h, f2) := match implW with | some x => windowMonitors h "mds" x [] | none => (h, [])
    ({ g := g, h := h }, { model := (if m < st.g.s.mds then "PANIC" else "ok") ++ suffix g calls [] implPH rtt, tags := ["mds"], fails := f2 ++ bifMonitor h impl "mds" })
  | ["migrate", _t, m] =>
    if implHead == "skip" then skip "migrate" else
    let m := natOf m
    let g := g0.migrate m rtt implPP
    let mLost := (g0.out.filter fun p => p.sp == 2 && !p.probe && p.ae).map (·.key)
    -- the old path is written off: nothing sent on it is outstanding any more; a fresh controller
    let h := st.h.kill fun r => r.sp == 2
    let h := { h with mds := m, lastW := none, markPN := -1, lastAE := -1, lastAESp := 2 }
    let f1 : List Fail := if implCalls.isEmpty then [] else
      [("glue_migrate_calls", "-", "the path migration made calls on the old or new controller: " ++ (fieldOf impl "calls=").getD "-")]
    let (h, f2) := match implW with | some x => windowMonitors h "migrate" x [] | none => (h, [])
    let tags := ["migrate"] ++ (if g0.out.any (fun p => p.mtu) then ["migrate:mtuprobe-in-flight"] else []) ++
      (if g0.out.any (fun p => p.probe) then ["migrate:pathprobe-outstanding"] else []) ++
      (if g0.bytesInFlight > 0 then ["migrate:in-flight"] else [])
    ({ g := g, h := h }, { model := "ok" ++ suffix g [] mLost [] rtt, tags := tags, fails := f1 ++ f2 ++ bifMonitor h impl "migrate" })
  | ["drop", lvl, _t] =>
    if implHead == "skip" then skip "drop" else
    let sp := (spOfLetter lvl).getD 2
    let g := if lvl == "z" then g0.dropZeroRTT else g0.dropSpace sp
    let h := st.h.kill fun r => if lvl == "z" then r.sp == 2 && r.zero else r.sp == sp
    let f1 : List Fail := if implCalls.isEmpty then [] else
      [("glue_drop_calls", "-", "dropping packets made calls on the controller: " ++ (fieldOf impl "calls=").getD "-")]
    let (h, f2) := match implW with | some x => windowMonitors h "drop" x [] | none => (h, [])
    let tags := ["drop:" ++ lvl] ++ (if g.bytesInFlight < g0.bytesInFlight then ["drop:in-flight"] else [])
    ({ g := g, h := h }, { model := "ok" ++ suffix g [] [] implPH rtt, tags := tags, fails := f1 ++ f2 ++ bifMonitor h impl "drop" })
  | ["retry", _t] =>
    if implHead == "skip" then skip "retry" else
    let g := g0.retry
    let mLost := (g0.out.filter fun p => p.sp != 1 && !p.probe && p.ae).map (·.key)
    let h := st.h.kill fun r => r.sp != 1
    let h := { h with gLargestAcked := -1 }
    let f1 : List Fail := if implCalls.isEmpty then [] else
      [("glue_retry_calls", "-", "ResetForRetry made calls on the controller: " ++ (fieldOf impl "calls=").getD "-")]
    let (h, f2) := match implW with | some x => windowMonitors h "retry" x [] | none => (h, [])
    let tags := ["retry"] ++ (if g0.bytesInFlight > 0 then ["retry:in-flight"] else [])
    ({ g := g, h := h }, { model := "ok" ++ suffix g [] mLost [] rtt, tags := tags, fails := f1 ++ f2 ++ bifMonitor h impl "retry" })
  | ["qprobe", lvl] =>
    if implHead == "skip" then skip "qprobe" else
    let sp := (spOfLetter lvl).getD 2
    let first := g0.out.find? (fun p => p.sp == sp && p.outstanding)
    let (g, b) := g0.queueProbe sp
    let mLost := match first with | some q => [q.key] | none => []
    let h := st.h.kill fun r => implLost.contains (r.sp, r.pn)
    let f1 : List Fail := if implCalls.isEmpty then [] else
      [("glue_qprobe_calls", "-", "QueueProbePacket made calls on the controller: " ++ (fieldOf impl "calls=").getD "-")]
    let (h, f2) := match implW with | some x => windowMonitors h "qprobe" x [] | none => (h, [])
    ({ g := g, h := h }, { model := b2s b ++ suffix g [] mLost implPH rtt, tags := ["qprobe:" ++ b2s b], fails := f1 ++ f2 ++ bifMonitor h impl "qprobe" })
  | ["mode", t] =>
    let t := intOf t
    let can := g0.s.canSend g0.bytesInFlight
    let pace := if g0.s.hasPacingBudget t then "any" else "pacing"
    -- the probe / amplification / tracked-packet state is environment; the congestion decision is predicted
    let modelHead :=
      if implHead == "any" ∨ implHead == "pacing" ∨ implHead == "ack" then (if can then pace else "ack") else implHead
    let f1 : List Fail := match st.h.lastW with
      | some w0 => if (implHead == "any" ∨ implHead == "pacing") ∧ prior ≥ w0 then
          [("h_send_gating", "-", s!"SendMode={implHead} with {prior} bytes really outstanding and a window of {w0}")] else []
      | none => []
    let (h, f2) := match implW with | some x => windowMonitors st.h "mode" x [] | none => (st.h, [])
    ({ g := g0, h := h }, { model := modelHead ++ suffix g0 [] [] implPH rtt, tags := ["mode:" ++ implHead], fails := f1 ++ f2 ++ bifMonitor h impl "mode" })
  | _ => (st, { model := "bad-op" })

def step (st : St) (op impl : String) : St × StepOut := setPrev (stepCore st op impl) impl

def main : IO Unit := run { init := ({} : St), step := step }
