import Uquic.Oracle.Frame
import Uquic.Model.Cong.Sender
import Uquic.Model.Cong.Glue
import Uquic.Spec.CongMon

/-!
Oracle of the `congh` driver (property C20, glue): the real sentPacketHandler (ECN on or off,
application-data space) with a recording proxy in front of its congestion controller.

  init <mds> <ecn>                                   => ok
  send <t> <size> <ae>                               => pn=<pn> e=<ecn codepoint>     (PopPacketNumber, ECNMode, SentPacket)
  ack <t> <delayNs> <ect0> <ect1> <ce> r=<lo-hi;…>   => ok|err                         (ReceivedAck, 1-RTT)
  timeout <t>                                        => ok|err|skip                    (OnLossDetectionTimeout if armed and due)
  mds <m>                                            => ok                             (SetMaxDatagramSize)
suffix: ` | w=<cwnd> bif=<bytesInFlight> ss=<0|1> calls=<c,c,…|-> lost=<pn;…|-> trk=<pn;…|-> r=<latest>,<min>,<srtt>`
calls: S:t:pn:bytes:ae  X  C:pn:bytes:prior  A:pn:bytes:prior  M:m  — what the handler called on the controller.
Environment taken from the implementation's output: pn / ECN codepoint of a send, the lost packets
(OnLost callbacks), the tracked set, the RTT triple, whether a CE event was raised at all.
-/

open Uquic.Oracle Uquic.Model.Cong Uquic.Spec.CongMon

structure SentRec where
  pn : Int
  size : Nat
  ae : Bool

structure HGhost where
  mds : Nat := 1252
  ecn : Bool := false
  sent : List SentRec := []
  acked : List Int := []
  lost : List Int := []
  largestAE : Int := -1     -- largest ack-eliciting packet number handed to the handler
  /-- mirror of the ECN tracker's inputs: largest acknowledged and CE count of the last ACK frame that
      newly acknowledged something and raised the largest acknowledged -/
  gLargestAcked : Int := -1
  gCE : Nat := 0
  /-- the tracked set the implementation printed on the previous line -/
  prevTrk : List Int := []
  markPN : Int := -1        -- largest ack-eliciting packet sent when the window last went down
  lastW : Option Nat := none

structure St where
  g : Glue := { s := Sender.new 1252 Rtt.default }
  h : HGhost := {}

def b2s (b : Bool) : String := if b then "1" else "0"

def fieldOf (impl : String) (key : String) : Option String :=
  (words impl).findSome? fun w => if w.startsWith key then some (w.drop key.length).toString else none

def parseInts (s : String) : List Int :=
  if s == "-" || s == "" then [] else (s.splitOn ";").filterMap (·.toInt?)

def parseRanges (s : String) : List (Int × Int) :=
  if s == "-" || s == "" then [] else
  (s.splitOn ";").filterMap fun r =>
    -- lo-hi with non-negative numbers
    match r.splitOn "-" with
    | [a, b] => match a.toInt?, b.toInt? with
      | some x, some y => some (x, y)
      | _, _ => none
    | _ => none

def parseRtt (impl : String) : Option Rtt :=
  match fieldOf impl "r=" with
  | some v => match v.splitOn "," with
    | [a, b, c] => match a.toInt?, b.toInt?, c.toInt? with
      | some x, some y, some z => some { latest := x, min := y, srtt := z }
      | _, _, _ => none
    | _ => none
  | none => none

def fmtCall : Call → String
  | .sent t pn b ae => s!"S:{t}:{pn}:{b}:{b2s ae}"
  | .exitSS => "X"
  | .cong pn b p => s!"C:{pn}:{b}:{p}"
  | .acked pn b p => s!"A:{pn}:{b}:{p}"
  | .mds m => s!"M:{m}"

def fmtCalls (cs : List Call) : String := if cs.isEmpty then "-" else ",".intercalate (cs.map fmtCall)

def fmtInts (l : List Int) : String := if l.isEmpty then "-" else ";".intercalate (l.map toString)

/-- parse the implementation's recorded calls -/
def parseCalls (s : String) : List (String × List Int) :=
  if s == "-" || s == "" then [] else
  (s.splitOn ",").map fun c =>
    match c.splitOn ":" with
    | k :: rest => (k, rest.filterMap (·.toInt?))
    | [] => ("?", [])



def suffix (g : Glue) (calls : List Call) (lost tracked : List Int) (r : Rtt) : String :=
  s!" | w={g.s.cwnd} bif={g.bytesInFlight} ss={b2s g.s.inSlowStart} calls={fmtCalls calls} lost={fmtInts lost} trk={fmtInts tracked} r={r.latest},{r.min},{r.srtt}"

/-- monitors on the window as seen through the handler -/
def windowMonitors (h : HGhost) (kind : String) (w' : Nat) (trigger : Bool) : HGhost × List Fail :=
  let bounds : List Fail :=
    (if w' < 2 * h.mds then [("h_cwnd_lower_bound", "-", s!"cwnd={w'} < 2*{h.mds}")] else []) ++
    (if w' > maxCwndPackets * h.mds + h.mds then [("h_cwnd_upper_bound", "-", s!"cwnd={w'} mds={h.mds}")] else [])
  match h.lastW with
  | none => ({ h with lastW := some w' }, bounds)
  | some w =>
    let f : List Fail :=
      (if w' < w ∧ !trigger then
        [("h_shrinks_once_per_window", "-", s!"cwnd {w} -> {w'} on {kind}: no packet above {h.markPN} (largest ack-eliciting sent at the previous reduction) was lost or CE-marked")]
       else []) ++
      (if w' > w ∧ kind ≠ "ack" ∧ kind ≠ "mds" then [("h_growth_without_ack", "-", s!"cwnd {w} -> {w'} on {kind}")] else [])
    let h := if w' < w then { h with markPN := h.largestAE } else h
    ({ h with lastW := some w' }, bounds ++ f)

def setTrk (p : St × StepOut) (trk : List Int) : St × StepOut :=
  ({ p.1 with h := { p.1.h with prevTrk := trk } }, p.2)

def stepCore (st : St) (op impl : String) : St × StepOut :=
  let w := words op
  let implHead := (words impl).headD ""
  let implW := (fieldOf impl "w=").map natOf
  let implCalls := parseCalls ((fieldOf impl "calls=").getD "-")
  let implLost := parseInts ((fieldOf impl "lost=").getD "-")
  let implTrk := parseInts ((fieldOf impl "trk=").getD "-")
  let rtt := (parseRtt impl).getD st.g.s.rtt
  let g0 : Glue := { st.g with s := { st.g.s with rtt := rtt } }
  match w with
  | ["init", m, e] =>
    let m := natOf m
    let g : Glue := { s := { (Sender.new m Rtt.default) with rtt := rtt } }
    let h : HGhost := { mds := m, ecn := e == "1" }
    let (h, f) := match implW with | some x => windowMonitors h "init" x true | none => (h, [])
    ({ g := g, h := h }, { model := "ok" ++ suffix g [] [] [] rtt, tags := ["init"], fails := f })
  | ["send", t, size, ae] =>
    let t := intOf t; let size := natOf size; let ae := ae == "1"
    let pn := ((fieldOf impl "pn=").map intOf).getD (st.g.largestSent + 1)
    let e := (fieldOf impl "e=").getD "0"
    let (g, calls) := g0.send t pn size ae
    let h := { st.h with sent := st.h.sent ++ [{ pn := pn, size := size, ae := ae }],
                         largestAE := if ae then Max.max st.h.largestAE pn else st.h.largestAE }
    -- glue monitor: exactly one OnPacketSent with this packet
    let f : List Fail := match implCalls with
      | [("S", [t', pn', b', ae'])] => if t' = t ∧ pn' = pn ∧ b' = size ∧ (ae' = 1) = ae then [] else
          [("glue_sent_call", "-", s!"OnPacketSent({t'},{pn'},{b'},{ae'}) for packet {pn} size {size}")]
      | _ => [("glue_sent_call", "-", "calls=" ++ (fieldOf impl "calls=").getD "-")]
    let (h, f2) := match implW with | some x => windowMonitors h "send" x false | none => (h, [])
    let modelText := "pn=" ++ toString pn ++ " e=" ++ e ++ suffix g calls [] implTrk rtt
    let tags := [(if ae then "send:ae" else "send:ackonly"), "ecn:" ++ e]
    ({ g := g, h := h }, { model := modelText, tags := tags, fails := f ++ f2 })
  | ["ack", _t, _d, _e0, _e1, ce, rs] =>
    let ce := natOf ce
    let ranges := parseRanges (rs.drop 2).toString
    let largest := largestOf ranges
    if largest > st.g.largestSent ∨ implHead == "err" then
      let (h, f2) := match implW with | some x => windowMonitors st.h "ack-err" x false | none => (st.h, [])
      ({ g := g0, h := h }, { model := "err" ++ suffix g0 [] [] implTrk rtt, tags := ["ack:err"], fails := f2 })
    else
      let congested := implCalls.any fun c => c.1 == "C" && (c.2.getD 1 1) == 0
      let (g, calls) := g0.ack ranges congested implLost implTrk
      -- ghost / glue monitors, from the op and the implementation's outputs only
      let newlyNonEmpty := st.h.prevTrk.any fun p => covered ranges p
      let consulted := st.h.ecn && newlyNonEmpty && decide (largest > st.h.gLargestAcked)
      let ceUp := consulted && decide (ce > st.h.gCE)
      let ceCalls := implCalls.filter fun c => c.1 == "C" && (c.2.getD 1 1) == 0
      let lossCalls := implCalls.filter fun c => c.1 == "C" && (c.2.getD 1 0) != 0
      let ackCalls := implCalls.filter fun c => c.1 == "A"
      let f1 : List Fail :=
        (if ceCalls.length > 1 then [("glue_ce_event_pn", "-", "more than one ECN-CE congestion event for one ACK frame")] else []) ++
        (ceCalls.filterMap fun c =>
          let pn := c.2.getD 0 0
          if !ceUp then some ("glue_ce_event_pn", "-", s!"ECN-CE congestion event without a CE count increase (ce={ce} last={st.h.gCE} ecn={st.h.ecn})")
          else if pn ≠ largest then some ("glue_ce_event_pn", "-", s!"ECN-CE congestion event reported for packet {pn}, the ACK's largest acknowledged is {largest}")
          else none) ++
        (lossCalls.filterMap fun c =>
          let pn := c.2.getD 0 0
          let b := c.2.getD 1 0
          if !implLost.contains pn then some ("glue_loss_event_pn", "-", s!"loss event for packet {pn} which was not declared lost ({fmtInts implLost})")
          else if !(st.h.sent.any fun r => r.pn == pn && r.ae && (r.size : Int) == b) then some ("glue_loss_event_pn", "-", s!"loss event for packet {pn} with {b} bytes: no such ack-eliciting packet was sent")
          else if st.h.lost.contains pn ∨ st.h.acked.contains pn then some ("glue_loss_event_pn", "-", s!"packet {pn} was already resolved")
          else none) ++
        (ackCalls.filterMap fun c =>
          let pn := c.2.getD 0 0
          if !covered ranges pn then some ("glue_acked_pn", "-", s!"OnPacketAcked({pn}) outside the ACK ranges")
          else if !(st.h.sent.any fun r => r.pn == pn && r.ae) then some ("glue_acked_pn", "-", s!"OnPacketAcked({pn}): no such ack-eliciting packet")
          else if st.h.acked.contains pn ∨ st.h.lost.contains pn then some ("glue_acked_pn", "-", s!"OnPacketAcked({pn}) for a packet already resolved")
          else none)
      let trigger := (ceUp && decide (largest > st.h.markPN)) || implLost.any (fun p => decide (p > st.h.markPN))
      let h := { st.h with acked := st.h.acked ++ (st.h.sent.filter (fun r => covered ranges r.pn && !st.h.acked.contains r.pn)).map (·.pn),
                           lost := st.h.lost ++ implLost,
                           gCE := if consulted then ce else st.h.gCE,
                           gLargestAcked := if newlyNonEmpty then Max.max st.h.gLargestAcked largest else st.h.gLargestAcked }
      let (h, f2) := match implW with | some x => windowMonitors h "ack" x trigger | none => (h, [])
      let tags := (if calls.isEmpty then ["ack:nothing-new"] else ["ack:new"]) ++
        (if congested then [if largest ≤ st.g.s.lastCutback then "ack:ce-same-window" else "ack:ce-cut"] else []) ++
        (if implLost.isEmpty then [] else [if implLost.all (fun p => decide (p ≤ st.g.s.lastCutback)) then "ack:loss-same-window" else "ack:loss-cut"]) ++
        (if calls.contains Call.exitSS then ["ack:exitss"] else [])
      ({ g := g, h := h }, { model := "ok" ++ suffix g calls implLost implTrk rtt, tags := tags, fails := f1 ++ f2 })
  | ["timeout", _t] =>
    if implHead != "ok" then
      let (h, f2) := match implW with | some x => windowMonitors st.h "timeout-skip" x false | none => (st.h, [])
      ({ g := g0, h := h }, { model := implHead ++ suffix g0 [] [] implTrk rtt, tags := ["timeout:" ++ implHead], fails := f2 })
    else
      let (g, calls) := g0.timeout implLost implTrk
      let f1 : List Fail := implCalls.filterMap fun c =>
        let pn := c.2.getD 0 0
        let b := c.2.getD 1 0
        if c.1 != "C" then some ("glue_timeout_calls", "-", s!"unexpected call {c.1} from the loss timer")
        else if b == 0 then some ("glue_ce_event_pn", "-", "ECN-CE congestion event from the loss timer")
        else if !implLost.contains pn then some ("glue_loss_event_pn", "-", s!"loss event for packet {pn} which was not declared lost ({fmtInts implLost})")
        else if !(st.h.sent.any fun r => r.pn == pn && r.ae && (r.size : Int) == b) then some ("glue_loss_event_pn", "-", s!"loss event for packet {pn} with {b} bytes: no such ack-eliciting packet was sent")
        else none
      let trigger := implLost.any (fun p => decide (p > st.h.markPN))
      let h := { st.h with lost := st.h.lost ++ implLost }
      let (h, f2) := match implW with | some x => windowMonitors h "timeout" x trigger | none => (h, [])
      let tags := [(if implLost.isEmpty then "timeout:pto" else "timeout:loss")]
      ({ g := g, h := h }, { model := "ok" ++ suffix g calls implLost implTrk rtt, tags := tags, fails := f1 ++ f2 })
  | ["mds", m] =>
    let m := natOf m
    let calls := [Call.mds m]
    let g := g0.apply calls
    let h := if m ≥ st.h.mds then { st.h with mds := m } else st.h
    let (h, f2) := match implW with | some x => windowMonitors h "mds" x false | none => (h, [])
    ({ g := g, h := h }, { model := (if m < st.g.s.mds then "PANIC" else "ok") ++ suffix g calls [] implTrk rtt, tags := ["mds"], fails := f2 })
  | _ => (st, { model := "bad-op" })

def step (st : St) (op impl : String) : St × StepOut :=
  setTrk (stepCore st op impl) (parseInts ((fieldOf impl "trk=").getD "-"))

def main : IO Unit := run { init := ({} : St), step := step }
