import Uquic.Oracle.Frame
import Uquic.Model.Conn.Idle

/-!
Oracle for the `cidle` driver: the idle-period bookkeeping of a REAL client `Conn`, driven through the real
receive / send glue and observed through the moment the timer armed by the real `maybeResetTimer` fires.

  conf <ownIdleMs> <peerIdleMs> <keepAliveMs>  => ok      (effective idle timeout: the smaller one; peer 0 = none)
  recv <dt> <s|l> <kind>       => ok | E | skip
  send <dt> <ae>               => ok
  sendc <dt> <hs> <short>      => ok | E | skip       (0 absent, 1 ACK-only, 2 ack-eliciting)
  fire <dt> <blocked>          => fire=<ns> pto=<ns> | fire>cap pto=<ns>   (cap: the driver waits at most 100 s)

Monitor `idle_period_follows_rfc9000_10_1` (ghost state from the op lines only): the idle deadline observed is
(the later of: the last packet received, the first ack-eliciting packet sent after it) + max(T, 3 PTO); with
keep-alives and an unblocked connection the timer fires at (last packet received) + max(interval, 1.5 PTO).
-/
open Uquic.Oracle Uquic.Model.Conn

structure OSt where
  started : Bool := false
  now : Int := 0            -- ns since the connection was built
  idle : Int := 30000 * 1000000
  ka : Int := 0
  m : Idle.St := { lastRecv := 0, firstAE := none }
  -- ghost (monitor): from the ops only
  gRecv : Int := 0
  gAE : Option Int := none

def fldv (s key : String) : Option Int :=
  (words s).findSome? fun w => if w.startsWith key then (w.drop key.length).toString.toInt? else none

def step (s : OSt) (op impl : String) : OSt × StepOut := Id.run do
  let w := words op
  let ms : Int := 1000000
  match w with
  | ["conf", idle, peer, ka] =>
    if s.started then return (s, { model := "skip", tags := ["conf:late"] })
    let i := (idle.toInt?.getD 0); let p := (peer.toInt?.getD (-1)); let k := (ka.toInt?.getD 0)
    if i < 1 || i > 600000 || p < 0 || p > 600000 || k < 0 || k > 600000 then return (s, { model := "bad-op", tags := ["bad"] })
    let eff := if p > 0 && p < i then p else i
    return ({ s with started := true, idle := eff * ms, ka := k * ms },
      { model := "ok", tags := [if k == 0 then "conf:no-keep-alive" else "conf:keep-alive", if eff < 1000 then "conf:idle<3pto" else "conf:idle",
          if p == 0 then "conf:peer-none" else if p < i then "conf:peer-smaller" else "conf:peer-larger"] })
  | _ => pure ()
  if w.length < 3 then return (s, { model := "bad-op", tags := ["bad"] })
  let d := ((w.getD 1 "").toInt?.getD (-1))
  if d < 0 || d > 100000 then return (s, { model := "bad-op", tags := ["bad"] })
  let s := { s with started := true, now := s.now + d * ms }
  let now := s.now
  match w with
  | ["recv", _, lvl, kind] =>
    if impl == "skip" then return (s, { model := "skip", tags := ["recv:skip"] })
    let ae := kind == "ping" || kind == "pingpad" || kind == "maxdata" || kind == "ackping"
    let s' := { s with m := Idle.step s.m (.recv now), gRecv := now, gAE := none }
    let quiet := s.m.firstAE.isSome
    return (if impl == "ok" then s' else s,
      { model := "ok", tags := [s!"recv:{kind}", if lvl == "l" then "recv:handshake" else "recv:1rtt"] ++
          (if !ae && quiet then ["recv:non-ack-eliciting-clears-marker"] else []) })
  | ["send", _, ae] =>
    let a := ae == "1"
    let s' := { s with m := Idle.step s.m (.sent now a), gAE := if s.gAE.isNone && a then some now else s.gAE }
    return (s', { model := "ok", tags := [if a then (if s.m.firstAE.isNone then "send:first-ack-eliciting-after-receive" else "send:ack-eliciting") else "send:ack-only"] })
  | ["sendc", _, hs, sh] =>
    let h := (hs.toNat?.getD 0) % 3; let k := (sh.toNat?.getD 0) % 3
    if h == 0 && k == 0 then return (s, { model := "skip", tags := ["sendc:skip"] })
    let a := h == 2 || k == 2
    -- one `sent` per contained packet, all at the same instant
    let m1 := if h != 0 then Idle.step s.m (.sent now (h == 2)) else s.m
    let m2 := if k != 0 then Idle.step m1 (.sent now (k == 2)) else m1
    let s' := { s with m := m2, gAE := if s.gAE.isNone && a then some now else s.gAE }
    return (if impl == "ok" then s' else s, { model := "ok", tags := [s!"sendc:{h}{k}"] })
  | ["fire", _, bl] =>
    let pto := (fldv impl "pto=").getD 0
    let cap : Int := 100000 * ms
    let implCapped := impl.startsWith "fire>cap"
    let fired := if implCapped then cap else (fldv impl "fire=").getD (-1)
    let blocked := bl == "1"
    let kai := if s.ka < s.idle / 2 then s.ka else s.idle / 2
    let mk (lastRecv : Int) (firstAE : Option Int) : Timer.Input := {
      handshakeComplete := true, blocked := if blocked then .hardBlocked else .none, created := 0,
      lastRecv := lastRecv, firstAE := firstAE, idleTimeout := s.idle, hsIdleTimeout := 0,
      keepAlivePeriod := s.ka, keepAlivePingSent := false, keepAliveInterval := kai, pto := pto,
      ackAlarm := none, loss := none, pacing := none }
    let clamp (x : Int) : Int := if x < 0 then 0 else x
    let expM := clamp (Timer.deadline (Idle.toTimer s.m (mk 0 none)) - now)
    let expG := clamp (Timer.deadline (mk s.gRecv s.gAE) - now)
    let mut fails : List (String × String × String) := []
    if (if expG > cap then !implCapped else (implCapped || fired != expG)) then
      fails := fails ++ [("idle_period_follows_rfc9000_10_1", "-",
        s!"now={now} ns: last packet received at {s.gRecv}, first ack-eliciting packet sent after it at {s.gAE}, idle timeout {s.idle}, keep-alive {s.ka}, blocked={blocked}, 3*PTO={3*pto}: the timer must fire in {expG} ns, it fires in {if implCapped then "more than 100 s" else toString fired} ns")]
    let which := if !blocked && s.ka != 0 then "keep-alive" else if 3 * pto > s.idle then "idle:3pto" else "idle"
    let from_ := match s.gAE with | some t => if t > s.gRecv then "from-send" else "from-recv" | none => "from-recv"
    let tags := [s!"fire:{which}", s!"fire:{from_}", if expG == 0 then "fire:past" else "fire:future"] ++
      (if from_ == "from-send" && expG > 0 && s.gRecv + (if s.idle > 3*pto then s.idle else 3*pto) ≤ now then ["fire:alive-only-because-of-send"] else [])
    -- time passes while the driver waits for the timer
    return ({ s with now := now + clamp fired }, { model := if expM > cap then s!"fire>cap pto={pto}" else s!"fire={expM} pto={pto}", tags := tags ++ (if expG > cap then ["fire:beyond-cap"] else []), fails := fails })
  | _ => return (s, { model := "bad-op", tags := ["bad"] })

def main : IO Unit := run { init := ({} : OSt), step := step }
