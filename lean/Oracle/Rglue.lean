import Uquic.Oracle.Frame
import Uquic.Model.Reassembly.Glue
import Uquic.Spec.ReasmMon

/-!
Oracle of driver `rglue` (property C03): a connection built by the real constructors, 1-RTT packets
through the real `Conn.handleShortHeaderPacket` / `handleFrames`, the application reading through the
public stream API.

  conn server|client|uclient <salt> <streamWin> <connWin> <specId|-> <traced>
       => ok win=<bidiLocal>,<bidiRemote>,<uni>,<conn> tr=<0|1>
  sent <k>                 => ok pns=<pn,…>
  open                     => <id> | E:limit-reached
  pkt <pn> <frame>…        => ok|dup|E:T<code>|E:other acc=<ids|->
  read <id> <n>            => <status> <bytes>
  frames: S:<id>:<off>:<len>:<fin>  R:<id>:<final>:<code>  B:<id>  C:<off>:<len>  A:<pn>  P  D  Z

Monitors (ghost state from the operations and from what the implementation itself advertised / returned,
never from the model's state):
  offending_frame_error_wins   the packet is answered with the error of its FIRST frame that contradicts
                               an established final size (FINAL_SIZE_ERROR), exceeds the advertised stream
                               / connection receive window (FLOW_CONTROL_ERROR), exceeds the crypto buffer
                               (CRYPTO_BUFFER_EXCEEDED) or acknowledges an unsent packet — whatever frames
                               follow it, traced or not 
                               (the windows are the ones the implementation handed to the TLS stack)
  no_spurious_frame_error      … and a packet without such a frame is answered without error
  read_exact_bytes / read_only_received / read_eof_at_final_size   what the application reads through the
                               connection is the stream's source prefix, made of accepted frames only
-/

open Uquic.Oracle Uquic.Model.Reassembly Uquic.Spec.Reasm
open Uquic.Model.Streams (Persp STyp typeOf initiatedBy)

abbrev Fail := String × String × String

/-- ghost of one stream: what the frames ACCEPTED so far established -/
structure GS where
  id : Int
  recv : IvSet := []
  hi : Nat := 0
  final : Option Nat := none
  reset : Bool := false
  rp : Nat := 0           -- bytes the application read (from the implementation's answers)
  gone : Bool := false    -- a unidirectional stream whose EOF / reset error was read: deleted from the map

structure Ghost where
  pers : Persp := .server
  win : Windows := {}
  salt : Nat := 0
  streams : List GS := []
  connHi : Nat := 0
  opened : List Int := []     -- local bidirectional streams (from the implementation's answers)
  /-- nothing is judged any more (a frame outside the driver's alphabet / id range was seen) -/
  blind : Bool := false

structure St where
  m : Option RConn := none
  traced : Bool := false
  salt : Nat := 0
  sent : List Int := []
  rcvd : List Int := []
  mdead : Bool := false
  g : Ghost := {}

def b01 (b : Bool) : String := if b then "1" else "0"

def tErr (code : Int) : String := s!"E:T{code}"

def fmtGErr : Option GErr → String
  | none => "ok"
  | some (.stream .finalSize) => tErr Uquic.Gen.Reassembly.FinalSizeError
  | some (.stream .flowControl) => tErr Uquic.Gen.Reassembly.FlowControlError
  | some (.stream .tooManyGaps) => "E:other"
  | some (.stream .panic) => "PANIC"
  | some (.crypto .cryptoBufferExceeded) => tErr Uquic.Gen.Reassembly.CryptoBufferExceeded
  | some (.crypto .protocolViolation) => tErr Uquic.Gen.Reassembly.ProtocolViolation
  | some (.crypto .tooManyGaps) => "E:other"
  | some (.crypto .panic) => "PANIC"
  | some .state => tErr Uquic.Gen.Reassembly.StreamStateError
  | some .limit => tErr Uquic.Gen.Reassembly.StreamLimitError
  | some .ackUnsent => tErr Uquic.Gen.Reassembly.ProtocolViolation

def fmtStatus : RStatus → String
  | .ok => "ok" | .eof => "eof"
  | .cancelled (some (c, r)) => s!"cancel:{c}:{if r then "r" else "l"}"
  | .cancelled none => "cancel:nil"
  | .shutdown => "shutdown" | .deadline => "wouldblock" | .panic => "PANIC"

def implField (iw : List String) (key : String) : Option String :=
  iw.findSome? fun w => if w.startsWith key then some (w.drop key.length).toString else none

def parseWin (s : String) : Option Windows :=
  match s.splitOn "," with
  | [a, b, c, d] => some ⟨natOf a, natOf b, natOf c, natOf d⟩
  | _ => none

/-- salt of the CRYPTO byte string (the driver's `1 << 20`) -/
def cryptoSaltOff : Nat := 1048576

def parseFrame (salt : Nat) (sent : List Int) (tok : String) : Option GFrame :=
  match tok.splitOn ":" with
  | ["S", id, off, len, fin] =>
    let id := intOf id
    if id < 0 || natOf len > 1400 || (natOf len == 0 && fin != "1") then none
    else some (.stream id (natOf off) (srcSeg salt id.toNat (natOf off) (natOf len)) (fin == "1"))
  | ["R", id, final, code] => if intOf id < 0 then none else some (.reset (intOf id) (natOf final) (natOf code))
  | ["B", id] => if intOf id < 0 then none else some (.sdb (intOf id))
  | ["C", off, len] =>
    if natOf off < 1 || natOf len > 1400 then none
    else some (.crypto (natOf off) (srcSeg salt cryptoSaltOff (natOf off) (natOf len)))
  | ["A", pn] => some (.ack (sent.contains (intOf pn)))
  | ["P"] => some .ping
  | ["D"] => some .maxData
  | ["Z"] => some .padding
  | _ => none

def fmtIds (l : List Int) : String :=
  if l.isEmpty then "-" else ",".intercalate ((l.mergeSort (· ≤ ·)).map toString)

/-! ### the ghost's judgement of one frame -/

inductive Verdict | ok | final | flow | cryptobuf | proto | unjudged
deriving DecidableEq

def Verdict.text : Verdict → String
  | .ok => "ok"
  | .final => tErr Uquic.Gen.Reassembly.FinalSizeError
  | .flow => tErr Uquic.Gen.Reassembly.FlowControlError
  | .cryptobuf => tErr Uquic.Gen.Reassembly.CryptoBufferExceeded
  | .proto => tErr Uquic.Gen.Reassembly.ProtocolViolation
  | .unjudged => "?"

def Verdict.what : Verdict → String
  | .ok => "is fine"
  | .final => "contradicts the established final size (FINAL_SIZE_ERROR)"
  | .flow => "exceeds the advertised receive window (FLOW_CONTROL_ERROR)"
  | .cryptobuf => "exceeds the crypto buffer limit (CRYPTO_BUFFER_EXCEEDED)"
  | .proto => "acknowledges a packet that was never sent (PROTOCOL_VIOLATION)"
  | .unjudged => "is outside the judged alphabet"

def Ghost.get (g : Ghost) (id : Int) : GS := (g.streams.find? (·.id == id)).getD { id := id }
def Ghost.set (g : Ghost) (s : GS) : Ghost := { g with streams := s :: g.streams.filter (·.id != s.id) }

/-- may the peer send on this stream at all, as far as the ghost can tell? (its own first streams of
    either type, or a bidirectional stream the implementation said it opened) -/
def Ghost.inDomain (g : Ghost) (id : Int) : Bool :=
  if initiatedBy id == g.pers then typeOf id == .bidi && g.opened.contains id
  else id ≥ 0 && id < 4 * 100

/-- an arriving highest offset `hi` (final or not) on stream `id`: the verdict and the ghost afterwards -/
def Ghost.arrive (g : Ghost) (id : Int) (hi : Nat) (fin : Bool) : Verdict × Ghost :=
  if !g.inDomain id then (.unjudged, g) else
  let s := g.get id
  if s.gone then (.ok, g) else
  let finalErr := match s.final with
    | some f => hi > f || (fin && hi ≠ f)
    | none => fin && hi < s.hi
  if finalErr then (.final, g)
  else if hi > s.hi && (hi > g.win.forStream g.pers id || g.connHi + (hi - s.hi) > g.win.conn) then (.flow, g)
  else
    let s' := { s with hi := max s.hi hi, final := if fin then some hi else s.final }
    (.ok, ({ g with connHi := g.connHi + (hi - s.hi) }).set s')

def Ghost.judge (g : Ghost) : GFrame → Verdict × Ghost
  | .stream id off data fin =>
    let r := g.arrive id (off + data.length) fin
    if r.1 == .ok && data.length > 0 && !(g.get id).gone && !(g.get id).reset then
      -- (data arriving after a reset is not handed to the sorter… unless the reliable size covers it; the
      --  driver sends plain RESET_STREAM only, so nothing after a reset is readable: not recorded)
      let s := r.2.get id
      (.ok, r.2.set { s with recv := ivInsert s.recv off (off + data.length) })
    else r
  | .reset id final _ =>
    let r := g.arrive id final true
    if r.1 == .ok && !(g.get id).gone then (.ok, r.2.set { r.2.get id with reset := true }) else r
  | .sdb id => if g.inDomain id then (.ok, g) else (.unjudged, g)
  | .crypto off data =>
    (if off + data.length > Uquic.Gen.Protocol.MaxCryptoStreamOffset.toNat then .cryptobuf else .ok, g)
  | .ack sent => (if sent then .ok else .proto, g)
  | .ping | .maxData | .padding => (.ok, g)

/-- walk the frames of a packet: index and verdict of the first frame that is not fine -/
def walk : Ghost → Nat → List GFrame → Ghost × Option (Nat × Verdict)
  | g, _, [] => (g, none)
  | g, i, f :: fs =>
    match g.judge f with
    | (.ok, g') => walk g' (i + 1) fs
    | (v, g') => (g', some (i, v))

def kindOf : GFrame → String
  | .stream .. => "stream" | .ack _ => "ack" | _ => "other"

def step (s : St) (op impl : String) : St × StepOut :=
  let w := words op
  let iw := words impl
  let head := iw.headD ""
  if s.mdead then (s, { model := "skip" }) else
  match w, s.m with
  | ["conn", kind, salt, sw, cw, _sid, tr], none =>
    let pers? : Option Persp := match kind with
      | "server" => some .server | "client" | "uclient" => some .client | _ => none
    match pers? with
    | none => (s, { model := "skip" })
    | some pers =>
      let dflt := fun (v : String) (d : Int) => if natOf v == 0 then d.toNat else natOf v
      let sw' := dflt sw Uquic.Gen.Protocol.DefaultInitialMaxStreamData
      let predicted : Windows := ⟨sw', sw', sw', dflt cw Uquic.Gen.Protocol.DefaultInitialMaxData⟩
      let implWin := (implField iw "win=").bind parseWin
      -- a spec-driven client advertises its QUICSpec's windows: taken from the implementation
      let win := if kind == "uclient" then implWin.getD predicted else predicted
      let traced := tr == "1"
      let model := s!"ok win={win.bidiLocal},{win.bidiRemote},{win.uni},{win.conn} tr={b01 traced}"
      let g : Ghost := { pers := pers, win := implWin.getD win, salt := natOf salt }
      ({ s with m := some (RConn.new pers win), traced := traced, salt := natOf salt, g := g },
       { model := model, tags := [s!"glue:conn:{kind}", s!"glue:traced={b01 traced}"] })
  | _, none => (s, { model := "skip" })
  | ["conn", _, _, _, _, _, _], some _ => (s, { model := "skip" })
  | ["sent", _], some _ =>
    -- packet numbers are drawn by the (randomised) packet number generator: taken from the implementation
    let pns := match implField iw "pns=" with
      | some l => (l.splitOn ",").filterMap String.toInt?
      | none => []
    ({ s with sent := s.sent ++ pns }, { model := impl, tags := ["glue:sent"] })
  | ["open"], some m =>
    let (m', r) := m.openBidi
    let g := if head.toInt?.isSome then { s.g with opened := intOf head :: s.g.opened } else s.g
    ({ s with m := some m', g := g },
     { model := match r with | some id => toString id | none => "E:limit-reached",
       tags := [if r.isSome then "glue:open:stream" else "glue:open:limit"] })
  | "pkt" :: pn :: toks, some m =>
    let pn := intOf pn
    match toks.mapM (parseFrame s.salt s.sent) with
    | none => (s, { model := "bad-op" })
    | some fs =>
      if s.rcvd.contains pn then (s, { model := "dup acc=-", tags := ["glue:pkt:dup"] }) else
      let (m', err) := m.handleFrames s.traced fs
      let res := fmtGErr err
      let newIds := (m'.streams.map (·.1)).filter fun id => initiatedBy id != m.pers && !(m.streams.any (·.1 == id))
      let model := s!"{res} acc={fmtIds newIds}"
      -- monitor: the first offending frame decides, traced or not
      let (g', off) := walk s.g 0 fs
      let judged := !s.g.blind && (match off with | some (_, .unjudged) => false | _ => true)
      let expect := match off with | some (_, v) => v | none => .ok
      let silent := head == "dup" || head == "skip" || head == "PANIC" || head == "bad-op" || head == ""
      let fails : List Fail :=
        if !judged || silent || head == expect.text then []
        else match off with
          | some (i, v) =>
            let after := fs.drop (i + 1)
            [("offending_frame_error_wins", "-",
              s!"packet {pn} (traced={b01 s.traced}): frame #{i} {v.what}" ++
              (if after.isEmpty then "" else s!", {after.length} frame(s) follow it") ++
              s!"; the packet must be answered with {v.text}, handleFrames returned {head}")]
          | none =>
            [("no_spurious_frame_error", "-",
              s!"packet {pn} (traced={b01 s.traced}): no frame contradicts a final size or exceeds a limit, handleFrames returned {head}")]
      -- after a failed judgement the ghost and the connection are out of step: nothing more is judged in this case
      let blind := s.g.blind || !fails.isEmpty || (match off with | some (_, .unjudged) => true | _ => false)
      let g'' := { g' with blind := blind }
      let tags := [s!"glue:pkt:{res}"] ++
        (match off with
         | some (i, v) =>
           (if v == .unjudged then ["glue:pkt:unjudged"] else
            [s!"glue:offender:{v.text}", if i == 0 then "glue:offender:first" else "glue:offender:later"] ++
            (match (fs.drop (i + 1)).head? with
             | some f => [s!"glue:offender-then-{kindOf f}:traced={b01 s.traced}"]
             | none => ["glue:offender:last"]))
         | none => [])
      let rcvd := if err.isNone then pn :: s.rcvd else s.rcvd
      ({ s with m := some m', rcvd := rcvd, mdead := err.isSome, g := g'' },
       { model := model, tags := tags, fails := fails })
  | ["read", id, n], some m =>
    let id := intOf id
    match m.read id (natOf n) with
    | none => (s, { model := "skip" })
    | some (m', r) =>
      let model := s!"{fmtStatus r.status} {fmtBytes r.data}"
      -- monitors on what the implementation delivered
      let gs := s.g.get id
      let tok := iw.getD 1 "0:"
      let k := tokLen tok
      let judged := !s.g.blind && head != "skip" && head != "PANIC" && head != "bad-op" && head != ""
      let fails : List Fail :=
        if !judged then [] else
        (if k > 0 && !ivCoversRange gs.recv gs.rp (gs.rp + k) then
           [("read_only_received", "-", s!"stream {id}: [{gs.rp},{gs.rp + k}) delivered but no accepted frame carried all of it")] else []) ++
        (if k > 0 && tok != fmtBytes (srcSeg s.g.salt id.toNat gs.rp k) then
           [("read_exact_bytes", "-", s!"stream {id}: [{gs.rp},{gs.rp + k}) delivered as {tok}, the source has {fmtBytes (srcSeg s.g.salt id.toNat gs.rp k)}")] else []) ++
        (if head == "eof" && gs.final != some (gs.rp + k) then
           [("read_eof_at_final_size", "-", s!"stream {id}: EOF after {gs.rp + k} bytes, established final size {match gs.final with | some f => toString f | none => "unknown"}")] else [])
      let ended := head == "eof" || head.startsWith "cancel:"
      let gs' := { gs with rp := gs.rp + k, gone := gs.gone || (ended && typeOf id == .uni) }
      ({ s with m := some m', g := { (s.g.set gs') with blind := s.g.blind || !fails.isEmpty } },
       { model := model, tags := [s!"glue:read:{((fmtStatus r.status).splitOn ":").headD ""}"], fails := fails })
  | _, _ => (s, { model := "bad-op" })

def main : IO Unit := run { init := ({} : St), step := step }
