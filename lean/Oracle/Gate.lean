import Uquic.Oracle.Frame
import Uquic.Model.Handshake.Gate
import Uquic.Model.Handshake.Deadline
import Uquic.Model.Handshake.Auth
import Uquic.Model.Handshake.KeyLife
import Uquic.Spec.GateMon

open Uquic.Oracle Uquic.Model.Handshake Uquic.Spec.GateMon

abbrev KV := List (String × String)

def kvOf (ws : List String) : KV :=
  ws.filterMap fun w =>
    match w.splitOn "=" with
    | k :: v :: rest => some (k, "=".intercalate (v :: rest))
    | _ => none

def KV.get (m : KV) (k : String) : String :=
  match m.find? (fun p => p.1 == k) with
  | some p => p.2
  | none => ""

def hexVal (c : Char) : Nat :=
  if '0' ≤ c ∧ c ≤ '9' then c.toNat - '0'.toNat
  else if 'a' ≤ c ∧ c ≤ 'f' then c.toNat - 'a'.toNat + 10
  else 0

def hexBytes : List Char → List Nat
  | a :: b :: rest => (hexVal a * 16 + hexVal b) :: hexBytes rest
  | _ => []

/-- "x0a0b" → [10, 11]; "x" → [] -/
def cidOf (s : String) : CID := hexBytes (s.toList.drop 1)

def hexDigit (n : Nat) : Char := if n < 10 then Char.ofNat (48 + n) else Char.ofNat (87 + n)

def cidTxt (c : CID) : String := "x" ++ String.ofList (c.flatMap fun b => [hexDigit (b / 16), hexDigit (b % 16)])

def optCidOf (s : String) : Option CID := if s == "-" || s == "" then none else some (cidOf s)

def natList (s : String) : List Nat := (s.splitOn ",").filterMap (·.toNat?)

def b1 (s : String) : Bool := s == "1"

def stateOf (m : KV) : GateState :=
  { perspective := if m.get "p" == "s" then .server else .client
    version := natOf (m.get "v")
    supported := natList (m.get "sup")
    receivedFirstPacket := b1 (m.get "rfp")
    receivedRetry := b1 (m.get "rr")
    versionNegotiated := b1 (m.get "vn")
    handshakeDestConnID := cidOf (m.get "hd")
    origDestConnID := cidOf (m.get "od")
    retrySrcConnID := optCidOf (m.get "rs")
    destConnID := cidOf (m.get "dc")
    undecryptable := natOf (m.get "uq") }

def coreTxt (s : GateState) (starDC : Bool) : String :=
  let rs := match s.retrySrcConnID with | some c => cidTxt c | none => "-"
  let dc := if starDC then "*" else cidTxt s.destConnID
  let b (x : Bool) := if x then "1" else "0"
  s!"v={s.version} rfp={b s.receivedFirstPacket} rr={b s.receivedRetry} vn={b s.versionNegotiated} hd={cidTxt s.handshakeDestConnID} od={cidTxt s.origDestConnID} rs={rs} dc={dc}"

def kindOf : String → Kind
  | "retry" => .retry | "vn" => .vn | "initial" => .initial | "handshake" => .handshake
  | "0rtt" => .zeroRTT | "short" => .short | _ => .initial

def partOf (m : KV) : PacketSummary :=
  { kind := kindOf (m.get "k")
    parse := match m.get "pr" with | "hdrerr" => .headerErr | "unsupported" => .unsupportedVersion | _ => .ok
    version := natOf (m.get "v")
    srcConnID := cidOf (m.get "s")
    destConnID := cidOf (m.get "d")
    destConnIDParseOK := m.get "dok" != "0"
    retryTagFor := optCidOf (m.get "tag")
    keys := match m.get "keys" with | "notyet" => .notYet | "dropped" => .dropped | _ => .avail
    hdrOK := m.get "hdr" != "0"
    opens := b1 (m.get "opens")
    duplicate := b1 (m.get "dup")
    fatal := b1 (m.get "fatal")
    vnParseOK := m.get "vnok" != "0"
    vnVersions := natList (m.get "vs") }

def reasonTxt : Reason → String
  | .unexpectedPacket => "unexpected_packet" | .payloadDecryptError => "payload_decrypt_error"
  | .unexpectedVersion => "unexpected_version" | .unknownConnectionID => "unknown_connection_id"
  | .headerParseError => "header_parse_error" | .keyUnavailable => "key_unavailable"
  | .duplicate => "duplicate" | .dosPrevention => "dos_prevention" | .unsupportedVersion => "unsupported_version"
  | .silent => ""

def actionTxt : Action → String
  | .drop .silent => "-"
  | .drop r => "drop:" ++ reasonTxt r
  | .restartWithRetry _ _ => "retry"
  | .recreate v => s!"vn:recreate:{v}"
  | .fail => "vn:fail"
  | .buffer => "buf"
  | .process => "recv"
  | .processFatal => "recv"
  | .notReached => "-"

def actionTag : Action → String
  | .drop .silent => "drop:silent"
  | .drop r => "drop:" ++ reasonTxt r
  | .restartWithRetry _ _ => "retry"
  | .recreate _ => "vn:recreate"
  | .fail => "vn:fail"
  | .buffer => "buf"
  | .process => "process"
  | .processFatal => "processFatal"
  | .notReached => "notReached"

def kindTxt : Kind → String
  | .retry => "retry" | .vn => "vn" | .initial => "initial" | .handshake => "handshake" | .zeroRTT => "0rtt" | .short => "short"

def obsOf (r : String) : Obs :=
  if r == "-" then .nothing
  else if r.startsWith "drop:" then .dropped
  else if r == "buf" then .buffered
  else if r == "retry" then .retryAccepted
  else if r.startsWith "vn:recreate" then .vnRecreate
  else if r == "vn:fail" then .vnFail
  else .received

/-- "ih" → [initial, handshake]: the packets of one datagram the client sent (s: short header, z: 0-RTT) -/
def levelsOf (w : String) : List KeyLife.Level :=
  w.toList.filterMap fun c =>
    if c == 'i' then some .initial else if c == 'h' then some .handshake
    else if c == 'z' then some .zeroRTT else if c == 's' then some .oneRTT else none

/-- "ih,h,hs" → the datagrams; "-" → none -/
def datagramsOf (w : String) : List (List KeyLife.Level) :=
  if w == "-" || w == "" then [] else (w.splitOn ",").map levelsOf

def keysTxt : Keys → String
  | .avail => "avail" | .notYet => "notyet" | .dropped => "dropped"

structure St where
  scn : KV := []
  /-- Initial-key state of every connection, computed by the key-life model from the datagrams the client sent
  (as seen on the wire) and the Handshake packets the server unpacked -/
  keySt : List (String × KeyLife.KeySt) := []
  /-- ghost: client connections that have put a Handshake packet on the wire -/
  hsOut : List String := []
  /-- ghost: server connections that reported a Handshake packet as received -/
  hsIn : List String := []
  nInj : Nat := 0
  nFault : Nat := 0
  /-- from the run line -/
  ran : Bool := false
  run : KV := []
  ntrace : Nat := 0
  seenPkts : Nat := 0
  /-- ghost: connections that accepted a Retry -/
  retried : List String := []
  /-- ghost: connections dialed again after a Version Negotiation packet was acted upon (the one after the
  connection that was closed for re-creation): their version IS negotiated, whatever their state says -/
  negotiated : List String := []
  /-- ghost: (pkt index, conn, post core text of the implementation) of the previous line -/
  last : Option (Nat × String × String) := none
  /-- ghost: an injected datagram had an effect the protocol permits (before the first genuine packet, or with valid keys) -/
  effective : Bool := false
  /-- ghost: a forged packet closed the connection or moved its state (already reported) -/
  harmed : Bool := false
  /-- the dial succeeded but the two sides do not agree: judged at the end of the case, when it is known
  whether an attack the protocol permits (valid Initial keys, …) was acted upon -/
  pendingAgree : Option String := none
  /-- the monitor `pendingAgree` is reported under -/
  pendingMon : String := "success_without_agreement"
  /-- … and its classifier ("-" unless the situation is a listed known finding) -/
  pendingClass : String := "-"

def sections (s : String) : List (List String) := (s.splitOn " ; ").map words

def stepPkt (s : St) (idx : Nat) (impl : String) : St × StepOut :=
  match impl.splitOn " | " with
  | [left, right] => Id.run do
    let ls := sections left
    let rsec := sections right
    let hdr := kvOf (ls.headD [])
    let conn := hdr.get "conn"
    let src := hdr.get "src"
    let injected := src.startsWith "i"
    let preSec := ls.find? (fun w => w.headD "" == "pre")
    let partSecs := ls.filter (fun w => w.headD "" == "part")
    let parts0 := partSecs.map (fun w => partOf (kvOf w))
    let secArg (name : String) : String := ((ls.find? (fun w => w.headD "" == name)).getD []).getD 1 "-"
    let sentB := datagramsOf (secArg "sentb")
    let sentA := datagramsOf (secArg "senta")
    let extras := (secArg "extra").splitOn ","
    let isSrvConn := conn.startsWith "s"
    -- the key-life model: what the connection sent before this delivery decides whether it still has Initial keys
    let ks0 : KeyLife.KeySt := match s.keySt.find? (fun p => p.1 == conn) with
      | some p => p.2
      | none => { perspective := if isSrvConn then .server else .client }
    let ksPre := sentB.foldl KeyLife.sendDatagram ks0
    let parts := parts0.map fun p => if p.kind == .initial then { p with keys := KeyLife.initialKeys ksPre } else p
    let implReact := (rsec.find? (fun w => w.headD "" == "react")).getD []
    let implReacts := (implReact.drop 1).filter (fun w => !w.startsWith "closed=")
    let implClosed := (kvOf implReact).get "closed"
    let implPostSec := rsec.find? (fun w => w.headD "" == "post")
    let mut fails : List (String × String × String) := []
    let mut tags : List String := []
    match preSec with
    | none =>
      -- not routed to a live connection: nothing may happen
      let model := left ++ " | react " ++ " ".intercalate (parts.map fun _ => "-") ++ " closed=-"
      return ({ s with seenPkts := s.seenPkts + 1, last := none }, { model := model, tags := ["pkt:unrouted"] })
    | some pw =>
      let pm := kvOf pw
      let pre0 := stateOf pm
      -- a connection dialed again after Version Negotiation starts with the flag doDial passes (regenerated fact),
      -- not with whatever the implementation's state claims
      let renegotiated := s.negotiated.contains conn
      let spec := s.scn.get "client" != "plain" && s.scn.get "client" != ""
      let pre := if renegotiated then { pre0 with versionNegotiated := pre0.versionNegotiated || recreateMarksNegotiated spec } else pre0
      let phc := b1 (pm.get "phc")
      let (post, acts) := gateDatagram pre parts
      let closedModel :=
        if acts.contains .fail then "version_mismatch"
        else if acts.contains .processFatal then implClosed
        else "-"
      -- Initial keys after the delivery: the client's answer datagrams (any position of a Handshake packet counts),
      -- a Handshake packet the server unpacked (now, or one that had been queued), the server's handshake confirmation
      -- (the packets of a closing connection carry its CONNECTION_CLOSE: they are not registered as sent)
      let closing := b1 (pm.get "pcl")
      let sentA := if closing then [] else sentA
      let ksSent := sentA.foldl KeyLife.sendDatagram ksPre
      let ksRecv := (parts.zip acts).foldl (fun k pa =>
        if pa.1.kind == .handshake && (pa.2 == .process || pa.2 == .processFatal) then KeyLife.unpackedLong k .handshake else k) ksSent
      let ksLate := extras.foldl (fun k e => if e == "recv:handshake" then KeyLife.unpackedLong k .handshake else k) ksRecv
      let ksPost := if isSrvConn && phc then KeyLife.confirmed ksLate else ksLate
      let model := left ++ " | post " ++ coreTxt post phc ++ " ; react " ++ " ".intercalate (acts.map actionTxt) ++ " closed=" ++ closedModel ++
        " ; keys ik=" ++ (if closing then "-" else keysTxt (KeyLife.initialKeys ksPost))
      if sentB.any (·.contains .handshake) || sentA.any (·.contains .handshake) then
        tags := tags ++ ["keys:handshake_sent:" ++ String.ofList ((sentB ++ sentA).flatMap fun d =>
          if d.contains .handshake then (if d.head? == some .handshake then ['h'] else ['c']) else [])]
      if pre.receivedFirstPacket && phc then tags := tags ++ ["gate:after_completion"]
      for (p, a) in parts.zip acts do
        tags := tags ++ [s!"gate:{kindTxt p.kind}:{actionTag a}"]
      -- monitors on the implementation's own answers
      let implPost := match implPostSec with
        | some w => stateOf (kvOf w)
        | none => pre
      let implPostTxt := match implPostSec with
        | some w => " ".intercalate (w.drop 1)
        | none => ""
      let obs := implReacts.map obsOf
      let mut st := s
      let mut allInert := true
      -- RFC 9001 4.9.1: no Initial keys, and no Initial packet acted upon, once the client has SENT / the server has
      -- RECEIVED a Handshake packet (ghost: the client's datagrams as seen on the wire, the server's own reports)
      let implIk := (kvOf ((rsec.find? (fun w => w.headD "" == "keys")).getD [])).get "ik"
      let hsOutBefore := s.hsOut.contains conn || sentB.any (·.contains .handshake)
      let hsOutAfter := hsOutBefore || sentA.any (·.contains .handshake)
      let hsInBefore := s.hsIn.contains conn
      let hsInAfter := hsInBefore || ((parts.zip obs).any fun po => po.1.kind == .handshake && po.2 == .received) || extras.contains "recv:handshake"
      if !isSrvConn && hsOutAfter && implIk != "dropped" && implIk != "" && implIk != "-" then
        fails := fails ++ [("initial_keys_kept_after_handshake_sent", "-", s!"pkt {idx}: the client has sent a Handshake packet and still has Initial keys (ik={implIk})")]
      if isSrvConn && hsInAfter && implIk != "dropped" && implIk != "" && implIk != "-" then
        fails := fails ++ [("initial_keys_kept_after_handshake_received", "-", s!"pkt {idx}: the server has received a Handshake packet and still has Initial keys (ik={implIk})")]
      for (p, o) in parts.zip obs do
        if p.kind == .initial && !o.inert && ((!isSrvConn && hsOutBefore) || (isSrvConn && hsInBefore)) then
          fails := fails ++ [("initial_acted_upon_after_first_handshake_packet", "-", s!"pkt {idx}: Initial packet processed by an endpoint that must have discarded its Initial keys")]
      st := { st with keySt := (conn, ksPost) :: st.keySt.filter (fun p => p.1 != conn),
                      hsOut := if !isSrvConn && hsOutAfter && !st.hsOut.contains conn then conn :: st.hsOut else st.hsOut,
                      hsIn := if isSrvConn && hsInAfter && !st.hsIn.contains conn then conn :: st.hsIn else st.hsIn }
      for (p, o) in parts.zip obs do
        if badRetry pre p && o == .retryAccepted then
          fails := fails ++ [("retry_invalid_tag_accepted", "-", s!"pkt {idx}")]
        if p.kind == .retry && o == .retryAccepted then
          if st.retried.contains conn then
            fails := fails ++ [("second_retry_accepted", "-", s!"pkt {idx} conn {conn}")]
          st := { st with retried := conn :: st.retried }
        if pre.receivedFirstPacket && (p.kind == .retry || p.kind == .vn) && !o.inert then
          fails := fails ++ [("effect_after_genuine", "-", s!"pkt {idx}: {kindTxt p.kind} after the first genuine packet was not dropped")]
        if pre.receivedFirstPacket && p.kind == .initial && p.srcConnID != pre.handshakeDestConnID && !o.inert then
          fails := fails ++ [("effect_after_genuine", "-", s!"pkt {idx}: Initial with a foreign source connection ID was not dropped")]
        if renegotiated && p.kind == .vn && !o.inert then
          fails := fails ++ [("no_effect_after_version_negotiated", "-", s!"pkt {idx}: Version Negotiation acted upon by a connection that was itself dialed after version negotiation")]
        if p.kind == .vn && (o == .vnRecreate) then
          st := { st with negotiated := toString (natOf conn + 1) :: st.negotiated }
        if !mustBeInert pre p then allInert := false
        if mustBeInert pre p && !o.inert then
          fails := fails ++ [("forged_packet_had_effect", "-", s!"pkt {idx}: {kindTxt p.kind} that must be ignored was not")]
      if allInert && !phc && !pre.receivedFirstPacket || (allInert && pre.receivedFirstPacket) then
        -- nothing in this datagram may move the gate state or close the connection
        if !(coreEq pre implPost || (b1 (pm.get "hc"))) then
          fails := fails ++ [("forged_packet_moved_state", "-", s!"pkt {idx}: state changed by a datagram that must be ignored")]
          st := { st with harmed := true }
        if implClosed != "-" then
          fails := fails ++ [("forged_packet_closed_connection", "-", s!"pkt {idx}: closed={implClosed}")]
          st := { st with harmed := true }
      -- the state does not move between two deliveries (handshake incomplete)
      match st.last with
      | some (li, lc, lpost) =>
        if li + 1 == idx && lc == conn && !b1 (pm.get "hc") then
          let preCore := coreTxt pre false
          if preCore != lpost then
            fails := fails ++ [("state_moved_between_packets", "-", s!"pkt {idx}: {preCore} vs {lpost}")]
      | none => pure ()
      -- an injected datagram, or a genuine one modified in flight, that was acted upon: an attack the
      -- protocol permits (unauthenticated Version Negotiation, Retry before the first packet, valid Initial keys)
      let tampered := injected || src.endsWith ":flip" || src.endsWith ":trunc"
      if tampered && (obs.any fun o => !o.inert) then
        st := { st with effective := true }
      st := { st with seenPkts := st.seenPkts + 1, last := some (idx, conn, implPostTxt) }
      return (st, { model := model, tags := tags, fails := fails })
  | _ => (s, { model := "bad-line" })

/-- the run line of a resumption / 0-RTT scenario -/
def stepRunZ (s : St) (impl : String) : St × StepOut := Id.run do
  let m := kvOf (words impl)
  let mut fails : List (String × String × String) := []
  let mode := s.scn.get "zrtt"
  let hs := m.get "hs"
  let np := natOf (m.get "npayload")
  let nr := natOf (m.get "nresend")
  let no := natOf (m.get "nother")
  if b1 (m.get "hang") || hs == "hang" then
    -- known finding: a ClientHelloSpec whose ClientHello uTLS refuses to build (pre_shared_key extension, no session,
    -- no Config.OmitEmptyPsk) leaves UQUICConn.Start - and with it the run loop, Dial and Transport.Close - blocked for ever
    let cls := if s.scn.get "psk" == "strict" && b1 (m.get "first") && b1 (m.get "leaked") then "clienthello_build_error_never_returns" else "-"
    fails := fails ++ [("dial_hang", cls, impl)]
  -- 0-RTT data reaches the server application exactly once if accepted and never if rejected
  if np > 1 then
    fails := fails ++ [("zero_rtt_exactly_once_or_never", "-", s!"delivered {np} times: {impl}")]
  -- what depends on the SERVER having completed too is judged at the end of the case: an attack the protocol permits
  -- (a forged Initial sealed with the public Initial keys, …) can make the server side fail while the client completes
  let mut pending : Option String := none
  let mut pendingMon := "success_without_agreement"
  -- Known finding C13-finished-blocked-behind-early-data (fixes/C13-finished-blocked-behind-early-data.diff): a client
  -- whose congestion window is filled by an ACCEPTED 0-RTT flight that is still unacknowledged when the server's
  -- Handshake flight arrives (the server's 1-RTT ACKs were lost, or dropped by the client: undecryptable queue full)
  -- may not send its Finished (congestion limited: ACKs only), and the anti-deadlock PTO does not probe because
  -- bytes_in_flight is not 0: both sides sit until their idle timeouts and then fail cleanly. Nothing is delivered
  -- twice and both sides release their state; what does not hold is convergence under bounded loss. Reported under
  -- its own classifier at the end of the case (not when an attack the protocol permits was acted upon).
  let bigEarly := s.scn.get "zsize" == "cwnd" || s.scn.get "zsize" == "window"
  let stalled := bigEarly && mode == "accept" && s.nFault + s.nInj > 0 && np == 0 && nr == 0 &&
    (m.get "write" == "E:idle_timeout" || m.get "write" == "E:handshake_timeout")
  if hs == "complete" then
    if m.get "acc" == "ok" && (m.get "c0" != m.get "s0" || m.get "cv" != m.get "sv" || m.get "calpn" != m.get "salpn") then
      fails := fails ++ [("success_without_agreement", "-", impl)]
    if m.get "acc" != "ok" && !stalled then
      pending := some impl
    if b1 (m.get "c0") then
      if !(np == 1 && nr == 0 && no == 0) && !stalled then
        pending := some s!"accepted but server read npayload={np} nresend={nr} nother={no}: {impl}"
        pendingMon := "zero_rtt_exactly_once_or_never"
      if mode != "accept" then
        fails := fails ++ [("zero_rtt_accepted_against_config", "-", impl)]
    else if b1 (m.get "early") then
      -- rejected: never delivered, the API says Err0RTTRejected, the application's resend arrives once
      if np != 0 then
        fails := fails ++ [("zero_rtt_exactly_once_or_never", "-", s!"rejected but the server application read the early data: {impl}")]
      if !(no == 0 && nr == 1) then
        pending := some s!"rejected, server read nresend={nr} nother={no}: {impl}"
        pendingMon := "zero_rtt_exactly_once_or_never"
      if m.get "after" != "E:0rtt_rejected/E:0rtt_rejected" || m.get "next" != "nil" then
        fails := fails ++ [("zero_rtt_reject_not_reported", "-", impl)]
      -- DropPackets(0-RTT): every 0-RTT packet left loss recovery's accounting
      if m.get "left0" != "0" || m.get "leftbytes" != "0" then
        fails := fails ++ [("zero_rtt_reject_keeps_packets", "-", impl)]
    else if !(np == 1 && no == 0) then
      pending := some s!"no early data attempted, server read npayload={np} nother={no}: {impl}"
  if m.get "cleft" != "0" || m.get "sleft" != "0" then
    fails := fails ++ [("state_not_released", "-", impl)]
  let tag := if hs == "complete" then (if b1 (m.get "c0") then "zrtt:accepted" else if b1 (m.get "early") then "zrtt:rejected" else "zrtt:not_attempted") else s!"zrtt:{hs}"
  let tag := if stalled then "zrtt:stalled_behind_unacked_early_data" else tag
  let mut pendingClass := "-"
  if stalled then
    pending := some s!"0-RTT accepted, early data larger than the congestion window, bounded faults: the handshake stalls until the idle timeouts: {impl}"
    pendingMon := "bounded_faults_do_not_converge"
    pendingClass := "finished_blocked_behind_unacked_early_data"
  let tag := if s.scn.get "client" == "chrome" then tag ++ ":parrot" ++ (if b1 (m.get "resumed") then ":resumed" else "") else tag
  -- for the convergence monitor the outcome of the dial is the outcome of the handshake
  let m' : KV := ("dial", if hs == "complete" || stalled then "nil" else hs) :: m.filter (fun p => p.1 != "dial")
  return ({ s with ran := true, run := m', ntrace := natOf (m.get "ntrace"), pendingAgree := pending, pendingMon := pendingMon, pendingClass := pendingClass }, { model := impl, tags := [tag, "zrtt:" ++ mode], fails := fails })

def stepRun (s : St) (impl : String) : St × StepOut := Id.run do
  let m := kvOf (words impl)
  let mut fails : List (String × String × String) := []
  let mut pending : Option String := none
  let dial := m.get "dial"
  let vn := s.scn.get "vn"
  if b1 (m.get "hang") || m.get "redial" == "hang" || b1 (m.get "leaked") then
    fails := fails ++ [("dial_hang", "-", impl)]
  -- the application cancelled the dial context: Dial returns at once (it only waits for the run loop to end, which
  -- takes no virtual time), with the context's error, and leaves nothing behind
  let cancelled := m.get "clag" != "-1" && m.get "clag" != ""
  if cancelled && (b1 (m.get "hang") || b1 (m.get "leaked") || intOf (m.get "clag") > 1000000000) then
    fails := fails ++ [("no_hang", "-", s!"Dial did not return after its context was cancelled: {impl}")]
  -- a dial is re-created at most once: the second connection has its version negotiated
  if natOf (m.get "att") > 2 then
    fails := fails ++ [("no_effect_after_version_negotiated", "-", s!"{m.get "att"} connection attempts (versions {m.get "vers"}) in one dial")]
  if natOf (m.get "t") > natOf (m.get "bound") then
    fails := fails ++ [("dial_exceeds_handshake_timeout", "-", impl)]
  if dial == "nil" then
    -- whatever the network and an attacker did: a client that completed holds connection IDs authenticated by
    -- genuine packets, and a server that completed with it agrees on version, ALPN, 0-RTT and the client's ID
    if m.get "ccids" != "ok" then
      fails := fails ++ [("authenticated_cids_mismatch", "-", impl)]
    if m.get "acc" == "ok" && !(m.get "cv" == m.get "sv" && m.get "calpn" == m.get "salpn" && m.get "calpn" != "" &&
        m.get "c0" == m.get "s0" && m.get "cids" == "ok") then
      fails := fails ++ [("success_without_agreement", "-", impl)]
    let agree := m.get "acc" == "ok" && m.get "echo" == "ok"
    -- defect repaired in /repo (46d8c7c): with a zero-length source connection ID (Chrome parrot) a dial restarted after
    -- Version Negotiation lost its packet-handler entry when the first attempt's closed-connection placeholder expired
    let zeroLenRestart := s.scn.get "client" == "chrome" && natOf (m.get "att") ≥ 2 && m.get "echo" == "fail" && m.get "acc" == "ok"
    if !agree && zeroLenRestart then
      fails := fails ++ [("success_without_agreement", "zero_len_scid_restart_unroutable", impl)]
    else if !agree then
      -- the server side did not complete or the connection does not work: judged at the end of the case
      pending := some impl
    if vn == "fail" then
      fails := fails ++ [("success_without_common_version", "-", impl)]
    if s.scn.get "net" == "blackhole" || s.scn.get "net" == "hsblock" then
      fails := fails ++ [("success_without_server_flight", "-", impl)]
  -- (a dial cancelled by the application is destroyed without a CONNECTION_CLOSE: the server may be left with a
  -- connection until ITS timeouts run out, which can be the 30 s idle timeout if the client's Finished was already out)
  if m.get "cleft" != "0" || (m.get "sleft" != "0" && !cancelled) then
    fails := fails ++ [("state_not_released", "-", impl)]
  if dial != "nil" && !(m.get "redial" == "nil" || m.get "redial" == "-") then
    -- same root cause as above: with a zero-length source connection ID the closed-connection placeholder of an
    -- earlier attempt deletes the handler entry of the next dial on the same transport when it expires
    let zeroLenRedial := s.scn.get "client" == "chrome" && m.get "redial" == "E:idle_timeout"
    fails := fails ++ [("redial_after_failure_fails", if zeroLenRedial then "zero_len_scid_redial_unroutable" else "-", impl)]
  -- ... and a second dial on the same transport (clean network, same spec value) after a SUCCESSFUL one completes too:
  -- nothing the first connection left behind - in the transport, in the caller's spec - may make it fail
  if dial == "nil" && !cancelled && !(m.get "redial" == "nil" || m.get "redial" == "-" || m.get "redial" == "") then
    fails := fails ++ [("redial_after_success_fails", "-", impl)]
  -- aliasing: one QUICSpec value serves every connection of the case (and whatever the caller dials next), so a dial
  -- must not leave per-connection state in it. Deep snapshots of the caller's value (one hash per ClientHello
  -- extension) before the dial, after it and after the second dial: the first use may fill in connection-independent
  -- values that are drawn once per spec (the GREASE parameter's id and value, the ALPS code point) - after that the
  -- spec no longer moves; and no part of it ever holds a connection ID one of the connections used on the wire.
  let mut tags : List String := []
  if m.get "taint" != "" && m.get "taint" != "-" then
    fails := fails ++ [("connection_id_left_in_caller_spec", "-", s!"after the dial the caller's QUICSpec holds a connection's source connection ID in: {m.get "taint"}")]
  match (m.get "specs").splitOn "|" with
  | [s0, s1, s2] =>
    let changed (a b : String) : List String :=
      ((a.splitOn ",").zip (b.splitOn ",")).filterMap fun (x, y) => if x != y then some ((x.splitOn ":").headD "?") else none
    tags := tags ++ (if s0 == s1 then ["spec:untouched"] else (changed s0 s1).map fun p => "spec:first_use:" ++ ((p.splitOn ".").getD 1 p))
    if s1 != s2 && dial == "nil" && m.get "redial" == "nil" then
      fails := fails ++ [("caller_spec_written_by_later_dial", "-", s!"the second dial with one QUICSpec value modified it: {changed s1 s2}")]
  | _ => pure ()
  let tag := if dial == "nil" then "run:ok" else s!"run:{dial}"
  return ({ s with ran := true, run := m, ntrace := natOf (m.get "ntrace"), pendingAgree := pending }, { model := impl, tags := tag :: tags, fails := fails })

def stepDeadline (s : St) (impl : String) : St × StepOut :=
  match impl.splitOn " | " with
  | [left, _] =>
    let m := kvOf (words left)
    let c : Clock := { creationTime := intOf (m.get "creation"), lastPacketReceivedTime := intOf (m.get "last"),
                       firstAckElicitingSent := intOf (m.get "first"), handshakeIdleTimeout := intOf (m.get "hsidle") }
    let now := intOf (m.get "now")
    let cls := match postWake c now with
      | .handshakeTimeout => "E:handshake_timeout"
      | .idleTimeout => "E:idle_timeout"
      | .continue => "continue"
    -- the timer was armed for exactly the handshake deadline
    let dl := maybeResetTimer c {} .none
    (s, { model := left ++ " | " ++ cls ++ s!" at={dl}", tags := ["deadline:" ++ cls] })
  | _ => (s, { model := "bad-line" })

def stepAuth (s : St) (impl : String) : St × StepOut :=
  match impl.splitOn " | " with
  | [left, _] =>
    match sections left with
    | [stw, pw] =>
      let st := stateOf (kvOf stw)
      let pm := kvOf pw
      let params : CIDParams := { initialSourceConnectionID := cidOf (pm.get "isc"),
                                  originalDestinationConnectionID := cidOf (pm.get "odc"),
                                  retrySourceConnectionID := optCidOf (pm.get "rsc") }
      let res := match checkTransportParameters st params with
        | none => "ok"
        | some .initialSourceConnectionID => "E:isc"
        | some .originalDestinationConnectionID => "E:odc"
        | some .missingRetrySourceConnectionID => "E:rsc_missing"
        | some .wrongRetrySourceConnectionID => "E:rsc_wrong"
        | some .unexpectedRetrySourceConnectionID => "E:rsc_unexpected"
      (s, { model := left ++ " | " ++ res, tags := ["auth:" ++ res] })
    | _ => (s, { model := "bad-line" })
  | _ => (s, { model := "bad-line" })

def step (s : St) (op impl : String) : St × StepOut :=
  match words op with
  | "scn" :: rest => ({ s with scn := kvOf rest }, { model := impl, tags := rest.map (fun w => "scn:" ++ w) })
  | "fault" :: _ :: _ :: k :: _ => ({ s with nFault := s.nFault + 1 }, { model := impl, tags := ["fault:" ++ k] })
  | "inj" :: _ :: rest => ({ s with nInj := s.nInj + 1 }, { model := impl, tags := ["inj:" ++ (kvOf rest).get "kind"] })
  | ["run"] =>
    if impl == "skip" then (s, { model := impl })
    else if s.scn.get "zrtt" != "" && s.scn.get "zrtt" != "none" then stepRunZ s impl
    else stepRun s impl
  | ["pkt", i] => if impl == "skip" then (s, { model := impl }) else stepPkt s (natOf i) impl
  | ["deadline"] => if impl == "skip" then (s, { model := impl }) else stepDeadline s impl
  | ["auth", _] => if impl == "skip" then (s, { model := impl }) else stepAuth s impl
  | _ => (s, { model := "bad-op" })

/-- judged when the whole trace of the run was seen: with bounded faults and no effective attack the
handshake converges -/
def final (s : St) : List (String × String × String) :=
  let complete := s.ran && s.ntrace == s.seenPkts
  -- a spec-driven client whose ClientHelloSpec the scenario made unusable may fail (cleanly): an empty pre_shared_key
  -- extension that uTLS refuses to build (strict), an early_data extension uTLS does not know it sent (psked: the server
  -- accepts early data, the client answers unsupported_extension)
  let unusableSpec := s.scn.get "psk" == "strict" || (s.scn.get "psk" == "psked" && s.scn.get "zrtt" == "accept")
  (if complete && !unusableSpec && s.run.get "dial" != "nil" && s.scn.get "vn" != "fail" && (s.scn.get "net" == "ok" || s.scn.get "net" == "") &&
      (s.run.get "clag" == "-1" || s.run.get "clag" == "") && !s.effective && !s.harmed then
    [("bounded_faults_do_not_converge", "-", s!"dial={s.run.get "dial"} with {s.nFault} faults and {s.nInj} ineffective injections")]
  else []) ++
  (match s.pendingAgree with
   | some impl => if complete && !s.effective && !s.harmed then [(s.pendingMon, s.pendingClass, impl)] else []
   | none => [])

def main : IO Unit := run { init := ({} : St), step := step, final := final }
