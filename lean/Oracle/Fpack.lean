import Uquic.Oracle.Frame
import Uquic.Model.Stream.Framer

/-!
Oracle for the `fpack` driver (real framer + SendStreams + flow controllers + packetPacker).
The model side is the framer's registration rule (`Uquic.Model.Stream.Framer`), replayed with the polls the
implementation reports as witnesses; everything else on the line is echoed. Monitors use ghost state from the
ops and the packets the implementation produced.
-/
open Uquic.Oracle Uquic.Model.Stream.Framer

structure SG where
  k : Nat
  limit : Nat            -- stream-level send limit (initial window, raised by maxstream)
  want : Nat := 0        -- bytes handed to Write
  sentMax : Nat := 0     -- highest offset+len emitted
  finEmitted : Bool := false
  closed : Bool := false
  lostPending : List (Nat × Nat) := []   -- ranges declared lost and not re-emitted yet
  finLost : Bool := false
deriving Inhabited

structure St where
  f : FState := {}
  ss : List SG := []
  pkts : Array (List (Nat × Nat × Nat × Bool)) := #[]   -- stream frames per packet: k, off, len, fin
  dgSent : List Nat := []
  done : List Nat := []
  started : Bool := false

def fld (s key : String) : Option String :=
  (words s).findSome? fun w => if w.startsWith key then some (w.drop key.length).toString else none

def listOf (s : Option String) : List String :=
  match s with
  | none => []
  | some "-" => []
  | some t => t.splitOn ","

def getS (st : St) (k : Nat) : Option SG := st.ss.find? (·.k == k)
def setS (st : St) (g : SG) : St := { st with ss := st.ss.map fun x => if x.k == g.k then g else x }

/-- remove `[a,b)` from a list of half-open ranges -/
def subtract (rs : List (Nat × Nat)) (a b : Nat) : List (Nat × Nat) :=
  rs.flatMap fun (x, y) =>
    (if x < min y a then [(x, min y a)] else []) ++ (if max x b < y then [(max x b, y)] else [])

def pendingG (g : SG) : Bool :=
  g.want > g.sentMax || (g.closed && !g.finEmitted) || !g.lostPending.isEmpty || g.finLost

def fmtAct (f : FState) : String :=
  let ids := f.active.toArray.qsort (· < ·) |>.toList
  if ids.isEmpty then "-" else ",".intercalate (ids.map toString)

def step (st : St) (op impl : String) : St × StepOut := Id.run do
  let w := words op
  let head := (words impl).headD ""
  let mut st := st
  let mut tags : List String := []
  let mut fails : List (String × String × String) := []
  let ok := head == "ok"
  match w with
  | ["new", _] => if ok then st := { st with started := true }; tags := ["new"]
  | ["open", k, win] => if ok then st := { st with ss := st.ss ++ [{ k := natOf k, limit := natOf win }] }; tags := ["open"]
  | ["write", k, n] =>
    if ok then
      match getS st (natOf k) with
      | some g =>
        st := setS st { g with want := g.want + natOf n }
        st := { st with f := addActive st.f (natOf k) }     -- Write -> onHasStreamData
        tags := ["write"]
      | none => pure ()
    else tags := ["write:skip"]
  | ["close", k] =>
    if ok then
      match getS st (natOf k) with
      | some g => st := setS st { g with closed := true }; st := { st with f := addActive st.f (natOf k) }; tags := ["close"]
      | none => pure ()
  | ["dgram", _] => tags := [if ok then "dgram" else "dgram:skip"]
  | ["maxdata", _] => tags := ["maxdata"]
  | ["maxstream", k, v] =>
    match getS st (natOf k) with
    | some g =>
      if natOf v > g.limit then
        st := setS st { g with limit := natOf v }
        -- updateSendWindow re-registers the stream if it holds data that was never sent
        if g.want > g.sentMax then st := { st with f := addActive st.f g.k }
        tags := ["maxstream:raise"]
      else tags := ["maxstream:stale"]
    | none => pure ()
  | ["pack", _] =>
    if head != "skip" then
      -- replay the polls through the framer model
      let polls := (listOf (fld impl "polls=")).filterMap fun p =>
        match p.splitOn ":" with
        | [k, _, m] => some (natOf k, m == "1")
        | _ => none
      let mut f := st.f
      for (k, more) in polls do
        -- heads that are not registered any more are dropped without a poll
        let mut fuel := f.queue.length
        while fuel > 0 && (match f.queue with | id :: _ => !f.active.contains id | [] => false) do
          f := (getNext f false).1
          fuel := fuel - 1
        let (f', polled) := getNext f more
        if polled != some k then
          fails := fails ++ [("framer_round_robin", "-", s!"framer polled stream {k} but the head of its queue is {f.queue.head?}")]
        f := f'
        tags := tags ++ [if more then "poll:requeue" else "poll:drop"]
      st := { st with f := f }
      if head.startsWith "p=" then
        -- frames of this packet
        let frs := listOf (fld impl "fr=")
        for x in frs do
          if x.startsWith "DG" then
            let idx := natOf ((x.drop 2).toString.splitOn "/").head!
            if x.endsWith "/h1" then
              fails := fails ++ [("datagram_not_retransmittable", "-", s!"DATAGRAM {idx} was registered with a retransmission handler")]
            if st.dgSent.contains idx then
              fails := fails ++ [("datagram_sent_once", "-", s!"DATAGRAM {idx} was put into a second packet")]
            st := { st with dgSent := idx :: st.dgSent }
            tags := tags ++ ["pack:datagram"]
        let mut sfl : List (Nat × Nat × Nat × Bool) := []
        for x in listOf (fld impl "sf=") do
          match x.splitOn ":" with
          | [k, o, l, fin, good] =>
            let k := natOf k; let o := natOf o; let l := natOf l; let fin := fin == "1"
            sfl := sfl ++ [(k, o, l, fin)]
            match getS st k with
            | some g =>
              if good != "1" || o + l > g.want then
                fails := fails ++ [("stream_frame_faithful", "-", s!"stream {k}: frame {o}+{l} does not carry the bytes written at that offset ({g.want} written)")]
              if fin && !(g.closed && o + l == g.want) then
                fails := fails ++ [("stream_frame_faithful", "-", s!"stream {k}: FIN on a frame ending at {o + l}, closed={g.closed}, written={g.want}")]
              st := setS st { g with sentMax := max g.sentMax (o + l), finEmitted := g.finEmitted || fin,
                                     lostPending := subtract g.lostPending o (o + l), finLost := g.finLost && !fin }
              tags := tags ++ [if o + l ≤ g.sentMax then "pack:retransmission" else "pack:new-data"]
            | none => pure ()
          | _ => pure ()
        st := { st with pkts := st.pkts.push sfl }
      else tags := tags ++ ["pack:none"]
  | ["lose", p] =>
    if ok then
      for (k, o, l, fin) in st.pkts[natOf p]?.getD [] do
        match getS st k with
        | some g =>
          if !st.done.contains k then
            st := setS st { g with lostPending := if l > 0 then (o, o + l) :: g.lostPending else g.lostPending, finLost := g.finLost || fin }
            st := { st with f := addActive st.f k }     -- OnLost -> onHasStreamData
        | none => pure ()
      tags := ["lose"]
  | ["ack", _] => tags := [if ok then "ack" else "ack:skip"]
  | _ => pure ()
  -- completion callbacks (witness): Conn.onStreamCompleted removes the stream from the framer
  let doneNow := (listOf (fld impl "done=")).map natOf
  for k in doneNow do
    if !st.done.contains k then
      st := { st with done := k :: st.done, f := removeActive st.f k }
      tags := tags ++ ["completed"]
  -- the model's prediction: the registration state; the rest of the line is echoed
  let implAct := (fld impl "act=").getD "-"
  let model := if implAct == fmtAct st.f then impl else
    " ".intercalate ((words impl).map fun x => if x.startsWith "act=" then s!"act={fmtAct st.f}" else x)
  -- monitor: a stream that still has something to send stays registered in the framer
  let actImpl := (listOf (some implAct)).map natOf
  for g in st.ss do
    if pendingG g && !st.done.contains g.k && !actImpl.contains g.k then
      fails := fails ++ [("pending_stream_stays_registered", "-", s!"stream {g.k} has unsent data or an unsent FIN (written {g.want}, sent up to {g.sentMax}, closed={g.closed}, fin sent={g.finEmitted}, lost ranges {g.lostPending.length}) but is not registered in the framer")]
  return (st, { model := model, tags := tags, fails := fails })

def main : IO Unit := run { init := ({} : St), step := step }
