import Uquic.Oracle.Frame
import Uquic.Model.UQuic.RecvTime

/-!
Oracle of the C12 receive-time driver `rcvtime` (real loopback UDP sockets, real time). The MODEL side predicts
that every stamp is taken after the read returned (`Uquic.Model.UQuic.RecvTime.stamp`): `stamps=ok` / `stamp=ok`.
The MONITOR `receive_time_is_arrival_time` judges what the implementation printed: a receive time that lies
before the instant the datagram was handed to the sender's socket (`early` / `stale`), or after the instant
`ReadPacket` had already returned (`late`), is not the time the datagram arrived — the idle timer would count a
peer's silence from an instant before it last spoke.
-/

open Uquic.Oracle

structure St where
  dialed : Bool := false

def fieldOf (body key : String) : Option String :=
  (words body).findSome? fun w => if w.startsWith (key ++ "=") then some (w.drop (key.length + 1)).toString else none

def stampFails (what impl : String) : List (String × String × String) :=
  match (fieldOf impl "stamps").orElse (fun _ => fieldOf impl "stamp") with
  | some v =>
    if v == "ok" then [] else
    [("receive_time_is_arrival_time", "-",
      s!"{what}: the receive time a packet was stamped with is not the time it arrived ({v}): the idle timer counts the peer's silence from an instant before it spoke")]
  | none => []

def step (s : St) (op impl : String) : St × StepOut :=
  match words op with
  | ["raw", kind, silence, n] =>
    match silence.toNat?, n.toNat? with
    | some sl, some k =>
      if (kind != "oob" && kind != "basic") || sl > 2000 || k < 1 || k > 32 then (s, { model := "bad-op" }) else
      (s, { model := s!"kind={kind} n={k} stamps=ok",
            tags := [s!"raw:{kind}", if k > 1 then "raw:burst" else "raw:single", if sl ≥ 40 then "silence:long" else "silence:short"],
            fails := stampFails s!"socket wrapper ({kind}), after {sl} ms of silence" impl })
    | _, _ => (s, { model := "bad-op" })
  | ["dial", client, kind] =>
    if kind != "oob" && kind != "basic" then (s, { model := "bad-op" }) else
    ({ s with dialed := impl.startsWith "ok" },
     { model := s!"ok kind={kind}", tags := [s!"dial:{kind}", if client == "plain" then "dial:plain" else "dial:spec"] })
  | ["say", silence, n] =>
    match silence.toNat?, n.toNat? with
    | some sl, some k =>
      if sl > 2000 || k < 1 || k > 4000 then (s, { model := "bad-op" }) else
      if !s.dialed then (s, { model := "skip" }) else
      (s, { model := "stamp=ok", tags := ["say", if k > 1200 then "say:several-packets" else "say:one-packet"],
            fails := stampFails s!"connection, after {sl} ms of silence" impl })
    | _, _ => (s, { model := "bad-op" })
  | ["hangup"] =>
    if !s.dialed then (s, { model := "skip" }) else ({ s with dialed := false }, { model := "ok", tags := ["hangup"] })
  | _ => (s, { model := "bad-op" })

def main : IO Unit := run { init := ({} : St), step := step }
