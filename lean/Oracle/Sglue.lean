import Uquic.Oracle.Frame
import Uquic.Model.Streams.Glue
import Uquic.Spec.SmapMon

/-!
Oracle for the C15 glue driver (`sglue`): advertised / enforced stream limits of connections built by
the real constructors, and `Conn.handleFrames` on generated 1-RTT packets.
-/

open Uquic.Oracle Uquic.Model.Streams

abbrev Fail := String × String × String

structure GGhost where
  kind : ConnKind := .server
  pers : Persp := .server
  conf : Limits := ⟨0, 0⟩
  /-- what the implementation itself handed to TLS (what the peer is told) -/
  adv : Limits := ⟨0, 0⟩
  outNextB : Int := 0
  outNextU : Int := 0

structure St where
  m : Option Map := none
  traced : Bool := false
  sent : List Int := []
  rcvd : List Int := []
  g : GGhost := {}

def b01 (b : Bool) : String := if b then "1" else "0"

def outDigest (o : Outgoing) : String :=
  s!"{o.nextStream},{o.maxStream},{b01 o.blockedSent},{o.openQueue.length},{o.streams.length}"
def inDigest (i : Incoming) : String :=
  s!"{i.nextAccept},{i.nextOpen},{i.maxStream},{i.streams.length},{(i.streams.filter (·.2)).length}"
def digest (m : Map) : String :=
  s!"ob={outDigest m.outBidi} ou={outDigest m.outUni} ib={inDigest m.inBidi} iu={inDigest m.inUni} rs={b01 m.reset}"

def parseKind : String → Option ConnKind
  | "server" => some .server | "client" => some .client | "uclient" => some .uclient | _ => none

def parseT : String → Option STyp
  | "b" => some .bidi | "u" => some .uni | _ => none

def parseFrame (sent : List Int) (tok : String) : Option PFrame :=
  match tok.splitOn ":" with
  | ["S", id] => some (.stream (intOf id))
  | ["R", id] => some (.reset (intOf id))
  | ["B", id] => some (.sdb (intOf id))
  | ["T", id] => some (.stop (intOf id))
  | ["M", id] => some (.msd (intOf id))
  | ["X", t, n] => (parseT t).map fun t => .maxStreams t (intOf n)
  | ["A", pn] => some (.ack (sent.contains (intOf pn)))
  | ["P"] => some .ping
  | ["D"] => some .maxData
  | ["K"] => some .dataBlocked
  | ["L"] => some .streamsBlocked
  | ["Z"] => some .padding
  | _ => none

def implField (iw : List String) (key : String) : Option String :=
  iw.findSome? fun w => if w.startsWith key then some (w.drop key.length).toString else none

def parsePair (s : String) : Option Limits :=
  match s.splitOn "," with
  | [a, b] => some ⟨intOf a, intOf b⟩
  | _ => none

/-- what the first-error rule demands of one frame, judged from the operations and from what the
    implementation advertised / returned earlier (never from the model's state) -/
inductive Verdict | ok | limit | state | proto
deriving DecidableEq

def Verdict.name : Verdict → String
  | .ok => "ok" | .limit => "E:limit" | .state => "E:state" | .proto => "E:proto"

def frameVerdict (g : GGhost) : PFrame → Verdict × Option SID
  | .ack sent => (if sent then .ok else .proto, none)
  | .stream id | .reset id | .sdb id => streamVerdict g id false
  | .stop id | .msd id => streamVerdict g id true
  | _ => (.ok, none)
where
  streamVerdict (g : GGhost) (id : SID) (sendKind : Bool) : Verdict × Option SID :=
    let t := typeOf id
    let own := initiatedBy id == g.pers
    if t == .uni && (own != sendKind) then (.state, none)
    else if own then
      let next := if t == .bidi then g.outNextB else g.outNextU
      (if id ≥ next then .state else .ok, none)
    else
      let advN := if t == .bidi then g.adv.bidi else g.adv.uni
      if id > numToID advN t g.pers.opposite then (.limit, some id) else (.ok, none)

def classOf (head : String) : String :=
  if head.startsWith "E:state" then "E:state" else head

def step (s : St) (op impl : String) : St × StepOut :=
  let w := words op
  let iw := words impl
  let head := iw.headD ""
  match w, s.m with
  | ["conn", kind, cb, cu, _sid, sb, su, tr], none =>
    match parseKind kind with
    | none => (s, { model := "skip" })
    | some k =>
      let conf : Limits := ⟨intOf cb, intOf cu⟩
      let spec : Limits := ⟨intOf sb, intOf su⟩
      let adv := advertisedLimits k conf spec
      let enf := enforcedLimits k conf spec
      let pers := if k == .server then Persp.server else Persp.client
      let m := ((Map.new pers enf.bidi enf.uni).step (.params 3 3)).1
      let traced := tr == "1"
      let model := s!"ok adv={adv.bidi},{adv.uni} enf={enf.bidi},{enf.uni} tr={b01 traced} {digest m}"
      -- monitor: the limit in force must be the one the peer was told (both read from the implementation)
      let implAdv := (implField iw "adv=").bind parsePair
      let implEnf := (implField iw "enf=").bind parsePair
      let pconf := populate conf
      let fails : List Fail := match implAdv, implEnf with
        | some a, some e =>
          let chk := fun (name : String) (av ev pc : Int) =>
            if ev == av then []
            else
              let cls := if k == .uclient && ev > av && ev == pc then "config_above_spec" else "-"
              [("enforced_limit_equals_advertised", cls,
                s!"{kind}: {name} streams: the peer is told {av} but the streams map enforces {ev} (populated Config value {pc})")]
          chk "bidirectional" a.bidi e.bidi pconf.bidi ++ chk "unidirectional" a.uni e.uni pconf.uni
        | _, _ => if head == "ok" then [("enforced_limit_equals_advertised", "-", "advertised / enforced limits not reported")] else []
      let g : GGhost := { kind := k, pers := pers, conf := conf, adv := implAdv.getD adv,
                          outNextB := firstOutgoing .bidi pers, outNextU := firstOutgoing .uni pers }
      let tagEq := match implAdv, implEnf with
        | some a, some e => if a == e then "conn:enforced=advertised" else "conn:enforced>advertised"
        | _, _ => "conn:?"
      ({ s with m := some m, traced := traced, g := g },
       { model := model, tags := [s!"conn:{kind}", tagEq, s!"conn:traced={b01 traced}"], fails := fails })
  | _, none => (s, { model := "skip" })
  | ["conn", _, _, _, _, _, _, _], some _ => (s, { model := "skip" })
  | ["sent", _], some _ =>
    -- packet numbers are drawn by the (randomised) packet number generator: taken from the implementation
    let pns := match implField iw "pns=" with
      | some l => (l.splitOn ",").filterMap String.toInt?
      | none => []
    ({ s with sent := s.sent ++ pns }, { model := impl, tags := ["sent"] })
  | ["open", t], some m =>
    match parseT t with
    | none => (s, { model := "bad-op" })
    | some t =>
      let (m', ev) := m.step (.openStream t)
      let res := match ev.opened with
        | some (.stream id) => toString id
        | some (.err e) => "E:" ++ e.name
        | _ => "?"
      let g := if head.toInt?.isSome then
          (if t == .bidi then { s.g with outNextB := intOf head + 4 } else { s.g with outNextU := intOf head + 4 })
        else s.g
      ({ s with m := some m', g := g }, { model := s!"{res} {digest m'}", tags := [if res.toInt?.isSome then "open:stream" else s!"open:{res}"] })
  | "pkt" :: pn :: toks, some m =>
    let pn := intOf pn
    match toks.mapM (parseFrame s.sent) with
    | none => (s, { model := "bad-op" })
    | some fs =>
      if s.rcvd.contains pn then
        (s, { model := s!"dup {digest m}", tags := ["pkt:dup"] })
      else
        let (m', err) := m.handleFrames s.traced fs
        let res := match err with | some e => "E:" ++ e.name | none => "ok"
        let model := s!"{res} {digest m'}"
        -- monitor first_frame_error_wins: walk the frames with the ghost
        let walk := fs.foldl (fun (acc : Option (Nat × Verdict × Option SID) × Nat) f =>
            match acc.1 with
            | some _ => acc
            | none =>
              let (v, id) := frameVerdict s.g f
              if v == .ok then (none, acc.2 + 1) else (some (acc.2, v, id), acc.2 + 1)) (none, 0)
        let expect : Verdict := match walk.1 with | some (_, v, _) => v | none => .ok
        let fails : List Fail :=
          if head == "dup" || head == "skip" || head == "PANIC" || head == "bad-op" then []
          else if classOf head == expect.name then []
          else
            let idx := match walk.1 with | some (i, _, _) => i | none => 0
            let pconf := populate s.g.conf
            let cls := match walk.1 with
              | some (_, .limit, some id) =>
                let t := typeOf id
                let pc := if t == .bidi then pconf.bidi else pconf.uni
                if s.g.kind == .uclient && head != "E:limit" && id ≤ numToID pc t s.g.pers.opposite then "config_above_spec" else "-"
              | _ => "-"
            [("first_frame_error_wins", cls,
              s!"packet {pn} (traced={b01 s.traced}): frame #{idx} must fail with {expect.name}, handleFrames returned {head}")]
        let failIdx := match walk.1 with | some (i, _, _) => some i | none => none
        let ackAfter := match failIdx with
          | some i => (fs.drop (i + 1)).any fun f => match f with | .ack true => true | _ => false
          | none => false
        let tags := [s!"pkt:{classOf res}", s!"pkt:traced={b01 s.traced}"] ++
          (if ackAfter then ["pkt:ack-after-failing-frame"] else []) ++
          (match failIdx with | some i => [if i == 0 then "pkt:first-frame-fails" else "pkt:later-frame-fails"] | none => [])
        let rcvd := if err.isNone then pn :: s.rcvd else s.rcvd
        ({ s with m := some m', rcvd := rcvd }, { model := model, tags := tags, fails := fails })
  | _, _ => (s, { model := "bad-op" })

def main : IO Unit := run { init := ({} : St), step := step }
