import Uquic.Oracle.Frame
import Uquic.Model.UQuic.Dial
import Uquic.Spec.DialMon
import Uquic.Model.UQuic.DialIdle

open Uquic.Oracle Uquic.Model.UQuic.Dial Uquic.Spec.DialMon

abbrev Fail := String × String × String

def sh : Bool := Uquic.Gen.Dial.specExtsShared
def wb : Bool := Uquic.Gen.Dial.populateWritesBack

def opKV (op : String) : List String := (Uquic.Spec.DialMon.words op).drop 1

def timeouts : List String := ["E:local:IDLE_TIMEOUT", "E:local:HANDSHAKE_TIMEOUT"]

/-- the outcomes the model allows for the last connection attempt of a dial, canonical one first, and a branch tag -/
def allowedOuts (r : Spec × Flight × OwnParams) (faulty : Bool) : List String × String :=
  let f := r.2.1
  let sizesOK := f.sizes.all (fun n => decide (minInitialSize ≤ n))
  let dcidOK := decide (0 < f.tokLen) || decide (minDCIDLen ≤ f.dcidLen)
  if !sizesOK then (timeouts, "dial:drop_small")
  else if !dcidOK then (timeouts, "dial:drop_short_dcid")
  else match f.advIscid with
    | none => ("E:remote:INTERNAL_ERROR:iscid_missing" :: (if faulty then timeouts else []), "dial:reject_missing")
    | some a =>
      if a ≠ f.hdrScid then
        ("E:remote:TRANSPORT_PARAMETER_ERROR:iscid_mismatch" :: (if faulty then timeouts else []), "dial:reject_mismatch")
      else if !r.2.2.hasPrivKey then (["E:local:CRYPTO_ERROR_0x150:tls_internal"], "dial:no_privkey")
      else (["ok"], "dial:accept")

/-- the server gets to see the client's parameters only if it does not drop the flight and the parameters parse -/
def advSeen (r : Spec × Flight × OwnParams) : Option ConnID :=
  let f := r.2.1
  if f.sizes.all (fun n => decide (minInitialSize ≤ n)) && (decide (0 < f.tokLen) || decide (minDCIDLen ≤ f.dcidLen))
  then f.advIscid else none

structure DAcc where
  spec : Option Spec := none          -- the model's spec value (none: no spec / not seen yet)
  s0 : List String := []               -- tokens of the first S section (the fresh spec value)
  out : List Sec := []
  tags : List String := []
  fails : List Fail := []
  nS : Nat := 0

/-- The one crash of the dialing process that is a LISTED finding (C02-spec-initial-coalesced-behind-padding): an index
    panic when the server answered with a HelloRetryRequest, datagrams were lost or late, and the spec's datagram floor
    (Firefox: 1357, or a derived `min:`) leaves no room behind a padded Initial packet. (The fixed-layout probe panic
    is fixed by 059c38c and no longer listed.) -/
def panicKnown (base der faults stls cls : String) : String :=
  if cls == "index" && stls == "hrr" && faults ≠ "-" &&
     (base.startsWith "F116" || (derTokens der).any (·.startsWith "min:")) then "initial_coalesced_behind_padding" else "-"

/-- the wire-trace facts about the client's Initial CRYPTO stream(s) of a dial: monitor + prediction.
    A stream offset never carries two different bytes; when the dial succeeded the stream has no hole. -/
def cryptoJudge (who : String) (t : List String) (implOut : String) : String × List Fail :=
  let cry := (getKV t "cry").getD "ok"
  let fails : List Fail :=
    if cry.startsWith "conflict" then
      [("crypto_stream_consistent", "-", s!"{who}: the client's Initial CRYPTO frames carry two different bytes for one stream offset ({cry}): a later handshake message was not sent at the offset the stream had reached")]
    else if implOut == "ok" && cry.startsWith "gap" then
      [("crypto_stream_consistent", "-", s!"{who}: the handshake completed although the client's Initial CRYPTO stream on the wire has a hole ({cry})")]
    else []
  (if implOut ≠ "ok" && cry.startsWith "gap" then cry else "ok", fails)

def stepDial (op impl : String) : StepOut := Id.run do
  let a := opKV op
  let base := (getKV a "base").getD ""
  let der := (getKV a "der").getD "-"
  let faults := (getKV a "faults").getD "-"
  let fresh := getKV a "fresh" == some "1"
  let srv := (getKV a "srv").getD "def"
  let stls := (getKV a "stls").getD "def"
  let pauseMs : Option Int := (getKV a "pause").bind String.toInt?
  let wf := opWellFormed der
  let faulty := faults ≠ "-"
  let noqtp := (derTokens der).contains "noqtp"
  -- whole-op outcomes without sections
  if impl.startsWith "PANIC" then
    let cls := (impl.drop 6).toString
    if noqtp then
      return { model := "PANIC:no_qtp", tags := ["dial:panic_no_qtp"] }
    -- the model does not cover the packer; a crash that is a LISTED finding is echoed (the monitor still reports it),
    -- any other crash is also a correspondence break
    let known := panicKnown base der faults ((getKV a "stls").getD "def") cls
    return { model := if known == "-" then "ok-sections" else impl, tags := ["dial:PANIC"],
             fails := [("no_panic", known, s!"the dialing process panicked ({cls}) der={der} faults={faults}")] }
  if impl == "hang-real" then
    return { model := "ok-sections", tags := ["dial:hang"], fails := [("no_hang", "-", "the scenario did not finish in real time")] }
  if impl == "skip" then return { model := "skip", tags := ["dial:skip"] }
  if noqtp then return { model := "PANIC:no_qtp", tags := ["dial:panic_no_qtp"] }
  let secs := parseSecs (Uquic.Spec.DialMon.words impl)
  let totalS := (secs.filter (·.kind == "S")).length
  let mut acc : DAcc := {}
  for sec in secs do
    if sec.kind == "S" then
      if acc.nS == 0 then
        -- the spec value as built: an input; for an underived built-in it must be the regenerated parrot row
        let mut toks := sec.toks
        if der == "-" then
          match parrotLabel base with
          | some lbl =>
            match Uquic.Gen.Dial.parrots.find? (·.1 == lbl) with
            | some p =>
              let s := ofParrot p
              toks := [s!"scid={s.scidLen}", s!"dcid={s.dcidLen}", s!"qtp={if s.hasQTP then 1 else 0}",
                       s!"isc={fmtIsc s.iscid}", "supp15=0", "ks=0", s!"min={p.2.2.2.1}", "tok=0",
                       s!"mu={(parrotStreams p).1}", s!"mb={(parrotStreams p).2}"]
            | none => toks := ["unknown-parrot"]
          | none => pure ()
        acc := { acc with spec := specOf toks, s0 := toks, out := acc.out ++ [{ sec with toks := toks }], nS := 1,
                          tags := acc.tags ++ [if toks.head? == some "nil" then "dial:nospec" else "dial:spec"] }
      else
        let isLast := acc.nS + 1 == totalS
        if fresh && !isLast then
          acc := { acc with spec := specOf acc.s0, out := acc.out ++ [{ sec with toks := acc.s0 }], nS := acc.nS + 1,
                            tags := acc.tags ++ ["dial:fresh_spec"] }
        else
          let toks := match acc.spec with
            | some s => renderSpecToks acc.s0 s
            | none => acc.s0
          let changed := toks ≠ acc.s0
          acc := { acc with out := acc.out ++ [{ sec with toks := toks }], nS := acc.nS + 1,
                            tags := acc.tags ++ (if changed then ["dial:spec_written"] else []) }
    else if sec.kind == "D" then
      let t := sec.toks
      let i := dNat ((getKV t "i").getD "0")
      let implOut := (getKV t "out").getD "?"
      let draws := (((getKV t "hscids").getD "-").splitOn ",").filterMap connIDOf
      let dcidlen := dNat ((getKV t "dcidlen").getD "0")
      let minsz := ((getKV t "minsz").getD "-1").toInt?.getD (-1)
      let sizes : List Nat := if minsz < 0 then [] else [minsz.toNat]
      let mut tags : List String := [if i ≤ 1 then "dial:first" else "dial:redial"]
      if faulty then tags := tags ++ ["dial:faults"]
      if srv ≠ "def" then tags := tags ++ [s!"srv:{srv}"]
      if draws.length > 1 then tags := tags ++ ["dial:vn_respin"]
      let mut predOut := implOut
      let mut predAdv := (getKV t "adv").getD "-"
      let mut predOwn := (getKV t "own").getD "-"
      let mut spec' := acc.spec
      match acc.spec with
      | none =>
        -- no spec: a plain dial; it advertises the source connection ID of its last attempt and succeeds
        predOut := "ok"
        predAdv := fmtConnID draws.getLast?
        predOwn := predAdv
        tags := tags ++ ["dial:plain_accept"]
      | some s =>
        let envs := draws.map fun sc => ({ scid := sc, dcid := List.replicate dcidlen 0, sizes := sizes } : DialEnv)
        match (runWith sh wb s envs).getLast? with
        | none => tags := tags ++ ["dial:noflight"]
        | some r =>
          let (allowed, tg) := allowedOuts r faulty
          predOut := if allowed.contains implOut then implOut else allowed.headD "ok"
          predAdv := fmtConnID (advSeen r)
          -- a dial that times out may die before the server got to see the parameters
          if timeouts.contains predOut && getKV t "adv" == some "-" then predAdv := "-"
          predOwn := fmtConnID (some r.2.2.iscid)
          tags := tags ++ [tg]
          if r.1 ≠ s then tags := tags ++ ["dial:writeback"]
        spec' := some (specAfter sh wb s envs)
      -- after the echo the server opens every stream the client advertised room for; all of them arrive
      let mu := (getKV acc.s0 "mu").getD "0"; let mb := (getKV acc.s0 "mb").getD "0"
      let predFan := s!"u{mu}/{mu},b{mb}/{mb}"
      let mut t' := setKV (setKV (setKV (setKV t "adv" predAdv) "own" predOwn) "out" predOut) "fan" predFan
      -- monitors on the implementation's behaviour
      let mut fails : List Fail := []
      -- the Initial CRYPTO stream on the wire; a server that only takes P-384 makes every client send a second ClientHello
      let (predCry, cfails) := cryptoJudge s!"dial {i} base={base} der={der} srv={srv} stls={stls} faults={faults}" t implOut
      fails := fails ++ cfails
      let predNch := if implOut == "ok" && predOut == "ok" then (if stls == "hrr" then "2" else "1") else (getKV t "nch").getD "0"
      t' := setKV (setKV (setKV t' "cry" predCry) "nch" predNch) "undec" "0"
      if implOut == "ok" && getKV t "nch" == some "2" then
        tags := tags ++ ["dial:hello_retry"] ++ (if srv == "retry" || srv == "v2retry" then ["dial:hello_retry_after_retry"] else [])
          ++ (if (derTokens der).any (fun x => x.startsWith "fb:flight" || x.startsWith "fb:rflight") then ["dial:hello_retry_planned_flight"] else [])
      -- the connection left unused for a while, then used again
      match pauseMs, getKV t "e2" with
      | some p, some e2 =>
        let ends : Uquic.Model.UQuic.DialIdle.Ends :=
          { cConf := 30000 * Uquic.Model.UQuic.DialIdle.msNs, cAdv := ((getKV t "cidle").getD "-1").toInt?.getD (-1),
            sOwn := (((getKV t "sidle").getD "30000").toInt?.getD 30000) * Uquic.Model.UQuic.DialIdle.msNs }
        let keepAlive := srv == "dgram"
        if Uquic.Model.UQuic.DialIdle.survives ends p then
          t' := setKV t' "e2" "ok"
          tags := tags ++ ["dial:pause_survives"] ++ (if ends.cAdv < 0 then ["dial:pause_no_client_limit"] else [])
          if e2 ≠ "ok" then
            fails := fails ++ [("survives_idle_pause", "-", s!"dial {i} base={base} der={der} srv={srv}: the connection was unused for {p} ms, less than every idle timeout in force (client advertised {ends.cAdv} ms, server {ends.sAdv} ms: {ends.both / Uquic.Model.UQuic.DialIdle.msNs} ms), and did not move data afterwards: {(getKV t "e2d").getD "?"}")]
        else if !keepAlive && Uquic.Model.UQuic.DialIdle.dies ends p then
          t' := setKV t' "e2" "dead"
          tags := tags ++ ["dial:pause_outlasts_timeout"]
        else tags := tags ++ ["dial:pause_near_timeout"]
      | _, _ => pure ()
      if implOut == "hang" then
        fails := fails ++ [("no_hang", "-", s!"dial {i} still pending after 60 s of virtual time")]
      else if wf && implOut ≠ "ok" then
        if i ≤ 1 then
          fails := fails ++ [("first_dial_succeeds", "-", s!"base={base} der={der} srv={srv} faults={faults}: {implOut}")]
        else
          fails := fails ++ [("redial_succeeds", "-", s!"dial {i} on {if fresh then "a fresh" else "the same"} spec value base={base} der={der} srv={srv} faults={faults}: {implOut}")]
      -- the two specific ways a reused spec value used to fail (fixed by 4b5b79e), reported under their own names
      if wf && implOut.endsWith ":iscid_mismatch" then
        fails := fails ++ [("advertises_own_scid", "-", s!"dial {i} ({draws.length} attempt(s)): the ClientHello advertises initial_source_connection_id {(getKV t "adv").getD "?"}, the long header carries {fmtConnID draws.getLast?}")]
      if wf && implOut.endsWith ":tls_internal" then
        fails := fails ++ [("holds_private_keys", "-", s!"dial {i} ({draws.length} attempt(s)) on {if fresh then "a fresh" else "the same"} spec value: local TLS internal error (key shares sent without their private keys)")]
      if implOut == "ok" then
        let up := (getKV t "up").getD ""; let down := (getKV t "down").getD ""
        if !(dataOK up && dataOK down) then
          fails := fails ++ [("data_both_ways", "-", s!"dial {i}: up={up} down={down}")]
      match getKV t "fan" with
      | some f =>
        if f ≠ predFan then
          fails := fails ++ [("uses_advertised_streams", "-", s!"dial {i}: the server opened the {mu} unidirectional and {mb} bidirectional streams the client advertised, concurrently; received {f}")]
        else tags := tags ++ ["dial:fan_ok"]
      | none => pure ()
      if wf && base ≠ "none" then
        if 0 ≤ minsz && minsz < 1200 then
          fails := fails ++ [("flight_legal", "-", s!"dial {i}: an Initial datagram of {minsz} bytes")]
        if !draws.isEmpty && dcidlen < 8 then
          fails := fails ++ [("flight_legal", "-", s!"dial {i}: destination connection ID of {dcidlen} bytes")]
        match acc.spec with
        | some s =>
          if draws.any (fun d => d.length ≠ s.scidLen) then
            fails := fails ++ [("flight_legal", "-", s!"dial {i}: source connection ID length differs from SrcConnIDLength {s.scidLen}")]
          if s.dcidLen ≠ 0 && !draws.isEmpty && dcidlen ≠ s.dcidLen then
            fails := fails ++ [("flight_legal", "-", s!"dial {i}: destination connection ID of {dcidlen} bytes, spec says {s.dcidLen}")]
        | none => pure ()
      if (derTokens der).any (fun x => x.startsWith "fb:flight" || x.startsWith "fb:rflight") then
        tags := tags ++ ["dial:planned_flight"] ++ (if faults.contains 'c' then ["dial:planned_flight_lost"] else [])
      if i ≥ 2 && (getKV a "sni").isSome then
        tags := tags ++ ["dial:redial_other_host"] ++
          (if (derTokens der).any (fun x => x.startsWith "fb:flight" || x.startsWith "fb:rflight") then ["dial:planned_flight_other_len"] else [])
      acc := { acc with spec := spec', out := acc.out ++ [{ sec with toks := t' }], tags := acc.tags ++ tags,
                        fails := acc.fails ++ fails }
    else
      acc := { acc with out := acc.out ++ [sec] }
  return { model := renderSecs acc.out, tags := acc.tags, fails := acc.fails }

/-- `cmp`: a plain Transport (A) and a UTransport without a spec (B) on the same random stream -/
def stepCmp (_op impl : String) : StepOut := Id.run do
  if impl.startsWith "PANIC" then
    return { model := "A[ … ] B[ … ] same=1", tags := ["cmp:PANIC"],
             fails := [("nil_spec_is_plain", "-", s!"a dial without a spec panicked: {impl}")] }
  if impl == "hang-real" then
    return { model := "A[ … ] B[ … ] same=1", tags := ["cmp:hang"], fails := [("no_hang", "-", "the scenario did not finish in real time")] }
  if impl == "skip" then return { model := "skip", tags := ["cmp:skip"] }
  let secs := parseSecs (Uquic.Spec.DialMon.words impl)
  let aT := ((secs.find? (·.kind == "A")).map (·.toks)).getD []
  let bT := ((secs.find? (·.kind == "B")).map (·.toks)).getD []
  let pred (t : List String) : List String :=
    let adv := fmtConnID ((((getKV t "hscids").getD "-").splitOn ",").filterMap connIDOf).getLast?
    let own := if getKV t "own" == some "-" then "-" else adv
    setKV (setKV (setKV t "adv" adv) "own" own) "out" "ok"
  let out := secs.map fun s =>
    if s.kind == "A" || s.kind == "B" then { s with toks := pred s.toks }
    else if s.toks.any (·.startsWith "same=") then { s with toks := ["same=1"] } else s
  let mut fails : List Fail := []
  let g (t : List String) (k : String) := (getKV t k).getD "?"
  let same := (secs.any fun s => s.toks == ["same=1"])
  if !same then
    fails := fails ++ [("nil_spec_is_plain", "-", "first flights differ beyond per-connection secrets (sizes, header fields or ClientHello)")]
  if g aT "out" ≠ g bT "out" then
    fails := fails ++ [("nil_spec_is_plain", "-", s!"outcomes differ: Transport {g aT "out"}, UTransport without spec {g bT "out"}")]
  for (nm, t) in [("Transport", aT), ("UTransport(nil)", bT)] do
    fails := fails ++ (cryptoJudge nm t (g t "out")).2
    if g t "out" == "hang" then fails := fails ++ [("no_hang", "-", s!"{nm}: dial pending after 60 s of virtual time")]
    else if g t "out" ≠ "ok" then fails := fails ++ [("first_dial_succeeds", "-", s!"{nm} without a spec: {g t "out"}")]
    else if !(dataOK (g t "up") && dataOK (g t "down")) then
      fails := fails ++ [("data_both_ways", "-", s!"{nm}: up={g t "up"} down={g t "down"}")]
  -- same random stream: the first attempt's draws coincide (later attempts follow the server's randomness)
  let firstDraw (t : List String) := ((g t "hscids").splitOn ",").headD "?"
  if firstDraw aT ≠ firstDraw bT then
    fails := fails ++ [("nil_spec_is_plain", "-", s!"source connection ID: Transport {firstDraw aT}, UTransport without spec {firstDraw bT}")]
  for k in ["dcidlen", "toklen", "v", "alpn", "nch"] do
    if g aT k ≠ g bT k then
      fails := fails ++ [("nil_spec_is_plain", "-", s!"{k}: Transport {g aT k}, UTransport without spec {g bT k}")]
  let ccfg := (getKV (opKV _op) "ccfg").getD "?"
  return { model := renderSecs out, tags := ["cmp:run", s!"cmp:ccfg_{ccfg}"] ++ (if same then ["cmp:same"] else []) ++ (if g aT "nch" == "2" then ["cmp:hello_retry"] else []), fails := fails }

def step (_ : Unit) (op impl : String) : Unit × StepOut :=
  match Uquic.Spec.DialMon.words op with
  | "dial" :: _ => ((), stepDial op impl)
  | "cmp" :: _ => ((), stepCmp op impl)
  | _ => ((), { model := "bad-op" })

def main : IO Unit := run { init := (), step := step }
