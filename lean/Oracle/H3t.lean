/-
Oracle of the h3t driver (property C18, round 5): histories on ONE reused http3.Transport — failed,
hanging and abandoned dials, lost connections, CloseIdleConnections, Close.  The model is
`Uquic.Model.H3.Transport` with the two `dialErr` checks as regenerated from the source
(`Uquic.Gen.H3Transport`).

Monitors (ghost state from the op line and the implementation's own report only):
* `request_never_panics` — no request on the Transport ends in a panic, whatever happened to earlier
  dials and connections;
* `transport_recovers_after_failed_dial` — when the history ends with two plain requests to one host,
  nothing is left dialing and the dials they may need succeed, the second one is answered (a failed
  dial may cost at most the one request that finds it in the cache);
* `closed_transport_refuses` — after Close every request is refused with ErrTransportClosed;
* `only_cached_conn_never_dials` — a request with OnlyCachedConn never starts a dial.
-/
import Uquic.Oracle.Frame
import Uquic.Model.H3.Transport
import Uquic.Generated.H3Transport

open Uquic.Oracle Uquic.Model.H3.Transport

def getKey (fs : List String) (key : String) : String :=
  (fs.findSome? fun w => if w.startsWith (key ++ "=") then some (w.drop (key.length + 1)).toString else none).getD ""

def parsePlan (s : String) : Option Plan :=
  match s with
  | "ok" => some .ok | "fail" => some .fail | "hang" => some .hang
  | "gate" => some .gate | "gatef" => some .gatef | "lost" => some .lost
  | _ => none

def parseStep (s : String) : Option T.Step :=
  match words s with
  | "req" :: rest =>
    let g := getKey rest "g"
    some (.req (natOf (getKey rest "h")) (if g == "-" || g == "" then none else some (natOf g)) (getKey rest "c" == "1") (getKey rest "oc" == "1"))
  | ["cancel", i] => some (.cancel (natOf i))
  | ["open", g] => some (.open (natOf g))
  | ["rel", k] => some (.rel (natOf k))
  | ["kill", k] => some (.kill (natOf k))
  | ["idle"] => some .idle
  | ["close"] => some .close
  | _ => none

def errName : Err → String
  | .dial => "dial" | .canceled => "canceled" | .deadline => "deadline" | .closed => "closed"
  | .nocached => "nocached" | .hstimeout => "hstimeout" | .conn => "conn"

def outName : Outcome → String
  | .ok r => if r then "ok:r1" else "ok:r0"
  | .err e => "E:" ++ errName e
  | .panic => "PANIC"

def commaOr (l : List String) : String := if l.isEmpty then "-" else ",".intercalate l

def render (t : T) : String :=
  let rs := t.reqs.map fun r => match r.phase with
    | .done o s => s!"{outName o}@{s}"
    | _ => "pend"
  let ds := t.entries.map fun e => match e.st with
    | .dialing => "pend"
    | .failed x => "E:" ++ errName x
    | .up true => "up"
    | .up false => "dead"
  s!"r={commaOr rs} d={commaOr (t.dialLog.map toString)} D={commaOr ds}"

abbrev Fail := String × String × String

def isPlainReq (h : Nat) : T.Step → Bool
  | .req h' none false false => h' == h
  | _ => false

def step (_ : Unit) (op impl : String) : Unit × StepOut :=
  match op.splitOn " | " with
  | [] => ((), { model := "bad-op" })
  | hd :: ss =>
    let hw := words hd
    let plansS := getKey hw "plans"
    let plans := if plansS == "-" || plansS == "" then some [] else (plansS.splitOn ",").mapM parsePlan
    let steps := ss.mapM parseStep
    match hw.head?, plans, steps with
    | some "tr", some plans, some steps =>
      if steps.isEmpty || steps.length > 40 || plans.length > 16 then ((), { model := "bad-op" })
      else
        let t0 : T := { chk := Uquic.Gen.H3Transport.getClientChecksDialErr, rtChk := Uquic.Gen.H3Transport.roundTripChecksDialErr, plans := plans }
        let t := t0.run steps
        -- what the implementation reported
        let iw := words impl
        let ir := let v := getKey iw "r"; if v == "-" || v == "" then [] else v.splitOn ","
        let id := let v := getKey iw "d"; if v == "-" || v == "" then [] else (v.splitOn ",").map natOf
        let iD := let v := getKey iw "D"; if v == "-" || v == "" then [] else v.splitOn ","
        let outOf := fun (s : String) => (s.splitOn "@").headD ""
        let stepOf := fun (s : String) => natOf ((s.splitOn "@").getD 1 "")
        -- request index → the step that issued it
        let reqSteps := ((List.range steps.length).filter fun j => match steps.getD j .idle with | .req .. => true | _ => false)
        let closeAt := (List.range steps.length).find? fun j => steps.getD j .idle == .close
        let f1 : List Fail := ((List.range ir.length).filter fun i => outOf (ir.getD i "") == "PANIC").map fun i =>
          ("request_never_panics", "-", s!"request {i} (issued by step {reqSteps.getD i 0}: `{ss.getD (reqSteps.getD i 0) ""}`) panicked; history `{op}`")
        let f2 : List Fail := match closeAt with
          | some cj => ((List.range ir.length).filter fun i => reqSteps.getD i 0 > cj && outOf (ir.getD i "") != "E:closed").map fun i =>
              ("closed_transport_refuses", "-", s!"request {i} was issued after Close (step {cj}) and ended as `{ir.getD i ""}`")
          | none => []
        let f3 : List Fail := ((List.range ir.length).filter fun i =>
            let j := reqSteps.getD i 0
            (match steps.getD j .idle with | .req _ _ _ true => true | _ => false) &&
            id.getD j 0 != (if j == 0 then 0 else id.getD (j - 1) 0)).map fun i =>
          ("only_cached_conn_never_dials", "-", s!"request {i} (OnlyCachedConn) started a dial: dial counts per step {id}")
        let n := steps.length
        let f4 : List Fail :=
          if n ≥ 2 && closeAt.isNone && ir.length == reqSteps.length && id.length == n then
            match steps.getD (n - 1) .idle with
            | .req h none false false =>
              if isPlainReq h (steps.getD (n - 2) .idle) then
                let dBefore := if n ≥ 3 then id.getD (n - 3) 0 else 0
                let futureOk := (plans.drop dBefore).all (· == .ok)
                let noneDialing := iD.all (· != "pend")
                let last := outOf (ir.getD (ir.length - 1) "")
                if futureOk && noneDialing && !(last.startsWith "ok") && last != "PANIC" then
                  [("transport_recovers_after_failed_dial", "-", s!"the history ends with two plain requests to host {h}; nothing is dialing and further dials succeed, but the second one ended as `{last}` (the first: `{ir.getD (ir.length - 2) ""}`)")]
                else []
              else []
            | _ => []
          else []
        let _ := stepOf
        let tags := [s!"steps{min n 12}"] ++ (plans.map fun p => "plan:" ++ (match p with | .ok => "ok" | .fail => "fail" | .hang => "hang" | .gate => "gate" | .gatef => "gatef" | .lost => "lost")) ++
          (steps.map fun s => match s with
            | .req _ g c oc => "req" ++ (if g.isSome then ":gated" else "") ++ (if c then ":deadline" else "") ++ (if oc then ":onlycached" else "")
            | .cancel _ => "cancel" | .open _ => "open" | .rel _ => "rel" | .kill _ => "kill" | .idle => "idle" | .close => "close") ++
          (t.outcomes.filterMap fun o => o.map fun x => "out:" ++ outName x) ++
          (if t.reqs.any (fun r => r.retried) then ["retried-on-new-conn"] else []) ++
          (if t.outcomes.any (· == none) then ["out:pend"] else []) ++
          -- the situation of the stale cache entry: a request finds an entry whose dial failed
          (if (List.range t.reqs.length).any (fun i => match (t.getR i).phase with
              | .done (.err e) _ => (e == .canceled || e == .deadline || e == .hstimeout || e == .dial) && (t.getR i).ctxDead.isNone && !(t.entries.any fun x => x.owner == i)
              | _ => false) then ["stale-or-shared-failed-dial"] else [])
        ((), { model := render t, tags := tags, fails := f1 ++ f2 ++ f3 ++ f4 })
    | _, _, _ => ((), { model := "bad-op" })

def main : IO Unit := run { init := (), step := step }
