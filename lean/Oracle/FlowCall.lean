/-
Oracle for the caller-level driver "flowcall" (property C04): real SendStream / ReceiveStream /
framer on top of the real flow controllers.  The frames themselves are not predicted here (the
stream machinery is modelled by C01/C03); `model` echoes the implementation and the C04 monitors
judge the trace: bytes in STREAM frames vs. the credit the peer advertised, *_BLOCKED frames once
per limit, FLOW_CONTROL_ERROR exactly beyond the limits the implementation announced in its own
MAX_STREAM_DATA / MAX_DATA frames, and connection credit == bytes consumed + abandoned.
-/
import Uquic.Oracle.Frame
import Uquic.Model.FlowInit

open Uquic.Oracle Uquic.Model.FlowInit

structure SndG where
  kind : String := ""           -- lb / lu / pb: which of the peer's parameters is this stream's initial limit
  credit : Int := 0
  credits : List Int := []      -- every value the limit ever had
  newEnd : Int := 0             -- highest offset+len in any STREAM frame
  blockedAt : List Int := []
  discarded : Bool := false     -- the stream was discarded by a 0-RTT rejection: the server never saw it
  cancelled : Bool := false     -- CancelWrite was called or STOP_SENDING arrived: a RESET_STREAM is to be expected
  lateCancel : Bool := false    -- CancelWrite / STOP_SENDING came AFTER the 0-RTT rejection that discarded the stream (stale handle)

structure RcvG where
  adv : Int := 0                -- what the peer was told: advertised limit for this kind of stream, then every non-zero MAX_STREAM_DATA sent
  maxws : Int := 0
  highest : Int := 0
  final : Option Int := none
  appRead : Int := 0
  cancelled : Bool := false
  reset : Bool := false
  reliable : Int := 0           -- reliable size of the RESET_STREAM_AT frames accepted (only ever reduced)
  updDue : Bool := false        -- the application has consumed everything the peer was told it may send: MAX_STREAM_DATA is due
  discarded : Bool := false     -- the stream was discarded by a 0-RTT rejection
  lateCancel : Bool := false    -- CancelRead came AFTER the 0-RTT rejection that discarded the stream (stale handle)

structure G where
  started : Bool := false
  snd : List SndG := []
  rcv : List RcvG := []
  cCredit : Int := 0
  cCredits : List Int := [0]
  cBlockedAt : List Int := []
  cAdv : Int := 0
  spec : Option Params := none   -- spec-driven client: the parameters the QUICSpec advertises
  cMaxws : Int := 0
  dead : Bool := false
  client : Bool := false
  peer : Params := {}
  cfg : Config := ⟨0, 0, 0, 0⟩
  advP : Option Params := none   -- a plain connection: the transport parameters its constructor handed to the TLS stack
  traced : Bool := false         -- qlog on: handleFrames keeps parsing a packet after an error
  zero : Bool := false           -- a resuming client before the server's transport parameters arrive (0-RTT)
  rejected : Bool := false

abbrev Fail := String × String × String
def fail (n d : String) : Fail := (n, "-", d)

def sumI (l : List Int) : Int := l.foldl (· + ·) 0

/-- bytes of a receive stream that count as returned credit: what the application read — or the whole
    final size once the final size is known and the rest will never be read: the read side was
    cancelled, or the stream was reset and everything up to the reliable size has been read -/
def RcvG.credited (r : RcvG) : Int :=
  match r.final with
  | some f => if r.cancelled || (r.reset && decide (r.appRead ≥ r.reliable)) then f else r.appRead
  | none => r.appRead

def dumpField (impl : String) (i : Nat) : Option Int :=
  match (impl.splitOn " | ") with
  | _ :: d :: _ =>
    (words d).findSome? fun w =>
      if w.startsWith "c=" then ((w.drop 2).toString.splitOn "/")[i]? |>.bind String.toInt? else none
  | _ => none

def recvExpect (g : G) (r : RcvG) (endOff : Int) (fin : Bool) (isReset : Bool) : String :=
  let finalErr : Bool := match r.final with
    | some f => if isReset then decide (endOff ≠ f) else (fin && decide (endOff ≠ f)) || decide (endOff > f)
    | none => (fin || isReset) && decide (endOff < r.highest)
  let cHighest := sumI (g.rcv.map (·.highest))
  let isNew := decide (endOff > r.highest)
  -- beyond what the peer was told (for this kind of stream / for the connection) → must be refused; everything else accepted
  let beyond : Bool := isNew && (decide (endOff > r.adv) || decide (cHighest - r.highest + endOff > g.cAdv))
  if finalErr then "E:FINAL_SIZE_ERROR" else if beyond then "E:FLOW_CONTROL_ERROR" else "ok"

/-- monitor `discarded_stream_silent`: a stream-related control frame of a stream that a 0-RTT rejection discarded is
on the wire after the rejection (listed finding while `framer.Handle0RTTRejection` keeps `streamsWithControlFrames`) -/
def staleFail (what : String) (late : Bool := false) : Fail :=
  -- `late`: the frame was caused by a call on the discarded stream's stale handle AFTER the rejection (listed finding
  -- C04-stale-handle-after-0rtt-rejection); a frame queued BEFORE the rejection is the defect repaired by 1dab85a.
  ("discarded_stream_silent", if late then "stale_handle_after_0rtt_rejection" else "stale_reset_after_0rtt_rejection",
   what ++ " sent after the 0-RTT rejection that discarded the stream: the server never saw it")

def packToken (g : G) (tok : String) : G × List Fail × List String :=
  match tok.splitOn ":" with
  | ["S", i, off, len, _fin] =>
    let i := natOf i
    match g.snd[i]? with
    | none => (g, [], [])
    | some s =>
      let e := intOf off + intOf len
      let s' := { s with newEnd := max s.newEnd e }
      let g' := { g with snd := g.snd.set i s' }
      let tot := sumI (g'.snd.map (·.newEnd))
      let f1 := if s'.newEnd > s'.credit then
        [fail "sender_within_credit" s!"stream {i}: STREAM frame up to offset {e} but the largest MAX_STREAM_DATA seen is {s'.credit}"] else []
      let f2 := if tot > g'.cCredit then
        [fail "sender_within_credit" s!"connection: {tot} stream bytes sent but the largest MAX_DATA seen is {g'.cCredit}"] else []
      (g', f1 ++ f2, [if e > s.newEnd then "pack:new-data" else if intOf len = 0 then "pack:fin-only" else "pack:retransmission"])
  | ["SB", i, lim] =>
    let i := natOf i; let lim := intOf lim
    match g.snd[i]? with
    | none => (g, [], [])
    | some s =>
      let f1 := if s.blockedAt.contains lim then [fail "blocked_once" s!"stream {i}: second STREAM_DATA_BLOCKED at limit {lim}"] else []
      let f2 := if !(s.credits.contains lim) || s.newEnd < lim then
        [fail "blocked_once" s!"stream {i}: STREAM_DATA_BLOCKED at {lim}, but the limits seen are {s.credits} and {s.newEnd} bytes were sent"] else []
      ({ g with snd := g.snd.set i { s with blockedAt := lim :: s.blockedAt } }, f1 ++ f2, ["pack:stream-blocked"])
  | ["DB", lim] =>
    let lim := intOf lim
    let tot := sumI (g.snd.map (·.newEnd))
    let f1 := if g.cBlockedAt.contains lim then [fail "blocked_once" s!"connection: second DATA_BLOCKED at limit {lim}"] else []
    let f2 := if !(g.cCredits.contains lim) || tot < lim then
      [fail "blocked_once" s!"connection: DATA_BLOCKED at {lim}, but the limits seen are {g.cCredits} and {tot} bytes were sent"] else []
    ({ g with cBlockedAt := lim :: g.cBlockedAt }, f1 ++ f2, ["pack:conn-blocked"])
  | ["MS", j, v] =>
    let j := natOf j; let v := intOf v
    match g.rcv[j]? with
    | none => (g, [], [])
    | some r =>
      if r.discarded then (g, [staleFail s!"MAX_STREAM_DATA {v} for receive stream {j}"], ["pack:max-stream-data-of-discarded-stream"])
      else if v = 0 then (g, [], ["pack:max-stream-data-0"])
      else
        let f1 := if v < r.adv then [fail "advertised_monotone" s!"receive stream {j}: MAX_STREAM_DATA {v} after {r.adv}"] else []
        let f2 := if !g.dead && v > r.credited + r.maxws then
          [fail "advertised_honest" s!"receive stream {j}: MAX_STREAM_DATA {v} > consumed {r.credited} + maximum window {r.maxws}"] else []
        ({ g with rcv := g.rcv.set j { r with adv := max r.adv v, updDue := false } }, f1 ++ f2, ["pack:max-stream-data"])
  | ["RS", i, fin, rel] =>
    let i := natOf i; let fin := intOf fin; let rel := intOf rel
    match g.snd[i]? with
    | none => (g, [], [])
    | some s =>
      -- the final size of a stream is flow-control credit consumed (RFC 9000 §4.5): a receiver enforcing its limits
      -- (ours does: UpdateHighestReceived(finalSize, true)) answers a final size beyond them with FLOW_CONTROL_ERROR.
      -- Listed finding: RESET_STREAM_AT promising reliable data that was written but could not yet be sent.
      -- Listed finding: a RESET_STREAM queued on a stream before the 0-RTT rejection that discarded the stream is still
      -- sent afterwards; its final size is charged by the server against the NEW limits, while this endpoint has
      -- forgotten the bytes (connection-level bytesSent was reset).
      -- (stream ids are used again after a rejection: the stale frame may carry the id of a NEW stream that was never reset)
      -- late: caused by CancelWrite / STOP_SENDING on a stale handle after the rejection — of this stream, or (stream ids
      -- start over) of a discarded stream whose id the frame carries while the oracle attributes it to the new stream
      let late := (s.discarded && s.lateCancel) || (!s.discarded && g.snd.any (fun t => t.discarded && t.lateCancel))
      let cls := if late then "stale_handle_after_0rtt_rejection"
        else if s.discarded || (g.rejected && !s.cancelled) then "stale_reset_after_0rtt_rejection"
        else if rel > 0 && fin = rel && s.newEnd ≤ s.credit then "reset_final_size_beyond_credit" else "-"
      let f := if fin > s.credit then
        [("sender_within_credit", cls, s!"stream {i}: RESET_STREAM final size {fin} (reliable size {rel}) but the largest MAX_STREAM_DATA seen is {s.credit} ({s.newEnd} bytes sent)")] else []
      -- after a 0-RTT rejection no control frame of a discarded stream is sent: the server never saw the stream (and the
      -- id may by now belong to a NEW stream that was never reset)
      let fd := if s.discarded || (g.rejected && !s.cancelled) then
        [staleFail (s!"RESET_STREAM (final size {fin}) for send stream {i}" ++ (if s.discarded then "" else ", a new stream that was never reset, under the id of a discarded one")) late] else []
      (g, f ++ fd, [if rel = 0 then "pack:reset-stream" else "pack:reset-stream-at",
               if fin > s.credit then "pack:reset-final-size-beyond-credit" else "pack:reset-final-size-within-credit"] ++
               (if s.discarded then ["pack:reset-of-discarded-stream"] else []))
  | ["X", "stop_sending", j] =>
    match g.rcv[natOf j]? with
    | none => (g, [], [])
    | some r => if r.discarded then (g, [staleFail s!"STOP_SENDING for receive stream {j}" r.lateCancel], ["pack:stop-sending-of-discarded-stream"]) else (g, [], ["pack:stop-sending"])
  | ["MD", v] =>
    -- (an older MAX_DATA may still be queued behind a newer one: the largest value sent is what binds)
    let v := intOf v
    let tot := sumI (g.rcv.map (·.credited))
    let f2 := if !g.dead && v > tot + g.cMaxws then
      [fail "advertised_honest" s!"connection: MAX_DATA {v} > consumed {tot} + maximum window {g.cMaxws}"] else []
    ({ g with cAdv := max g.cAdv v }, f2, ["pack:max-data"])
  | _ => (g, [], [])

/-- checks that hold after every operation, on the connection controller's dump -/
def dumpChecks (g' : G) (impl : String) : List Fail :=
  if !g'.started then [] else
  (match dumpField impl 0 with
   | some bs =>
     let tot := sumI (g'.snd.map (·.newEnd))
     if bs ≠ tot then [fail "sender_accounting" s!"connection bytesSent={bs} but STREAM frames carried {tot} new bytes"] else []
   | none => []) ++
  (match dumpField impl 3 with
   | some br =>
     let tot := sumI (g'.rcv.map (·.credited))
     if !g'.dead && br ≠ tot then [fail "credit_conserved" s!"connection bytesRead={br} but bytes consumed or abandoned on the streams={tot}"] else []
   | none => [])

def advOf (res : List String) : Option Params :=
  (res.findSome? fun x => if x.startsWith "adv=" then some (x.drop 4).toString else none).map fun t =>
    let l := (t.splitOn ",").map intOf
    { maxData := l.getD 0 0, bidiLocal := l.getD 1 0, bidiRemote := l.getD 2 0, uni := l.getD 3 0 }

/-- the tokens of a `pack` / `send` result -/
def packTokens (g : G) (res : List String) : G × List Fail × List String :=
  res.foldl (fun (acc : G × List Fail × List String) tok =>
    let (g1, f1, t1) := packToken acc.1 tok
    (g1, acc.2.1 ++ f1, acc.2.2 ++ t1)) (g, [], [])

def stepCore (g : G) (op impl : String) : G × StepOut :=
  let w0 := words op
  let traced := w0.getLast? == some "t"
  let w := if traced then w0.dropLast else w0
  let res := words ((impl.splitOn " | ").headD "")
  let echo (g' : G) (tags : List String) (fails : List Fail) : G × StepOut :=
    let extra : List Fail := if res == ["skip"] then [] else dumpChecks g' impl
    (g', { model := impl, tags := tags, fails := fails ++ extra })
  if res == ["skip"] then (g, { model := impl }) else
  match w with
  | [ini, persp, crw, cmax, srw, smax, pmd, pbl, pbr, pu] =>
    if ini != "init" && ini != "init0c" then (g, { model := impl }) else
    if res.headD "" != "ok" then echo g ["init:error"] [] else
    let zero := ini == "init0c"
    let peer : Params := { maxData := intOf pmd, bidiLocal := intOf pbl, bidiRemote := intOf pbr, uni := intOf pu }
    -- what the constructor told the TLS stack to advertise (absent in traces of earlier rounds: the configured windows)
    let adv : Params := (advOf res).getD { maxData := intOf crw, bidiLocal := intOf srw, bidiRemote := intOf srw, uni := intOf srw }
    let f0 := match dumpField impl 5 with
      | some rw => if rw ≠ adv.maxData then
          [fail "initial_windows_match_parameters" s!"connection receive window {rw}, but initial_max_data {adv.maxData} is what the peer is told (configured {crw})"] else []
      | none => []
    echo { g with started := true, client := persp == "c", peer := peer, advP := some adv, traced := traced, zero := zero,
                  cfg := ⟨intOf srw, intOf smax, intOf crw, intOf cmax⟩,
                  cAdv := adv.maxData, cMaxws := max (max (intOf crw) (intOf cmax)) adv.maxData,
                  cCredit := peer.maxData, cCredits := [peer.maxData] }
      ([if zero then "init:0rtt" else "init"] ++ (if traced then ["init:traced"] else [])) f0
  | ["uinit", _base, crw, cmax, srw, smax, _, _, _, _, pmd, pbl, pbr, pu] =>
    if res.headD "" != "ok" then echo g ["uinit:error"] [] else
    let peer : Params := { maxData := intOf pmd, bidiLocal := intOf pbl, bidiRemote := intOf pbr, uni := intOf pu }
    let adv : Params := (advOf res).getD {}
    let cfg : Config := ⟨intOf srw, intOf smax, intOf crw, intOf cmax⟩
    -- the connection window the implementation shows must be exactly what was advertised
    let hiC := adv.maxData
    let f0 := match dumpField impl 5 with
      | some rw => if rw ≠ adv.maxData then
          [fail "initial_windows_match_parameters" s!"spec-driven client: connection receive window {rw}, advertised initial_max_data {adv.maxData}, configured {cfg.initialConnectionReceiveWindow}"] else []
      | none => []
    echo { g with started := true, client := true, peer := peer, cfg := cfg, spec := some adv, traced := traced,
                  cAdv := adv.maxData,
                  cMaxws := max hiC (max (intOf cmax) hiC),
                  cCredit := peer.maxData, cCredits := [peer.maxData] } (["uinit"] ++ (if traced then ["init:traced"] else [])) f0
  | ["open", kind] =>
    if res.headD "" == "E:other" then echo g ["open:error"] [] else
    let fld (k : String) : String := (res.findSome? fun x => if x.startsWith k then some (x.drop k.length).toString else none).getD "-"
    let id := natOf (fld "id=")
    let hasSend := kind != "pu"
    let hasRecv := kind != "lu"
    -- the RFC's assignment (from the operation alone) ...
    let wantSw : Int := match kind with
      | "lb" => g.peer.bidiRemote | "pb" => g.peer.bidiLocal | _ => g.peer.uni
    -- receive side: the parameter WE advertised for this kind of stream (a plain connection advertises the
    -- configured window for all kinds; a spec-driven client advertises what its QUICSpec says)
    let ecfg := enforcedConfig g.cfg g.spec
    let wantRw : Int := match g.spec.orElse (fun _ => g.advP) with
      | none => g.cfg.initialStreamReceiveWindow
      | some a => match kind with
        | "lb" => a.bidiLocal | "pb" => a.bidiRemote | _ => a.uni
    -- the largest window the auto-tuner may ever reach (a spec-driven client: the configured maximum or any advertised window)
    let hiRw : Int := match g.spec.orElse (fun _ => g.advP) with
      | none => g.cfg.initialStreamReceiveWindow
      | some a => max g.cfg.initialStreamReceiveWindow (max a.bidiLocal (max a.bidiRemote a.uni))
    -- ... and the model of the closure (from the stream id the implementation chose)
    let mSw := newFlowControllerSendWindow g.client g.peer id
    let mRw := ((newFlowControllerReceiveWindow ecfg g.spec g.client id).map (·.1)).getD (-1)
    let idOk := (isUni id == (kind == "lu" || kind == "pu")) &&
      (byClient id == (if kind == "lb" || kind == "lu" then g.client else !g.client))
    let f0 := if !idOk then [fail "initial_windows_match_parameters" s!"open {kind}: stream id {id} is not of that kind (client={g.client})"] else []
    let f1 := if hasSend && fld "sw=" != toString wantSw then
      [fail "initial_windows_match_parameters" s!"open {kind} (stream {id}, client={g.client}): initial send window {fld "sw="}, the peer's parameter for this kind of stream is {wantSw} (bidi_local {g.peer.bidiLocal}, bidi_remote {g.peer.bidiRemote}, uni {g.peer.uni})"] else []
    let gotRw := intOf (fld "rw=")
    let f2 := if hasRecv && gotRw ≠ wantRw then
      [fail "initial_windows_match_parameters" s!"open {kind} (stream {id}): initial receive window {fld "rw="}, but {wantRw} was advertised for this kind of stream"] else []
    let g1 := if hasSend then { g with snd := g.snd ++ [{ kind := kind, credit := wantSw, credits := [wantSw] }] } else g
    let g2 := if hasRecv then { g1 with rcv := g1.rcv ++ [{ adv := wantRw, maxws := max hiRw (max g.cfg.maxStreamReceiveWindow hiRw) }] } else g1
    let model := " ".intercalate (res.map fun x =>
      if x.startsWith "sw=" && hasSend then s!"sw={mSw}" else if x.startsWith "rw=" && hasRecv then s!"rw={mRw}" else x)
    let (g3, out) := echo g2 [s!"open:{kind}"] (f0 ++ f1 ++ f2)
    (g3, { out with model := model ++ (match impl.splitOn " | " with | _ :: d :: _ => " | " ++ d | _ => "") })
  | ["w", _, _] => echo g [if res == ["started"] then "write:blocking" else if res.contains "E:other" then "write:cut-short" else "write:buffered"] []
  | ["close", _] => echo g ["close"] []
  | ["rb", _] => echo g ["reliable-boundary"] []
  | ["cw", i] =>
    let i := natOf i
    echo { g with snd := match g.snd[i]? with | some s => g.snd.set i { s with cancelled := true, lateCancel := s.lateCancel || s.discarded } | none => g.snd } ["cancel-write"] []
  | ["stop", i] =>
    let i := natOf i
    echo { g with snd := match g.snd[i]? with | some s => g.snd.set i { s with cancelled := true, lateCancel := s.lateCancel || s.discarded } | none => g.snd } ["stop-sending"] []
  | ["smax", i, v] =>
    let i := natOf i; let v := intOf v
    match g.snd[i]? with
    | none => echo g [] []
    | some s =>
      let c := max s.credit v
      echo { g with snd := g.snd.set i { s with credit := c, credits := c :: s.credits } } [if v > s.credit then "smax:raise" else "smax:stale"] []
  | ["cmax", v] =>
    let c := max g.cCredit (intOf v)
    echo { g with cCredit := c, cCredits := c :: g.cCredits } [if intOf v > g.cCredit then "cmax:raise" else "cmax:stale"] []
  | ["lost", _] => echo g ["lost"] []
  | ["acked", _] => echo g ["acked"] []
  | ["frame", j, off, len, fin, _] =>
    let j := natOf j
    match g.rcv[j]? with
    | none => echo g [] []
    | some r =>
      let e := intOf off + intOf len
      let fin := fin == "1"
      let got := res.headD ""
      if g.dead then echo g ["frame:after-error"] [] else
      if got == "gone" then echo g ["frame:gone"] [] else
      if got == "E:other" then echo { g with dead := true } ["frame:other-error"] [] else
      let expect := recvExpect g r e fin false
      let fails := if expect ≠ "" && got ≠ expect then
        [fail "receiver_exact" s!"receive stream {j}: frame up to offset {e} fin={fin} answered {got}, expected {expect} (announced stream limit {r.adv}, highest {r.highest}, final {r.final}, announced connection limit {g.cAdv}, connection total {sumI (g.rcv.map (·.highest))})"] else []
      if got == "ok" then
        let r' : RcvG := { r with highest := max r.highest e, final := if fin then some e else r.final, updDue := r.updDue && !fin }
        echo { g with rcv := g.rcv.set j r' }
          [if e > r.highest then "frame:new" else "frame:old"] fails
      else echo { g with dead := true } [s!"frame:{got}"] fails
  | ["rst", j, fs, rel, _] =>
    let j := natOf j
    match g.rcv[j]? with
    | none => echo g [] []
    | some r =>
      let e := intOf fs
      let got := res.headD ""
      if g.dead then echo g ["rst:after-error"] [] else
      if got == "gone" then echo g ["rst:gone"] [] else
      let rel := intOf rel
      let expect := recvExpect g r e true true
      let fails := if expect ≠ "" && got ≠ expect then
        [fail "receiver_exact" s!"receive stream {j}: RESET_STREAM final size {e} answered {got}, expected {expect} (announced stream limit {r.adv}, highest {r.highest}, final {r.final}, announced connection limit {g.cAdv})"] else []
      if got == "ok" then
        -- a read side that was cancelled locally ignores the reset; the reliable size can only be reduced
        -- the reliable size can only be reduced (first RESET_STREAM_AT sets it)
        let newRel := if (!r.reset && r.reliable == 0) || rel < r.reliable then rel else r.reliable
        let r' : RcvG := if r.cancelled then
            -- a read side that was cancelled locally ignores the reset error; the stream completes and abandons the rest
            { r with highest := max r.highest e, final := some e, reliable := newRel, updDue := false } else
          { r with highest := max r.highest e, final := some e, reset := true, reliable := newRel, updDue := false }
        echo { g with rcv := g.rcv.set j r' }
          [if rel = 0 then "rst:ok" else if rel > r.appRead then "rst:reliable-ahead" else "rst:reliable-behind"] fails
      else echo { g with dead := true } [s!"rst:{got}"] fails
  | ["rd", j, _] =>
    let j := natOf j
    match g.rcv[j]?, res with
    | some r, n :: st :: _ =>
      let k := intOf (n.drop 2).toString
      let ar := r.appRead + k
      -- everything the peer was told it may send on this stream has been consumed, and more is to come
      let due := r.updDue || (decide (k > 0) && decide (ar ≥ r.adv) && r.final.isNone && !r.cancelled && !r.reset && !g.dead)
      echo { g with rcv := g.rcv.set j { r with appRead := ar, updDue := due } }
        ([s!"rd:{st}"] ++ (if due && !r.updDue then ["rd:credit-used-up"] else [])) []
    | _, _ => echo g [] []
  | ["rdb", _, _] => echo g ["rdb"] []
  | ["cancel", j] =>
    let j := natOf j
    match g.rcv[j]? with
    | none => echo g [] []
    | some r => echo { g with rcv := g.rcv.set j { r with cancelled := true, updDue := false, lateCancel := r.lateCancel || r.discarded } } ["cancel"] []
  | ["cupd", _] =>
    let v := intOf (res.headD "0")
    let tot0 := sumI (g.rcv.map (·.credited))
    -- no stall: once everything the peer was told it may send on the connection has been consumed, MAX_DATA is due
    if v = 0 then echo g ["cupd:none"] (if !g.dead && tot0 > 0 && tot0 ≥ g.cAdv then
      [fail "no_stall" s!"connection: all {tot0} bytes the peer was told it may send (MAX_DATA {g.cAdv}) have been consumed, but no MAX_DATA is due: the peer is blocked for good"] else []) else
    let f1 := if v < g.cAdv then [fail "advertised_monotone" s!"connection: MAX_DATA {v} after {g.cAdv}"] else []
    let tot := sumI (g.rcv.map (·.credited))
    let f2 := if !g.dead && v > tot + g.cMaxws then
      [fail "advertised_honest" s!"connection: MAX_DATA {v} > consumed {tot} + maximum window {g.cMaxws}"] else []
    echo { g with cAdv := max g.cAdv v } ["cupd:update"] (f1 ++ f2)
  | ["poison", _] => echo g ["poison"] []
  | ["rdl", _, v] => echo g [if v == "1" then "read-deadline:past" else "read-deadline:none"] []
  | ["wdl", _, v] => echo g [if v == "1" then "write-deadline:past" else "write-deadline:none"] []
  | ["reject", _] =>
    -- 0-RTT rejected: every stream is discarded, nothing that was sent counts any more, and no remembered limit survives
    echo { g with rejected := true, cCredit := 0, cCredits := [0], cBlockedAt := [],
                  peer := {},
                  rcv := g.rcv.map fun r => { r with discarded := true },
                  snd := g.snd.map fun s => { s with credit := 0, credits := [0], newEnd := 0, blockedAt := [], discarded := true } }
      [if res.headD "" == "ok" then "reject:ok" else "reject:error"]
      (if res.headD "" == "ok" then [] else [fail "zero_rtt_reset" s!"dropping the 0-RTT state failed ({res.headD ""}) although nothing was received"])
  | ["params", pmd, pbl, pbr, pu] =>
    if res.headD "" != "ok" then echo { g with zero := false, dead := true } ["params:error"] [] else
    let peer : Params := { maxData := intOf pmd, bidiLocal := intOf pbl, bidiRemote := intOf pbr, uni := intOf pu }
    let c := max g.cCredit peer.maxData
    -- streams that are still alive (0-RTT accepted) keep the larger of the remembered and the new limit
    let snd := if g.rejected then g.snd else g.snd.map fun s =>
      let v := if s.kind == "lb" then peer.bidiRemote else if s.kind == "lu" then peer.uni else s.credit
      { s with credit := max s.credit v, credits := max s.credit v :: s.credits }
    echo { g with zero := false, peer := peer, cCredit := c, cCredits := c :: g.cCredits, snd := snd }
      [if g.rejected then "params:after-reject" else "params:0rtt-accepted"] []
  | [pk, _, _] =>
    if pk != "pack" && pk != "send" then (g, { model := impl }) else
    -- `send`: the real Conn.sendPackets ran its MAX_DATA step first (GetWindowUpdate: from then on the new limit is the
    -- one enforced, the dump shows it), then the payload was composed.  Once everything the peer was told it may send on
    -- the connection has been consumed an update is due, and a full-size packet carries the MAX_DATA frame.
    let isSend := pk == "send"
    let big := decide (intOf ((words op).getD 1 "0") ≥ 1200)
    let tot0 := sumI (g.rcv.map (·.credited))
    let cAdv0 := g.cAdv
    let newAdv : Int := if isSend then (dumpField impl 5).getD cAdv0 else cAdv0
    let fUpd : List Fail := if !isSend || newAdv = cAdv0 then [] else
      (if newAdv < cAdv0 then [fail "advertised_monotone" s!"connection: enforced limit {newAdv} after MAX_DATA {cAdv0}"] else []) ++
      (if !g.dead && newAdv > tot0 + g.cMaxws then
        [fail "advertised_honest" s!"connection: MAX_DATA {newAdv} > consumed {tot0} + maximum window {g.cMaxws}"] else [])
    let cStall : List Fail :=
      if isSend && !g.dead && decide (tot0 > 0) && decide (tot0 ≥ cAdv0) && decide (newAdv ≤ cAdv0) then
        [fail "no_stall" s!"connection: all {tot0} bytes the peer was told it may send (MAX_DATA {cAdv0}) have been consumed, but sendPackets computed no window update: the peer is blocked for good"]
      else if isSend && !g.dead && big && decide (newAdv > cAdv0) && !res.contains s!"MD:{newAdv}" then
        [fail "no_stall" s!"connection: the limit was raised from {cAdv0} to {newAdv}, but the full-size packet sendPackets composed carries no MAX_DATA {newAdv}: the peer is not told"]
      else []
    let (g', fails, tags) := packTokens { g with cAdv := max cAdv0 newAdv } res
    let wireFail : List Fail := (res.filter fun t => t.startsWith "X:frame").map fun t =>
      fail "frames_as_sent" s!"the frames of this payload do not survive their own serialisation ({t}): the peer does not see the limits / offsets this endpoint accounts for"
    let fails := fUpd ++ fails ++ cStall ++ wireFail ++ (if res.contains "X:send-error" then [fail "no_stall" "Conn.sendPackets returned an error"] else [])
    let tags := tags ++ (if isSend then [if newAdv > cAdv0 then "send:max-data-due" else "send"] else [])
    -- no stall: a receive stream whose application has consumed everything the peer was told it may send has a
    -- MAX_STREAM_DATA queued (ReceiveStream.readImpl → flowController.AddBytesRead → hasWindowUpdate); stream control
    -- frames are packed first, so a full-size packet (10 streams × at most 4 control frames of ≤ 25 bytes) carries it
    let stall : List Fail := if !big || g'.dead then [] else
      (g'.rcv.zipIdx.filter (fun (r, _) => r.updDue)).map fun (r, j) =>
        fail "no_stall" s!"receive stream {j}: the application has consumed all {r.appRead} bytes the peer was told it may send (limit {r.adv}), but no MAX_STREAM_DATA is in the next full-size packet: the peer is blocked for good"
    let g'' := if big then { g' with rcv := g'.rcv.map fun r => { r with updDue := false } } else g'
    echo g'' (if tags.isEmpty then ["pack:empty"] else tags) (fails ++ stall)
  | _ => (g, { model := impl })

/-- ONE packet through the real `handleShortHeaderPacket` → `handleFrames`: the frames are handled in order; the first one
    that must be refused decides the packet's answer, whatever follows it in the packet, traced or not.  The expectation
    for each frame comes from the ghost state only (the limits the peer was told). -/
def stepPkt (g : G) (subs : List String) (impl : String) : G × StepOut :=
  let res := words ((impl.splitOn " | ").headD "")
  let got := res.headD ""
  if got == "skip" then (g, { model := impl }) else
  if g.dead then
    -- after a connection error nothing is judged on the receiving side; credit frames still count for the sender
    -- (if the packet was cut short the ghost credit is too large, which only makes the sender monitors more lenient)
    let g' := subs.foldl (fun (g0 : G) x =>
      match words x with
      | "smax" :: _ | "cmax" :: _ | "stop" :: _ => (stepCore g0 x "ok").1
      | _ => g0) g
    (g', { model := impl, tags := ["pkt:after-error"], fails := dumpChecks g' impl }) else
  let goneL : List Nat := (((res.findSome? fun x => if x.startsWith "gone=" then some (x.drop 5).toString else none).getD "-").splitOn ",").filterMap
    fun t => if t == "-" then none else some (natOf t)
  -- (state, expected error, index of the offending frame, tags)
  let (g1, expected, tags) := subs.zipIdx.foldl (fun (acc : G × Option (String × Nat) × List String) x =>
    let (g0, exp, tags) := acc
    if exp.isSome then (g0, exp, tags) else
    let w := words x.1
    let judge (j : String) (e : Int) (fin isReset : Bool) : G × Option (String × Nat) × List String :=
      if goneL.contains x.2 then (g0, none, tags ++ ["pkt:frame-for-deleted-stream"]) else
      match g0.rcv[natOf j]? with
      | none => (g0, none, tags)
      | some r =>
        let ex := recvExpect g0 r e fin isReset
        if ex == "ok" then
          let (g', o) := stepCore g0 x.1 "ok"
          (g', none, tags ++ o.tags)
        else (g0, some (ex, x.2), tags)
    match w with
    | ["frame", j, off, len, fin, _] => judge j (intOf off + intOf len) (fin == "1") false
    | ["rst", j, fs, _, _] => judge j (intOf fs) true true
    | "smax" :: _ | "cmax" :: _ | "stop" :: _ =>
      let (g', o) := stepCore g0 x.1 "ok"
      (g', none, tags ++ o.tags)
    | _ => (g0, none, tags)) (g, none, [])
  let want := (expected.map (·.1)).getD "ok"
  let n := subs.length
  let fails : List Fail :=
    if got == want then [] else
    if want == "ok" && got == "E:other" then [] else
    match expected with
    | some (e, i) => [fail "packet_first_violation_reported"
        s!"a packet of {n} frames (qlog tracing {if g.traced then "on" else "off"}): frame {i} ({subs.getD i ""}) is beyond what the peer was told it may send and has to be answered with {e}, but the packet was answered with {got}"]
    | none => [fail "packet_first_violation_reported"
        s!"a packet of {n} frames (qlog tracing {if g.traced then "on" else "off"}) whose frames all stay within the announced limits was answered with {got}"]
  let g2 := if got == "ok" && want == "ok" then g1 else { g1 with dead := true }
  let tags := [s!"pkt:{got}", if g.traced then "pkt:traced" else "pkt:untraced"] ++
    (match expected with
     | some (_, i) => [if i + 1 < n then "pkt:violation-then-more-frames" else "pkt:violation-last"]
     | none => [if n > 1 then "pkt:multi-frame" else "pkt:single-frame"]) ++ tags
  (g2, { model := impl, tags := tags, fails := fails ++ dumpChecks g2 impl })

/-- Reads started by `rdb` that have returned (` rdone:<rid>:<k>:<outcome>` at the end of a result): the bytes
    they consumed count as read by the application. -/
def applyDone (g : G) (main : String) : G × List String :=
  (words main).foldl (fun (acc : G × List String) tok =>
    match tok.splitOn ":" with
    | "rdone" :: j :: k :: st =>
      let j := natOf j
      match acc.1.rcv[j]? with
      | some r => ({ acc.1 with rcv := acc.1.rcv.set j { r with appRead := r.appRead + intOf k } },
                   acc.2 ++ [s!"rdone:{":".intercalate st}" ++ (if intOf k > 0 then ":data" else "")])
      | none => acc
    | _ => acc) (g, [])

/-- `batch a ; b ; c` = the operations back to back (results `ra ; rb ; rc`); the connection dump (and with it
    the per-operation checks on it) belongs to the last one. -/
def step (g : G) (op impl : String) : G × StepOut :=
  let parts := impl.splitOn " | "
  let main := parts.headD ""
  let dump := match parts with | _ :: d :: _ => " | " ++ d | _ => ""
  let (g0, dtags) := applyDone g main
  if op.startsWith "pkt " || op.startsWith "pkt0 " then
    let (g', o) := stepPkt g0 ((op.splitOn " ; ").drop 1) impl
    (g', { o with tags := o.tags ++ dtags ++ (if op.startsWith "pkt0 " then ["pkt:0rtt-packet"] else []) })
  else if op.startsWith "init0 " then
    -- a resuming client: `init0 …` = `init c …` with the REMEMBERED parameters in the peer's place
    let (g', o) := stepCore g0 ("init0c c " ++ (op.drop 6).toString) impl
    (g', o)
  else if op.startsWith "batch " then
    if main == "skip" then (g, { model := impl }) else
    let subs := (op.drop 6).toString.splitOn " ; "
    let ress := main.splitOn " ; "
    let n := subs.length
    let (g', tags, fails) := ((subs.zip ress).zipIdx).foldl (fun (acc : G × List String × List Fail) x =>
        let (g1, o) := stepCore acc.1 x.1.1 (if x.2 + 1 == n then x.1.2 ++ dump else x.1.2)
        (g1, acc.2.1 ++ o.tags, acc.2.2 ++ o.fails)) (g0, [], [])
    let name := "batch:" ++ "+".intercalate (subs.map fun s => (words s).headD "")
    (g', { model := impl, tags := [name] ++ tags ++ dtags, fails := fails })
  else
    let (g', o) := stepCore g0 op impl
    (g', { o with tags := o.tags ++ dtags })

def main : IO Unit := run { init := ({} : G), step := step }
