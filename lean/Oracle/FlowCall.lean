/-
Oracle for the caller-level driver "flowcall" (property C04): real SendStream / ReceiveStream /
framer on top of the real flow controllers.  The frames themselves are not predicted here (the
stream machinery is modelled by C01/C03); `model` echoes the implementation and the C04 monitors
judge the trace: bytes in STREAM frames vs. the credit the peer advertised, *_BLOCKED frames once
per limit, FLOW_CONTROL_ERROR exactly beyond the limits the implementation announced in its own
MAX_STREAM_DATA / MAX_DATA frames, and connection credit == bytes consumed + abandoned.
-/
import Uquic.Oracle.Frame
import Uquic.Model.FlowInit

open Uquic.Oracle Uquic.Model.FlowInit

structure SndG where
  credit : Int := 0
  credits : List Int := []      -- every value the limit ever had
  newEnd : Int := 0             -- highest offset+len in any STREAM frame
  blockedAt : List Int := []

structure RcvG where
  adv : Int := 0                -- what the peer was told: advertised limit for this kind of stream, then every non-zero MAX_STREAM_DATA sent
  maxws : Int := 0
  highest : Int := 0
  final : Option Int := none
  appRead : Int := 0
  cancelled : Bool := false
  reset : Bool := false
  reliable : Int := 0           -- reliable size of the RESET_STREAM_AT frames accepted (only ever reduced)
  updDue : Bool := false        -- the application has consumed everything the peer was told it may send: MAX_STREAM_DATA is due

structure G where
  started : Bool := false
  snd : List SndG := []
  rcv : List RcvG := []
  cCredit : Int := 0
  cCredits : List Int := [0]
  cBlockedAt : List Int := []
  cAdv : Int := 0
  spec : Option Params := none   -- spec-driven client: the parameters the QUICSpec advertises
  cMaxws : Int := 0
  dead : Bool := false
  client : Bool := false
  peer : Params := {}
  cfg : Config := ⟨0, 0, 0, 0⟩

abbrev Fail := String × String × String
def fail (n d : String) : Fail := (n, "-", d)

def sumI (l : List Int) : Int := l.foldl (· + ·) 0

/-- bytes of a receive stream that count as returned credit: what the application read — or the whole
    final size once the final size is known and the rest will never be read: the read side was
    cancelled, or the stream was reset and everything up to the reliable size has been read -/
def RcvG.credited (r : RcvG) : Int :=
  match r.final with
  | some f => if r.cancelled || (r.reset && decide (r.appRead ≥ r.reliable)) then f else r.appRead
  | none => r.appRead

def dumpField (impl : String) (i : Nat) : Option Int :=
  match (impl.splitOn " | ") with
  | _ :: d :: _ =>
    (words d).findSome? fun w =>
      if w.startsWith "c=" then ((w.drop 2).toString.splitOn "/")[i]? |>.bind String.toInt? else none
  | _ => none

def recvExpect (g : G) (r : RcvG) (endOff : Int) (fin : Bool) (isReset : Bool) : String :=
  let finalErr : Bool := match r.final with
    | some f => if isReset then decide (endOff ≠ f) else (fin && decide (endOff ≠ f)) || decide (endOff > f)
    | none => (fin || isReset) && decide (endOff < r.highest)
  let cHighest := sumI (g.rcv.map (·.highest))
  let isNew := decide (endOff > r.highest)
  -- beyond what the peer was told (for this kind of stream / for the connection) → must be refused; everything else accepted
  let beyond : Bool := isNew && (decide (endOff > r.adv) || decide (cHighest - r.highest + endOff > g.cAdv))
  if finalErr then "E:FINAL_SIZE_ERROR" else if beyond then "E:FLOW_CONTROL_ERROR" else "ok"

def packToken (g : G) (tok : String) : G × List Fail × List String :=
  match tok.splitOn ":" with
  | ["S", i, off, len, _fin] =>
    let i := natOf i
    match g.snd[i]? with
    | none => (g, [], [])
    | some s =>
      let e := intOf off + intOf len
      let s' := { s with newEnd := max s.newEnd e }
      let g' := { g with snd := g.snd.set i s' }
      let tot := sumI (g'.snd.map (·.newEnd))
      let f1 := if s'.newEnd > s'.credit then
        [fail "sender_within_credit" s!"stream {i}: STREAM frame up to offset {e} but the largest MAX_STREAM_DATA seen is {s'.credit}"] else []
      let f2 := if tot > g'.cCredit then
        [fail "sender_within_credit" s!"connection: {tot} stream bytes sent but the largest MAX_DATA seen is {g'.cCredit}"] else []
      (g', f1 ++ f2, [if e > s.newEnd then "pack:new-data" else if intOf len = 0 then "pack:fin-only" else "pack:retransmission"])
  | ["SB", i, lim] =>
    let i := natOf i; let lim := intOf lim
    match g.snd[i]? with
    | none => (g, [], [])
    | some s =>
      let f1 := if s.blockedAt.contains lim then [fail "blocked_once" s!"stream {i}: second STREAM_DATA_BLOCKED at limit {lim}"] else []
      let f2 := if !(s.credits.contains lim) || s.newEnd < lim then
        [fail "blocked_once" s!"stream {i}: STREAM_DATA_BLOCKED at {lim}, but the limits seen are {s.credits} and {s.newEnd} bytes were sent"] else []
      ({ g with snd := g.snd.set i { s with blockedAt := lim :: s.blockedAt } }, f1 ++ f2, ["pack:stream-blocked"])
  | ["DB", lim] =>
    let lim := intOf lim
    let tot := sumI (g.snd.map (·.newEnd))
    let f1 := if g.cBlockedAt.contains lim then [fail "blocked_once" s!"connection: second DATA_BLOCKED at limit {lim}"] else []
    let f2 := if !(g.cCredits.contains lim) || tot < lim then
      [fail "blocked_once" s!"connection: DATA_BLOCKED at {lim}, but the limits seen are {g.cCredits} and {tot} bytes were sent"] else []
    ({ g with cBlockedAt := lim :: g.cBlockedAt }, f1 ++ f2, ["pack:conn-blocked"])
  | ["MS", j, v] =>
    let j := natOf j; let v := intOf v
    match g.rcv[j]? with
    | none => (g, [], [])
    | some r =>
      if v = 0 then (g, [], ["pack:max-stream-data-0"])
      else
        let f1 := if v < r.adv then [fail "advertised_monotone" s!"receive stream {j}: MAX_STREAM_DATA {v} after {r.adv}"] else []
        let f2 := if !g.dead && v > r.credited + r.maxws then
          [fail "advertised_honest" s!"receive stream {j}: MAX_STREAM_DATA {v} > consumed {r.credited} + maximum window {r.maxws}"] else []
        ({ g with rcv := g.rcv.set j { r with adv := max r.adv v, updDue := false } }, f1 ++ f2, ["pack:max-stream-data"])
  | ["RS", i, fin, rel] =>
    let i := natOf i; let fin := intOf fin; let rel := intOf rel
    match g.snd[i]? with
    | none => (g, [], [])
    | some s =>
      -- the final size of a stream is flow-control credit consumed (RFC 9000 §4.5): a receiver enforcing its limits
      -- (ours does: UpdateHighestReceived(finalSize, true)) answers a final size beyond them with FLOW_CONTROL_ERROR.
      -- Listed finding: RESET_STREAM_AT promising reliable data that was written but could not yet be sent.
      let cls := if rel > 0 && fin = rel && s.newEnd ≤ s.credit then "reset_final_size_beyond_credit" else "-"
      let f := if fin > s.credit then
        [("sender_within_credit", cls, s!"stream {i}: RESET_STREAM final size {fin} (reliable size {rel}) but the largest MAX_STREAM_DATA seen is {s.credit} ({s.newEnd} bytes sent)")] else []
      (g, f, [if rel = 0 then "pack:reset-stream" else "pack:reset-stream-at",
               if fin > s.credit then "pack:reset-final-size-beyond-credit" else "pack:reset-final-size-within-credit"])
  | "MD" :: _ => (g, [], ["pack:max-data"])
  | _ => (g, [], [])

def stepCore (g : G) (op impl : String) : G × StepOut :=
  let w := words op
  let res := words ((impl.splitOn " | ").headD "")
  let echo (g' : G) (tags : List String) (fails : List Fail) : G × StepOut :=
    -- checks that hold after every operation, on the connection controller's dump
    let extra : List Fail :=
      if !g'.started || res == ["skip"] then [] else
      (match dumpField impl 0 with
       | some bs =>
         let tot := sumI (g'.snd.map (·.newEnd))
         if bs ≠ tot then [fail "sender_accounting" s!"connection bytesSent={bs} but STREAM frames carried {tot} new bytes"] else []
       | none => []) ++
      (match dumpField impl 3 with
       | some br =>
         let tot := sumI (g'.rcv.map (·.credited))
         if !g'.dead && br ≠ tot then [fail "credit_conserved" s!"connection bytesRead={br} but bytes consumed or abandoned on the streams={tot}"] else []
       | none => [])
    (g', { model := impl, tags := tags, fails := fails ++ extra })
  if res == ["skip"] then (g, { model := impl }) else
  match w with
  | ["init", persp, crw, cmax, srw, smax, pmd, pbl, pbr, pu] =>
    let peer : Params := { maxData := intOf pmd, bidiLocal := intOf pbl, bidiRemote := intOf pbr, uni := intOf pu }
    echo { g with started := true, client := persp == "c", peer := peer,
                  cfg := ⟨intOf srw, intOf smax, intOf crw, intOf cmax⟩,
                  cAdv := intOf crw, cMaxws := max (intOf crw) (intOf cmax),
                  cCredit := peer.maxData, cCredits := [peer.maxData] } ["init"] []
  | ["uinit", _base, crw, cmax, srw, smax, _, _, _, _, pmd, pbl, pbr, pu] =>
    if res.headD "" != "ok" then echo g ["uinit:error"] [] else
    let peer : Params := { maxData := intOf pmd, bidiLocal := intOf pbl, bidiRemote := intOf pbr, uni := intOf pu }
    let advL := (((res.findSome? fun x => if x.startsWith "adv=" then some (x.drop 4).toString else none).getD "").splitOn ",").map intOf
    let adv : Params := { maxData := advL.getD 0 0, bidiLocal := advL.getD 1 0, bidiRemote := advL.getD 2 0, uni := advL.getD 3 0 }
    let cfg : Config := ⟨intOf srw, intOf smax, intOf crw, intOf cmax⟩
    -- the connection window the implementation shows must be exactly what was advertised
    let hiC := adv.maxData
    let f0 := match dumpField impl 5 with
      | some rw => if rw ≠ adv.maxData then
          [fail "initial_windows_match_parameters" s!"spec-driven client: connection receive window {rw}, advertised initial_max_data {adv.maxData}, configured {cfg.initialConnectionReceiveWindow}"] else []
      | none => []
    echo { g with started := true, client := true, peer := peer, cfg := cfg, spec := some adv,
                  cAdv := adv.maxData,
                  cMaxws := max hiC (max (intOf cmax) hiC),
                  cCredit := peer.maxData, cCredits := [peer.maxData] } ["uinit"] f0
  | ["open", kind] =>
    if res.headD "" == "E:other" then echo g ["open:error"] [] else
    let fld (k : String) : String := (res.findSome? fun x => if x.startsWith k then some (x.drop k.length).toString else none).getD "-"
    let id := natOf (fld "id=")
    let hasSend := kind != "pu"
    let hasRecv := kind != "lu"
    -- the RFC's assignment (from the operation alone) ...
    let wantSw : Int := match kind with
      | "lb" => g.peer.bidiRemote | "pb" => g.peer.bidiLocal | _ => g.peer.uni
    -- receive side: the parameter WE advertised for this kind of stream (a plain connection advertises the
    -- configured window for all kinds; a spec-driven client advertises what its QUICSpec says)
    let ecfg := enforcedConfig g.cfg g.spec
    let wantRw : Int := match g.spec with
      | none => g.cfg.initialStreamReceiveWindow
      | some a => match kind with
        | "lb" => a.bidiLocal | "pb" => a.bidiRemote | _ => a.uni
    -- the largest window the auto-tuner may ever reach (a spec-driven client: the configured maximum or any advertised window)
    let hiRw : Int := match g.spec with
      | none => g.cfg.initialStreamReceiveWindow
      | some a => max g.cfg.initialStreamReceiveWindow (max a.bidiLocal (max a.bidiRemote a.uni))
    -- ... and the model of the closure (from the stream id the implementation chose)
    let mSw := newFlowControllerSendWindow g.client g.peer id
    let mRw := ((newFlowControllerReceiveWindow ecfg g.spec g.client id).map (·.1)).getD (-1)
    let idOk := (isUni id == (kind == "lu" || kind == "pu")) &&
      (byClient id == (if kind == "lb" || kind == "lu" then g.client else !g.client))
    let f0 := if !idOk then [fail "initial_windows_match_parameters" s!"open {kind}: stream id {id} is not of that kind (client={g.client})"] else []
    let f1 := if hasSend && fld "sw=" != toString wantSw then
      [fail "initial_windows_match_parameters" s!"open {kind} (stream {id}, client={g.client}): initial send window {fld "sw="}, the peer's parameter for this kind of stream is {wantSw} (bidi_local {g.peer.bidiLocal}, bidi_remote {g.peer.bidiRemote}, uni {g.peer.uni})"] else []
    let gotRw := intOf (fld "rw=")
    let f2 := if hasRecv && gotRw ≠ wantRw then
      [fail "initial_windows_match_parameters" s!"open {kind} (stream {id}): initial receive window {fld "rw="}, but {wantRw} was advertised for this kind of stream"] else []
    let g1 := if hasSend then { g with snd := g.snd ++ [{ credit := wantSw, credits := [wantSw] }] } else g
    let g2 := if hasRecv then { g1 with rcv := g1.rcv ++ [{ adv := wantRw, maxws := max hiRw (max g.cfg.maxStreamReceiveWindow hiRw) }] } else g1
    let model := " ".intercalate (res.map fun x =>
      if x.startsWith "sw=" && hasSend then s!"sw={mSw}" else if x.startsWith "rw=" && hasRecv then s!"rw={mRw}" else x)
    let (g3, out) := echo g2 [s!"open:{kind}"] (f0 ++ f1 ++ f2)
    (g3, { out with model := model ++ (match impl.splitOn " | " with | _ :: d :: _ => " | " ++ d | _ => "") })
  | ["w", _, _] => echo g [if res == ["started"] then "write:blocking" else "write:buffered"] []
  | ["close", _] => echo g ["close"] []
  | ["rb", _] => echo g ["reliable-boundary"] []
  | ["cw", _] => echo g ["cancel-write"] []
  | ["smax", i, v] =>
    let i := natOf i; let v := intOf v
    match g.snd[i]? with
    | none => echo g [] []
    | some s =>
      let c := max s.credit v
      echo { g with snd := g.snd.set i { s with credit := c, credits := c :: s.credits } } [if v > s.credit then "smax:raise" else "smax:stale"] []
  | ["cmax", v] =>
    let c := max g.cCredit (intOf v)
    echo { g with cCredit := c, cCredits := c :: g.cCredits } [if intOf v > g.cCredit then "cmax:raise" else "cmax:stale"] []
  | ["pack", _, _] =>
    let (g', fails, tags) := res.foldl (fun (acc : G × List Fail × List String) tok =>
      let (g1, f1, t1) := packToken acc.1 tok
      (g1, acc.2.1 ++ f1, acc.2.2 ++ t1)) (g, [], [])
    -- no stall: a receive stream whose application has consumed everything the peer was told it may send has a
    -- MAX_STREAM_DATA queued (ReceiveStream.readImpl → flowController.AddBytesRead → hasWindowUpdate); stream control
    -- frames are packed first, so a full-size packet (10 streams × at most 4 control frames of ≤ 25 bytes) carries it
    let big := decide (intOf ((words op).getD 1 "0") ≥ 1200)
    let stall : List Fail := if !big || g'.dead then [] else
      (g'.rcv.zipIdx.filter (fun (r, _) => r.updDue)).map fun (r, j) =>
        fail "no_stall" s!"receive stream {j}: the application has consumed all {r.appRead} bytes the peer was told it may send (limit {r.adv}), but no MAX_STREAM_DATA is in the next full-size packet: the peer is blocked for good"
    let g'' := if big then { g' with rcv := g'.rcv.map fun r => { r with updDue := false } } else g'
    echo g'' (if tags.isEmpty then ["pack:empty"] else tags) (fails ++ stall)
  | ["lost", _] => echo g ["lost"] []
  | ["acked", _] => echo g ["acked"] []
  | ["frame", j, off, len, fin, _] =>
    let j := natOf j
    match g.rcv[j]? with
    | none => echo g [] []
    | some r =>
      let e := intOf off + intOf len
      let fin := fin == "1"
      let got := res.headD ""
      if g.dead then echo g ["frame:after-error"] [] else
      if got == "gone" then echo g ["frame:gone"] [] else
      if got == "E:other" then echo { g with dead := true } ["frame:other-error"] [] else
      let expect := recvExpect g r e fin false
      let fails := if expect ≠ "" && got ≠ expect then
        [fail "receiver_exact" s!"receive stream {j}: frame up to offset {e} fin={fin} answered {got}, expected {expect} (announced stream limit {r.adv}, highest {r.highest}, final {r.final}, announced connection limit {g.cAdv}, connection total {sumI (g.rcv.map (·.highest))})"] else []
      if got == "ok" then
        let r' : RcvG := { r with highest := max r.highest e, final := if fin then some e else r.final, updDue := r.updDue && !fin }
        echo { g with rcv := g.rcv.set j r' }
          [if e > r.highest then "frame:new" else "frame:old"] fails
      else echo { g with dead := true } [s!"frame:{got}"] fails
  | ["rst", j, fs, rel, _] =>
    let j := natOf j
    match g.rcv[j]? with
    | none => echo g [] []
    | some r =>
      let e := intOf fs
      let got := res.headD ""
      if g.dead then echo g ["rst:after-error"] [] else
      if got == "gone" then echo g ["rst:gone"] [] else
      let rel := intOf rel
      let expect := recvExpect g r e true true
      let fails := if expect ≠ "" && got ≠ expect then
        [fail "receiver_exact" s!"receive stream {j}: RESET_STREAM final size {e} answered {got}, expected {expect} (announced stream limit {r.adv}, highest {r.highest}, final {r.final}, announced connection limit {g.cAdv})"] else []
      if got == "ok" then
        -- a read side that was cancelled locally ignores the reset; the reliable size can only be reduced
        -- the reliable size can only be reduced (first RESET_STREAM_AT sets it)
        let newRel := if (!r.reset && r.reliable == 0) || rel < r.reliable then rel else r.reliable
        let r' : RcvG := if r.cancelled then
            -- a read side that was cancelled locally ignores the reset error; the stream completes and abandons the rest
            { r with highest := max r.highest e, final := some e, reliable := newRel, updDue := false } else
          { r with highest := max r.highest e, final := some e, reset := true, reliable := newRel, updDue := false }
        echo { g with rcv := g.rcv.set j r' }
          [if rel = 0 then "rst:ok" else if rel > r.appRead then "rst:reliable-ahead" else "rst:reliable-behind"] fails
      else echo { g with dead := true } [s!"rst:{got}"] fails
  | ["rd", j, _] =>
    let j := natOf j
    match g.rcv[j]?, res with
    | some r, n :: st :: _ =>
      let k := intOf (n.drop 2).toString
      let ar := r.appRead + k
      -- everything the peer was told it may send on this stream has been consumed, and more is to come
      let due := r.updDue || (decide (k > 0) && decide (ar ≥ r.adv) && r.final.isNone && !r.cancelled && !r.reset && !g.dead)
      echo { g with rcv := g.rcv.set j { r with appRead := ar, updDue := due } }
        ([s!"rd:{st}"] ++ (if due && !r.updDue then ["rd:credit-used-up"] else [])) []
    | _, _ => echo g [] []
  | ["rdb", _, _] => echo g ["rdb"] []
  | ["cancel", j] =>
    let j := natOf j
    match g.rcv[j]? with
    | none => echo g [] []
    | some r => echo { g with rcv := g.rcv.set j { r with cancelled := true, updDue := false } } ["cancel"] []
  | ["cupd", _] =>
    let v := intOf (res.headD "0")
    let tot0 := sumI (g.rcv.map (·.credited))
    -- no stall: once everything the peer was told it may send on the connection has been consumed, MAX_DATA is due
    if v = 0 then echo g ["cupd:none"] (if !g.dead && tot0 > 0 && tot0 ≥ g.cAdv then
      [fail "no_stall" s!"connection: all {tot0} bytes the peer was told it may send (MAX_DATA {g.cAdv}) have been consumed, but no MAX_DATA is due: the peer is blocked for good"] else []) else
    let f1 := if v < g.cAdv then [fail "advertised_monotone" s!"connection: MAX_DATA {v} after {g.cAdv}"] else []
    let tot := sumI (g.rcv.map (·.credited))
    let f2 := if !g.dead && v > tot + g.cMaxws then
      [fail "advertised_honest" s!"connection: MAX_DATA {v} > consumed {tot} + maximum window {g.cMaxws}"] else []
    echo { g with cAdv := max g.cAdv v } ["cupd:update"] (f1 ++ f2)
  | _ => (g, { model := impl })

/-- Reads started by `rdb` that have returned (` rdone:<rid>:<k>:<outcome>` at the end of a result): the bytes
    they consumed count as read by the application. -/
def applyDone (g : G) (main : String) : G × List String :=
  (words main).foldl (fun (acc : G × List String) tok =>
    match tok.splitOn ":" with
    | "rdone" :: j :: k :: st =>
      let j := natOf j
      match acc.1.rcv[j]? with
      | some r => ({ acc.1 with rcv := acc.1.rcv.set j { r with appRead := r.appRead + intOf k } },
                   acc.2 ++ [s!"rdone:{":".intercalate st}" ++ (if intOf k > 0 then ":data" else "")])
      | none => acc
    | _ => acc) (g, [])

/-- `batch a ; b ; c` = the operations back to back (results `ra ; rb ; rc`); the connection dump (and with it
    the per-operation checks on it) belongs to the last one. -/
def step (g : G) (op impl : String) : G × StepOut :=
  let parts := impl.splitOn " | "
  let main := parts.headD ""
  let dump := match parts with | _ :: d :: _ => " | " ++ d | _ => ""
  let (g0, dtags) := applyDone g main
  if op.startsWith "batch " then
    if main == "skip" then (g, { model := impl }) else
    let subs := (op.drop 6).toString.splitOn " ; "
    let ress := main.splitOn " ; "
    let n := subs.length
    let (g', tags, fails) := ((subs.zip ress).zipIdx).foldl (fun (acc : G × List String × List Fail) x =>
        let (g1, o) := stepCore acc.1 x.1.1 (if x.2 + 1 == n then x.1.2 ++ dump else x.1.2)
        (g1, acc.2.1 ++ o.tags, acc.2.2 ++ o.fails)) (g0, [], [])
    let name := "batch:" ++ "+".intercalate (subs.map fun s => (words s).headD "")
    (g', { model := impl, tags := [name] ++ tags ++ dtags, fails := fails })
  else
    let (g', o) := stepCore g0 op impl
    (g', { o with tags := o.tags ++ dtags })

def main : IO Unit := run { init := ({} : G), step := step }
