import Uquic.Oracle.Frame
import Uquic.Model.Crypto.UAck

open Uquic.Oracle Uquic.Model.PN Uquic.Model.PNSpace Uquic.Model.UAck

abbrev Fail := String × String × String

/-- a run of consecutively numbered packets sent at one level -/
abbrev SentRun := Int × Int × Level   -- lo, hi, level

structure St where
  conn : Bool := false
  pins : Pins := {}
  /-- per number space (0 Initial, 1 Handshake, 2 application data); all of it is computed from the ops and
      the packet numbers the implementation reported, never from model predictions -/
  la : List Int := [-1, -1, -1]            -- largest packet number acknowledged by an accepted ACK
  last : List Int := [-1, -1, -1]          -- largest packet number handed out
  sent : List (List SentRun) := [[], [], []]
  acked : List Ranges := [[], [], []]
  /-- model: Conn.handshakeConfirmed -/
  conf : Bool := false
  /-- ghost: something that may legitimately confirm the handshake happened (HANDSHAKE_DONE, or an ACK that
      covers a packet SENT at the 1-RTT level that no earlier ACK covered) -/
  mayConfirm : Bool := false

def mk (model : String) (tags : List String := []) (fails : List Fail := []) : StepOut :=
  { model := model, tags := tags, fails := fails }

def implField (impl : String) (key : String) : Option String :=
  (words impl).findSome? fun w => if w.startsWith key then some (w.drop key.length).toString else none

def parseLevel : String → Option Level
  | "I" => some .initial | "H" => some .handshake | "Z" => some .zeroRTT | "A" => some .oneRTT | _ => none

def spaceOf : Level → Nat
  | .initial => 0 | .handshake => 1 | _ => 2

/-- "a-b,c-d" → [(a,b),(c,d)] -/
def parsePairs (s : String) : List (Int × Int) :=
  (s.splitOn ",").filterMap fun x => match x.splitOn "-" with
    | [a, b] => if a.isEmpty || b.isEmpty then none else some (intOf a, intOf b)
    | _ => none

/-- "2x300,3x5" → 300 times 2, then 5 times 3 -/
def parseRle (s : String) : List Int :=
  ((s.splitOn ",").map fun x => match x.splitOn "x" with
    | [a, b] => List.replicate (natOf b) (intOf a)
    | _ => []).flatten

def rle (xs : List Nat) : String :=
  let groups := xs.foldl (fun (acc : List (Nat × Nat)) x => match acc with
    | (y, k) :: rest => if x == y then (y, k + 1) :: rest else (x, 1) :: acc
    | [] => [(x, 1)]) []
  ",".intercalate (groups.reverse.map fun (y, k) => s!"{y}x{k}")

def expand (lo hi : Int) : List Int := (List.range (hi - lo + 1).toNat).map fun i => lo + Int.ofNat i

def levelOf (runs : List SentRun) (p : Int) : Option Level :=
  (runs.find? fun r => decide (r.1 ≤ p) && decide (p ≤ r.2.1)).map (·.2.2)

def bit (b : Bool) : String := if b then "1" else "0"

def setAt {α} (l : List α) (i : Nat) (x : α) : List α := l.set i x

/-- the driver's well-formedness test of an `ack` op (dangling references after shrinking are skipped) -/
def ackWellFormed (runs : List SentRun) (rs : List (Int × Int)) : Bool :=
  decide (1 ≤ rs.length) && decide (rs.length ≤ 8) &&
  rs.all (fun r => decide (r.2 ≤ r.1) && decide (r.1 - r.2 ≤ 64) && decide (0 ≤ r.2) &&
    (expand r.2 r.1).all fun p => (levelOf runs p).isSome) &&
  (rs.zip (rs.drop 1)).all (fun (a, b) => decide (b.1 < a.2 - 1))

def step (s : St) (op impl : String) : St × StepOut :=
  let w := words op
  match w with
  | ["unew", _, raw, single, list] =>
    let l : List Nat := if list == "-" then [] else (list.splitOn ",").map natOf
    let pins := Pins.ofSpec (natOf raw) (natOf single) l
    if impl == "ok" then
      ({ conn := true, pins := pins }, mk "ok" ["unew", if !l.isEmpty then "unew:list" else if natOf single ≠ 0 then "unew:single" else "unew:nopin",
        if natOf raw > 2 ^ 62 - 1 then "unew:pn-overflow" else "unew:pn-ok"])
    else ({}, mk "ok")
  | ["send", l, n] =>
    match parseLevel l with
    | none => (s, mk "skip")
    | some lvl =>
    let sp := spaceOf lvl
    if !s.conn || natOf n < 1 || natOf n > 40000 || (sp < 2 && s.conf) then (s, mk "skip" ["send:skip"]) else
    if impl == "skip" then (s, mk "pns=? lens=? peek=ok") else
    let runs := parsePairs ((implField impl "pns=").getD "")
    let pns := (runs.map fun r => expand r.1 r.2).flatten
    let la := s.la.getD sp (-1)
    let mlens := pns.map fun p => uPeekLen s.pins lvl p la
    let ilens := parseRle ((implField impl "lens=").getD "")
    -- monitors ------------------------------------------------------------------------------------------
    -- (1) a packet number length must let the peer recover the number: the peer has processed at least what
    --     it acknowledged (largest acknowledged, -1 = nothing) and at most everything sent before
    let bad := (pns.zip ilens).filter fun (p, ln) =>
      lvl != Level.initial &&
        (!(decide (1 ≤ ln) && decide (ln ≤ 4)) ||
         decodePN ln.toNat la (truncatePN ln.toNat p) != p ||
         decodePN ln.toNat (p - 1) (truncatePN ln.toNat p) != p)
    let f1 : List Fail := match bad with
      | (p, ln) :: _ => [("pn_len_decodes_at_peer", "-", s!"level {l}: packet {p} sent with a {ln}-byte packet number while the largest acknowledged is {la}: a peer that processed nothing newer decodes {decodePN ln.toNat la (truncatePN ln.toNat p)} ({bad.length} such packets in this burst)")]
      | [] => []
    -- (2) numbers strictly increase within a space
    let lastp := s.last.getD sp (-1)
    let incr := (pns.zip (lastp :: pns)).all fun (a, b) => decide (b < a)
    let f2 : List Fail := if !incr then [("pn_reused_in_space", "-", s!"level {l}: packet numbers {(implField impl "pns=").getD ""} after {lastp}")] else []
    let f3 : List Fail := if (implField impl "peek=").getD "ok" != "ok" then
      [("peek_matches_pop", "-", s!"level {l}: PeekPacketNumber differed from PopPacketNumber at packet {(implField impl "peek=").getD ""}")] else []
    let f4 : List Fail := if pns.length ≠ natOf n || ilens.length ≠ natOf n then
      [("send_accounting", "-", s!"asked for {n} packets, got {pns.length} numbers and {ilens.length} lengths")] else []
    let s' := { s with last := setAt s.last sp (pns.foldl max lastp),
                       sent := setAt s.sent sp ((s.sent.getD sp []) ++ runs.map fun r => (r.1, r.2, lvl)) }
    let pinned := lvl == Level.initial && (!s.pins.list.isEmpty || s.pins.single ≠ 0)
    (s', mk s!"pns={(implField impl "pns=").getD ""} lens={rle mlens} peek=ok"
      ([s!"send:{l}", if pinned then (if s.pins.list.isEmpty then "send:pinned-single" else "send:pinned-list") else "send:standard",
        if natOf n > 30000 then "send:burst-32k" else if natOf n > 100 then "send:burst" else "send:few",
        if la ≥ 0 then "send:after-ack" else "send:before-ack"] ++ (dedup (mlens.map fun x => s!"send:len{x}")))
      (f1 ++ f2 ++ f3 ++ f4))
  | ["ack", l, rtxt] =>
    match parseLevel l with
    | none => (s, mk "skip")
    | some lvl =>
    let sp := spaceOf lvl
    let rs := parsePairs rtxt
    let runs := s.sent.getD sp []
    if !s.conn || lvl == Level.zeroRTT || (sp < 2 && s.conf) || rs.length ≠ (rtxt.splitOn ",").length || !ackWellFormed runs rs then
      (s, mk "skip" ["ack:skip"]) else
    let prev := s.acked.getD sp []
    let la := s.la.getD sp (-1)
    let pns := (rs.map fun r => expand r.2 r.1).flatten
    -- packets covered by this frame that no earlier accepted ACK frame covered, with the level they were sent at
    let cand := pns.filter fun p => !inRanges prev p
    let cand1 := cand.filter fun p => levelOf runs p == some Level.oneRTT
    -- … and that cannot have been declared lost yet (reordering threshold 3; the driver never advances time)
    let must1 := cand1.filter fun p => decide (p + 3 > la)
    let implOk := (words impl).headD "" == "ok"
    let ia1 := (implField impl "a1=").getD "0" == "1"
    let ma1 : Bool := if !must1.isEmpty then true else if cand1.isEmpty then false else ia1
    let conf' := s.conf || ma1
    let may' := s.mayConfirm || !cand1.isEmpty
    let iconf := (implField impl "conf=").getD "0" == "1"
    let igate := (implField impl "gate=").getD "0" == "1"
    let f1 : List Fail := if implOk && ia1 && cand1.isEmpty then
      [("ack_1rtt_claim_sound", "-", s!"ACK {rtxt} (level {l}) reported as acknowledging a 1-RTT packet, but it newly covers only {cand.map fun p => (p, match levelOf runs p with | some Level.zeroRTT => "0-RTT" | some Level.oneRTT => "1-RTT" | some Level.handshake => "Handshake" | some Level.initial => "Initial" | none => "?")}")] else []
    let f2 : List Fail := if implOk && !ia1 && !must1.isEmpty then
      [("ack_1rtt_claim_complete", "-", s!"ACK {rtxt} newly acknowledges the outstanding 1-RTT packets {must1} but ReceivedAck answered false")] else []
    let f3 : List Fail := if implOk && iconf && !may' then
      [("confirmed_without_1rtt_ack", "-", s!"handshake confirmed by ACK {rtxt} although no packet sent at the 1-RTT level was ever acknowledged and no HANDSHAKE_DONE arrived")] else []
    let f4 : List Fail := if implOk && igate && !may' then
      [("key_update_gate_open_before_confirmation", "-", s!"updatableAEAD allows a key update after ACK {rtxt} although the handshake cannot be confirmed (no 1-RTT packet acknowledged, no HANDSHAKE_DONE)")] else []
    let s' := if implOk then { s with la := setAt s.la sp (max la ((rs.map (·.1)).foldl max (-1))),
                                      acked := setAt s.acked sp (prev ++ rs), conf := conf', mayConfirm := may' } else s
    (s', mk s!"ok a1={bit ma1} conf={bit conf'} gate={bit conf'}"
      [s!"ack:{l}", if ma1 then "ack:a1" else "ack:not-a1",
       if cand.isEmpty then "ack:repeat" else if cand1.isEmpty && sp == 2 then "ack:only-0rtt" else if sp == 2 && cand1.length < cand.length then "ack:0rtt+1rtt" else "ack:plain",
       if !must1.isEmpty || cand1.isEmpty then "ack:determined" else "ack:maybe-lost",
       if conf' && !s.conf then "conf:by-ack" else "conf:same"] (f1 ++ f2 ++ f3 ++ f4))
  | ["done"] =>
    if !s.conn then (s, mk "skip") else
    let implOk := (words impl).headD "" == "ok"
    let s' := if implOk then { s with conf := true, mayConfirm := true } else s
    (s', mk "ok conf=1 gate=1" [if s.conf then "done:again" else "conf:by-done"])
  | _ => (s, mk "bad-op")

def main : IO Unit := run { init := ({} : St), step := step }
