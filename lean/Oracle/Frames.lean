/-
Oracle for the `frames` driver (property C09): replays every op on the Lean models of the uQUIC
frame builders / validateInitialFlight / crypto streams and evaluates the reference predicate
`Uquic.Spec.Framing.carriesAt` directly on the bytes the Go code emitted.

Randomised builders: the crypto/rand draws are in the op; the math/rand shuffle is recovered from
the implementation's output as a permutation witness (`recoverPerm`) and handed to the model, so
every Go output has to be explained by some model execution (DESIGN.md §3.3).
-/
import Uquic.Oracle.Frame
import Uquic.Model.UQuic.Frames
import Uquic.Model.UQuic.Scrambler
import Uquic.Model.UQuic.Planned
import Uquic.Model.UQuic.PerDatagram
import Uquic.Spec.Framing
import Uquic.Spec.FramingMon

open Uquic.Oracle Uquic.Model.UQuic.Frames Uquic.Model.UQuic.Scrambler Uquic.Spec.Framing Uquic.Spec.FramingMon
open Uquic.Model.UQuic.Planned (PF)
open Uquic.Model.UQuic.PerDatagram (PD)

/-! ### text -/

def hexVal (c : Char) : Nat :=
  if '0' ≤ c ∧ c ≤ '9' then c.toNat - 48
  else if 'a' ≤ c ∧ c ≤ 'f' then c.toNat - 87
  else if 'A' ≤ c ∧ c ≤ 'F' then c.toNat - 55
  else 0

def unhexChars : List Char → List UInt8 → List UInt8
  | a :: b :: rest, acc => unhexChars rest (UInt8.ofNat (hexVal a * 16 + hexVal b) :: acc)
  | _, acc => acc.reverse

def unhex (s : String) : List UInt8 :=
  if s == "-" || s == "" then [] else unhexChars s.toList []

def hexDigit (n : Nat) : Char := if n < 10 then Char.ofNat (48 + n) else Char.ofNat (87 + n)

def hx (b : List UInt8) : String :=
  if b.isEmpty then "-"
  else String.ofList (b.foldr (fun x acc => hexDigit (x.toNat / 16) :: hexDigit (x.toNat % 16) :: acc) [])

def hexList (ps : List (List UInt8)) : String :=
  if ps.isEmpty then "!" else ",".intercalate (ps.map hx)

def unhexList (s : String) : List (List UInt8) :=
  if s == "!" || s == "" then [] else (s.splitOn ",").map unhex

def parseFrames (s : String) : List QFrame :=
  if s == "-" || s == "" then []
  else (s.splitOn ",").filterMap fun t =>
    if t == "g" then some QFrame.ping
    else if t.startsWith "p" then some (QFrame.padding (intOf (t.drop 1).toString))
    else if t.startsWith "c" then
      match ((t.drop 1).toString).splitOn ":" with
      | [o, l] => some (QFrame.crypto (intOf o) (intOf l))
      | _ => none
    else none

def parseCfg (s : String) : RFCfg :=
  let f := (s.splitOn ",").map natOf
  let g (i : Nat) := f.getD i 0
  -- the Go fields are uint8 / uint16: the driver converts with uint8(...) / uint16(...)
  { minPing := g 0 % 256, maxPing := g 1 % 256, minCrypto := g 2 % 256, maxCrypto := g 3 % 256,
    minPad := g 4 % 256, maxPad := g 5 % 256, length := g 6 % 65536 }

def parseDraws (s : String) : Draws :=
  let zero := !s.endsWith "e"
  let body := (s.dropEndWhile (fun c => c == 'z' || c == 'e')).toString
  { bytes := unhex body, zero := zero }

def parseInts (s : String) : List Int :=
  if s == "-" || s == "" then [] else (s.splitOn ",").map intOf

def parseRanges (s : String) : List (Int × Int) :=
  if s == "-" || s == "" then []
  else (s.splitOn ";").filterMap fun t =>
    match t.splitOn ":" with
    | [o, l] => some (intOf o, intOf l)
    | _ => none

def fmtOut : Outcome (List UInt8) → String
  | .ok p => "ok " ++ hx p
  | .err e => "E:" ++ e
  | .panic => "PANIC"
  | .wrap => "WRAP"

/-! ### recovering the shuffle -/

inductive Tok where
  | idx (i : Nat)      -- a CRYPTO frame matched to the frame list entry `i`
  | ping
  | run (n : Nat)      -- maximal run of zero bytes between frames

def isPrefix : List UInt8 → List UInt8 → Bool
  | [], _ => true
  | _ :: _, [] => false
  | a :: as, b :: bs => a == b && isPrefix as bs

/-- split the output into tokens, matching CRYPTO frames against the not yet used serialisations -/
partial def tokenize (ser : Array (List UInt8)) (used : Array Bool) (out : List UInt8) (acc : List Tok) :
    Option (List Tok) :=
  match out with
  | [] => some acc.reverse
  | b :: rest =>
    if b == 1 then tokenize ser used rest (Tok.ping :: acc)
    else if b == 0 then
      let zs := out.takeWhile (· == 0)
      tokenize ser used (out.drop zs.length) (Tok.run zs.length :: acc)
    else if b == 6 then
      match (List.range ser.size).find? (fun j => !used[j]! && (ser[j]!).head? == some (6 : UInt8) && isPrefix ser[j]! out) with
      | none => none
      | some j => tokenize ser (used.set! j true) (out.drop (ser[j]!).length) (Tok.idx j :: acc)
    else none

/-- choose paddings (index, length) filling the runs exactly; fuel-limited depth-first search.
    result: for every run the chosen indices -/
partial def fillRuns (runs : List Nat) (pads : List (Nat × Nat)) (fuel : Nat) : Option (List (List Nat)) × Nat :=
  match runs with
  | [] => (if pads.isEmpty then some [] else none, fuel)
  | r :: rs =>
    let rec choose (target : Nat) (avail skipped : List (Nat × Nat)) (chosen : List Nat) (fuel : Nat) :
        Option (List (List Nat)) × Nat :=
      if fuel = 0 then (none, 0)
      else if target = 0 then
        match fillRuns rs (skipped.reverse ++ avail) (fuel - 1) with
        | (some sol, f) => (some (chosen.reverse :: sol), f)
        | (none, f) => (none, f)
      else
        match avail with
        | [] => (none, fuel - 1)
        | p :: ps =>
          let tryTake := if p.2 ≤ target then choose (target - p.2) ps skipped (p.1 :: chosen) (fuel - 1) else (none, fuel - 1)
          match tryTake with
          | (some sol, f) => (some sol, f)
          | (none, f) =>
            -- skip this padding and every other one of the same length (they are interchangeable)
            let same := ps.takeWhile (·.2 == p.2)
            choose target (ps.drop same.length) (same.reverse ++ (p :: skipped)) chosen f
    choose r pads [] [] fuel

def insertDesc (x : Nat × Nat) : List (Nat × Nat) → List (Nat × Nat)
  | [] => [x]
  | y :: ys => if x.2 ≥ y.2 then x :: y :: ys else y :: insertDesc x ys

inductive Recovered where
  | perm (p : List Nat)
  | unresolved         -- structure matches but the padding partition search ran out of fuel
  | mismatch

/-- find a permutation of `fl` whose serialisation is `out` (`ser[i]` = bytes of `fl[i]`) -/
def recoverPerm (fl : List QFrame) (ser : List (List UInt8)) (out : List UInt8) : Recovered :=
  let serA := ser.toArray
  match tokenize serA (Array.replicate ser.length false) out [] with
  | none => .mismatch
  | some toks =>
    let idxd := (List.range fl.length).zip fl
    let pingIdx := idxd.filterMap fun (i, f) => match f with | .ping => some i | _ => none
    let padIdx := idxd.filterMap fun (i, f) => match f with | .padding l => some (i, l.toNat) | _ => none
    let cryptoIdx := idxd.filterMap fun (i, f) => match f with | .crypto _ _ => some i | _ => none
    let nPing := (toks.filter fun t => match t with | .ping => true | _ => false).length
    let matched := toks.filterMap fun t => match t with | .idx i => some i | _ => none
    let runs := toks.filterMap fun t => match t with | .run n => some n | _ => none
    let zeroPads := padIdx.filter (·.2 == 0)
    let pads := (padIdx.filter (·.2 > 0)).foldl (fun acc p => insertDesc p acc) []
    if nPing ≠ pingIdx.length || matched.length ≠ cryptoIdx.length
        || runs.foldl (· + ·) 0 ≠ pads.foldl (fun a p => a + p.2) 0 || runs.length > pads.length then .mismatch
    else
      match (fillRuns runs pads 60000).1 with
      | none => .unresolved
      | some sol =>
        -- walk the tokens again, emitting indices
        let rec emit (toks : List Tok) (pings : List Nat) (sol : List (List Nat)) (acc : List Nat) : List Nat :=
          match toks with
          | [] => acc.reverse
          | .idx i :: ts => emit ts pings sol (i :: acc)
          | .ping :: ts => emit ts pings.tail sol (pings.headD 0 :: acc)
          | .run _ :: ts => emit ts pings sol.tail ((sol.headD []).reverse ++ acc)
        .perm (emit toks pingIdx sol [] ++ zeroPads.map (·.1))

def identityPerm (n : Nat) : List Nat := List.range n

/-! ### state -/

structure Ghost where
  written : List UInt8 := []
  popped : List (Nat × Nat) := []
  emptyStreak : Nat := 0
  drainJudged : Bool := false
  client : Bool := false
  completeCH : Bool := false      -- findSNIAndECH accepted the buffer of the last write
  sniPos : Int := 0
  sniLen : Int := 0
  echPos : Int := 0

/-- ghost of a planned-flight session, from the ops and the implementation's answers only -/
structure PFGhost where
  released : Bool := false
  /-- per Pack call: the CRYPTO ranges the packet carried (reference reader); `none`: nothing packed or lost -/
  delivered : List (Option (List (Nat × Nat))) := []

/-- ghost of a per-datagram session, from the ops and the implementation's answers only -/
structure PDGhost where
  /-- everything written to the Initial CRYPTO stream so far -/
  written : List UInt8 := []
  /-- per Pack call: the CRYPTO ranges the packet carried (reference reader); `none`: nothing packed or lost -/
  delivered : List (Option (List (Nat × Nat))) := []
  /-- every packet so far was built by a builder inside its contract for the share it was handed -/
  judgeable : Bool := true
  /-- the layout of a QUICFrames builder (`none`: another builder) -/
  layout : Option (List QFrame) := none
  /-- the configurations of a QUICRandomFrames / QUICMultiDatagramFrames builder (from the `pd new` op) -/
  cfgs : List RFCfg := []

structure St where
  src : List UInt8 := []
  cs : Option CS := none
  g : Ghost := {}
  pf : Option PF := none
  pg : PFGhost := {}
  pd : Option PD := none
  dg : PDGhost := {}

def sliceOf (src : List UInt8) (lo n : Int) : List UInt8 :=
  let lo := if lo < 0 then 0 else if lo > src.length then (src.length : Int) else lo
  let n := if n < 0 then 0 else n
  let hi := if lo + n > src.length then (src.length : Int) else lo + n
  (src.drop lo.toNat).take (hi - lo).toNat

def csSuffix : Option CS → String
  | none => ""
  | some s =>
    if s.initial then
      s!" cuts={s.c0s}:{s.c0e},{s.c1s}:{s.c1e} end={s.«end»} scr={if s.scramble then 1 else 0} wo={s.writeOffset} buf={s.buf.length}"
    else s!" cuts=-1:-1,-1:-1 end=0 scr=0 wo={s.writeOffset} buf={s.buf.length}"

def implField (impl key : String) : Option String :=
  (words impl).findSome? fun w => if w.startsWith key then some (w.drop key.length).toString else none

abbrev Fail := String × String × String

/-- monitors shared by the per-datagram builders (rf / mf): the implementation's answer is judged
    against the spec of the configuration, not against the model -/
def judgeDatagram (name : String) (src : List UInt8) (base : Nat) (lo : Int) (slice : List UInt8)
    (cfgOk : Bool) (drawsOk : Bool) (cfg : RFCfg) (impl : String) : List Fail := Id.run do
  let mut fails : List Fail := []
  let representable := base + slice.length ≤ 4611686018427387903
  let iw := words impl
  if iw.headD "" == "ok" then
    let out := unhex (iw.getD 1 "-")
    if lo ≥ 0 ∧ (base : Int) ≥ lo then
      let srcAbs := base - lo.toNat
      if !carriesAt src srcAbs base (base + slice.length) [out] then
        fails := fails ++ [(name ++ "_carries", "-", s!"base={base} len={slice.length}")]
    match readFrames out with
    | some fs =>
      if !countsOk cfg slice.length fs then
        fails := fails ++ [(name ++ "_counts", "-", s!"pings={(fs.filter (· == Frame.ping)).length} cryptos={(cryptoOf fs).length}")]
      -- exact only for base 0: the builder measures its dry run with offset 0, so with a larger base the
      -- offset varints grow and the payload overshoots Length (a size matter of C10, not of this property)
      if (base == 0 && !paddedTo cfg.length out.length fs) || out.length < cfg.length then
        fails := fails ++ [(name ++ "_length", "-", s!"len={out.length} want>={cfg.length}")]
    | none => pure ()
  else if impl == "PANIC" then
    if representable then fails := fails ++ [(name ++ "_panic", "-", "builder panicked for an in-range call")]
  else if impl.startsWith "E:" then
    if cfgOk && drawsOk && representable then
      fails := fails ++ [(name ++ "_spurious_error", "-", impl)]
  return fails

def padsNonNeg (qfs : List QFrame) : Bool :=
  qfs.all fun f => match f with | .padding l => decide (l ≥ 0) | _ => true

/-- recover the witness for a per-datagram random builder call and run the model with it -/
def runRandom (c : RFCfg) (slice : List UInt8) (base : Nat) (d : Draws) (impl : String) :
    Outcome (List UInt8) × List String :=
  match rfPlan c slice d with
  | .ok (fl, _) =>
    let iw := words impl
    if iw.headD "" == "ok" then
      let out := unhex (iw.getD 1 "-")
      let lowest := lowestOffset fl
      match fl.mapM (buildOne lowest slice base) with
      | none => (rfBuild c slice base d (identityPerm fl.length), ["rf:panic"])
      | some ser =>
        match recoverPerm fl ser out with
        | .perm p => (rfBuild c slice base d p, ["rf:perm"])
        | .unresolved =>
          -- the structure matches; the exact padding partition was not searched to the end
          (.ok out, ["rf:perm-unresolved"])
        | .mismatch => (rfBuild c slice base d (identityPerm fl.length), ["rf:perm-mismatch"])
    else (rfBuild c slice base d (identityPerm fl.length), [])
  | .err e => (.err e, ["rf:E:" ++ e])
  | .panic => (.panic, ["rf:panic"])
  | .wrap => (.wrap, ["rf:wrap"])

def planTags (c : RFCfg) (slice : List UInt8) (d : Draws) : List String :=
  match rfPlan c slice d with
  | .ok (fl, _) =>
    let nc := (fl.filter fun f => match f with | .crypto _ _ => true | _ => false).length
    let np := (fl.filter fun f => match f with | .padding _ => true | _ => false).length
    (if nc > 1 then ["rf:split"] else ["rf:single"]) ++ (if np > 1 then ["rf:pads"] else if np == 1 then ["rf:pad1"] else ["rf:nopad"])
      ++ (if slice.isEmpty then ["rf:empty-data"] else [])
  | _ => []

def fmtFlight (src : List UInt8) (budgets : List Int) (o : Outcome (List (List UInt8))) : String :=
  match o with
  | .ok ps =>
    let v := match validate ps budgets src.length with
      | .ok _ => "ok" | .err e => "E:" ++ e | .panic => "PANIC" | .wrap => "WRAP"
    "built " ++ hexList ps ++ " v=" ++ v
  | .err e => "E:" ++ e
  | .panic => "PANIC"
  | .wrap => "WRAP"

/-- "built <hex,hex> v=<..>" -/
def implPayloads (impl : String) : Option (List (List UInt8) × String) :=
  match words impl with
  | ["built", hs, v] => some (unhexList hs, (v.drop 2).toString)
  | _ => none

def judgeFlight (name : String) (src : List UInt8) (inRange : Bool) (impl : String) (budgets : List Int := []) :
    List Fail := Id.run do
  let mut fails : List Fail := []
  match implPayloads impl with
  | some (ps, v) =>
    if v == "ok" then
      if !carriesAt src 0 0 src.length ps then
        fails := fails ++ [(name ++ "_carries", "-", s!"released flight of {ps.length} datagrams does not carry the {src.length} byte ClientHello")]
      match firstOversize ps budgets with
      | some (i, l, b) =>
        fails := fails ++ [(name ++ "_fits", "-", s!"released flight: datagram {i} has {l} bytes of frames, its packet holds {b}")]
      | none => pure ()
    else if v == "PANIC" then
      fails := fails ++ [(name ++ "_validate_panic", "-", "validateInitialFlight panicked on a built-in builder's output")]
  | none =>
    if impl == "PANIC" && inRange then
      fails := fails ++ [(name ++ "_panic", "-", "flight builder panicked for in-range parameters")]
  return fails

/-- recover one permutation per datagram for QUICRandomFlightFrames -/
def recoverFlightPerms (dgs : List RFDatagram) (full : List UInt8) (d : Draws) (outs : List (List UInt8)) :
    List (List Nat) × Bool × List String := Id.run do
  let mut d := d
  let mut perms : List (List Nat) := []
  let mut unresolved := false
  let mut tags : List String := []
  let mut outs := outs
  for dg in dgs do
    match rfdPlan dg full d with
    | .ok (fl, d') =>
      d := d'
      let out := outs.headD []
      outs := outs.tail
      let ser := fl.map fun f => match absOne full f with | .ok b => b | _ => []
      match recoverPerm fl ser out with
      | .perm p => perms := perms ++ [p]; tags := tags ++ ["rff:perm"]
      | .unresolved => unresolved := true; perms := perms ++ [identityPerm fl.length]; tags := tags ++ ["rff:perm-unresolved"]
      | .mismatch => perms := perms ++ [identityPerm fl.length]; tags := tags ++ ["rff:perm-mismatch"]
    | _ => break
  return (perms, unresolved, tags)

def parseRFDatagrams (s : String) : List RFDatagram :=
  if s == "!" then []
  else (s.splitOn "/").map fun dtxt =>
    match dtxt.splitOn "|" with
    | [c, r] => { cfg := parseCfg c, ranges := parseRanges r }
    | _ => { cfg := parseCfg "", ranges := [] }

def cfgInBounds (c : RFCfg) : Bool :=
  decide (c.minPing ≤ c.maxPing) && decide (1 ≤ c.minCrypto) && decide (c.minCrypto ≤ c.maxCrypto)
    && (c.length == 0 || (decide (1 ≤ c.minPad) && decide (c.minPad ≤ c.maxPad)))


/-- the shuffle witness for a MarshalInitialPacketPayload call of a random builder: recompute what the
    builder is handed (reassembled data, base offset), plan, recover the permutation from the
    implementation's payload. `(perm, unresolved)` -/
def marshalWitness (fb : Builder) (idx : Int) (planned : Bool) (cfs : List (Nat × List UInt8)) (d : Draws)
    (implOut : Option (List UInt8)) : List Nat × Bool :=
  let cfgOf : Option RFCfg := match fb with
    | .random c => some c
    | .multi per => match mfSelect per idx with | .ok c => some c | _ => none
    | _ => none
  let prep : Option (List UInt8 × Nat) :=
    match wireAll cfs with
    | none => none
    | some orig => match chReadAll orig with
      | .ok fs =>
        let fs := fs.map fun f => (f.1, f.2.1, f.2.2 ++ List.replicate (f.2.1 - f.2.2.length) 0)
        let sorted := sortByOff fs
        match (match sorted with | [] => some [] | f :: _ => reassemble f.1 sorted []) with
        | some cd =>
          let b := fs.foldl (fun m f => if f.1 < m then f.1 else m) 18446744073709551615
          some (cd, if b = 18446744073709551615 then 0 else b)
        | none => none
      | _ => none
  match cfgOf, prep, implOut, planned with
  | some c, some (cd, b), some out, false =>
    match rfPlan c cd d with
    | .ok (fl, _) =>
      match fl.mapM (buildOne (lowestOffset fl) cd b) with
      | some ser => match recoverPerm fl ser out with
        | .perm p => (p, false)
        | .unresolved => ([], true)
        | .mismatch => (identityPerm fl.length, false)
      | none => (identityPerm fl.length, false)
    | _ => ([], false)
  | some c, some (cd, _), _, _ =>
    match rfPlan c cd d with
    | .ok (fl, _) => (identityPerm fl.length, false)
    | _ => ([], false)
  | _, _, _, _ => ([], false)

def parseBuilder (kind spec : String) : Option Builder :=
  match kind with
  | "nil" => some Builder.none
  | "qf" => some (Builder.frames (parseFrames spec))
  | "rf" => some (Builder.random (parseCfg spec))
  | "mf" => some (Builder.multi ((spec.splitOn ";").map parseCfg))
  | _ => none

def parseReg (regText : String) : List (Nat × List UInt8) :=
  if regText == "-" then [] else (regText.splitOn ";").filterMap fun t =>
    match t.splitOn ":" with
    | [o, h] => some (natOf o, unhex h)
    | _ => none

def fmtReg (reg : List (Nat × List UInt8)) : String :=
  if reg.isEmpty then "-" else ";".intercalate (reg.map fun c => s!"{c.1}:{hx c.2}")

/-- the two frame lists cover the same bytes -/
def sameCoverage (a b : List (Nat × Nat)) : Bool :=
  (a.all fun r => coversAll b r.1 (r.1 + r.2)) && (b.all fun r => coversAll a r.1 (r.1 + r.2))

def step (s : St) (op impl : String) : St × StepOut :=
  let w := words op
  let iw := words impl
  match w with
  | ["src", h] => ({ s with src := unhex h }, { model := "ok", tags := [] })
  | ["qf", base, lo, n, frames] =>
    let base := natOf base
    let slice := sliceOf s.src (intOf lo) (intOf n)
    let qfs := parseFrames frames
    let out := qfBuild qfs slice base
    let tiles := layoutTiles qfs slice.length
    let low := (layoutLowest qfs)
    let fails : List Fail := Id.run do
      let mut fails : List Fail := []
      -- the documented contract: a layout that tiles its slice, handed the slice's true offset
      let trueBase := (base : Int) + low
      if tiles && trueBase == intOf lo && base + 65535 + slice.length ≤ 4611686018427387903 then
        if iw.headD "" == "ok" then
          if !carriesAt s.src 0 (intOf lo).toNat ((intOf lo).toNat + slice.length) [unhex (iw.getD 1 "-")] then
            fails := fails ++ [("qf_carries", "-", s!"tiling layout {frames} base={base}")]
        else fails := fails ++ [("qf_tiling_rejected", "-", s!"{impl} for tiling layout {frames}")]
      -- ANY layout with non-negative fields, on ANY slice (a PTO probe, a retransmission, the tail of a
      -- ClientHello hands the layout a shorter or empty share): no panic, nothing but ClientHello bytes
      if layoutNonneg qfs && (base : Int) + maxLayoutOffset qfs + slice.length ≤ 4611686018427387903 then
        if iw.headD "" == "PANIC" then
          fails := fails ++ [("qf_panic", "-", s!"layout {frames} on a {slice.length} byte share")]
        else if iw.headD "" == "ok" && trueBase == intOf lo then
          if !noForeignBytes s.src (intOf lo).toNat ((intOf lo).toNat + slice.length) (unhex (iw.getD 1 "-")) then
            fails := fails ++ [("qf_no_zero_extension", "-", s!"layout {frames} on a {slice.length} byte share announces bytes that are not ClientHello bytes")]
      return fails
    let tags := [match out with | .ok _ => "qf:ok" | .panic => "qf:panic" | _ => "qf:other"] ++
      (if tiles then ["qf:tiles"] else ["qf:nontiling"]) ++ (if qfs.isEmpty then ["qf:empty"] else []) ++
      (if low ≠ 0 then ["qf:rebased"] else []) ++
      (if layoutNonneg qfs && !tiles then ["qf:short-share"] else [])
    (s, { model := fmtOut out, tags := tags, fails := fails })
  | ["rf", base, lo, n, cfg, draws] =>
    let base := natOf base
    let slice := sliceOf s.src (intOf lo) (intOf n)
    let c := parseCfg cfg
    let d := parseDraws draws
    let (out, tags) := runRandom c slice base d impl
    let fails := judgeDatagram "rf" s.src base (intOf lo) slice (cfgInBounds c) d.zero c impl
    (s, { model := fmtOut out, tags := tags ++ planTags c slice d, fails := fails })
  | ["mf", idx, base, lo, n, cfgs, draws] =>
    let base := natOf base
    let slice := sliceOf s.src (intOf lo) (intOf n)
    let per := if cfgs == "-" then [] else (cfgs.splitOn ";").map parseCfg
    let d := parseDraws draws
    match mfSelect per (intOf idx) with
    | .ok c =>
      let (out, tags) := runRandom c slice base d impl
      let fails := judgeDatagram "mf" s.src base (intOf lo) slice (cfgInBounds c) d.zero c impl
      (s, { model := fmtOut out, tags := ["mf:select"] ++ tags, fails := fails })
    | .err e => (s, { model := "E:" ++ e, tags := ["mf:E:" ++ e] })
    | _ => (s, { model := "PANIC", tags := ["mf:panic"] })
  | ["ff", budgets, dgs] =>
    let dl := if dgs == "!" then [] else (dgs.splitOn "/").map parseFrames
    let out := ffBuild dl s.src
    let model := fmtFlight s.src (parseInts budgets) out
    let fails := judgeFlight "ff" s.src (dl.all padsNonNeg) impl (parseInts budgets)
    let tags := [match out with | .ok _ => "ff:built" | .err e => "ff:E:" ++ ((e.splitOn "@").headD "") | _ => "ff:panic"] ++
      (match implPayloads model with | some (_, v) => ["ff:v=" ++ ((v.splitOn "@").headD "")] | none => [])
    (s, { model := model, tags := tags, fails := fails })
  | ["ff1", _budgets, dgs] =>
    let dl := if dgs == "!" then [] else (dgs.splitOn "/").map parseFrames
    let out := ffBuild1 dl s.src
    let fails : List Fail :=
      if iw.headD "" == "ok" && !truthful s.src 0 [unhex (iw.getD 1 "-")] then [("ff1_truthful", "-", "fallback payload carries wrong bytes")] else []
    (s, { model := fmtOut out, tags := ["ff1"], fails := fails })
  | ["rff", budgets, dgs, draws] =>
    let dl := parseRFDatagrams dgs
    let d := parseDraws draws
    let (perms, unresolved, tags) :=
      match implPayloads impl with
      | some (ps, _) => recoverFlightPerms dl s.src d ps
      | none => let (p, _, _) := recoverFlightPerms dl s.src d []; (p, false, [])
    let out := rffBuild dl s.src d perms
    let out := match out, implPayloads impl with
      | .ok _, some (ps, _) => if unresolved then Outcome.ok ps else out
      | _, _ => out
    let model := fmtFlight s.src (parseInts budgets) out
    let fails := judgeFlight "rff" s.src true impl (parseInts budgets)
    let tags := tags ++ [match out with | .ok _ => "rff:built" | .err e => "rff:E:" ++ ((e.splitOn "@").headD "") | _ => "rff:panic"] ++
      (match implPayloads model with | some (_, v) => ["rff:v=" ++ ((v.splitOn "@").headD "")] | none => [])
    (s, { model := model, tags := dedup tags, fails := fails })
  | ["rff1", _budgets, dgs, draws] =>
    let dl := parseRFDatagrams dgs
    let d := parseDraws draws
    match dl with
    | [] => (s, { model := "E:empty", tags := ["rff1:empty"] })
    | dg :: _ =>
      let (perms, unresolved, _) :=
        if iw.headD "" == "ok" then recoverFlightPerms [dg] s.src d [unhex (iw.getD 1 "-")] else ([], false, [])
      let out : Outcome (List UInt8) := match rfdBuild dg s.src d (perms.headD []) with
        | .ok (p, _) => .ok p | .err e => .err e | .panic => .panic | .wrap => .wrap
      let out := if unresolved then Outcome.ok (unhex (iw.getD 1 "-")) else out
      let fails : List Fail :=
        if iw.headD "" == "ok" && !truthful s.src 0 [unhex (iw.getD 1 "-")] then [("rff1_truthful", "-", "fallback payload carries wrong bytes")] else []
      (s, { model := fmtOut out, tags := ["rff1"], fails := fails })
  | ["val", budgets, cl, hs] =>
    let ps := unhexList hs
    let cryptoLen := intOf cl
    let out := validate ps (parseInts budgets) cryptoLen
    let model := match out with | .ok _ => "ok" | .err e => "E:" ++ e | .panic => "PANIC" | .wrap => "WRAP"
    -- what validateInitialFlight promises for payloads that are frame sequences at all
    let strict := ps.all fun p => (readFrames p).isSome
    let fails : List Fail :=
      (if impl == "ok" && strict && cryptoLen ≥ 0 && !coversShape 0 cryptoLen.toNat ps then
        [("validate_sound", "-", s!"accepted {ps.length} payloads that do not cover [0,{cryptoLen})")]
      else []) ++
      -- an accepted plan can be sent as described: every datagram fits the packet it is planned for
      (match (if impl == "ok" then firstOversize ps (parseInts budgets) else none) with
        | some (i, l, b) => [("validate_fits", "-", s!"accepted a plan whose datagram {i} has {l} bytes of frames, its packet holds {b}")]
        | none => [])
    let tags := ["val:" ++ ((model.splitOn "@").headD "")] ++ (if strict then ["val:strict"] else ["val:lenient-only"])
    (s, { model := model, tags := tags, fails := fails })
  | ["mip", kind, idx, planned, spec, frames, draws] =>
    match parseBuilder kind spec with
    | none => (s, { model := "bad-op" })
    | some fb =>
      let fr : List (Int × Int × Int) := if frames == "-" then [] else (frames.splitOn ",").filterMap fun t =>
        match t.splitOn ":" with
        | [o, l, n] => some (intOf o, intOf l, intOf n)
        | _ => none
      let cfs := fr.map fun (o, l, n) => (o.toNat, sliceOf s.src l n)
      let d := parseDraws draws
      let idx := intOf idx
      let planned := planned == "1"
      let (perm, unresolved) : List Nat × Bool :=
        marshalWitness fb idx planned cfs d (if iw.headD "" == "ok" then some (unhex (iw.getD 1 "-")) else none)
      let out := marshalInitial fb idx planned cfs d perm
      let model := if unresolved then impl else match out with
        | .ok (p, i) => s!"ok {hx p} idx={i}"
        | .err e => "E:" ++ e
        | .panic => "PANIC"
        | .wrap => "WRAP"
      -- monitor: truthful contiguous input frames => the payload carries exactly their union
      let truthfulIn := fr.all fun (o, l, _) => o == l && l ≥ 0
      let los := fr.map fun (o, _, _) => o.toNat
      let his := cfs.map fun (o, dd) => o + dd.length
      let lo := los.foldl min (los.headD 0)
      let hi := his.foldl max 0
      let contiguous := coversAll (cfs.map fun (o, dd) => (o, dd.length)) lo hi
      let tilingSpec := match fb with
        | .frames qfs => qfs.isEmpty || layoutTiles qfs (hi - lo) && layoutLowest qfs == 0
        | _ => true
      let fails : List Fail :=
        if iw.headD "" == "ok" && truthfulIn && contiguous && !cfs.isEmpty && tilingSpec && hi > lo
            && !carriesAt s.src 0 lo hi [unhex (iw.getD 1 "-")] then
          [("marshal_carries", "-", s!"popped [{lo},{hi}) builder={kind}")]
        else []
      let tags := ["mip:" ++ kind] ++ [match out with | .ok _ => "mip:ok" | .err e => "mip:E:" ++ e | _ => "mip:panic"] ++
        (if planned then ["mip:planned"] else [])
      (s, { model := model, tags := tags, fails := fails })
  | ["pf", "new", kind, spec, sizes, _maxSize, draws] =>
    let _ := sizes
    let mfb := parseInts ((implField impl "mfb=").getD "-")
    let rb := intOf ((implField impl "rb=").getD "0")
    let env := s!" mfb={(implField impl "mfb=").getD ""} rb={rb}"
    let implPlan : Option (List (List UInt8)) := (implField impl "plan=").map unhexList
    let d := parseDraws draws
    let built : Outcome (List (List UInt8)) :=
      if s.src.isEmpty then .ok []                    -- planInitialFlight waits: nothing is queued
      else if kind == "ff" then ffBuild (if spec == "!" then [] else (spec.splitOn "/").map parseFrames) s.src
      else
        let dl := parseRFDatagrams spec
        let (perms, unresolved, _) := recoverFlightPerms dl s.src d (implPlan.getD [])
        match rffBuild dl s.src d perms, implPlan with
        | .ok ps, some ip => if unresolved then Outcome.ok ip else .ok ps
        | o, _ => o
    let planned : Outcome (List (List UInt8)) := match built with
      | .ok ps =>
        if s.src.isEmpty then .ok []
        else match validate ps mfb s.src.length with
          | .ok _ => .ok ps
          | .err e => .err e
          | .panic => .panic
          | .wrap => .wrap
      | o => o
    let (model, pf) : String × PF := match planned with
      | .ok ps => ("ok" ++ env ++ " plan=" ++ hexList ps, { payloads := ps, rb := rb })
      | .err e => ("E:" ++ e ++ env, { rb := rb })
      | .panic => ("PANIC", { rb := rb })
      | .wrap => ("WRAP", { rb := rb })
    -- a released flight must carry the ClientHello (the flight property, on the real packer's plan)
    let fails : List Fail := match implPlan with
      | some ps => (if !s.src.isEmpty && !carriesAt s.src 0 0 s.src.length ps then
          [("pf_plan_carries", "-", s!"planned flight of {ps.length} datagrams does not carry the {s.src.length} byte ClientHello")] else []) ++
          -- … and can be sent as planned: every datagram fits the Initial packet it is planned for
          (match firstOversize ps mfb with
            | some (i, l, b) => [("pf_plan_fits", "-", s!"planned flight released although datagram {i} has {l} bytes of frames and its packet holds {b}")]
            | none => [])
      | none => []
    let tags := ["pf:new:" ++ kind] ++ [match planned with | .ok _ => "pf:planned" | .err e => "pf:E:" ++ ((e.splitOn "@").headD "") | _ => "pf:panic"]
    ({ s with pf := some pf, pg := { released := implPlan.isSome && !s.src.isEmpty } }, { model := model, tags := tags, fails := fails })
  | ["pf", "pack"] =>
    match s.pf with
    | none => (s, { model := "skip" })
    | some pf =>
      let (pf', out) := Uquic.Model.UQuic.Planned.pack pf
      let fmtReg (reg : List (Nat × List UInt8)) : String :=
        if reg.isEmpty then "-" else ";".intercalate (reg.map fun c => s!"{c.1}:{hx c.2}")
      let stripZeros (b : List UInt8) : List UInt8 := (b.reverse.dropWhile (· == 0)).reverse
      -- the packer appends PADDING up to the planned packet size (sizes are C10's business): payloads
      -- are compared up to trailing zero bytes
      let implP := unhex ((implField impl "p=").getD "-")
      let model := match out with
        | .none => "none"
        | .panic => "PANIC"
        | .pkt p reg =>
          let shown := if iw.headD "" == "pkt" && stripZeros implP == stripZeros p && implP.length ≥ p.length then implP else p
          "pkt p=" ++ hx shown ++ " reg=" ++ fmtReg reg
      -- monitors on what the real packer did
      let (pg, fails) : PFGhost × List Fail := Id.run do
        let mut pg := s.pg
        let mut fails : List Fail := []
        if iw.headD "" == "pkt" then
          let p := unhex ((implField impl "p=").getD "-")
          let regText := (implField impl "reg=").getD "-"
          let reg : List (Nat × List UInt8) := if regText == "-" then [] else (regText.splitOn ";").filterMap fun t =>
            match t.splitOn ":" with
            | [o, h] => some (natOf o, unhex h)
            | _ => none
          match readFrames p with
          | none =>
            fails := fails ++ [("pf_payload_legal", "-", "Initial packet payload is not a sequence of PADDING/PING/CRYPTO frames")]
            pg := { pg with delivered := pg.delivered ++ [some []] }
          | some fs =>
            let carried := cryptoOf fs
            -- loss recovery must remember exactly what the datagram carried: one frame per CRYPTO
            -- range, each with its own offset and bytes
            if reg != carried then
              fails := fails ++ [("pf_registered_is_carried", "-",
                s!"carried {carried.map fun c => (c.1, c.2.length)} but registered {reg.map fun c => (c.1, c.2.length)}")]
            if !(reg.all fun c => sliceEq s.src 0 c.1 c.2) then
              fails := fails ++ [("pf_registered_truthful", "-", "a registered CRYPTO frame does not hold the ClientHello's bytes of its offset")]
            if !(carried.all fun c => sliceEq s.src 0 c.1 c.2) then
              fails := fails ++ [("pf_carried_truthful", "-", "a CRYPTO frame on the wire does not hold the ClientHello's bytes of its offset")]
            pg := { pg with delivered := pg.delivered ++ [some (rangesOf carried)] }
        else
          pg := { pg with delivered := pg.delivered ++ [none] }
          -- a released flight was validated to be sendable: packing it must not fail half way
          if impl.startsWith "E:" && pg.released then
            fails := fails ++ [("pf_pack_error", "-", s!"PackCoalescedPacket failed after the planned flight had been released: {impl}")]
          -- nothing left to send: what was not lost must be the whole ClientHello
          if iw.headD "" == "none" && pg.released then
            let rs := (pg.delivered.filterMap id).flatten
            if !coversAll rs 0 s.src.length then
              fails := fails ++ [("pf_retransmission_covers", "-",
                s!"nothing left to send, but the datagrams that were not lost do not cover the {s.src.length} byte ClientHello")]
        return (pg, fails)
      let tags := [match out with
        | .none => "pf:pack-none" | .panic => "pf:pack-panic"
        | .pkt _ reg => if pf.payloads.isEmpty then (if reg.length > 1 then "pf:retransmit-multi" else "pf:retransmit") else
            (if reg.length > 1 then "pf:planned-multi-range" else "pf:planned-datagram")] ++
        (if !pf.payloads.isEmpty && !pf.queue.isEmpty then ["pf:loss-during-flight"] else []) ++
        (if pf.payloads.isEmpty && pf'.queue.length > 0 && !pf.queue.isEmpty then ["pf:split-or-leftover"] else [])
      ({ s with pf := some pf', pg := pg }, { model := model, tags := tags, fails := fails })
  | ["pf", "lose", k] =>
    match s.pf with
    | none => (s, { model := "skip" })
    | some pf =>
      let k := natOf k
      let (pf', ok) := Uquic.Model.UQuic.Planned.lose pf k
      let pg := if iw.headD "" == "ok" then { s.pg with delivered := s.pg.delivered.set k none } else s.pg
      ({ s with pf := some pf', pg := pg }, { model := if ok then "ok" else "skip", tags := [if ok then "pf:lose" else "pf:lose-skip"] })
  | ["pd", "new", kind, spec, cls, maxSize] =>
    match parseBuilder kind spec with
    | none => (s, { model := "bad-op" })
    | some fb =>
      let hl := intOf ((implField impl "hl=").getD "0")
      let pd : PD := { fb := fb, cls := parseInts cls, maxSize := intOf maxSize, hdrLen := hl,
                       cs := { initial := true, buf := s.src } }
      let layout := match fb with | .frames qfs => some qfs | _ => none
      let cfgs : List RFCfg := match fb with | .random c => [c] | .multi per => per | _ => []
      ({ s with pd := some pd, dg := { written := s.src, layout := layout, cfgs := cfgs } },
       { model := s!"ok hl={hl}", tags := ["pd:new:" ++ kind] ++ (if (parseInts cls).isEmpty then [] else ["pd:cryptolength"]) })
  | ["pd", "lose", k] =>
    match s.pd with
    | none => (s, { model := "skip" })
    | some pd =>
      let k := natOf k
      let (pd', ok) := Uquic.Model.UQuic.PerDatagram.lose pd k
      let dg := if iw.headD "" == "ok" then { s.dg with delivered := s.dg.delivered.set k none } else s.dg
      ({ s with pd := some pd', dg := dg }, { model := if ok then "ok" else "skip", tags := [if ok then "pd:lose" else "pd:lose-skip"] })
  | ["pd", verb, draws] =>
    match s.pd, verb == "pack" || verb == "probe" with
    | none, _ => (s, { model := "skip" })
    | _, false => (s, { model := "bad-op" })
    | some pd, true =>
      let isProbe := verb == "probe"
      let d := parseDraws draws
      let taken := if isProbe then Uquic.Model.UQuic.PerDatagram.takeWith pd (Uquic.Model.UQuic.PerDatagram.probeBudget pd)
        else Uquic.Model.UQuic.PerDatagram.takeFrames pd
      let implP : Option (List UInt8) := if iw.headD "" == "pkt" then some (unhex ((implField impl "p=").getD "-")) else none
      let (perm, unresolved) := marshalWitness pd.fb pd.idx false taken.2 d implP
      let (pd', out) := if isProbe then Uquic.Model.UQuic.PerDatagram.probe pd d perm
        else Uquic.Model.UQuic.PerDatagram.finish taken.1 taken.2 d perm
      let model := match out with
        | .none => "none"
        | .panic => "PANIC"
        | .err e => "E:" ++ e
        | .pkt p reg => if unresolved then impl else "pkt p=" ++ hx p ++ " reg=" ++ fmtReg reg
      let ended := match out with | .err _ => true | .panic => true | _ => false
      -- monitors on what the real packer did
      let (dg, fails) : PDGhost × List Fail := Id.run do
        let mut dg := s.dg
        let mut fails : List Fail := []
        if iw.headD "" == "pkt" then
          let p := unhex ((implField impl "p=").getD "-")
          let reg := parseReg ((implField impl "reg=").getD "-")
          match readFrames p with
          | none =>
            fails := fails ++ [("pd_payload_legal", "-", "Initial packet payload is not a sequence of PADDING/PING/CRYPTO frames")]
            dg := { dg with delivered := dg.delivered ++ [some []], judgeable := false }
          | some fs =>
            let carried := cryptoOf fs
            -- (an empty CRYPTO frame carries nothing: a clamped QUICFrames layout may emit one)
            if !(carried.all fun c => c.2.isEmpty || sliceEq dg.written 0 c.1 c.2) then
              fails := fails ++ [("pd_carried_truthful", "-",
                s!"a CRYPTO frame on the wire does not hold the stream's bytes of its offset: carried {carried.map fun c => (c.1, c.2.length)}, registered {reg.map fun c => (c.1, c.2.length)}")]
            if !(reg.all fun c => !c.2.isEmpty && sliceEq dg.written 0 c.1 c.2) then
              fails := fails ++ [("pd_registered_truthful", "-", "a registered CRYPTO frame is empty or does not hold the stream's bytes of its offset")]
            -- the builder re-frames the share it is handed: inside its contract (a QUICFrames layout
            -- must tile the share) the packet carries exactly the bytes registered for loss recovery
            let shareLen := (reg.map (·.2.length)).sum
            let inContract := match dg.layout with
              | some qfs => qfs.isEmpty || (layoutTiles qfs shareLen && layoutLowest qfs == 0)
              | none => true
            if inContract then
              if !sameCoverage (rangesOf carried) (rangesOf reg) then
                fails := fails ++ [("pd_carries_registered", "-",
                  s!"carried {carried.map fun c => (c.1, c.2.length)} but registered {reg.map fun c => (c.1, c.2.length)}")]
            else
              dg := { dg with judgeable := false }
            dg := { dg with delivered := dg.delivered ++ [some (rangesOf carried)] }
        else
          dg := { dg with delivered := dg.delivered ++ [none] }
          if impl == "PANIC" then
            fails := fails ++ [("pd_panic", "-", "PackCoalescedPacket panicked")]
          else if impl.startsWith "E:" then
            -- a failed PackCoalescedPacket closes the connection: legitimate only for a configuration
            -- outside the documented bounds or a failing random source
            if impl == "E:reassemble" then
              fails := fails ++ [("pd_pack_error", "reassemble", "retransmission of non-adjacent CRYPTO ranges: MarshalInitialPacketPayload cannot reassemble them and the connection is closed")]
            else if impl != "E:rand" && dg.cfgs.all cfgInBounds then
              fails := fails ++ [("pd_pack_error", "-", impl)]
          -- nothing left to send: what was not lost must be everything written to the stream
          else if iw.headD "" == "none" && !isProbe && dg.judgeable && !dg.written.isEmpty then
            let rs := (dg.delivered.filterMap id).flatten
            if !coversAll rs 0 dg.written.length then
              fails := fails ++ [("pd_retransmission_covers", "-",
                s!"nothing left to send, but the datagrams that were not lost do not cover the {dg.written.length} bytes of the Initial CRYPTO stream")]
        return (dg, fails)
      let fresh := pd.queue.isEmpty
      let tags := (if isProbe then [if taken.2.isEmpty then "pd:probe-empty" else "pd:probe"] else []) ++ [match out with
        | .none => "pd:pack-none" | .panic => "pd:pack-panic" | .err e => "pd:E:" ++ e
        | .pkt _ reg =>
          if fresh then (if reg.length > 1 then "pd:fresh-multi" else "pd:fresh")
          else (if reg.length > 1 then "pd:retransmit-multi" else "pd:retransmit")] ++
        (match out with
          | .pkt _ reg => (if !fresh && (reg.headD (0, [])).1 + ((reg.map (·.2.length)).sum) < pd.cs.writeOffset.toNat then ["pd:retransmit-earlier"] else []) ++
              (if !fresh && !pd.cs.buf.isEmpty then ["pd:loss-during-flight"] else []) ++
              (if !fresh && !pd'.queue.isEmpty then ["pd:split-or-leftover"] else []) ++
              (if pd.idx ≥ 1 && fresh then ["pd:later-datagram"] else [])
          | _ => [])
      ({ s with pd := if ended then none else some pd', dg := dg }, { model := model, tags := tags, fails := fails })
  | ["pd", "write", lo, n] =>
    match s.pd with
    | none => (s, { model := "skip" })
    | some pd =>
      let p := sliceOf s.src (intOf lo) (intOf n)
      let pd' := Uquic.Model.UQuic.PerDatagram.writeMore pd p
      ({ s with pd := some pd', dg := { s.dg with written := s.dg.written ++ p } }, { model := s!"n={p.length}", tags := ["pd:write"] })
  | ["cs", "new", kind] =>
    let cs := if kind == "c" then newInitial true else if kind == "s" then newInitial false else newBase
    ({ s with cs := some cs, g := { client := kind == "c" } }, { model := "ok" ++ csSuffix (some cs), tags := ["cs:new:" ++ kind] })
  | "cs" :: rest =>
    match s.cs with
    | none => (s, { model := "skip" })
    | some cs =>
      match rest with
      | ["write", lo, n] =>
        let p := sliceOf s.src (intOf lo) (intOf n)
        -- environment input: findSNIAndECH's answer as reported by the driver
        let env : Sni := match ((implField impl "sni=").getD "0,0,0,0").splitOn "," with
          | [a, b, c, e] => { sniPos := intOf a, sniLen := intOf b, echPos := intOf c, err := natOf e }
          | _ => { sniPos := 0, sniLen := 0, echPos := 0, err := 0 }
        let (cs', e) := write cs p env
        let model := s!"n={p.length} err={if e then 1 else 0} sni={env.sniPos},{env.sniLen},{env.echPos},{env.err}" ++ csSuffix (some cs')
        let g := { s.g with written := s.g.written ++ p, emptyStreak := 0, drainJudged := false,
                            completeCH := env.err == 0 && cs.initial && cs.scramble && cs.c0s == invalid,
                            sniPos := env.sniPos, sniLen := env.sniLen, echPos := env.echPos }
        -- the cuts the scrambler chose must lie inside the ClientHello
        let fails : List Fail := Id.run do
          let mut fails : List Fail := []
          match implField impl "cuts=", implField impl "end=" with
          | some ctext, some etext =>
            let e := intOf etext
            for c in ctext.splitOn "," do
              match c.splitOn ":" with
              | [a, b] =>
                let a := intOf a; let b := intOf b
                if a ≠ -1 && !(0 ≤ a && a ≤ b && b ≤ e) then
                  fails := fails ++ [("cuts_in_bounds", "-", s!"cut {a}:{b} end={e}")]
              | _ => pure ()
          | _, _ => pure ()
          return fails
        let tags := ["cs:write"] ++ (if cs'.scramble && cs'.c0s ≠ invalid then
            (if cs'.c1s ≠ invalid then ["cs:two-cuts"] else ["cs:one-cut"]) else []) ++
          (if cs.scramble && !cs'.scramble then ["cs:nothing-to-scramble"] else []) ++ (if e then ["cs:write-err"] else [])
        ({ s with cs := some cs', g := g }, { model := model, tags := tags, fails := fails })
      | ["pop", ml] =>
        let ml := intOf ml
        let (cs', r) := pop cs ml
        let model := (match r with
          | .panic => "PANIC"
          | .frame none => "-"
          | .frame (some (off, data)) => s!"{off} {hx data}") ++ csSuffix (some cs')
        -- monitors on what the implementation returned
        let (g, fails) : Ghost × List Fail := Id.run do
          let mut g := s.g
          let mut fails : List Fail := []
          let h := iw.headD ""
          if h == "PANIC" then
            fails := fails ++ [("cs_panic", "-", "PopCryptoFrame panicked")]
          else if h == "-" then
            if ml ≥ 16 then
              g := { g with emptyStreak := g.emptyStreak + 1 }
              if g.emptyStreak ≥ 2 && !g.drainJudged then
                g := { g with drainJudged := true }
                if !coversAll g.popped 0 g.written.length then
                  fails := fails ++ [("drain_complete", "-", s!"stream reports nothing to send but only {g.popped.length} frames of {g.written.length} bytes were released")]
          else
            let off := natOf h
            let data := unhex (iw.getD 1 "-")
            g := { g with emptyStreak := 0, popped := g.popped ++ [(off, data.length)] }
            if !sliceEq g.written 0 off data then
              fails := fails ++ [("pop_true_offset", "-", s!"frame at {off} len {data.length} does not carry the written bytes")]
            if data.isEmpty then
              fails := fails ++ [("pop_nonempty", "-", s!"empty CRYPTO frame at {off}")]
            let budgetLen := 1 + (varintLen off).toNat + (varintLen data.length).toNat + data.length
            -- (for 16384 bytes and more MaxDataLen under-counts the length varint by two bytes: a size
            --  matter outside this property, not judged)
            if (budgetLen : Int) > ml && data.length < 16383 then
              fails := fails ++ [("pop_within_budget", "-", s!"frame of {budgetLen} bytes for maxLen {ml}")]
          return (g, fails)
        let tags := [match r with
          | .panic => "cs:pop-panic" | .frame none => "cs:pop-nil"
          | .frame (some _) => if cs.scramble && cs.initial then (if cs.writeOffset = cs.«end» then "cs:pop-skipped-part" else "cs:pop-scrambled") else "cs:pop-plain"] ++
          (if cs.scramble && !cs'.scramble then ["cs:scramble-done"] else [])
        ({ s with cs := some cs', g := g }, { model := model, tags := tags, fails := fails })
      | ["has"] =>
        let b := hasData cs
        let fails : List Fail :=
          if iw.headD "" == "0" && s.g.client && s.g.completeCH && s.g.popped.isEmpty && !s.g.written.isEmpty then
            [("hasdata_live", "-", "a complete ClientHello is queued but HasData reports false")]
          else []
        (s, { model := (if b then "1" else "0") ++ csSuffix (some cs), tags := ["cs:has"], fails := fails })
      | ["popall"] =>
        if !cs.initial then (s, { model := "skip" })
        else
          let (cs', r) := popAll cs
          let data := r.getD []
          let g := if data.isEmpty then s.g else
            { s.g with popped := s.g.popped ++ [((cs'.writeOffset - data.length).toNat, data.length)] }
          let fails : List Fail :=
            match iw with
            | "all" :: h :: _ =>
              let dd := unhex h
              let wo := intOf ((implField impl "wo=").getD "0")
              if !dd.isEmpty && !sliceEq s.g.written 0 (wo - dd.length).toNat dd then
                [("popall_true_offset", "-", "PopAllCryptoData returned bytes that are not the queued stream")] else []
            | _ => []
          ({ s with cs := some cs', g := g }, { model := "all " ++ hx data ++ csSuffix (some cs'), tags := ["cs:popall"], fails := fails })
      | ["noscr"] =>
        let cs' := if cs.initial then { cs with scramble := false } else cs
        ({ s with cs := some cs' }, { model := "ok" ++ csSuffix (some cs'), tags := ["cs:noscr"] })
      | _ => (s, { model := "bad-op" })
  | _ => (s, { model := "bad-op" })

def main : IO Unit := run { init := ({} : St), step := step }
