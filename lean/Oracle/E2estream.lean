import Uquic.Oracle.Frame
import Uquic.Generated.Protocol

/-!
Oracle for the `e2estream` SUPPORT driver. The spec side is trivial: the line is echoed (completion time
and the number of bytes that got through before an error cannot be predicted) and judged by monitors:

* `e2e_prefix`            what a reader got is a prefix of what the peer wrote; EOF only after all of it
* `e2e_complete`          writer closed + nobody reports an error  ⇒ the reader has every byte
* `e2e_datagram_once`     datagrams delivered at most once and unmodified
                          (round 5: including the `b=` bulk scenarios — every stream kind, both directions, more bytes than
                          the stream-level windows of plain / Chrome / Firefox clients, readers that start late)
* `e2e_no_crash`          no panic / fatal error escapes from the endpoints (the scenarios run in a worker process; a dead worker
                          is the observation `crash=<panic>@<function>`)
* `e2e_transfer_completes` no path outage (every schedule here: ≤ 4 faults, delays ≤ 3 s < idle timeout) ⇒ the dial
                          succeeds and every stream is transferred completely within the deadline
* `e2e_connection_survives` (round 4, `y=` scenarios: idle timeout T, silence q after an ACK-only tail, then a write
                          with an outage of d ms) whenever the parameters satisfy `mustSurvive` — every silence and
                          every outage is shorter than the idle timeout with 1 s to spare, RFC 9000 10.1 — the
                          phase-2 stream arrives completely and both connections are still alive afterwards
-/
open Uquic.Oracle

def field (impl key : String) : Option String :=
  (words impl).findSome? fun w => if w.startsWith key then some (w.drop key.length).toString else none

structure SObs where
  id : Nat
  got : Nat
  want : Nat
  sha : String
  wsha : String
  pfx : Bool
  err : String

def parseObs (s : String) : List SObs :=
  if s == "-" then [] else
  (s.splitOn ";").filterMap fun p =>
    match p.splitOn ":" with
    | [id, lens, shas, pfx, err] =>
      match lens.splitOn "/", shas.splitOn "/" with
      | [g, w], [sh, wsh] => some { id := natOf id, got := natOf g, want := natOf w, sha := sh, wsha := wsh, pfx := pfx == "1", err := err }
      | _, _ => none
    | _ => none

/-- virtual milliseconds within which an outage-free transfer of ≤ 3×200 KiB must be done; far above
    anything a handful of lost datagrams causes, below the idle timeout -/
def completionBoundMs : Nat := (Uquic.Gen.Protocol.DefaultIdleTimeout / 1000000).toNat

/-- Phase-2 parameters `y=T,ka,q,who,outDir,d` (ms). A conforming endpoint restarts its idle timer when it receives a
    packet and when it sends the first ack-eliciting packet after that (RFC 9000 10.1), so with margin `M` = 1 s:
    * no keep-alive: the silence must end before the timeout, `q ≤ T - M`;
    * outage towards the writer only: the writer's timer restarted at the write; with PTO back-off its first probe
      after the outage is sent at most at `2d + PTO`, so `2d ≤ T - M` suffices; the reader hears every probe;
    * outage of both directions: the reader has heard nothing since the end of phase 1: `q + 2d ≤ T - M`
      (with keep-alives every `T/2`: `T/2 + 2d ≤ T - M`).
    Phase 1 may contain at most 2 faults, delays ≤ 30 ms (so that its tail is not stretched by PTO back-off). -/
def mustSurvive (T ka q outDir d : Nat) (faults : List String) : Bool :=
  let M := 1000
  let faultsOk := faults.length ≤ 2 && faults.all fun f =>
    match f.splitOn ":" with
    | [_, _, k, a] => k != "delay" || natOf a ≤ 30
    | _ => false
  let quietOk := ka == 1 || q + M ≤ T
  let outOk := match outDir with
    | 0 => true
    | 1 => 2 * d + M ≤ T
    | _ => if ka == 1 then T / 2 + 2 * d + M ≤ T else q + 2 * d + M ≤ T
  T ≥ 3000 && faultsOk && quietOk && outOk

def step (_ : Unit) (op impl : String) : Unit × StepOut := Id.run do
  let w := words op
  let mut tags : List String := []
  let mut fails : List (String × String × String) := []
  -- a panic / fatal error that escaped from the code under test ended the worker process (round 5)
  if w.head? == some "run" && impl.startsWith "crash=" then
    -- (regression: corpus/C01/e2estream/initial-coalesced-overflow.ops — a spec-driven client that coalesced a packet
    -- behind a zero-padded Initial sliced past the packet buffer in encryptPacket; fixed in /repo 9faccbf)
    return ((), { model := impl, tags := ["crash"],
                  fails := [("e2e_no_crash", "-", s!"the process running the endpoints died: {impl}")] })
  if w.head? != some "run" || impl == "bad-op" || impl.startsWith "setup-error" then
    return ((), { model := impl, tags := ["bad"], fails := if impl.startsWith "setup-error" then [("e2e_setup", "-", impl)] else [] })
  let cl := (field op "cl=").getD "?"
  let v := (field op "v=").getD "?"
  let sc := ((field op "sc=").getD "0,0,0,0").splitOn ","
  -- bulk scenarios (round 5, `b=<kinds>,<KiB>,<lagMs>`): one stream per selected kind, both directions of a bidirectional one
  let bv := ((field op "b=").getD "").splitOn ","
  let hasB := bv.length == 3
  let bKinds := natOf (bv.getD 0 "0"); let bKiB := natOf (bv.getD 1 "0"); let bLag := natOf (bv.getD 2 "0")
  let bit (k : Nat) : Nat := if bKinds / k % 2 == 1 then 1 else 0
  let nc := if hasB then bit 1 + bit 2 + bit 4 else natOf (sc.getD 0 "0")
  let ns := if hasB then bit 1 + bit 2 + bit 8 else natOf (sc.getD 1 "0")
  let faults := match field op "faults=" with
    | some "-" => []
    | some f => f.splitOn ","
    | none => []
  tags := [s!"client:{cl}", s!"version:{v}", s!"faults:{faults.length}"]
  match ((field op "x=").getD "0,0,0,0,0").splitOn "," with
  | [cw, one, _, bd, dgi] =>
    if natOf cw > 0 then tags := tags ++ ["style:conn-window-limited"]
    if natOf one > 0 then tags := tags ++ ["style:single-write"]
    if natOf bd > 0 then tags := tags ++ ["style:blackout"]
    if natOf dgi > 0 then tags := tags ++ ["style:dgram-interleaved"]
  | _ => pure ()
  if hasB then
    tags := tags ++ ["style:bulk", s!"bulk:{cl}:lag{if bLag == 0 then "0" else if bLag < 500 then "<500" else ">=500"}",
      if bKiB > 12288 then "bulk:>12MiB" else if bKiB > 6144 then "bulk:>6MiB" else if bKiB > 1024 then "bulk:>1MiB" else "bulk:small"]
      ++ (if bit 1 == 1 then [s!"bulk:{cl}:client-bidi"] else []) ++ (if bit 2 == 1 then [s!"bulk:{cl}:server-bidi"] else [])
      ++ (if bit 4 == 1 then [s!"bulk:{cl}:client-uni"] else []) ++ (if bit 8 == 1 then [s!"bulk:{cl}:server-uni"] else [])
  -- handshake variants (round 5, `h=`): the same monitors judge the transfers; `zr=` only feeds the coverage tags
  match field op "h=" with
  | some h =>
    tags := tags ++ [match h with
      | "1" => "handshake:retry" | "2" => "handshake:hello-retry-request" | "3" => "handshake:0rtt" | "4" => "handshake:0rtt-server-lowered-limits"
      | "5" => "handshake:0rtt+retry" | _ => "handshake:0rtt+hello-retry-request"]
    match ((field impl "zr=").getD "").splitOn "," with
    | [u, rj] => tags := tags ++ [if rj == "1" then "0rtt:rejected-redone" else if u == "1" then "0rtt:used" else "0rtt:not-attempted"]
    | _ => pure ()
  | none => pure ()
  for f in faults do
    match f.splitOn ":" with
    | [d, i, k, a] =>
      tags := tags ++ [s!"fault:{k}", if d == "0" then "fault:c2s" else "fault:s2c"]
      if natOf i < 4 then tags := tags ++ ["fault:handshake"]
      if k == "flip" && natOf i < 2 && natOf a < 224 then
        tags := tags ++ [s!"fault:header-field:dgram{i}:byte{natOf a / 8}"]
    | _ => pure ()
  -- phase 2 (idle timer / keep-alive glue)
  let hasX := (field op "x=").isSome
  let yv := ((field op "y=").getD "").splitOn ","
  let hasY := yv.length == 6
  let yT := natOf (yv.getD 0 "0"); let yKa := natOf (yv.getD 1 "0"); let yQ := natOf (yv.getD 2 "0")
  let yWho := natOf (yv.getD 3 "0"); let yOut := natOf (yv.getD 4 "0"); let yD := natOf (yv.getD 5 "0")
  let judgeY := hasY && !hasX && mustSurvive yT yKa yQ yOut yD faults
  if hasY then
    tags := tags ++ ["style:idle-phase2", if yKa == 1 then "idle:keep-alive" else "idle:no-keep-alive",
      if yWho == 0 then "idle:client-writes" else "idle:server-writes",
      match yOut with | 0 => "idle:no-outage" | 1 => "idle:outage-towards-writer" | _ => "idle:outage-both"]
    if yKa == 0 && yOut == 1 && yQ + yD > yT then tags := tags ++ ["idle:silence+outage>T"]
    if yKa == 1 && yQ > yT then tags := tags ++ ["idle:silence>T-with-keep-alive"]
    if !judgeY then tags := tags ++ ["idle:not-judged"]
  let dial := (field impl "dial=").getD "?"
  let c2s := parseObs ((field impl "c2s=").getD "-")
  let s2c := parseObs ((field impl "s2c=").getD "-")
  let werrAll := (field impl "werr=").getD "?"
  -- phase-2 errors (p2-open / p2-write / p2-accept) are judged by e2e_connection_survives only
  let werr1 := (werrAll.splitOn ",").filter fun e => !e.startsWith "p2-"
  let werr := if werr1.isEmpty then "-" else ",".intercalate werr1
  let p2 := parseObs ((field impl "p2=").getD "-")
  let connSt := (field impl "conn=").getD "-,-"
  let t := natOf ((field impl "t=").getD "0")
  -- known finding C01-uquic-pto-probe-without-ping: a spec-driven client whose 1-RTT PTO fires with nothing to
  -- retransmit closes the connection with "couldn't pack 1-RTT probe packet" (uPacketPacker ignores addPingIfEmpty)
  let ptoBug := (cl == "chrome" || cl == "firefox") && ((impl.splitOn "couldn't_pack_1-RTT_probe_packet").length > 1)
  -- (regression corpus/C01/e2estream/0rtt-cwnd-full-initial-lost.ops: a 0-RTT client whose early data filled the congestion
  -- window and whose ClientHello was partly lost never probed; fixed in /repo 23a90f5)
  let kcls := if ptoBug then "uquic_pto_probe_without_ping" else "-"
  for (dir, o) in (c2s.map fun o => ("c2s", o)) ++ (s2c.map fun o => ("s2c", o)) ++ (p2.map fun o => ("phase2", o)) do
    if !o.pfx || o.got > o.want then
      fails := fails ++ [("e2e_prefix", "-", s!"{dir} stream {o.id}: the {o.got} bytes read are not a prefix of the {o.want} bytes written")]
    if o.err == "EOF" && o.got != o.want then
      fails := fails ++ [("e2e_prefix", "-", s!"{dir} stream {o.id}: EOF after {o.got} of {o.want} bytes")]
    if o.err == "EOF" && o.got == o.want && o.sha != o.wsha then
      fails := fails ++ [("e2e_prefix", "-", s!"{dir} stream {o.id}: complete length but different content")]
    if werr == "-" && dial == "nil" && o.err != "EOF" && (dir != "phase2" || (judgeY && werrAll == "-")) then
      fails := fails ++ [("e2e_complete", kcls, s!"{dir} stream {o.id}: writers report no error, reader got {o.got}/{o.want} bytes and {o.err}")]
    tags := tags ++ [if o.want == 0 then "stream:empty" else if o.want > 65536 then "stream:large" else "stream:data"]
  -- datagrams
  match ((field impl "dg=").getD "0/0:0:0").splitOn ":" with
  | [gs, dups, bad] =>
    match gs.splitOn "/" with
    | [g, s] =>
      if natOf dups != 0 || natOf bad != 0 || natOf g > natOf s then
        fails := fails ++ [("e2e_datagram_once", "-", s!"datagrams: {g} of {s} distinct delivered, {dups} duplicates, {bad} modified/unknown")]
      if natOf s > 0 then tags := tags ++ [if natOf g == natOf s then "dgram:all" else "dgram:some-lost"]
    | _ => pure ()
  | _ => pure ()
  -- liveness (support only): every schedule generated here leaves the path alive
  let complete := dial == "nil" && werr == "-" && c2s.length == nc && s2c.length == ns &&
      (c2s ++ s2c).all (fun o => o.err == "EOF" && o.got == o.want)
  if !complete then
    fails := fails ++ [("e2e_transfer_completes", kcls, s!"dial={dial} werr={werr} streams {c2s.length}/{nc} {s2c.length}/{ns} t={t}ms")]
  else if t > completionBoundMs then
    fails := fails ++ [("e2e_transfer_completes", "-", s!"completed only after {t} ms (bound {completionBoundMs})")]
  tags := tags ++ [if complete then (if t > 2000 then "done:slow" else "done") else "incomplete"]
  if judgeY && complete then
    let p2ok := p2.length == 1 && p2.all (fun o => o.err == "EOF" && o.got == o.want)
    if !p2ok || connSt != "nil,nil" then
      fails := fails ++ [("e2e_connection_survives", kcls,
        s!"idle timeout {yT} ms, keep-alive {yKa}, silence {yQ} ms, then a write by {if yWho == 0 then "the client" else "the server"} with an outage (kind {yOut}) of {yD} ms: phase-2 stream {if p2ok then "complete" else "INCOMPLETE"}, connections client,server = {connSt} werr={werrAll}")]
    tags := tags ++ [if p2ok && connSt == "nil,nil" then "idle:survived" else "idle:died"]
  return ((), { model := impl, tags := tags, fails := fails })

def main : IO Unit := run { init := (), step := step }
