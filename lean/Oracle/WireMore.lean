import Uquic.Oracle.Frame
import Uquic.Model.Wire.Varint
import Uquic.Model.Wire.MoreVarint
import Uquic.Model.Wire.Frames
import Uquic.Model.Wire.Header
import Uquic.Model.Wire.Split

/-!
Oracle of the `wiremore` correspondence driver (property C08, second driver): the model functions the
C08More theorems are about, compared with the real code op by op, and monitors that judge the
statements of those theorems on what the implementation printed (ghost state = the op text only).
-/

open Uquic.Oracle Uquic.Model.Wire

/-! ### text helpers (must agree with harness/drivers/wiremore/wiremore_test.go) -/

def hexDigitVal (c : Char) : Nat :=
  if '0' ≤ c ∧ c ≤ '9' then c.toNat - '0'.toNat
  else if 'a' ≤ c ∧ c ≤ 'f' then c.toNat - 'a'.toNat + 10
  else if 'A' ≤ c ∧ c ≤ 'F' then c.toNat - 'A'.toNat + 10
  else 0

def unhexChars : List Char → Bytes
  | a :: b :: rest => UInt8.ofNat (hexDigitVal a * 16 + hexDigitVal b) :: unhexChars rest
  | _ => []

def unhx (s : String) : Bytes := if s = "-" then [] else unhexChars s.toList

def hexChar (n : Nat) : Char := if n < 10 then Char.ofNat (48 + n) else Char.ofNat (87 + n)

def hx (b : Bytes) : String :=
  if b.isEmpty then "-"
  else String.ofList (b.flatMap fun x => [hexChar (x.toNat / 16), hexChar (x.toNat % 16)])

def hexLen (s : String) : Nat := if s = "-" then 0 else s.length / 2

def dropPrefix (s : String) (n : Nat) : String := (s.drop n).toString

def kv (ws : List String) (k : String) : String :=
  match ws.find? (·.startsWith k) with
  | some w => dropPrefix w k.length
  | none => ""

def kvn (ws : List String) (k : String) : Nat := natOf (kv ws k)

def herrName : Hdr.HErr → String
  | .eof => "eof" | .ueof => "ueof" | .notLong => "notlong" | .notShort => "notshort" | .notQUIC => "notquic"
  | .cidLen => "cid_len" | .unsupportedVersion => "unsupported" | .shortPacket => "short_packet"
  | .reservedBits => "reserved" | .pnLen => "pnlen" | .vnEmpty => "vn_empty" | .vnLen => "vn_len"

abbrev Fail := String × String × String

def isPanic (impl : String) : Bool := impl.startsWith "PANIC"

/-- RFC 9000 §16, written independently of the model: value and width of the varint at the head of `b` -/
def specVarint (b : Bytes) : Option (Nat × Nat) :=
  match b with
  | [] => none
  | f :: _ =>
    let w := 2 ^ (f.toNat / 64)
    if b.length < w then none
    else some ((b.take w).foldl (fun acc x => acc * 256 + x.toNat) 0 % 2 ^ (8 * w - 2), w)

/-! ### the ops -/

def vreadText (b : Bytes) : String × String :=
  match Varint.BR.readBR b with
  | (some v, r) => (s!"ok v={v} rem={r.length}", s!"w{b.length - r.length}")
  | (none, r) => (s!"E:eof rem={r.length}", s!"eof{b.length}")

def cidsText (n : Nat) (data : Bytes) : String × List String :=
  let (cid, t1) := match Hdr.parseConnectionID data n with
    | .error e => (s!"E:{herrName e}", s!"cid:{herrName e}")
    | .ok c => (s!"ok:{hx c}", "cid:ok")
  let (hdr, t2) := match Hdr.parsePacket data with
    | .err e => (s!"E:{herrName e}", s!"hdr:{herrName e}")
    | .unsupported h => (s!"unsup:{hx h.dest}:{hx h.src}", "hdr:unsup")
    | .ok h _ _ => (s!"ok:{hx h.dest}:{hx h.src}", s!"hdr:ok:t{h.ptype}")
  let (sh, t3) := match Hdr.parseShortHeader data n with
    | .error e => (s!"E:{herrName e}", s!"shdr:{herrName e}")
    | .ok o => (s!"ok:{o.n}:{o.pnLen}", "shdr:ok")
  let (acid, t4) := match Hdr.parseArbitraryLenConnectionIDs data with
    | .error e => (s!"E:{herrName e}", s!"acid:{herrName e}")
    | .ok (k, d, sc) => (s!"ok:{k}:{hx d}:{hx sc}", if d.length > 20 ∨ sc.length > 20 then "acid:ok:long" else "acid:ok")
  (s!"cid={cid} hdr={hdr} shdr={sh} acid={acid}", [t1, t2, t3, t4])

/-- the statements of `parse_connection_id_stable` / `parse_arbitrary_len_connection_ids_stable`,
    judged on the implementation's own four answers for the same bytes -/
def cidsMon (n : Nat) (data : Bytes) (impl : String) : List Fail :=
  if isPanic impl then [("decode_never_panics", "-", "connection ID parsers panicked")] else
  let ws := words impl
  let cid := kv ws "cid="
  let hdr := kv ws "hdr="
  let sh := kv ws "shdr="
  let acid := kv ws "acid="
  Id.run do
    let mut fails : List Fail := []
    -- long header: the header parser got past the connection IDs
    if hdr.startsWith "ok:" ∨ hdr.startsWith "unsup:" then
      match hdr.splitOn ":" with
      | [_, d, sc] =>
        if cid ≠ s!"ok:{d}" then
          fails := fails ++ [("cid_stable", "-", s!"ParseConnectionID says {cid}, the header parser says dest={d}")]
        if acid ≠ s!"ok:{7 + hexLen d + hexLen sc}:{d}:{sc}" then
          fails := fails ++ [("acid_stable", "-", s!"ParseArbitraryLenConnectionIDs says {acid}, the header parser says {d} / {sc}")]
      | _ => fails := fails ++ [("cid_stable", "-", s!"unreadable header summary {hdr}")]
    -- short header
    if sh.startsWith "ok:" then
      if cid ≠ s!"ok:{hx ((data.drop 1).take n)}" then
        fails := fails ++ [("cid_stable", "-", s!"short header: ParseConnectionID says {cid}, bytes 1..{n} are {hx ((data.drop 1).take n)}")]
      match sh.splitOn ":" with
      | [_, l, pnl] =>
        if natOf l ≠ 1 + n + natOf pnl ∨ natOf l > data.length then
          fails := fails ++ [("hdr_consumed", "-", s!"short header consumed {l} of {data.length} bytes")]
      | _ => pure ()
    -- never beyond the buffer
    if cid.startsWith "ok:" then
      let c := unhx (dropPrefix cid 3)
      let long := (data.getD 0 0).toNat / 128 % 2 = 1
      let off := if long then 6 else 1
      if off + c.length > data.length ∨ c ≠ (data.drop off).take c.length ∨ (long ∧ c.length > 20) ∨ (!long ∧ c.length ≠ n) then
        fails := fails ++ [("cid_in_buffer", "-", s!"{cid} is not the slice at offset {off} of a {data.length}-byte packet")]
    if acid.startsWith "ok:" then
      match acid.splitOn ":" with
      | [_, k, d, sc] =>
        let k := natOf k
        let d := unhx d
        let sc := unhx sc
        if k > data.length ∨ k ≠ 7 + d.length + sc.length ∨ data.take k ≠ data.take 5 ++ [Varint.u8 d.length] ++ d ++ [Varint.u8 sc.length] ++ sc then
          fails := fails ++ [("acid_in_buffer", "-", s!"{acid} does not match the first {k} bytes of the packet")]
      | _ => pure ()
    return fails

def retryHeader (fw : List String) : Hdr.Header :=
  { ptype := Hdr.ptRetry, version := kvn fw "v=" % 2 ^ 32, dest := (unhx (kv fw "d=")).take 20,
    src := (unhx (kv fw "s=")).take 20, token := unhx (kv fw "tok=") }

def retryText (fw : List String) : String × String :=
  let h := retryHeader fw
  let tag := unhx (kv fw "tag=")
  match Hdr.appendLong h 0 (kvn fw "pnl=" % 256) h.version with
  | .err e => (s!"E:{herrName e}", "retry:encerr")
  | .panic => ("PANIC", "retry:panic")
  | .ok b =>
    let (p, t) := match Hdr.parsePacket (b ++ tag) with
      | .err e => (s!"E:{herrName e}", s!"retry:{herrName e}")
      | .unsupported _ => ("unsup", "retry:unsup")
      | .ok ph _ rest =>
        (s!"ok,t={ph.ptype},d={hx ph.dest},s={hx ph.src},tok={hx ph.token},len={ph.length},pl={ph.parsedLen},rest={rest}",
         s!"retry:ok:t{ph.ptype}")
    (s!"{hx b} p={p}", t)

/-- the statement of `retry_header_roundtrip`, judged on the implementation's output -/
def retryMon (fw : List String) (impl : String) : List Fail :=
  if isPanic impl then [("decode_never_panics", "-", "Retry header append/parse panicked")] else
  let h := retryHeader fw
  let tag := unhx (kv fw "tag=")
  let iw := words impl
  let ihex := iw.headD ""
  let p := kv iw "p="
  if impl.startsWith "E:" then [("retry_roundtrip", "-", s!"Append refused a Retry header: {impl}")] else
  Id.run do
    let mut fails : List Fail := []
    if hexLen ihex ≠ 7 + h.dest.length + h.src.length + h.token.length then
      fails := fails ++ [("length_exact", "-", s!"Retry header of {hexLen ihex} bytes for dcid {h.dest.length} scid {h.src.length} token {h.token.length}")]
    if (h.version = Hdr.version1 ∨ h.version = Hdr.version2) ∧ tag.length = 16 then
      if h.token.isEmpty then
        if p ≠ "E:eof" then fails := fails ++ [("retry_roundtrip", "-", s!"Retry without token was not rejected: {p}")]
      else
        let want := s!"ok,t={Hdr.ptRetry},d={hx h.dest},s={hx h.src},tok={hx h.token},len=0,pl={hexLen ihex + 16},rest=0"
        if p ≠ want then fails := fails ++ [("retry_roundtrip", "-", s!"parsed {p}, written {want}")]
    return fails

def dgfitText (dlp : Bool) (budget n : Nat) : String × String :=
  let m := datagramMaxDataLen dlp budget
  let k := min n m
  let f := Frame.datagram dlp (List.replicate k 0)
  (s!"max={m} k={k} len={f.length} app={f.bytes.length}",
   s!"dgfit:{if dlp then "len" else "nolen"}:{if budget < 2 then "tiny" else if m ≤ 63 then "w1" else if budget ≤ 16386 then "w2" else "w4"}:{if k = m then "full" else "part"}")

/-- the statement of `datagram_max_data_len_fits`, judged on the implementation's output -/
def dgfitMon (dlp : Bool) (budget : Nat) (impl : String) : List Fail :=
  if isPanic impl then [("decode_never_panics", "-", "DatagramFrame.MaxDataLen/Append panicked")] else
  let iw := words impl
  let k := kvn iw "k="
  let app := kvn iw "app="
  (if kvn iw "len=" ≠ app then [("length_exact", "-", s!"Length()={kvn iw "len="} but Append wrote {app} bytes")] else [])
  ++ (if k > 0 ∧ (!dlp ∨ budget ≤ 16386) ∧ app > budget then
        [("max_data_len_fits", "-", s!"DATAGRAM with {k} ≤ MaxDataLen({budget}) bytes occupies {app} bytes")] else [])

def step (s : Unit) (op : String) (impl : String) : Unit × StepOut :=
  match words op with
  | [name, h] =>
    if name = "vread" ∨ name = "vreadw" then
      let b := unhx h
      let (model, tag) := vreadText b
      -- monitor: what the implementation printed against the RFC decoding of the same bytes
      let fails : List Fail :=
        if isPanic impl then [("decode_never_panics", "-", "quicvarint.Read panicked")] else
        match specVarint b with
        | some (v, w) =>
          if impl ≠ s!"ok v={v} rem={b.length - w}" then [("read_eq_parse", "-", s!"RFC decoding is v={v} width={w}, Read says {impl}")] else []
        | none => if impl.startsWith "ok" then [("read_eq_parse", "-", s!"Read accepted a truncated varint: {impl}")] else []
      (s, { model := model, tags := [s!"{name}:{tag}"], fails := fails })
    else (s, { model := "skip", tags := ["skip"] })
  | ["cids", n, h] =>
    let data := unhx h
    let (model, tags) := cidsText (natOf n) data
    (s, { model := model, tags := tags, fails := cidsMon (natOf n) data impl })
  | "retry" :: fw =>
    let (model, tag) := retryText fw
    (s, { model := model, tags := [tag], fails := retryMon fw impl })
  | ["dgfit", dlp, budget, n] =>
    let (model, tag) := dgfitText (dlp = "1") (natOf budget) (natOf n)
    (s, { model := model, tags := [tag], fails := dgfitMon (dlp = "1") (natOf budget) impl })
  | _ => (s, { model := "skip", tags := ["skip"] })

def main : IO Unit := run { init := (), step := step }
