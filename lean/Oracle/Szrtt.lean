import Uquic.Oracle.Frame
import Uquic.Model.Streams.Basic

/-!
Oracle for the C15 end-to-end driver `szrtt` (real client and server; session resumption, 0-RTT accepted or
REJECTED, Retry, HelloRetryRequest). The observation is echoed (timing-dependent text is not predicted); the
property is judged by monitors whose ghost state comes from the scenario line and the answers only:

* `outgoing_ids`: streams opened by the client get first, first+4, … per stream type — and START OVER after a 0-RTT
  rejection (`ids_start_over_after_rejection`);
* `open_within_peer_limit`: the number of streams opened never exceeds what the peer allows: the remembered limit
  during 0-RTT, the server's CURRENT limit plus the MAX_STREAMS it has sent afterwards;
* `rejected_0rtt_calls_fail`: once the server has rejected 0-RTT, every call on the connection fails with
  Err0RTTRejected until NextConnection; `zero_rtt_refused_when_limits_lowered`;
* `open_succeeds_within_limit`: a non-blocking open succeeds while the peer's initial limit is not used up;
* `honest_peer_gets_stream_error`: two unmodified endpoints never close a connection with STREAM_LIMIT_ERROR /
  STREAM_STATE_ERROR;
* `credit_only_when_complete`, `accept_in_order` on the server side.
-/

open Uquic.Oracle Uquic.Model.Streams

abbrev Fail := String × String × String

structure CS where
  id : Int
  zeroRTT : Bool := false     -- opened before the handshake completed
  finished : Bool := false    -- the client sent FIN or RESET_STREAM
  sAccepted : Bool := false
  sReadEnd : Bool := false
  sCancelled : Bool := false
  sSendTouched : Bool := false

def CS.complete (s : CS) : Bool :=
  (s.finished || s.sCancelled) && (s.sReadEnd || s.sCancelled) && s.sAccepted && (typeOf s.id == .uni || s.sSendTouched)

structure PT where
  l1 : Int := 0
  l2 : Int := 0
  count : Int := 0     -- opened in the current epoch
  credit : Int := 0    -- highest MAX_STREAMS value the server has sent on this connection
  accNext : Int := 0

structure G where
  started : Bool := false
  early : Bool := false
  hs : Bool := false
  broken : Bool := false
  rejected : Bool := false
  nexted : Bool := false
  b : PT := {}
  u : PT := {}
  streams : List CS := []

def G.pt (g : G) : STyp → PT
  | .bidi => g.b
  | .uni => g.u
def G.setPT (g : G) (t : STyp) (x : PT) : G :=
  match t with
  | .bidi => { g with b := x }
  | .uni => { g with u := x }
def G.upd (g : G) (id : Int) (f : CS → CS) : G :=
  { g with streams := g.streams.map fun s => if s.id == id then f s else s }

def tName : STyp → String
  | .bidi => "b"
  | .uni => "u"
def parseT : String → Option STyp
  | "b" => some .bidi
  | "u" => some .uni
  | _ => none

def bracket (w : String) (pre : String) : Option String :=
  if w.startsWith pre && w.endsWith "]" then some ((w.drop pre.length).dropEnd 1).toString else none
def field (iw : List String) (pre : String) : String := (iw.findSome? (bracket · pre)).getD ""
def kv (iw : List String) (pre : String) : String :=
  match iw.find? (·.startsWith pre) with
  | some w => (w.drop pre.length).toString
  | none => ""

def implMS (iw : List String) : List (STyp × Int) :=
  ((field iw "ms=[").splitOn ";").filterMap fun it =>
    match it.splitOn ":" with
    | ["MS", t, n] => (parseT t).map fun t => (t, intOf n)
    | _ => none

/-- what the client may have opened of type `t` at this moment -/
def allowed (g : G) (t : STyp) : Int :=
  let x := g.pt t
  if g.early && !g.hs then x.l1 else max x.l2 x.credit

def isNum (s : String) : Bool := s.toInt?.isSome

def streamErr (e : String) : Bool :=
  e.startsWith "transport:4:" || e.startsWith "transport:5:"

/-- credit the server has sent and how the connections ended: judged on every line, AFTER the operation's own
    effect on the ghost -/
def common (g : G) (iw : List String) : G × List Fail := Id.run do
  let ce := kv iw "ce="
  let se := kv iw "se="
  let mut g := g
  let mut fails : List Fail := []
  if g.started && !g.broken then
    for (t, n) in implMS iw do
      let x := g.pt t
      let nComplete : Int := (g.streams.filter fun s => typeOf s.id == t && s.complete).length
      if n > x.l2 + nComplete then
        fails := fails ++ [("credit_only_when_complete", "-",
          s!"the server sent MAX_STREAMS({tName t}) = {n}; its limit is {x.l2} and {nComplete} of the client's streams are complete")]
      if n > x.credit then g := g.setPT t { x with credit := n }
    if streamErr ce || streamErr se then
      fails := fails ++ [("honest_peer_gets_stream_error", "-",
        s!"the connection between two unmodified endpoints ended with a stream limit / stream state error: client {ce}, server {se}")]
    -- the handshake may complete while an operation waits
    match (kv iw "hc=").splitOn "," with
    | ["1", cu] =>
      if !g.hs then
        g := { g with hs := true, rejected := g.rejected || (g.early && cu == "0") }
    | _ => pure ()
  return (g, fails)

/-- the operation itself, judged with the ghost as it was BEFORE the line -/
def stepOp (g : G) (w iw : List String) : G × List Fail × List String :=
  let head := iw.headD ""
  let ce := kv iw "ce="
  let hcNow := (kv iw "hc=").startsWith "1"
  let pendingReject := g.rejected && g.hs && !g.nexted
  match w with
  | [cmd, t] =>
    if cmd == "open" || cmd == "opensync" then
      match parseT t with
      | none => (g, [], [])
      | some t =>
        let x := g.pt t
        let first : Int := if t == .bidi then 0 else 2
        -- an OpenStreamSync may wait across the end of the handshake: the larger of the two allowances applies
        let allow := if cmd == "opensync" && hcNow then max (allowed g t) (max x.l2 x.credit) else allowed g t
        if isNum head then
          let id := intOf head
          let expect := first + 4 * x.count
          let f1 : List Fail :=
            (if pendingReject then
              [("rejected_0rtt_calls_fail", "-", s!"the server rejected 0-RTT, yet {cmd} returned stream {id} before NextConnection")] else []) ++
            (if id != expect then
              [(if g.nexted then "ids_start_over_after_rejection" else "outgoing_ids", "-",
                s!"{cmd} returned stream {id}; the next {tName t} stream of this epoch is {expect}")] else []) ++
            (if x.count + 1 > allow then
              [("open_within_peer_limit", "-",
                s!"{cmd} returned stream {id}: that is {tName t} stream number {x.count + 1} but the peer allows {allow}")] else [])
          let z := g.early && !g.hs
          let g := g.setPT t { x with count := x.count + 1 }
          let g := { g with streams := g.streams ++ [{ id := id, zeroRTT := z }] }
          (g, f1, [s!"{cmd}:stream", if z then "open:in-0rtt" else "open:1rtt"])
        else
          let base := if g.early && !g.hs then x.l1 else x.l2
          let f1 : List Fail :=
            (if pendingReject && head != "E:0rtt" && ce == "-" then
              [("rejected_0rtt_calls_fail", "-", s!"the server rejected 0-RTT, yet {cmd} says {head} instead of Err0RTTRejected")] else []) ++
            (if !pendingReject && ce == "-" && cmd == "open" && head == "E:limit-reached" && x.count < base then
              [("open_succeeds_within_limit", "-",
                s!"open {tName t} failed with StreamLimitReached after {x.count} streams although the peer allows {base}")] else []) ++
            (if g.hs && !pendingReject && ce == "-" && head == "E:0rtt" then
              [("rejected_0rtt_calls_fail", "-", s!"{cmd} says Err0RTTRejected although no rejection is pending")] else [])
          (g, f1, [s!"{cmd}:{head}"])
    else if cmd == "sacc" then
      match parseT t with
      | none => (g, [], [])
      | some t =>
        if isNum head then
          let id := intOf head
          let x := g.pt t
          let f1 : List Fail :=
            if id != x.accNext then [("accept_in_order", "-", s!"the server's AcceptStream returned {id}, expected {x.accNext}")] else []
          ((g.setPT t { x with accNext := id + 4 }).upd id fun s => { s with sAccepted := true }, f1, ["sacc:stream"])
        else (g, [], [s!"sacc:{head}"])
    else
      let id := intOf t
      match cmd with
      | "ccw" => (g.upd id fun s => { s with finished := true }, [], ["ccw"])
      | "srd" => ((if head == "end" then g.upd id fun s => { s with sReadEnd := true } else g), [], [s!"srd:{head}"])
      | "scr" => (g.upd id fun s => { s with sCancelled := true }, [], ["scr"])
      | "scl" | "scw" => (g.upd id fun s => { s with sSendTouched := true }, [], [cmd])
      | _ => (g, [], [])
  | ["wr", ids, fin] =>
    let id := intOf ids
    let st := g.streams.find? (·.id == id)
    let was0 := st.map (·.zeroRTT) == some true
    let fin0 := st.map (·.finished) == some true
    let f1 : List Fail :=
      if pendingReject && was0 && !fin0 && head != "E:0rtt" && ce == "-" then
        [("rejected_0rtt_calls_fail", "-", s!"the server rejected 0-RTT, yet a write on 0-RTT stream {id} says {head} instead of Err0RTTRejected")]
      else []
    let g := if head == "ok" && fin == "1" then g.upd id fun s => { s with finished := true } else g
    (g, f1, [s!"wr:{head}"])
  | ["hs"] =>
    if head == "complete" then
      let u0 := kv iw "u0="
      let f1 : List Fail :=
        if g.rejected && u0 != "0,0" then
          [("zero_rtt_refused_when_limits_lowered", "-", s!"the scenario requires the server to refuse 0-RTT, but Used0RTT is {u0}")]
        else []
      -- a 0-RTT attempt the server did not take up: the implementation's word is taken
      let rej := g.rejected || (g.early && !g.hs && u0 == "0,0")
      ({ g with hs := true, rejected := rej }, f1, [s!"hs:u0={u0.replace "," "/"}", if rej then "hs:rejected" else "hs:accepted-or-none"])
    else ({ g with broken := true }, [], [s!"hs:{head}"])
  | ["next"] =>
    if head == "ok" then
      -- a new epoch: ids and counts start over (only after a rejection; otherwise NextConnection changes nothing)
      if pendingReject then
        ({ g with nexted := true, streams := [], b := { g.b with count := 0 }, u := { g.u with count := 0 } }, [], ["next:after-rejection"])
      else (g, [], ["next:plain"])
    else ({ g with broken := true }, [], [s!"next:{head}"])
  | _ => (g, [], [])

def step (g : G) (op impl : String) : G × StepOut :=
  let w := words op
  let iw := words impl
  let head := iw.headD ""
  let echo : StepOut := { model := impl }
  if head == "skip" || head == "bad-op" || head == "PANIC" then (g, echo) else
  match w with
  | ["net", l1b, l1u, l2b, l2u, allow2, mode, retry, hrr, cl] =>
    if g.started then (g, echo) else
    if head != "ok" then ({ g with started := true, broken := true }, { echo with tags := [s!"net:{head}"] })
    else
      let early := kv iw "early=" == "1"
      let l1b := intOf l1b; let l1u := intOf l1u; let l2b := intOf l2b; let l2u := intOf l2u
      let rejected := mode == "early" && early && (allow2 != "1" || l2b < l1b || l2u < l1u || hrr == "1")
      let pb : PT := { l1 := l1b, l2 := l2b, accNext := 0 }
      let pu : PT := { l1 := l1u, l2 := l2u, accNext := 2 }
      let g : G := { started := true, early := early, hs := !early, rejected := rejected, b := pb, u := pu }
      let (g, f) := common g iw
      let tags := [s!"net:{mode}", s!"net:early={kv iw "early="}", if rejected then "net:will-reject" else "net:no-reject"] ++
              (if hrr == "1" then ["net:hrr"] else []) ++ (if retry == "1" then ["net:retry"] else []) ++ [s!"net:{cl}"]
      (g, { echo with fails := f, tags := tags })
  | _ =>
    if !g.started || g.broken then (g, echo) else
    let (g1, f1, tags) := stepOp g w iw
    let (g2, f2) := common g1 iw
    (g2, { echo with fails := f1 ++ f2, tags := tags })

def main : IO Unit := run { init := ({} : G), step := step }
