import Uquic.Oracle.Frame
import Uquic.Model.Ack.Rcv
import Uquic.Spec.RcvMon

/-!
Oracle of the `rcve2e` driver (C07 end to end): trace monitors on each endpoint's own qlog trace (virtual timestamps,
µs).  There is no model of a whole connection: the answers are echoed; every judgement is a monitor on the
implementation's trace against ghost state computed from that trace only.

Per endpoint and packet number space:
* `e2e_processed_twice`     a packet number is processed (PacketReceived) twice
* `e2e_dup_sound`           a packet dropped as duplicate was never received and is not below what the peer allowed to forget
* `e2e_ack_ranges_wf`       an ACK frame sent is not descending / disjoint / non-adjacent
* `e2e_ack_sound`           an ACK frame sent covers a packet number that was never received in that space
* `e2e_ack_includes_largest` the first range of an ACK frame sent does not end at the largest number received
* `e2e_ack_keeps_unforgotten` an ACK frame sent omits a received number that the peer has not allowed to forget
* `e2e_ack_overdue`         an ack-eliciting packet is not covered by an ACK frame SENT within max_ack_delay + 1 ms
                            granularity of being processed (1-RTT), resp. within 1 ms (Initial/Handshake, the second
                            ack-eliciting 1-RTT packet since the last ACK sent, a 1-RTT packet that fills a gap of the last ACK sent)

The threshold "the peer allowed to forget" is computed from the trace as an UPPER bound: largest acked + 1 of every own
1-RTT packet carrying an ACK frame that an ACK frame received from the peer covers.  Not judged (cannot be judged soundly
from a trace): that ACK ranges stay at/above the threshold (the endpoint may legitimately know a lower one), Initial-space
timeliness on the server (anti-amplification limit), anything once 32 disjoint ranges are outstanding (range cap), and
packets still pending when the keys of their space are discarded or the connection closes.
-/

open Uquic.Oracle Uquic.Model.Rcv Uquic.Spec.RcvMon

abbrev Fail := String × String × String

structure SpaceE where
  rcvd : List Int := []
  pend : List (Int × Int) := []      -- (pn, deadline µs) of ack-eliciting packets not yet covered by a sent ACK
  keysGone : Bool := false
  trimmed : Bool := false

structure EndSt where
  name : String
  isServer : Bool
  ini : SpaceE := {}
  hs : SpaceE := {}
  app : SpaceE := {}
  ownAcks : List (Int × Int) := []   -- own 1-RTT packets carrying an ACK frame: (pn, largest acked)
  floorA : Int := 0
  closed : Bool := false
  aeSinceAck : Nat := 0              -- ack-eliciting 1-RTT packets processed since the last ACK frame sent
  lastAckA : List Range := []        -- ranges of the last 1-RTT ACK frame sent

structure St where
  c : EndSt := { name := "client", isServer := false }
  s : EndSt := { name := "server", isServer := true }

def getSp (e : EndSt) : String → SpaceE
  | "I" => e.ini | "H" => e.hs | _ => e.app
def setSp (e : EndSt) (l : String) (x : SpaceE) : EndSt :=
  match l with
  | "I" => { e with ini := x } | "H" => { e with hs := x } | _ => { e with app := x }
def floorOf (e : EndSt) (l : String) : Int := if l == "A" then e.floorA else 0

/-- max_ack_delay + timer granularity for 1-RTT, timer granularity for Initial/Handshake (µs) -/
def dueAfter (l : String) : Int := if l == "A" then maxAckDelay / 1000 + 1000 else 1000

def parseRange (s : String) : Option Range :=
  match s.splitOn "-" with
  | [a, b] => match a.toInt?, b.toInt? with
    | some x, some y => some (x, y)
    | _, _ => none
  | _ => none

def parseRanges (s : String) : List Range := (s.splitOn "+").filterMap parseRange

/-- number of maximal runs of consecutive numbers in a list (any order) -/
def runCount (l : List Int) : Nat := (l.filter fun p => !l.contains (p - 1)).length

structure Ev where
  kind : Char
  t : Int
  sp : String := ""
  pn : Int := 0
  ae : Bool := false
  ack : Option (List Range) := none

def parseEv (s : String) : Option Ev :=
  match s.splitOn "/" with
  | [] => none
  | h :: rest =>
    let kind := h.front
    let t := intOf (h.drop 1).toString
    match rest with
    | [] => some { kind := kind, t := t }
    | sppn :: more =>
      let sp := (sppn.take 1).toString
      let pn := intOf (sppn.drop 1).toString
      let ae := more.headD "0" == "1"
      let ack := (more.find? (·.startsWith "k")).map fun k => parseRanges (k.drop 1).toString
      some { kind := kind, t := t, sp := sp, pn := pn, ae := ae, ack := ack }

/-- pending packets whose deadline has passed at time `t` -/
def flush (e : EndSt) (t : Int) : EndSt × List Fail := Id.run do
  if e.closed then return (e, [])
  let mut e := e
  let mut fails : List Fail := []
  for l in ["I", "H", "A"] do
    let sp := getSp e l
    let (late, ok) := sp.pend.partition fun x => x.2 < t
    for (pn, dl) in late do
      fails := fails ++ [("e2e_ack_overdue", "-",
        s!"{e.name}: ack-eliciting {l} packet {pn} is not covered by any ACK sent up to {t}us; its ACK was due by {dl}us")]
    if !late.isEmpty then e := setSp e l { sp with pend := ok }
  return (e, fails)

def handle (e : EndSt) (ev : Ev) : EndSt × List Fail × List String := Id.run do
  let (e0, fails0) := flush e ev.t
  let mut e := e0
  let mut fails := fails0
  let mut tags : List String := []
  if e.closed then return (e, fails, tags)
  let l := ev.sp
  let sp := getSp e l
  let fl := floorOf e l
  match ev.kind with
  | 'R' =>
    if sp.rcvd.contains ev.pn then
      fails := fails ++ [("e2e_processed_twice", "-", s!"{e.name}: {l} packet {ev.pn} processed a second time at {ev.t}us")]
    tags := tags ++ [s!"R:{l}"] ++ (if sp.rcvd.any (· > ev.pn) then ["R:reordered"] else [])
    let mut sp := { sp with rcvd := if sp.rcvd.contains ev.pn then sp.rcvd else ev.pn :: sp.rcvd }
    -- the peer acknowledges own ACK-carrying 1-RTT packets: it allows to forget up to their largest acked
    let mut floorA := e.floorA
    let mut own := e.ownAcks
    if l == "A" then
      match ev.ack with
      | some rs =>
        let (hit, rest) := own.partition fun x => covers rs x.1
        for (_, la) in hit do
          if la + 1 > floorA then floorA := la + 1
        own := rest
        if floorA > e.floorA then
          tags := tags ++ ["floor:raise"]
          sp := { sp with pend := sp.pend.filter fun x => x.1 ≥ floorA }
      | none => pure ()
    let judge := !sp.keysGone && !sp.trimmed && !(e.isServer && l == "I") && ev.pn ≥ (if l == "A" then floorA else 0)
    let mut aeSince := e.aeSinceAck
    if ev.ae && judge then
      sp := { sp with pend := (ev.pn, ev.t + dueAfter l) :: sp.pend }
      if l == "A" then
        aeSince := aeSince + 1
        -- an ACK is due at once on the second ack-eliciting packet and when the packet fills a gap of the last ACK sent
        let second := decide (aeSince ≥ packetsBeforeAck.toNat)
        let gapFill := match e.lastAckA with
          | r :: _ => decide (ev.pn < r.2) && !covers e.lastAckA ev.pn
          | [] => false
        if second then tags := tags ++ ["due:second"]
        if gapFill then tags := tags ++ ["due:gapfill"]
        if second || gapFill then
          sp := { sp with pend := sp.pend.map fun x => (x.1, min x.2 (ev.t + 1000)) }
    if !sp.trimmed && runCount (sp.rcvd.filter (· ≥ (if l == "A" then floorA else 0))) ≥ maxNumAckRanges then
      sp := { sp with trimmed := true, pend := [] }
      tags := tags ++ ["rangecap"]
    e := setSp { e with floorA := floorA, ownAcks := own, aeSinceAck := aeSince } l sp
  | 'S' =>
    match ev.ack with
    | none => tags := tags ++ [s!"S:{l}"]
    | some rs =>
      tags := tags ++ [s!"S:{l}:ack"]
      if !rangesValid rs then
        fails := fails ++ [("e2e_ack_ranges_wf", "-", s!"{e.name}: {l} packet {ev.pn} at {ev.t}us carries ACK ranges {rs}")]
      if !coveredSubset rs sp.rcvd (-1) then
        fails := fails ++ [("e2e_ack_sound", "-", s!"{e.name}: {l} packet {ev.pn} at {ev.t}us acknowledges {rs}: not all of these were received")]
      if !sp.trimmed then
        match maxOf sp.rcvd, rs with
        | some m, r :: _ =>
          if r.2 ≠ m then
            fails := fails ++ [("e2e_ack_includes_largest", "-", s!"{e.name}: {l} packet {ev.pn} at {ev.t}us: ACK ends at {r.2}, largest received {m}")]
        | _, _ => pure ()
        for p in sp.rcvd do
          if p ≥ fl && !covers rs p then
            fails := fails ++ [("e2e_ack_keeps_unforgotten", "-",
              s!"{e.name}: {l} packet {ev.pn} at {ev.t}us: ACK {rs} omits received packet {p}, which is not below the threshold {fl} the peer allowed to forget")]
      let (done, still) := sp.pend.partition fun x => covers rs x.1
      if done.any (fun x => x.2 - ev.t ≤ 6000) && l == "A" then tags := tags ++ ["ack:by-alarm"]
      if done.any (fun x => x.2 - ev.t > 6000) && l == "A" then tags := tags ++ ["ack:prompt"]
      e := setSp e l { sp with pend := still }
      if l == "A" then
        e := { e with aeSinceAck := 0, lastAckA := rs }
        match rs with
        | r :: _ => e := { e with ownAcks := (ev.pn, r.2) :: e.ownAcks }
        | [] => pure ()
  | 'D' =>
    tags := tags ++ ["D"]
    if !sp.rcvd.contains ev.pn && ev.pn ≥ fl then
      fails := fails ++ [("e2e_dup_sound", "-",
        s!"{e.name}: {l} packet {ev.pn} dropped as duplicate at {ev.t}us, but it was never received and is not below the threshold {fl} the peer allowed to forget")]
  | 'X' =>
    tags := tags ++ [s!"X:{l}"]
    e := setSp e l { sp with keysGone := true, pend := [] }
  | 'C' =>
    tags := tags ++ ["C"]
    e := { e with closed := true }
  | _ => pure ()
  return (e, fails, tags)

def runEvents (e : EndSt) (txt : String) : EndSt × List Fail × List String :=
  if txt == "-" || txt == "" then (e, [], []) else
  (txt.splitOn ",").foldl (fun (acc : EndSt × List Fail × List String) s =>
    match parseEv s with
    | none => acc
    | some ev =>
      let (e', f, t) := handle acc.1 ev
      (e', acc.2.1 ++ f, acc.2.2 ++ t)) (e, [], [])

def field (w : List String) (k : String) : String :=
  (w.findSome? fun t => if t.startsWith (k ++ "=") then some (t.drop (k.length + 1)).toString else none).getD "-"

def step (s : St) (op impl : String) : St × StepOut :=
  let iw := words impl
  let head := iw.headD ""
  if head == "skip" || head == "bad-op" || iw.length < 4 then (s, { model := impl, tags := ["skip"] }) else
  let (c1, fc, tc) := runEvents s.c (field iw "c")
  let (s1, fs, ts) := runEvents s.s (field iw "s")
  let tEnd := intOf (field iw "T")
  let (c2, fc2) := flush c1 tEnd
  let (s2, fs2) := flush s1 tEnd
  let opTag := (words op).headD "?"
  ({ c := c2, s := s2 },
   { model := impl,
     tags := dedup ([s!"op:{opTag}:{head}"] ++ tc.map ("c:" ++ ·) ++ ts.map ("s:" ++ ·)),
     fails := fc ++ fc2 ++ fs ++ fs2 })

def main : IO Unit := run { init := ({} : St), step := step }
