import Uquic.Oracle.Frame
import Uquic.Model.Stream.Dgram
import Uquic.Spec.SendMon

/-!
Oracle for the `dgq` driver (real `datagramQueue`).
line: `<op> => <res> rcv=<-|B|R<hex>|E> add=<-|B|ok|E> hd=<n> rl=<len> sl=<len>`
-/
open Uquic.Oracle Uquic.Model.Stream.Dgram Uquic.Spec.SendMon

structure St where
  m : State := {}
  -- ghost from ops / implementation answers
  handed : List (List UInt8) := []
  got : List (List UInt8) := []
  added : List (List UInt8) := []
  sent : List (List UInt8) := []
  lastPeek : Option (List UInt8) := none

def field (impl key : String) : Option String :=
  (words impl).findSome? fun w => if w.startsWith key then some (w.drop key.length).toString else none

/-- is `a` a subsequence of `b` (greedy, order preserving, each element of `b` used at most once) -/
def isSubseq : List (List UInt8) → List (List UInt8) → Bool
  | [], _ => true
  | _ :: _, [] => false
  | x :: xs, y :: ys => if x == y then isSubseq xs ys else isSubseq (x :: xs) ys

def fmtRecv : Option RecvRes → Bool → String
  | some (.data b), _ => s!"R{hexOrDash b}"
  | some .closedErr, _ => "E"
  | some .blocked, _ => "B"
  | some .skip, p => if p then "B" else "-"
  | none, p => if p then "B" else "-"

def fmtAdd : Option AddRes → Bool → String
  | some .ok, _ => "ok"
  | some .closedErr, _ => "E"
  | some .blocked, _ => "B"
  | some .skip, p => if p then "B" else "-"
  | none, p => if p then "B" else "-"

def step (st : St) (op impl : String) : St × StepOut := Id.run do
  let w := words op
  let s := st.m
  let mut res := "bad-op"
  let mut s1 := s
  let mut rres : Option RecvRes := none
  let mut ares : Option AddRes := none
  let mut hd := 0
  let mut tags : List String := []
  let mut st := st
  let mut fails : List (String × String × String) := []
  match w with
  | ["handle", h] =>
    let p := bytesOfHex h
    s1 := handle s p; res := "ok"
    tags := [if s1.rcvQueue.length > s.rcvQueue.length then "handle:queued" else "handle:dropped-full"]
    st := { st with handed := st.handed ++ [p] }
  | ["recv"] =>
    let (a, r) := recv s
    s1 := a
    if r == .skip then res := "skip"; tags := ["recv:skip"] else
      res := "ok"; rres := some r
      tags := [match r with | .data _ => "recv:data" | .closedErr => "recv:closed" | _ => "recv:blocks"]
  | ["close"] => s1 := close s; res := "ok"; tags := ["close"]
  | ["add", h] =>
    let p := bytesOfHex h
    let (a, r, n) := add s p
    s1 := a; hd := n
    if r == .skip then res := "skip"; tags := ["add:skip"] else
      res := "ok"; ares := some r
      tags := [match r with | .ok => "add:queued" | .closedErr => "add:closed" | _ => "add:blocks"]
      st := { st with added := st.added ++ [p] }
  | ["peek"] =>
    res := match peek s with | some b => s!"p={hexOrDash b}" | none => "p=nil"
    tags := [if (peek s).isSome then "peek:some" else "peek:none"]
  | ["pop"] =>
    match pop s with
    | none => res := "PANIC"; tags := ["pop:panic-empty"]
    | some a => s1 := a; res := "ok"; tags := ["pop"]
  | _ => pure ()
  -- settle parked calls (only those parked BEFORE this op: a call parked by this op just ran its loop)
  let mut s2 := s1
  if s.pendingRecv && rres.isNone then
    let (a, r) := recvIter s2
    s2 := a; rres := some r
    if r != .blocked then tags := tags ++ ["recv:woken"]
  if s.pendingAdd.isSome && ares.isNone then
    match s2.pendingAdd with
    | some p =>
      let (a, r, n) := addIter s2 p
      s2 := a; ares := some r; hd := hd + n
      if r != .blocked then tags := tags ++ ["add:woken"]
    | none => pure ()
  let model := s!"{res} rcv={fmtRecv rres s2.pendingRecv} add={fmtAdd ares s2.pendingAdd.isSome} hd={hd} rl={s2.rcvQueue.length} sl={s2.sendQueue.length}"
  -- monitors on the implementation's answers
  match field impl "rcv=" with
  | some t =>
    if t.startsWith "R" then
      let b := bytesOfHex (t.drop 1).toString
      let got := st.got ++ [b]
      if !isSubseq got st.handed then
        fails := fails ++ [("dgram_unmodified_at_most_once", "-", s!"the {got.length} payloads returned by Receive are not an in-order sub-sequence of the {st.handed.length} payloads handed in (modified, duplicated or reordered)")]
      st := { st with got := got }
  | none => pure ()
  match w with
  | ["peek"] =>
    let t := (words impl).headD ""
    st := { st with lastPeek := if t.startsWith "p=" && t != "p=nil" then some (bytesOfHex (t.drop 2).toString) else none }
  | ["pop"] =>
    if (words impl).headD "" == "ok" then
      match st.lastPeek with
      | some b =>
        let sent := st.sent ++ [b]
        if !isSubseq sent st.added then
          fails := fails ++ [("dgram_send_fifo", "-", "payloads leaving the send queue are not an in-order sub-sequence of those added")]
        st := { st with sent := sent, lastPeek := none }
      | none => pure ()
  | _ => pure ()
  return ({ st with m := s2 }, { model := model, tags := tags, fails := fails })

def main : IO Unit := run { init := ({} : St), step := step }
