import Uquic.Oracle.Frame
import Uquic.Model.Crypto.Packet
import Uquic.Model.Crypto.KeyPhase
import Uquic.Spec.PktMon

open Uquic.Oracle Uquic.Model.Packet Uquic.Model.Bytes Uquic.Spec.PktMon
open Uquic.Model.KeyPhase (KA Env Pkt Res)

abbrev Fail := String × String × String

/-- the ideal AEAD as a table: (key id, nonce, aad, ciphertext) ↦ plaintext, filled by the seal ops.
    key ids name the key material: "L<ver>:<dcid>:<dir>" = Initial keys, "S<suite>:<ver>:<dir>" = 1-RTT
    generation 0 of the harness' fixed secrets; dir 0 = client->server, 1 = server->client -/
abbrev Table := List (String × Bytes × Bytes × Bytes × Bytes)

def Table.find (t : Table) (key : String) (n a c : Bytes) : Option Bytes :=
  (List.find? (fun e => e.1 == key && e.2.1 == n && e.2.2.1 == a && e.2.2.2.1 == c) t).map (·.2.2.2.2)

structure St where
  pk : List (Nat × Rec) := []
  table : Table := []
  lHighest : List Int := [0, 0]     -- longHeaderOpener.highestRcvdPN per endpoint (0 client, 1 server)
  ua : List KA := [{}, {}]           -- the two updatableAEADs
  /-- key material currently installed (defaults = what the driver installs lazily) -/
  lkey : String := "L1:0102030405060708"
  skey : String := "S0:1"

def zeroIV : Bytes := List.replicate 12 0
def env : Env := { pto3 := 600000000, keyUpdateInterval := 2 ^ 40, firstKeyUpdateInterval := 100,
                   invalidPacketLimit := Uquic.Gen.Protocol.InvalidPacketLimitChaCha }

def mk (model : String) (tags : List String := []) (fails : List Fail := []) : StepOut :=
  { model := model, tags := tags, fails := fails }

def implField (impl : String) (key : String) : Option String :=
  (words impl).findSome? fun w => if w.startsWith key then some (w.drop key.length).toString else none
def implBytes (impl key : String) : Option Bytes := (implField impl key).bind ofHex
def hx (b : Bytes) : String := if b.isEmpty then "-" else toHex b
def maskFn (mask : Bytes) : Bytes → Nat → UInt8 := fun _ i => mask.getD i 0
def lookup (l : List (Nat × Rec)) (id : Nat) : Option Rec := (l.find? (·.1 == id)).map (·.2)

/-- monitors of a seal op, on the implementation's output only -/
def sealMons (long : Bool) (pnLen : Nat) (pn : Int) (hdr payload pkt : Bytes) : List Fail :=
  let f1 : List Fail := if pkt.length ≠ hdr.length + payload.length + 16 then
    [("protected_length", "-", s!"|pkt|={pkt.length} |hdr|={hdr.length} |payload|={payload.length}")] else []
  let f2 : List Fail := if hdr.drop (hdr.length - pnLen) ≠ beBytes pnLen pn.toNat || pnLenOf (hdr.headD 0) ≠ pnLen then
    [("header_carries_truncated_pn", "-", s!"hdr={hx hdr} pn={pn} pnLen={pnLen}")] else []
  -- header protection may only touch the low 4 (long) / 5 (short) bits of the first byte and the pn bytes
  let d0 := (pkt.headD 0) ^^^ (hdr.headD 0)
  let f3 : List Fail := if d0 &&& (if long then 0xf0 else 0xe0) ≠ 0 then
    [("hp_first_byte_mask", "-", s!"first byte {hdr.headD 0}->{pkt.headD 0}")] else []
  let off := hdr.length - pnLen
  let f4 : List Fail := if (pkt.take off).drop 1 ≠ (hdr.take off).drop 1 then
    [("hp_touches_only_pn", "-", "header bytes before the packet number changed")] else []
  f1 ++ f2 ++ f3 ++ f4

def fmtOpened (o : Opened) (kp : Option Nat) : String :=
  s!"ok hdr={hx o.hdr} pn={o.pn} pnlen={o.pnLen}" ++ (match kp with | some b => s!" kp={b}" | none => "") ++ s!" payload={hx o.payload}"

/-- monitors of an open op on the implementation's output -/
def openMons (r : Rec) (mu : String) (arg : Nat) (impl : String) : List Fail :=
  let tamper := isTamper r.data mu arg
  let ok := (words impl).contains "ok"
  let f1 : List Fail := if tamper && ok then
    [("tamper_rejected", "-", s!"{mu} {arg}: modified packet (or wrong keys) accepted: {impl}")] else []
  let f2 : List Fail := if !tamper && ok &&
      (implBytes impl "hdr=" ≠ some r.hdr || implBytes impl "payload=" ≠ some r.payload ||
       (implField impl "pn=").map intOf ≠ some r.pn) then
    [("roundtrip_exact", "-", s!"sent hdr={hx r.hdr} pn={r.pn} payload={hx r.payload} got {impl}")] else []
  f1 ++ f2

def step (s : St) (op impl : String) : St × StepOut :=
  let w := words op
  let arg (i : Nat) : Int := intOf (w.getD i "0")
  let sarg (i : Nat) : String := w.getD i "-"
  match w.headD "" with
  | "linit" =>
    -- derived secrets/keys are compared by the derivation check of the oracle build (see Oracle/Pkt.lean `deriv`)
    ({ s with lHighest := [0, 0], lkey := s!"L{if arg 1 == 2 then 2 else 1}:{hx ((ofHex (sarg 2)).getD [])}" }, mk impl ["linit"])
  | "sinit" =>
    ({ s with ua := [{}, {}], skey := s!"S{(arg 1).toNat % 3}:{if arg 2 == 2 then 2 else 1}" }, mk "ok" ["sinit"])
  | "lseal" | "sseal" =>
    let long := w.headD "" == "lseal"
    let id := (arg 1).toNat; let dir := (arg 2).toNat % 2
    let pnLen := (if long then arg 7 else arg 4).toNat
    let pn := if long then arg 8 else arg 5
    let payload := (ofHex (if long then sarg 9 else sarg 6)).getD []
    if pnLen < 1 || pnLen > 4 then (s, mk "skip") else
    -- witnesses from the implementation: header bytes, AEAD output, mask
    match implBytes impl "hdr=", implBytes impl "ct=" with
    | some hdr, some ct =>
      let mask := (implBytes impl "mask=").getD []
      let k : Keys := { aead := { enc := fun _ _ _ => ct, dec := fun _ _ _ => none }, iv := zeroIV, hp := maskFn mask, long := long }
      let key := (if long then s.lkey else s.skey) ++ s!":{dir}"
      -- the 1-RTT sealer counts the packet (Seal is called before the header protection can panic)
      let s := if long then s else
        { s with ua := s.ua.set dir ((s.ua.getD dir {}).seal pn).1 }
      match protect k hdr pn.toNat payload with
      | none =>
        -- encryptPacket panics on the sample slice; Seal already happened
        (s, mk "PANIC" ["seal:panic-no-sample"])
      | some pkt =>
        let implPkt := (implBytes impl "pkt=").getD []
        let rec_ : Rec := { long := long, dir := dir, pn := pn, cidLen := if long then 0 else ((ofHex (sarg 3)).getD []).length,
                            hdr := hdr, payload := payload, data := implPkt }
        let s := { s with pk := (id, rec_) :: s.pk.filter (·.1 != id),
                          table := (key, nonce zeroIV pn.toNat, hdr, ct, payload) :: s.table }
        (s, mk s!"hdr={hx hdr} ct={hx ct} mask={hx mask} pkt={hx pkt}"
              [if long then "lseal" else "sseal", s!"seal:pnlen{pnLen}",
               if pnLen + payload.length == 4 then "seal:min-sample" else "seal:roomy"]
              (sealMons long pnLen pn hdr payload implPkt))
    | _, _ =>
      -- no witnesses: the implementation panicked. Predicted exactly when the sample does not exist.
      let s := if long then s else { s with ua := s.ua.set dir ((s.ua.getD dir {}).seal pn).1 }
      if pnLen + payload.length < 4 then (s, mk "PANIC" ["seal:panic-no-sample"])
      else (s, mk "<no-panic-expected>" [])
  | "lopen" =>
    match lookup s.pk (arg 1).toNat with
    | none => (s, mk "skip")
    | some r =>
      if !r.long then (s, mk "skip") else
      let mut_ := sarg 2; let marg := (arg 3).toNat
      let fails := openMons r mut_ marg impl
      let implHead := (words impl).headD ""
      if implHead == "E:hdrparse" || implHead == "E:retry" then
        -- wire.ParsePacket (not modelled here, see C08) rejected the mutated header: a rejection
        (s, mk implHead [s!"lopen:{implHead}"] fails)
      else
        let data := mutate r.data mut_ marg
        let off := ((implField impl "off=").map natOf).getD 0
        let plen := ((implField impl "plen=").map natOf).getD 0
        let data := data.take plen
        let ep := if mut_ == "own" then r.dir else 1 - r.dir
        let key := s.lkey ++ s!":{1 - ep}"   -- the opener of endpoint `ep` holds the key of the direction towards it
        let mask := (implBytes impl "mask=").getD []
        let k : Keys := { aead := { enc := fun _ _ _ => [], dec := fun n a c => s.table.find key n a c },
                          iv := zeroIV, hp := maskFn mask, long := true }
        let pre := s!"off={off} plen={plen} mask={if data.length ≥ off + 20 then hx mask else "-"} "
        match unprotectCore k data off (s.lHighest.getD ep 0) with
        | .error .tooSmall => (s, mk (pre ++ "E:small") ["lopen:small"] fails)
        | .error _ => (s, mk (pre ++ "E:decrypt") ["lopen:decrypt"] fails)
        | .ok (o, resOK) =>
          let s := { s with lHighest := s.lHighest.set ep (max (s.lHighest.getD ep 0) o.pn) }
          if resOK then (s, mk (pre ++ fmtOpened o none) ["lopen:ok", s!"lopen:pnlen{o.pnLen}"] fails)
          else (s, mk (pre ++ "E:reserved") ["lopen:reserved"] fails)
  | "sopen" =>
    match lookup s.pk (arg 1).toNat with
    | none => (s, mk "skip")
    | some r =>
      if r.long then (s, mk "skip") else
      let mut_ := sarg 2; let marg := (arg 3).toNat; let t := arg 4
      let fails := openMons r mut_ marg impl
      let data := mutate r.data mut_ marg
      let off := 1 + r.cidLen
      let ep := if mut_ == "own" then r.dir else 1 - r.dir
      let key := s.skey ++ s!":{1 - ep}"
      let mask := (implBytes impl "mask=").getD []
      let pre := s!"mask={if data.length ≥ off + 20 then hx mask else "-"} "
      -- header removal and packet number decoding (the AEAD is consulted through the key-phase model below)
      let k0 : Keys := { aead := { enc := fun _ _ _ => [], dec := fun _ _ _ => some [] }, iv := zeroIV, hp := maskFn mask, long := false }
      let a := s.ua.getD ep {}
      match unprotectCore k0 data off a.decodeBase with
      | .error _ => (s, mk (pre ++ "E:small") ["sopen:small"] fails)
      | .ok (o, resOK) =>
        let first := o.hdr.headD 0
        -- ParseShortHeader checks of the unprotected first byte
        if first &&& 0x80 ≠ 0 || first &&& 0x40 == 0 then (s, mk (pre ++ "E:hdrparse") ["sopen:hdrparse"] fails) else
        let kp : Nat := if first &&& 0x04 ≠ 0 then 1 else 0
        let found := s.table.find key (nonce zeroIV o.pn.toNat) o.hdr (data.drop (off + o.pnLen))
        -- every table entry of this key was sealed in generation 0
        let (a', res, _) := a.openU env t o.pn kp { gen := 0, authentic := found.isSome }
        let s := { s with ua := s.ua.set ep a' }
        match res with
        | .ok =>
          if resOK then (s, mk (pre ++ fmtOpened { o with payload := found.getD [] } (some kp)) ["sopen:ok", s!"sopen:pnlen{o.pnLen}"] fails)
          else (s, mk (pre ++ "E:reserved") ["sopen:reserved"] fails)
        | .decryptionFailed => (s, mk (pre ++ "E:decrypt") ["sopen:decrypt"] fails)
        | .keysDropped => (s, mk (pre ++ "E:dropped") ["sopen:dropped"] fails)
        | _ => (s, mk (pre ++ "E:other") ["sopen:other"] fails)
  | _ => (s, mk "bad-op")

def main : IO Unit := run { init := ({} : St), step := step }
