import Uquic.Oracle.Frame
import Uquic.Model.Crypto.Packet
import Uquic.Model.Crypto.KeyPhase
import Uquic.Spec.PktMon
import Uquic.Spec.PNMon
import Uquic.Model.Crypto.Prim
import Uquic.Model.Crypto.UInitial

open Uquic.Oracle Uquic.Model.Packet Uquic.Model.Bytes Uquic.Spec.PktMon
open Uquic.Model.KeyPhase (KA Env Pkt Res)
open Uquic.Model.Prim (InitialKeys initialKeys trafficKeys gcmSeal gcmOpen aesHPMask retryIntegrityTag chachaHPMask chachaHPKey)

abbrev Fail := String × String × String

/-- the ideal AEAD as a table: (key id, nonce, aad, ciphertext) ↦ plaintext, filled by the seal ops.
    key ids name the key material: "L<ver>:<dcid>:<dir>" = Initial keys, "S<suite>:<ver>:<dir>" = 1-RTT
    generation 0 of the harness' fixed secrets; dir 0 = client->server, 1 = server->client -/
abbrev Table := List (String × Bytes × Bytes × Bytes × Bytes)

def Table.find (t : Table) (key : String) (n a c : Bytes) : Option Bytes :=
  (List.find? (fun e => e.1 == key && e.2.1 == n && e.2.2.1 == a && e.2.2.2.1 == c) t).map (·.2.2.2.2)

/-- the fixed write secret of endpoint `i` in the driver (`byte(29*i + 5*j + 7)`, 32 bytes) -/
def harnessSecret (i : Nat) : Bytes := (List.range 32).map fun j => UInt8.ofNat (29 * i + 5 * j + 7)

structure St where
  pk : List (Nat × Rec) := []
  table : Table := []
  lHighest : List Int := [0, 0]     -- longHeaderOpener.highestRcvdPN per endpoint (0 client, 1 server)
  ua : List KA := [{}, {}]           -- the two updatableAEADs
  /-- key material currently installed (defaults = what the driver installs lazily) -/
  lkey : String := "L1:0102030405060708"
  skey : String := "S0:1"
  /-- RFC-derived Initial keys (client, server) for the installed version / DCID -/
  lk : InitialKeys × InitialKeys := initialKeys 1 [1, 2, 3, 4, 5, 6, 7, 8]
  /-- RFC-derived 1-RTT generation-0 keys per sending endpoint, for TLS_AES_128_GCM_SHA256 only -/
  sk : Option (InitialKeys × InitialKeys) := some (trafficKeys 1 (harnessSecret 0), trafficKeys 1 (harnessSecret 1))
  /-- cipher suite index of the 1-RTT keys (0 AES-128-GCM, 1 AES-256-GCM, 2 ChaCha20-Poly1305) -/
  suite : Nat := 0
  /-- RFC-derived ChaCha20 header protection keys per sending endpoint (suite 2 only) -/
  chp : Option (Bytes × Bytes) := none
  /-- ghost: largest packet number the IMPLEMENTATION reported as opened, per endpoint opener -/
  gHighL : List Int := [0, 0]
  gHighS : List Int := [0, 0]
  /-- ghost: a packet with invalid reserved bits was sealed (it advances the opener silently) -/
  sawReserved : Bool := false

def zeroIV : Bytes := List.replicate 12 0
def fmtKeys (c s : InitialKeys) : String :=
  s!"ok csec={toHex c.secret} ckey={toHex c.key} civ={toHex c.iv} chp={toHex c.hp} ssec={toHex s.secret} skey={toHex s.key} siv={toHex s.iv} shp={toHex s.hp}"
def env : Env := { pto3 := 600000000, keyUpdateInterval := 2 ^ 40, firstKeyUpdateInterval := 100,
                   invalidPacketLimit := Uquic.Gen.Protocol.InvalidPacketLimitChaCha }

def mk (model : String) (tags : List String := []) (fails : List Fail := []) : StepOut :=
  { model := model, tags := tags, fails := fails }

def implField (impl : String) (key : String) : Option String :=
  (words impl).findSome? fun w => if w.startsWith key then some (w.drop key.length).toString else none
def implBytes (impl key : String) : Option Bytes := (implField impl key).bind ofHex
def hx (b : Bytes) : String := if b.isEmpty then "-" else toHex b
def maskFn (mask : Bytes) : Bytes → Nat → UInt8 := fun _ i => mask.getD i 0
def lookup (l : List (Nat × Rec)) (id : Nat) : Option Rec := (l.find? (·.1 == id)).map (·.2)

/-- the header-protection mask bits a protected packet shows: low bits of the first byte and the packet
    number bytes, as differences between the protected packet and the plain header -/
def appliedMask (long : Bool) (pnLen : Nat) (hdr pkt : Bytes) : Bytes :=
  let off := hdr.length - pnLen
  ((pkt.headD 0 ^^^ hdr.headD 0) &&& (if long then 0x0f else 0x1f)) ::
    (List.range pnLen).map fun i => pkt.getD (off + i) 0 ^^^ hdr.getD (off + i) 0
def expectedMask (long : Bool) (pnLen : Nat) (m : Bytes) : Bytes :=
  (m.headD 0 &&& (if long then 0x0f else 0x1f)) :: (List.range pnLen).map fun i => m.getD (1 + i) 0

/-- RFC 9001 §5.4.1: the mask is a function of the header protection key and the SAMPLE of this packet
    only — judged on the bytes of the protected packet itself (whatever a protector did before) -/
def maskMons (long : Bool) (pnLen : Nat) (hdr pkt : Bytes) (ref : Option Bytes) (hook : Option Bytes) : List Fail :=
  if pkt.length < hdr.length - pnLen + 20 then [] else
  let got := appliedMask long pnLen hdr pkt
  match ref, hook with
  | some m, _ => if got ≠ expectedMask long pnLen m then
      [("hp_mask_applied_rfc", "-", s!"packet shows mask bits {toHex got}; RFC 9001 §5.4.3/§5.4.4 mask of its sample is {toHex m} (bits {toHex (expectedMask long pnLen m)})")] else []
  | none, some m => if got ≠ expectedMask long pnLen m then
      [("hp_mask_stateless", "-", s!"packet shows mask bits {toHex got}; the same protector answered {toHex m} for the same sample")] else []
  | none, none => []

/-- monitors of a seal op, on the implementation's output only -/
def sealMons (long : Bool) (pnLen : Nat) (pn : Int) (hdr payload pkt : Bytes) : List Fail :=
  let f1 : List Fail := if pkt.length ≠ hdr.length + payload.length + 16 then
    [("protected_length", "-", s!"|pkt|={pkt.length} |hdr|={hdr.length} |payload|={payload.length}")] else []
  let f2 : List Fail := if hdr.drop (hdr.length - pnLen) ≠ beBytes pnLen pn.toNat || pnLenOf (hdr.headD 0) ≠ pnLen then
    [("header_carries_truncated_pn", "-", s!"hdr={hx hdr} pn={pn} pnLen={pnLen}")] else []
  -- header protection may only touch the low 4 (long) / 5 (short) bits of the first byte and the pn bytes
  let d0 := (pkt.headD 0) ^^^ (hdr.headD 0)
  let f3 : List Fail := if d0 &&& (if long then 0xf0 else 0xe0) ≠ 0 then
    [("hp_first_byte_mask", "-", s!"first byte {hdr.headD 0}->{pkt.headD 0}")] else []
  let off := hdr.length - pnLen
  let f4 : List Fail := if (pkt.take off).drop 1 ≠ (hdr.take off).drop 1 then
    [("hp_touches_only_pn", "-", "header bytes before the packet number changed")] else []
  f1 ++ f2 ++ f3 ++ f4

def fmtOpened (o : Opened) (kp : Option Nat) : String :=
  s!"ok hdr={hx o.hdr} pn={o.pn} pnlen={o.pnLen}" ++ (match kp with | some b => s!" kp={b}" | none => "") ++ s!" payload={hx o.payload}"

/-- monitors of an open op on the implementation's output -/
def openMons (r : Rec) (mu : String) (arg : Nat) (impl : String) (epoch : String) (gHigh : Int) (sawReserved : Bool) : List Fail :=
  -- only the QUIC packet counts: zero padding after it in the datagram is not part of the protected packet
  let pktLen := if r.long then r.hdr.length + r.payload.length + 16 else r.data.length + 4
  let tamper := mu == "own" || (mutate r.data mu arg).take pktLen != r.data.take pktLen
  let pnLen := pnLenOf (r.hdr.headD 0)
  -- a genuine packet, same keys, inside the decoding window of what the receiver reported so far, must open
  let f0 : List Fail :=
    if !tamper && !sawReserved && r.epoch == epoch && Uquic.Spec.PNMon.inWindow pnLen r.pn gHigh && !(words impl).contains "ok" then
      [("protected_packet_opens", "-", s!"pn={r.pn} pnLen={pnLen} receiver highest={gHigh}: {impl}")] else []
  let ok := (words impl).contains "ok"
  let f1 : List Fail := if tamper && ok then
    [("tamper_rejected", "-", s!"{mu} {arg}: modified packet (or wrong keys) accepted: {impl}")] else []
  let f2 : List Fail := if !tamper && ok &&
      (implBytes impl "hdr=" ≠ some r.hdr || implBytes impl "payload=" ≠ some r.payload ||
       (implField impl "pn=").map intOf ≠ some r.pn) then
    [("roundtrip_exact", "-", s!"sent hdr={hx r.hdr} pn={r.pn} payload={hx r.payload} got {impl}")] else []
  f0 ++ f1 ++ f2

def step (s : St) (op impl : String) : St × StepOut :=
  let w := words op
  let arg (i : Nat) : Int := intOf (w.getD i "0")
  let sarg (i : Nat) : String := w.getD i "-"
  match w.headD "" with
  | "linit" =>
    -- derived secrets/keys are compared by the derivation check of the oracle build (see Oracle/Pkt.lean `deriv`)
    let ver : Nat := if arg 1 == 2 then 2 else 1
    let dcid := (ofHex (sarg 2)).getD []
    let lk := initialKeys ver dcid
    let model := fmtKeys lk.1 lk.2
    let fails : List Fail := if impl ≠ model then
      [("initial_keys_rfc", "-", s!"version {ver} dcid {hx dcid}: derived {impl}, RFC 9001 §5.2 / RFC 9369 §3.3 give {model}")] else []
    ({ s with lHighest := [0, 0], gHighL := [0, 0], lkey := s!"L{ver}:{hx dcid}", lk := lk },
      mk model ["linit", s!"linit:v{ver}", s!"linit:dcid{if dcid.length == 0 then "0" else if dcid.length < 8 then "<8" else if dcid.length ≤ 20 then "8-20" else ">20"}"] fails)
  | "retry" =>
    let ver : Nat := if arg 1 == 2 then 2 else 1
    let tag := hx (retryIntegrityTag ver ((ofHex (sarg 2)).getD []) ((ofHex (sarg 3)).getD []))
    (s, mk tag ["retry", s!"retry:v{ver}"]
      (if impl ≠ tag then [("retry_tag_rfc", "-", s!"version {ver}: tag {impl}, RFC 9001 §5.8 / RFC 9369 §3.3.3 give {tag}")] else []))
  | "sinit" =>
    let ver : Nat := if arg 2 == 2 then 2 else 1
    let suite := (arg 1).toNat % 3
    ({ s with ua := [{}, {}], gHighS := [0, 0], skey := s!"S{suite}:{ver}", suite := suite,
              sk := if suite == 0 then some (trafficKeys ver (harnessSecret 0), trafficKeys ver (harnessSecret 1)) else none,
              chp := if suite == 2 then some (chachaHPKey ver (harnessSecret 0), chachaHPKey ver (harnessSecret 1)) else none },
      mk "ok" ["sinit", s!"sinit:suite{suite}", s!"sinit:v{ver}"])
  | "lseal" | "sseal" =>
    let long := w.headD "" == "lseal"
    let id := (arg 1).toNat; let dir := (arg 2).toNat % 2
    let pnLen := (if long then arg 7 else arg 4).toNat
    let pn := if long then arg 8 else arg 5
    let payload := (ofHex (if long then sarg 9 else sarg 6)).getD []
    if pnLen < 1 || pnLen > 4 then (s, mk "skip") else
    -- "no probe": the mask-reading hook is not called (it runs the protector once more); never for the
    -- AES-256 suite, where the hook's answer is the only mask the model has
    let np := (if long then arg 11 else arg 9) % 2 == 1 && (long || s.suite != 1)
    -- witnesses from the implementation: header bytes, AEAD output, mask
    match implBytes impl "hdr=", implBytes impl "ct=" with
    | some hdr, some implCt =>
      let implMask := (implBytes impl "mask=").getD []
      -- keys of the sending endpoint, derived from the RFCs (Initial: always; 1-RTT: AES-128-GCM suite only)
      let keys : Option InitialKeys := if long then some (if dir == 0 then s.lk.1 else s.lk.2)
        else s.sk.map (fun p => if dir == 0 then p.1 else p.2)
      -- AEAD output and header-protection mask: predicted from the RFC derivations where possible,
      -- otherwise (AES-256 / ChaCha20 suites) taken from the implementation as witnesses
      let ct := match keys with
        | some ks => gcmSeal ks.key (nonce ks.iv pn.toNat) hdr payload
        | none => implCt
      let chachaKey : Option Bytes := if long then none else s.chp.map (fun p => if dir == 0 then p.1 else p.2)
      let refMaskOf (raw : Bytes) : Option Bytes :=
        if raw.length < hdr.length - pnLen + 20 then none else
        match keys, chachaKey with
        | some ks, _ => some (aesHPMask ks.hp (sample raw (hdr.length - pnLen)))
        | none, some k => some (chachaHPMask k (sample raw (hdr.length - pnLen)))
        | none, none => none
      let refMask := refMaskOf (hdr ++ ct)
      let mask := match refMask with
        | some m => m
        | none => if keys.isSome || chachaKey.isSome then [] else implMask
      let rfcFails : List Fail :=
        (if ct ≠ implCt then [("aead_matches_rfc", "-", s!"pn={pn}: sealed {hx implCt}, RFC key/iv/nonce give {hx ct}")] else []) ++
        (if !np && mask ≠ implMask then [("hp_mask_rfc", "-", s!"mask {hx implMask}, RFC hp key gives {hx mask}")] else []) ++
        maskMons long pnLen hdr ((implBytes impl "pkt=").getD []) refMask (if np || implMask.isEmpty then none else some implMask)
      let k : Keys := { aead := { enc := fun _ _ _ => ct, dec := fun _ _ _ => none }, iv := zeroIV, hp := maskFn mask, long := long }
      let key := (if long then s.lkey else s.skey) ++ s!":{dir}"
      -- the 1-RTT sealer counts the packet (Seal is called before the header protection can panic)
      let s := if long then s else
        { s with ua := s.ua.set dir ((s.ua.getD dir {}).seal pn).1 }
      match protect k hdr pn.toNat payload with
      | none =>
        -- encryptPacket panics on the sample slice; Seal already happened
        (s, mk "PANIC" ["seal:panic-no-sample"])
      | some pkt =>
        let implPkt := (implBytes impl "pkt=").getD []
        let rec_ : Rec := { long := long, dir := dir, pn := pn, cidLen := if long then 0 else ((ofHex (sarg 3)).getD []).length,
                            hdr := hdr, payload := payload, data := implPkt,
                            epoch := if long then s.lkey else s.skey }
        let s := { s with sawReserved := s.sawReserved || !reservedOK long (hdr.headD 0) }
        let s := { s with pk := (id, rec_) :: s.pk.filter (·.1 != id),
                          table := (key, nonce zeroIV pn.toNat, hdr, ct, payload) :: s.table }
        (s, mk s!"hdr={hx hdr} ct={hx ct} mask={if np then "-" else hx mask} pkt={hx pkt}"
              [if long then "lseal" else "sseal", s!"seal:pnlen{pnLen}",
               if pnLen + payload.length == 4 then "seal:min-sample" else "seal:roomy"]
              (sealMons long pnLen pn hdr payload implPkt ++ rfcFails))
    | _, _ =>
      -- no witnesses: the implementation panicked. Predicted exactly when the sample does not exist.
      let s := if long then s else { s with ua := s.ua.set dir ((s.ua.getD dir {}).seal pn).1 }
      if pnLen + payload.length < 4 then (s, mk "PANIC" ["seal:panic-no-sample"])
      else (s, mk "<no-panic-expected>" [])
  | "useal" =>
    let id := (arg 1).toNat
    let pnLen := (arg 5).toNat; let pn := arg 6
    let payload := (ofHex (sarg 7)).getD []
    let packetSize := (arg 8).toNat; let udpMin := (arg 9).toNat
    if pnLen < 1 || pnLen > 4 then (s, mk "skip") else
    match implBytes impl "tmpl=" with
    | none => (s, mk "<no-template>")
    | some tmpl =>
      -- the client's Initial keys from the RFC derivation; real AES-128-GCM and AES header protection
      let ks := s.lk.1
      let k : Keys := { aead := { enc := fun n a m => Uquic.Model.Prim.gcmSeal ks.key n a m, dec := fun _ _ _ => none },
                        iv := ks.iv, hp := fun smp i => (aesHPMask ks.hp smp).getD i 0, long := true }
      let padded := Uquic.Model.UInitial.padPayload pnLen payload tmpl.length packetSize
      let hdr := Uquic.Model.UInitial.setLength tmpl pnLen (Uquic.Model.UInitial.lengthField pnLen padded)
      match Uquic.Model.UInitial.datagram k tmpl pn.toNat payload packetSize udpMin with
      | none => (s, mk "PANIC" ["useal:panic"])
      | some dg =>
        let implDg := (implBytes impl "dgram=").getD []
        -- monitors on the implementation's datagram: the Length field must cover packet number, padded
        -- payload and tag — exactly the bytes of the protected packet — and only zero padding may follow
        let off := tmpl.length - pnLen
        let implLen := ((implDg.getD (off - 2) 0).toNat % 64) * 256 + (implDg.getD (off - 1) 0).toNat
        let want := Uquic.Model.UInitial.lengthField pnLen padded
        let fails : List Fail :=
          (if (words impl).any (·.startsWith "dgram=") && implLen ≠ want then
            [("length_field_covers_packet", "-", s!"pnLen={pnLen} |frames|={payload.length}: Length field {implLen}, packet number + padded payload + tag = {want}")] else []) ++
          (if (words impl).any (·.startsWith "dgram=") && (implDg.drop (off + want)).any (· ≠ 0) then
            [("length_field_covers_packet", "-", s!"non-zero bytes follow the packet the Length field ({implLen}) describes")] else []) ++
          (if pnLen + padded.length < 4 then [("min_sample_padding", "-", "model padding insufficient")] else [])
        let rec_ : Rec := { long := true, dir := 0, pn := pn, cidLen := 0, hdr := hdr, payload := padded, data := implDg, epoch := s.lkey }
        ({ s with pk := (id, rec_) :: s.pk.filter (·.1 != id) },
          mk s!"tmpl={hx tmpl} dgram={hx dg}"
            ["useal", s!"useal:pnlen{pnLen}", if pnLen + payload.length < 4 then "useal:min-padding" else "useal:roomy",
             if packetSize > 0 then "useal:exact-size" else "useal:udp-min"] fails)
  | "lopen" =>
    match lookup s.pk (arg 1).toNat with
    | none => (s, mk "skip")
    | some r =>
      if !r.long then (s, mk "skip") else
      let mut_ := sarg 2; let marg := (arg 3).toNat
      let gep := if mut_ == "own" then r.dir else 1 - r.dir
      let fails := openMons r mut_ marg impl s.lkey (s.gHighL.getD gep 0) s.sawReserved
      let s := if (words impl).contains "ok" then
          { s with gHighL := s.gHighL.set gep (max (s.gHighL.getD gep 0) (((implField impl "pn=").map intOf).getD 0)) } else s
      let implHead := (words impl).headD ""
      if implHead == "E:hdrparse" || implHead == "E:retry" then
        -- wire.ParsePacket (not modelled here, see C08) rejected the mutated header: a rejection
        (s, mk implHead [s!"lopen:{implHead}"] fails)
      else
        let data := mutate r.data mut_ marg
        let off := ((implField impl "off=").map natOf).getD 0
        let plen := ((implField impl "plen=").map natOf).getD 0
        let data := data.take plen
        let ep := if mut_ == "own" then r.dir else 1 - r.dir
        -- the opener of endpoint `ep` holds the RFC-derived keys of the direction towards it
        let ks := if ep == 0 then s.lk.2 else s.lk.1
        let implMask := (implBytes impl "mask=").getD []
        let np := (arg 4) % 2 == 1
        let mask := if data.length ≥ off + 20 then aesHPMask ks.hp (sample data off) else []
        let fails := fails ++ (if !np && data.length ≥ off + 20 && mask ≠ implMask then
          [("hp_mask_rfc", "-", s!"mask {hx implMask}, RFC hp key gives {hx mask}")] else [])
        -- real AES-128-GCM with the RFC-derived key and IV (independent implementation, Uquic/Model/Crypto/Prim.lean)
        let k : Keys := { aead := { enc := fun _ _ _ => [], dec := fun n a c => gcmOpen ks.key n a c },
                          iv := ks.iv, hp := maskFn mask, long := true }
        let pre := s!"off={off} plen={plen} mask={if data.length ≥ off + 20 && !np then hx mask else "-"} "
        match unprotectCore k data off (s.lHighest.getD ep 0) with
        | .error .tooSmall => (s, mk (pre ++ "E:small") ["lopen:small"] fails)
        | .error _ => (s, mk (pre ++ "E:decrypt") ["lopen:decrypt"] fails)
        | .ok (o, resOK) =>
          let s := { s with lHighest := s.lHighest.set ep (max (s.lHighest.getD ep 0) o.pn) }
          if resOK then (s, mk (pre ++ fmtOpened o none) ["lopen:ok", s!"lopen:pnlen{o.pnLen}"] fails)
          else (s, mk (pre ++ "E:reserved") ["lopen:reserved"] fails)
  | "sopen" =>
    match lookup s.pk (arg 1).toNat with
    | none => (s, mk "skip")
    | some r =>
      if r.long then (s, mk "skip") else
      let mut_ := sarg 2; let marg := (arg 3).toNat; let t := arg 4
      let gep := if mut_ == "own" then r.dir else 1 - r.dir
      let fails := openMons r mut_ marg impl s.skey (s.gHighS.getD gep 0) s.sawReserved
      let s := if (words impl).contains "ok" then
          { s with gHighS := s.gHighS.set gep (max (s.gHighS.getD gep 0) (((implField impl "pn=").map intOf).getD 0)) } else s
      let data := mutate r.data mut_ marg
      let off := 1 + r.cidLen
      let ep := if mut_ == "own" then r.dir else 1 - r.dir
      let key := s.skey ++ s!":{1 - ep}"
      let implMask := (implBytes impl "mask=").getD []
      let np := (arg 5) % 2 == 1 && s.suite != 1
      let mask := match s.sk, s.chp with
        | some p, _ => if data.length ≥ off + 20 then aesHPMask (if ep == 0 then p.2 else p.1).hp (sample data off) else []
        | none, some p => if data.length ≥ off + 20 then chachaHPMask (if ep == 0 then p.2 else p.1) (sample data off) else []
        | none, none => implMask
      let fails := fails ++ (if !np && data.length ≥ off + 20 && mask ≠ implMask then
        [("hp_mask_rfc", "-", s!"1-RTT mask {hx implMask}, RFC hp key gives {hx mask}")] else [])
      let pre := s!"mask={if data.length ≥ off + 20 && !np then hx mask else "-"} "
      -- header removal and packet number decoding (the AEAD is consulted through the key-phase model below)
      let k0 : Keys := { aead := { enc := fun _ _ _ => [], dec := fun _ _ _ => some [] }, iv := zeroIV, hp := maskFn mask, long := false }
      let a := s.ua.getD ep {}
      match unprotectCore k0 data off a.decodeBase with
      | .error _ => (s, mk (pre ++ "E:small") ["sopen:small"] fails)
      | .ok (o, resOK) =>
        let first := o.hdr.headD 0
        -- ParseShortHeader checks of the unprotected first byte
        if first &&& 0x80 ≠ 0 || first &&& 0x40 == 0 then (s, mk (pre ++ "E:hdrparse") ["sopen:hdrparse"] fails) else
        let kp : Nat := if first &&& 0x04 ≠ 0 then 1 else 0
        let found := s.table.find key (nonce zeroIV o.pn.toNat) o.hdr (data.drop (off + o.pnLen))
        -- every table entry of this key was sealed in generation 0
        let (a', res, _) := a.openU env t o.pn kp { gen := 0, authentic := found.isSome }
        let s := { s with ua := s.ua.set ep a' }
        match res with
        | .ok =>
          if resOK then (s, mk (pre ++ fmtOpened { o with payload := found.getD [] } (some kp)) ["sopen:ok", s!"sopen:pnlen{o.pnLen}"] fails)
          else (s, mk (pre ++ "E:reserved") ["sopen:reserved"] fails)
        | .decryptionFailed => (s, mk (pre ++ "E:decrypt") ["sopen:decrypt"] fails)
        | .keysDropped => (s, mk (pre ++ "E:dropped") ["sopen:dropped"] fails)
        | _ => (s, mk (pre ++ "E:other") ["sopen:other"] fails)
  | _ => (s, mk "bad-op")

def main : IO Unit := run { init := ({} : St), step := step }
