import Uquic.Oracle.Frame
import Uquic.Model.Amp.Token
import Uquic.Model.Amp.RetryGlue
import Uquic.Model.Amp.Reuse
import Uquic.Spec.TokenMon

open Uquic.Oracle Uquic.Model.Tok Uquic.Spec.TokenMon

/-- one token handed out by the implementation (`issue` / `raw`), as the ideal-AEAD table sees it -/
structure Entry where
  tid : Nat
  kid : Nat
  nonce : Bytes
  cipher : Bytes
  /-- the sealed plaintext as the struct it encodes; `none`: not a well-formed encoding (garbage / trailing bytes) -/
  fields : Option Fields
  /-- ghost: was made by NewRetryToken / NewToken for this address (`none` for hand-made plaintexts) -/
  issuedFor : Option Addr := none

structure TSt where
  log : List Entry := []

def hexVal (c : Char) : Nat :=
  if '0' ≤ c ∧ c ≤ '9' then c.toNat - '0'.toNat
  else if 'a' ≤ c ∧ c ≤ 'f' then c.toNat - 'a'.toNat + 10
  else if 'A' ≤ c ∧ c ≤ 'F' then c.toNat - 'A'.toNat + 10 else 0

def hexToBytes (s : String) : Bytes :=
  if s == "-" then [] else
  let rec go : List Char → Bytes
    | a :: b :: rest => (hexVal a * 16 + hexVal b).toUInt8 :: go rest
    | _ => []
  go s.toList

def hexDigit (n : Nat) : Char := if n < 10 then Char.ofNat ('0'.toNat + n) else Char.ofNat ('a'.toNat + n - 10)

def bytesToHex (b : Bytes) : String :=
  if b.isEmpty then "-" else String.ofList (b.flatMap fun x => [hexDigit (x.toNat / 16), hexDigit (x.toNat % 16)])

def parseAddr (s : String) : Option Addr :=
  match s.splitOn ":" with
  | ["u", ip, port, zone] => some (.udp (hexToBytes ip) (natOf port) (hexToBytes zone))
  | ["o", str] => some (.other (hexToBytes str))
  | _ => none

/-- plaintexts are represented by the id of the table entry (any injective stand-in for DER will do:
    the oracle never sees plaintext bytes) -/
def dataOf (tid : Nat) : Bytes := [(tid / 65536 % 256).toUInt8, (tid / 256 % 256).toUInt8, (tid % 256).toUInt8]

def secretOf (kid : Nat) : Bytes := [(kid / 256).toUInt8, (kid % 256).toUInt8]

/-- the ideal AEAD as a table: only what was sealed under this secret and nonce opens -/
def cryptoOf (log : List Entry) : Crypto where
  aeadSeal := fun _ _ _ => []
  aeadOpen := fun secret nonce cipher =>
    log.findSome? fun e => if secretOf e.kid == secret && e.nonce == nonce && e.cipher == cipher then some (dataOf e.tid) else none

def codecOf (log : List Entry) : Codec where
  enc := fun _ => []
  dec := fun data => log.findSome? fun e => if dataOf e.tid == data then e.fields else none

def fmtDecoded (d : Decoded) (full : Bool) : String :=
  match d with
  | .absent => "nil"
  | .err => "err"
  | .panic => "PANIC"
  | .ok t =>
    if full then
      s!"ok retry={if t.isRetryToken then 1 else 0} sent={t.sentTime} addr={bytesToHex t.encodedRemoteAddr} rtt={t.rtt} odcid={bytesToHex t.odcid} rscid={bytesToHex t.rscid}"
    else "ok"

def splitBar (impl : String) : String × String :=
  match impl.splitOn " | " with
  | [a] => (a, "")
  | a :: rest => (a, " | ".intercalate rest)
  | [] => ("", "")

def field (ws : List String) (key : String) : Option String :=
  ws.findSome? fun w => if w.startsWith key then some (w.drop key.length).toString else none

def resolveTok (s : TSt) (arg : String) : Option Bytes :=
  if arg.startsWith "@" then
    let id := natOf (arg.drop 1).toString
    s.log.findSome? fun e => if e.tid == id then some (e.nonce ++ e.cipher) else none
  else some (hexToBytes arg)

/-- ghost lookup: the issued token (under key `kid`) whose bytes are exactly `b` -/
def issuedExactly (s : TSt) (kid : Nat) (b : Bytes) : Option Entry :=
  s.log.find? fun e => e.kid == kid && e.nonce ++ e.cipher == b

/-- the life of the Transport of a `reuse` op, as model operations (`none`: malformed script) -/
def parseScript (script : String) : Option (List Uquic.Model.Reuse.Op) :=
  (script.splitOn ",").foldl (fun acc st =>
    match acc with
    | none => none
    | some ops =>
      let arg := (st.drop 1).toString
      if st.startsWith "k" then some (ops ++ [.setKey (natOf arg)])
      else if st.startsWith "a" then some (ops ++ [.setAge (intOf arg)])
      else if st == "v0" then some (ops ++ [.setVerify false])
      else if st == "v1" then some (ops ++ [.setVerify true])
      else if st == "W" || st == "R" then some (ops ++ [.use])
      else if st == "L" then some (ops ++ [.listen, .closeListener])
      else none) (some [])

/-- ghost, from the text of the script alone: the value written last behind `pfx` -/
def lastWritten (script pfx : String) : Option String :=
  (script.splitOn ",").foldl (fun acc st => if st.startsWith pfx then some (st.drop pfx.length).toString else acc) none

def step (s : TSt) (op impl : String) : TSt × StepOut :=
  let w := words op
  let (implHeadPart, tail) := splitBar impl
  let iw := words implHeadPart
  let implHead := iw.headD ""
  let now := intOf ((field (words tail) "now=").getD "0")
  let withTail (m : String) : String := m ++ " | " ++ tail
  let logTok (tid kid : Nat) (fields : Option Fields) (issuedFor : Option Addr) (tag : String) : TSt × StepOut :=
    match field iw "tok=" with
    | some hx =>
      if implHead == "ok" then
        let b := hexToBytes hx
        let e : Entry := { tid := tid, kid := kid, nonce := b.take tokenNonceSize, cipher := b.drop tokenNonceSize,
                           fields := fields, issuedFor := issuedFor }
        let fails := if b.length ≤ tokenNonceSize then [("token_shape", "-", s!"token of {b.length} bytes has no sealed part")] else []
        ({ s with log := s.log ++ [e] }, { model := withTail s!"ok tok={hx}", tags := [tag], fails := fails })
      else (s, { model := withTail "ok tok=?" })
    | none => (s, { model := withTail "ok tok=?" })
  -- monitors shared by decode / check
  let judge (kid : Nat) (b : Bytes) (present : Option Addr) (ages : Int × Int) (cls : String) (valid : Bool) : List (String × String × String) := Id.run do
    let mut fails : List (String × String × String) := []
    match issuedExactly s kid b with
    | none =>
      if cls == "ok" || cls == "PANIC" || valid then
        fails := fails ++ [("mangled_token_accepted", "-", s!"{b.length} bytes that no issue under key {kid} produced decode as {cls} valid={valid}")]
      if cls == "nil" && !b.isEmpty then
        fails := fails ++ [("mangled_token_accepted", "-", "non-empty token reported as absent without error")]
    | some e =>
      if valid then
        match e.fields, present with
        | some f, some a =>
          if !addrMatches (encodeRemoteAddr a) f.remoteAddr then
            fails := fails ++ [("token_valid_for_other_address", "-", s!"token for {bytesToHex f.remoteAddr} accepted from {bytesToHex (encodeRemoteAddr a)}")]
          if !ageOk f.isRetryToken (now - f.timestamp) ages.1 ages.2 then
            fails := fails ++ [("expired_token_accepted", "-", s!"age={now - f.timestamp} retry={f.isRetryToken} limits={ages.1},{ages.2}")]
        | _, _ => fails := fails ++ [("mangled_token_accepted", "-", "a token without a well-formed plaintext validated")]
    return fails
  match w with
  | ["issue", tid, kid, "R", addr, odcid, rscid] =>
    match parseAddr addr with
    | none => (s, { model := "bad-op" })
    | some a =>
      let f : Fields := { isRetryToken := true, remoteAddr := encodeRemoteAddr a, timestamp := now, rtt := 0,
                          odcid := hexToBytes odcid, rscid := hexToBytes rscid }
      logTok (natOf tid) (natOf kid) (some f) (some a) "issue:retry"
  | ["issue", tid, kid, "N", addr, rtt] =>
    match parseAddr addr with
    | none => (s, { model := "bad-op" })
    | some a =>
      let f : Fields := { isRetryToken := false, remoteAddr := encodeRemoteAddr a, timestamp := now, rtt := intOf rtt,
                          odcid := [], rscid := [] }
      logTok (natOf tid) (natOf kid) (some f) (some a) "issue:newtoken"
  | ["raw", tid, kid, kind, retry, enc, ts, rtt, odcid, rscid] =>
    let f : Fields := { isRetryToken := retry == "1", remoteAddr := hexToBytes enc, timestamp := intOf ts, rtt := intOf rtt,
                        odcid := hexToBytes odcid, rscid := hexToBytes rscid }
    logTok (natOf tid) (natOf kid) (if kind == "F" then some f else none) none s!"raw:{kind}"
  | ["decode", kid, tok] =>
    match resolveTok s tok with
    | none => (s, { model := "skip" })
    | some b => Id.run do
      let kid := natOf kid
      let d := decodeToken (cryptoOf s.log) (codecOf s.log) (secretOf kid) b
      let mut fails := judge kid b none (0, 0) implHead false
      -- an unmodified retry token gives back exactly the connection IDs and address it was issued with
      match issuedExactly s kid b with
      | some e =>
        match e.fields, e.issuedFor with
        | some f, some a =>
          if implHead == "ok" then
            if f.isRetryToken && (field iw "odcid=" ≠ some (bytesToHex f.odcid) || field iw "rscid=" ≠ some (bytesToHex f.rscid)) then
              fails := fails ++ [("retry_cids_changed", "-", s!"issued odcid={bytesToHex f.odcid} rscid={bytesToHex f.rscid}")]
            if field iw "addr=" ≠ some (bytesToHex (encodeRemoteAddr a)) then
              fails := fails ++ [("token_address_changed", "-", s!"issued for {bytesToHex (encodeRemoteAddr a)}")]
            if field iw "retry=" ≠ some (if f.isRetryToken then "1" else "0") then
              fails := fails ++ [("token_kind_changed", "-", "retry flag differs from the issued token")]
          else fails := fails ++ [("issued_token_rejected", "-", s!"an unmodified token decodes as {implHead}")]
        | _, _ => pure ()
      | none => pure ()
      let tag := match d with | .absent => "decode:nil" | .err => "decode:err" | .panic => "decode:panic" | .ok t => if t.isRetryToken then "decode:retry" else "decode:newtoken"
      return (s, { model := fmtDecoded d true, tags := [tag], fails := fails })
  | ["check", kid, tok, addr, age, idle] =>
    match resolveTok s tok, parseAddr addr with
    | none, _ => (s, { model := "skip" })
    | _, none => (s, { model := "bad-op" })
    | some b, some a => Id.run do
      let kid := natOf kid
      let maxAge := intOf age
      let retryAge := maxRetryTokenAge (intOf idle)
      let d := decodeToken (cryptoOf s.log) (codecOf s.log) (secretOf kid) b
      let valid := match d with
        | .ok t => validateToken (some t) a now maxAge retryAge
        | _ => false
      let implValid := field iw "valid=" == some "1"
      let fails := judge kid b (some a) (maxAge, Uquic.Spec.TokenMon.retryLimit (intOf idle)) implHead implValid
      let tag := match d with
        | .absent => "check:nil" | .err => (if b.length < tokenNonceSize then "check:too-short" else "check:err") | .panic => "check:panic"
        | .ok t =>
          if valid then (if t.isRetryToken then "check:valid-retry" else "check:valid-newtoken")
          else if !t.validateRemoteAddr a then "check:wrong-address"
          else (if t.isRetryToken then "check:expired-retry" else "check:expired-newtoken")
      return (s, { model := withTail s!"{fmtDecoded d false} valid={if valid then 1 else 0}", tags := [tag], fails := fails })
  | ["initial", kid, tok, addr, wr, age, idle] =>
    match resolveTok s tok, parseAddr addr with
    | none, _ => (s, { model := "skip" })
    | _, none => (s, { model := "bad-op" })
    | some b, some a => Id.run do
      let kid := natOf kid
      -- Transport.Listen: MaxTokenAge 0 means the default
      let maxAge := if intOf age == 0 then Uquic.Gen.AmpToken.defaultMaxTokenAge else intOf age
      let retryAge := maxRetryTokenAge (intOf idle)
      let dcid : Bytes := [1, 2, 3, 4, 5, 6, 7, 8]
      let out := handleInitial (cryptoOf s.log) (codecOf s.log) (secretOf kid) b dcid a now maxAge retryAge (wr == "1")
      let (text, tag) := match out with
        | .invalidToken => ("drop", "initial:invalid-retry-token")
        | .retry => ("retry", "initial:retry")
        | .proceed av _ _ _ => (s!"proceed av={if av then 1 else 0}", if av then "initial:verified" else "initial:unverified")
        | .panic => ("PANIC", "initial:panic")
      let implVerified := implHead == "proceed" && field iw "av=" == some "1"
      let fails := judge kid b (some a) (maxAge, Uquic.Spec.TokenMon.retryLimit (intOf idle)) (if implVerified then "ok" else "err") implVerified
      return (s, { model := withTail text, tags := [tag], fails := fails })
  | ["reuse", script, tok, addr, idle] =>
    match resolveTok s tok, parseAddr addr, parseScript script with
    | none, _, _ => (s, { model := "skip" })
    | _, none, _ => (s, { model := "bad-op" })
    | _, _, none => (s, { model := "bad-op" })
    | some b, some a, some ops => Id.run do
      -- the model: the listener opened at the end of this life of the Transport
      match (Uquic.Model.Reuse.run (ops ++ [.listen])).srv with
      | none => return (s, { model := withTail "E:listen" })
      | some srv =>
        let kid := srv.key.getD Uquic.Model.Reuse.randomKey
        let retryAge := maxRetryTokenAge (intOf idle)
        let out := handleInitial (cryptoOf s.log) (codecOf s.log) (secretOf kid) b [1, 2, 3, 4, 5, 6, 7, 8] a now srv.maxTokenAge retryAge srv.verify
        let stale := ops.any (fun o => o == .use || o == .listen)
        let (text, tag) := match out with
          | .invalidToken => ("drop", "reuse:invalid-retry-token")
          | .retry => ("retry", "reuse:retry")
          | .proceed av _ _ _ => (s!"proceed av={if av then 1 else 0}", if av then "reuse:verified" else "reuse:unverified")
          | .panic => ("PANIC", "reuse:panic")
        -- ghost: the configuration written last, read off the script text
        let gAge := match lastWritten script "a" with
          | some x => if intOf x == 0 then (86400000000000 : Int) else intOf x
          | none => 86400000000000
        let gKid := match lastWritten script "k" with | some x => natOf x | none => Uquic.Model.Reuse.randomKey
        let implVerified := implHead == "proceed" && field iw "av=" == some "1"
        let mut fails := judge gKid b (some a) (gAge, Uquic.Spec.TokenMon.retryLimit (intOf idle)) (if implVerified then "ok" else "err") implVerified
        if lastWritten script "v" == some "1" && implHead == "proceed" && !implVerified then
          fails := fails ++ [("retry_policy_of_reused_transport", "-", "VerifySourceAddress was set before this Listen; a connection proceeds unverified without a Retry")]
        let tags := [tag] ++ (if stale then ["reuse:after-use"] else ["reuse:fresh"])
        return (s, { model := withTail text, tags := tags, fails := fails })
  | ["decode2", kid, tokA, tokB] =>
    match resolveTok s tokA, resolveTok s tokB with
    | some a, some b => Id.run do
      let kid := natOf kid
      let da := decodeToken (cryptoOf s.log) (codecOf s.log) (secretOf kid) a
      let db := decodeToken (cryptoOf s.log) (codecOf s.log) (secretOf kid) b
      -- DecodeToken is a pure function of (key, bytes): the first result reads the same after the second call
      let model := s!"A {fmtDecoded da true} ; B {fmtDecoded db true} ; A2 {fmtDecoded da true}"
      let mut fails : List (String × String × String) := []
      match impl.splitOn " ; " with
      | [pa, _, pa2] =>
        if (pa.drop 2).toString != (pa2.drop 3).toString then
          fails := fails ++ [("decoded_token_immutable", "-", s!"the token returned by the first DecodeToken reads [{(pa2.drop 3).toString}] after a second DecodeToken; it read [{(pa.drop 2).toString}]")]
      | _ => pure ()
      let same := a == b
      let tag := match da, db with
        | .ok ta, .ok tb => if same then "decode2:same" else if ta.isRetryToken && tb.isRetryToken then "decode2:retry-retry" else if ta.isRetryToken then "decode2:retry-newtoken" else "decode2:newtoken-any"
        | .ok _, _ => "decode2:ok-fail"
        | _, _ => "decode2:fail-any"
      return (s, { model := model, tags := [tag], fails := fails })
    | _, _ => (s, { model := "skip" })
  | ["cinit", kid, tok, addr, wr, age, idle] =>
    match resolveTok s tok, parseAddr addr with
    | none, _ => (s, { model := "skip" })
    | _, none => (s, { model := "bad-op" })
    | some b, some a => Id.run do
      let kid := natOf kid
      let maxAge := if intOf age == 0 then Uquic.Gen.AmpToken.defaultMaxTokenAge else intOf age
      let retryAge := maxRetryTokenAge (intOf idle)
      let dcid : Bytes := [1, 2, 3, 4, 5, 6, 7, 8]
      let cfg : Uquic.Model.RetryGlue.Cfg := { E := cryptoOf s.log, C := codecOf s.log, secret := secretOf kid, maxTokenAge := maxAge, maxRetryAge := retryAge }
      let pkt : Uquic.Model.RetryGlue.IPkt := { hdrToken := b, hdrDCID := dcid, remote := a, now := now, wantsRetry := wr == "1" }
      let out := Uquic.Model.RetryGlue.decide1 cfg pkt
      -- the glue model: the server state after this one packet, the new connection read through the heap
      let srv := Uquic.Model.RetryGlue.Srv.initial .fresh cfg {} pkt
      let (text, tag) := match out, srv.conns.getLast? with
        | .invalidToken, _ => ("drop", "cinit:invalid-retry-token")
        | .retry, _ => ("retry", "cinit:retry")
        | .panic, _ => ("PANIC", "cinit:panic")
        | .proceed .., none => ("noconn", "cinit:noconn")
        | .proceed .., some c =>
          let (o, r) := Uquic.Model.RetryGlue.paramsAtUse srv c
          (s!"conn av={if c.av then 1 else 0} odcid={bytesToHex o} rscid={match r with | some x => bytesToHex x | none => "none"} rtt={c.rtt} lim={if c.h.isAmplificationLimited then 1 else 0} val={if c.h.validated then 1 else 0}",
           if c.av then (if r.isSome then "cinit:validated-retry" else "cinit:validated-newtoken") else "cinit:unvalidated")
      let isConn := implHead == "conn"
      let f1 (k : String) : Bool := field iw k == some "1"
      -- the connection starts WITHOUT the 3x limit: by its own state, by its behaviour, or by the flag it was given
      let unlimited := isConn && (f1 "val=" || f1 "av=" || field iw "lim=" == some "0")
      let mut fails := judge kid b (some a) (maxAge, Uquic.Spec.TokenMon.retryLimit (intOf idle)) (if unlimited then "ok" else "err") unlimited
      if unlimited && fails.isEmpty && (issuedExactly s kid b).isNone then
        fails := fails ++ [("conn_unlimited_without_address_proof", "-", "a connection starts validated although no token was presented that this key issued")]
      if isConn && !unlimited then
        -- an unvalidated connection must not be able to send before a byte is credited to it
        if field iw "lim=" ≠ some "1" then
          fails := fails ++ [("unvalidated_conn_starts_limited", "-", "SendMode of a fresh unvalidated server connection is not SendNone")]
      if isConn && (field iw "clientinfo=").isSome then
        fails := fails ++ [("clientinfo_matches_conn", "-", "ClientInfo.AddrVerified differs from the clientAddressValidated the connection was created with")]
      -- a connection created for an unmodified Retry token carries exactly the connection IDs the token was issued with
      match issuedExactly s kid b with
      | some e =>
        match e.fields with
        | some f =>
          if isConn && f.isRetryToken && f1 "av=" && (field iw "odcid=" ≠ some (bytesToHex f.odcid) || field iw "rscid=" ≠ some (bytesToHex f.rscid)) then
            fails := fails ++ [("retry_cids_changed", "-", s!"connection created with odcid={field iw "odcid="} rscid={field iw "rscid="}; the token was issued with odcid={bytesToHex f.odcid} rscid={bytesToHex f.rscid}")]
        | none => pure ()
      | none => pure ()
      return (s, { model := withTail text, tags := [tag], fails := fails })
  | ["dkey", _inst] => Id.run do
    -- a Transport without TokenGeneratorKey draws a fresh random key: never all-zero, never equal to another key
    let mut fails : List (String × String × String) := []
    if field iw "zero=" == some "1" then
      fails := fails ++ [("default_key_is_random", "-", "a Transport without TokenGeneratorKey uses the all-zero token key")]
    if field iw "dup=" == some "1" then
      fails := fails ++ [("default_key_is_random", "-", "two Transports without TokenGeneratorKey (or a fixed key) share the token key")]
    return (s, { model := "zero=0 dup=0", tags := ["dkey"], fails := fails })
  | ["dissue", tid, inst, addr] =>
    match parseAddr addr with
    | none => (s, { model := "bad-op" })
    | some a =>
      match field iw "tok=", field iw "rscid=" with
      | some hx, some rs =>
        if implHead == "ok" then
          let b := hexToBytes hx
          let f : Fields := { isRetryToken := true, remoteAddr := encodeRemoteAddr a, timestamp := now, rtt := 0,
                              odcid := [1, 2, 3, 4, 5, 6, 7, 8], rscid := hexToBytes rs }
          let e : Entry := { tid := natOf tid, kid := 100 + natOf inst, nonce := b.take tokenNonceSize, cipher := b.drop tokenNonceSize,
                             fields := some f, issuedFor := some a }
          ({ s with log := s.log ++ [e] }, { model := withTail s!"ok tok={hx} rscid={rs}", tags := ["dissue"] })
        else (s, { model := withTail "ok tok=? rscid=?" })
      | _, _ => (s, { model := withTail "ok tok=? rscid=?" })
  | ["dinitial", inst, tok, addr, wr] =>
    match resolveTok s tok, parseAddr addr with
    | none, _ => (s, { model := "skip" })
    | _, none => (s, { model := "bad-op" })
    | some b, some a => Id.run do
      let kid := 100 + natOf inst
      let maxAge := Uquic.Gen.AmpToken.defaultMaxTokenAge
      let idle : Int := 5000000000
      let out := handleInitial (cryptoOf s.log) (codecOf s.log) (secretOf kid) b [1, 2, 3, 4, 5, 6, 7, 8] a now maxAge (maxRetryTokenAge idle) (wr == "1")
      let (text, tag) := match out with
        | .invalidToken => ("drop", "dinitial:invalid-retry-token")
        | .retry => ("retry", "dinitial:retry")
        | .proceed av _ _ _ => (s!"proceed av={if av then 1 else 0}", if av then "dinitial:verified" else "dinitial:unverified")
        | .panic => ("PANIC", "dinitial:panic")
      let implVerified := implHead == "proceed" && field iw "av=" == some "1"
      let mut fails := judge kid b (some a) (maxAge, Uquic.Spec.TokenMon.retryLimit idle) (if implVerified then "ok" else "err") implVerified
      -- a token made by ANOTHER server instance, or sealed under any other key, is never proof of address here
      let foreign := s.log.any fun e => e.kid != kid && e.nonce ++ e.cipher == b
      let tag2 := if foreign then ["dinitial:foreign-token"] else if (issuedExactly s kid b).isSome then ["dinitial:own-token"] else []
      if implVerified && foreign && (issuedExactly s kid b).isNone then
        fails := fails ++ [("token_foreign_instance_rejected", "-", s!"a token sealed by another instance / under another key was accepted as proof of address by instance {inst}")]
      -- and one this instance handed out must not turn into a Retry/INVALID_TOKEN loop for the same host in time
      return (s, { model := withTail text, tags := [tag] ++ tag2, fails := fails })
  | ["sleep", _] => (s, { model := withTail "ok", tags := ["sleep"] })
  | _ => (s, { model := "bad-op" })

def main : IO Unit := run { init := ({} : TSt), step := step }
