import Uquic.Oracle.Frame
import Uquic.Model.Handshake.FramerReset
import Uquic.Model.Handshake.SpecHeap

/-!
Oracle of the C13 `rst` driver (state carried across a reset of the connection).

Model side: `Model.Handshake.FramerReset` re-executes every framer op (registry, round-robin queue, streams with
control frames, control-frame queue; what `Append` takes), `Model.Handshake.SpecHeap` every dial with one spec value
(what the connection sends, what the caller's array reads).

Monitors (ghost state from the ops only):
* `stream_with_data_not_sent`               a stream that registered data (and neither completed nor was reset by a
                                            rejection since) is missing from the STREAM frames of an `Append` with room;
* `flow_control_frame_of_rejected_0rtt_sent` a MAX_* / *_BLOCKED frame queued before a 0-RTT rejection comes out after it;
* `control_frame_lost`                      another queued control frame does not come out of the next `Append`;
* `control_frame_of_discarded_stream_sent`  `Append` carries more stream-related control frames (RESET_STREAM /
                                            STOP_SENDING / MAX_STREAM_DATA) of a stream id than streams announced
                                            under that id since the last 0-RTT rejection: a frame of a stream the
                                            rejection discarded (class stale_stream_control_after_0rtt_rejection:
                                            listed finding while `Handle0RTTRejection` leaves
                                            `streamsWithControlFrames` alone);
* `caller_array_written_by_dial`            the caller's transport-parameter array (spare capacity included) no longer
                                            reads what the spec was made with;
* `connection_advertises_foreign_id`        the spec has an empty initial_source_connection_id placeholder (not
                                            suppressed) and the connection sends something else than its own ID.
-/

open Uquic.Oracle Uquic.Model.Handshake Uquic.Model.Handshake.FramerReset Uquic.Model.Handshake.SpecHeap

abbrev KV := List (String × String)

def kvOf (ws : List String) : KV :=
  ws.filterMap fun w =>
    match w.splitOn "=" with
    | k :: v :: rest => some (k, "=".intercalate (v :: rest))
    | _ => none

def KV.get (m : KV) (k : String) : String :=
  match m.find? (fun p => p.1 == k) with
  | some p => p.2
  | none => ""

def hexVal (c : Char) : Nat :=
  if '0' ≤ c ∧ c ≤ '9' then c.toNat - '0'.toNat
  else if 'a' ≤ c ∧ c ≤ 'f' then c.toNat - 'a'.toNat + 10
  else 0

def hexBytes : List Char → List Nat
  | a :: b :: rest => (hexVal a * 16 + hexVal b) :: hexBytes rest
  | _ => []

def bytesOfX (s : String) : List Nat := hexBytes (s.toList.drop 1)

def hexDigit (n : Nat) : Char := if n < 10 then Char.ofNat (48 + n) else Char.ofNat (87 + n)

def xOf (c : List Nat) : String := "x" ++ String.ofList (c.flatMap fun b => [hexDigit (b / 16), hexDigit (b % 16)])

def idsTxt (l : List Nat) : String := if l.isEmpty then "-" else ",".intercalate (l.map toString)

def strsTxt (l : List String) : String := if l.isEmpty then "-" else ",".intercalate l

def listOf (s : String) : List String := if s == "-" || s == "" then [] else s.splitOn ","

def ctlOf : String → Option Ctl
  | "maxdata" => some .maxData | "maxstreamdata" => some .maxStreamData | "maxstreams" => some .maxStreams
  | "datablocked" => some .dataBlocked | "streamdatablocked" => some .streamDataBlocked
  | "streamsblocked" => some .streamsBlocked | "newtoken" => some .newToken | "stopsending" => some .stopSending
  | "retirecid" => some .retireConnectionID | "ping" => some .ping | _ => none

def ctlTxt : Ctl → String
  | .maxData => "maxdata" | .maxStreamData => "maxstreamdata" | .maxStreams => "maxstreams"
  | .dataBlocked => "datablocked" | .streamDataBlocked => "streamdatablocked" | .streamsBlocked => "streamsblocked"
  | .newToken => "newtoken" | .stopSending => "stopsending" | .retireConnectionID => "retirecid" | .ping => "ping"

/-- the tag as it travels in the frame (a PING carries none) -/
def frameTxt (c : Ctl × Nat) : String := ctlTxt c.1 ++ "#" ++ toString (if c.1 == .ping then 0 else c.2)

def insertSorted (x : Nat) : List Nat → List Nat
  | [] => [x]
  | y :: ys => if x ≤ y then x :: y :: ys else y :: insertSorted x ys

def sortNat (l : List Nat) : List Nat := l.foldr insertSorted []

def getA (m : List (Nat × Nat)) (id : Nat) : Nat := ((m.find? (·.1 == id)).map (·.2)).getD 0

def setA (m : List (Nat × Nat)) (id n : Nat) : List (Nat × Nat) := (id, n) :: m.filter (·.1 != id)

def paramTxt (p : Param) : String := toString p.id ++ ":" ++ xOf p.val

def paramsTxt (ps : List Param) : String := if ps.isEmpty then "-" else ",".intercalate (ps.map paramTxt)

structure St where
  f : Framer := {}
  /-- frames each open stream still has / control frames each stream still has (model environment) -/
  pend : List (Nat × Nat) := []
  cpend : List (Nat × Nat) := []
  /-- model environment: control frames of stubs a rejection detached (the stream objects are gone) -/
  cold : List (Nat × Nat) := []
  /-- ghost: control frames announced per stream id since the last rejection, not yet taken by an Append -/
  creg : List (Nat × Nat) := []
  /-- ghost: streams that registered data and neither completed nor were reset since: id ↦ frames -/
  reg : List (Nat × Nat) := []
  /-- ghost: queued control frames that must come out of the next Append / that must never come out -/
  cfq : List String := []
  dead : List String := []
  rejections : Nat := 0
  /-- spec cases -/
  heap : Heap := []
  spec : Slice := { arr := 0, len := 0 }
  /-- ghost: the caller's array as the spec was made -/
  arr0 : List Param := []
  ndials : Nat := 0

/-- `framer.HasData()` -/
def stateTxt (f : Framer) : String :=
  if !f.queue.isEmpty || !f.ctrl.isEmpty || !f.frames.isEmpty then "has=1" else "has=0"

def step (s : St) (op impl : String) : St × StepOut :=
  if impl == "skip" then (s, { model := impl }) else
  match words op with
  | ["fadd", ids, ns] =>
    let id := natOf ids
    let n := natOf ns
    -- a stream object exists under the id iff the model environment has an entry (frm / frej forget it)
    let old := if (s.pend.find? (·.1 == id)).isSome then getA s.pend id else 0
    let f' := addActive s.f id
    let reg' := setA s.reg id (getA s.reg id + n)
    let tag := if id ∈ s.f.active then "fadd:already_registered" else if id ∈ s.f.queue then "fadd:requeued_duplicate" else "fadd:queued"
    ({ s with f := f', pend := setA s.pend id (old + n), reg := reg' },
     { model := stateTxt f', tags := [tag] ++ (if s.rejections > 0 then ["fadd:after_rejection"] else []) })
  | ["frm", ids] =>
    let id := natOf ids
    let f' := removeActive s.f id
    ({ s with f := f', pend := s.pend.filter (·.1 != id), reg := s.reg.filter (·.1 != id) },
     { model := stateTxt f', tags := [if id ∈ s.f.active then "frm:registered" else "frm:not_registered"] })
  | ["fctl", ids, ns] =>
    let id := natOf ids
    let f' := addCtrl s.f id
    ({ s with f := f', cpend := setA s.cpend id (getA s.cpend id + natOf ns), creg := setA s.creg id (getA s.creg id + natOf ns) },
     { model := stateTxt f', tags := ["fctl"] ++ (if (s.cold.find? (·.1 == id)).isSome && id ∈ s.f.ctrl then ["fctl:behind_discarded_stream"] else []) })
  | ["fq", k, t] =>
    match ctlOf k with
    | none => (s, { model := "skip" })
    | some c =>
      let f' := queueControl s.f c (natOf t)
      ({ s with f := f', cfq := s.cfq ++ [frameTxt (c, natOf t)] },
       { model := stateTxt f', tags := [if c.flowControl then "fq:flow_control" else "fq:other"] })
  | ["frej"] =>
    let f' := handle0RTTRejection s.f
    let isFC (t : String) : Bool := match ctlOf ((t.splitOn "#").headD "") with | some c => c.flowControl | none => false
    -- the stream objects are gone; the stubs the framer still knows keep what they have queued (a detached stub the
    -- framer already held from an earlier rejection stays the one it asks)
    let held := (s.cold ++ s.cpend.filter (fun e => (s.cold.find? (·.1 == e.1)).isNone)).filter (fun e => e.1 ∈ f'.ctrl)
    ({ s with f := f', pend := [], reg := [], cpend := [], cold := held, creg := [], rejections := s.rejections + 1,
              dead := s.dead ++ s.cfq.filter isFC, cfq := s.cfq.filter (fun t => !isFC t) },
     { model := stateTxt f',
       tags := ["frej"] ++ (if !s.f.active.isEmpty then ["frej:streams_registered"] else []) ++
               (if s.f.frames.any (·.1.flowControl) then ["frej:flow_control_frames_queued"] else []) ++
               (if !s.f.ctrl.isEmpty then ["frej:control_streams_registered"] else []) })
  | ["fpop"] =>
    -- the framer asks the stub it holds: a detached one shadows the stream announced under the same id afterwards
    let cp : Nat → Nat := fun id => if (s.cold.find? (·.1 == id)).isSome then getA s.cold id else getA s.cpend id
    let (f1, scs, cfs) := appendControl s.f cp
    let (f2, pend', out) := appendStreams f1 (getA s.pend)
    let ctl := (sortNat scs).map (fun id => s!"sc{id}") ++ cfs.map frameTxt
    let model := s!"ctl={strsTxt ctl} str={idsTxt out} | {stateTxt f2}"
    -- monitors on what the implementation sent
    let m := kvOf (words ((impl.splitOn " | ").headD ""))
    let implStr := (listOf (m.get "str")).map natOf
    let implCtl := listOf (m.get "ctl")
    let missing := s.reg.filter fun e => e.2 > 0 && !implStr.contains e.1
    let f1s := missing.map fun e =>
      ("stream_with_data_not_sent", "-", s!"stream {e.1} registered {e.2} frame(s)" ++
        (if s.rejections > 0 then " after a 0-RTT rejection" else "") ++ s!" and Append (with room) sent none of it: str={m.get "str"}")
    let f2s := (s.dead.filter implCtl.contains).map fun t =>
      ("flow_control_frame_of_rejected_0rtt_sent", "-", s!"{t} was queued before the 0-RTT rejection and sent after it")
    let f3s := (s.cfq.filter fun t => !implCtl.contains t).map fun t =>
      ("control_frame_lost", "-", s!"{t} was queued and did not come out of Append: ctl={m.get "ctl"}")
    let scIds := (implCtl.filter (·.startsWith "sc")).map fun t => natOf (t.drop 2).toString
    let f4s := (scIds.eraseDups.filter fun id => scIds.count id > getA s.creg id).map fun id =>
      ("control_frame_of_discarded_stream_sent", (if s.rejections > 0 then "stale_stream_control_after_0rtt_rejection" else "-"),
       s!"Append carries {scIds.count id} stream-related control frame(s) of stream {id}, {getA s.creg id} announced" ++
       (if s.rejections > 0 then " since the 0-RTT rejection that discarded the streams" else "") ++ s!": ctl={m.get "ctl"}")
    let reg' := (s.reg.map fun e => (e.1, e.2 - implStr.count e.1)).filter (·.2 > 0)
    let creg' := (s.creg.map fun e => (e.1, e.2 - scIds.count e.1)).filter (·.2 > 0)
    -- a stream shadowed by a detached stub was not asked: it keeps its frames (and is not registered)
    let shadowed := s.cpend.filter fun e => (s.cold.find? (·.1 == e.1)).isSome || !(s.f.ctrl.contains e.1)
    ({ s with f := f2, pend := s.pend.map (fun e => (e.1, pend' e.1)), cpend := shadowed, cold := [], creg := creg', reg := reg', cfq := [] },
     { model := model, fails := f1s ++ f2s ++ f3s ++ f4s,
       tags := [if out.isEmpty then "fpop:no_stream_frame" else "fpop:stream_frames"] ++
               (if s.rejections > 0 && !out.isEmpty then ["fpop:stream_frames_after_rejection"] else []) ++
               (if out.length > (out.eraseDups).length then ["fpop:same_stream_twice"] else []) ++
               (if !f2.queue.isEmpty then ["fpop:pushed_back"] else []) ++
               (if s.rejections > 0 && !scs.isEmpty then ["fpop:stream_control_after_rejection"] else []) ++
               (if !s.cold.isEmpty && !scs.isEmpty then ["fpop:control_frame_of_discarded_stream"] else []) })
  | "snew" :: rest =>
    let m := kvOf rest
    let k := natOf (m.get "k")
    let cap := natOf (m.get "cap")
    let isc := (m.get "isc").toInt?.getD (-1)
    let arr : List Param := (List.range cap).map fun (i : Nat) =>
      if Int.ofNat i == isc then { id := iscID, val := bytesOfX (m.get "iscval") }
      else if i < k then { id := 0x4000 + i, val := [i] }
      else { id := 0x5000 + i, val := [0xc5] }
    ({ s with heap := [arr], spec := { arr := 0, len := k }, arr0 := arr, ndials := 0 },
     { model := "arr=" ++ paramsTxt arr,
       tags := ["snew", if isc < 0 then "snew:no_placeholder" else if m.get "iscval" == "x" then "snew:empty_placeholder" else "snew:id_given",
                if cap > k then "snew:spare_capacity" else "snew:full"] })
  | "sdial" :: rest =>
    let m := kvOf rest
    let c : Conn := { scid := bytesOfX (m.get "scid"), suppressIDs := (listOf (m.get "sup")).map natOf }
    let (h', sent) := dial cloneFresh s.spec s.heap c
    let model := s!"sent={paramsTxt sent} arr={paramsTxt (readArr h' 0)}"
    let im := kvOf (words impl)
    let f1s := if im.get "arr" != paramsTxt s.arr0 then
      [("caller_array_written_by_dial", "-", s!"dial {s.ndials + 1}: the caller's transport-parameter array reads {im.get "arr"}, the spec was made with {paramsTxt s.arr0}")] else []
    let specPs := s.arr0.take s.spec.len
    let placeholder := specPs.any (fun p => p.id == iscID) && specPs.all (fun p => p.id != iscID || p.val.isEmpty) && !c.suppressIDs.contains iscID
    let implIsc := ((listOf (im.get "sent")).filterMap fun w => match w.splitOn ":" with
      | [i, v] => if natOf i == iscID then some v else none
      | _ => none).head?
    let f2s := if placeholder && implIsc != some (xOf c.scid) then
      [("connection_advertises_foreign_id", "-", s!"dial {s.ndials + 1} with source connection ID {xOf c.scid} advertises initial_source_connection_id {implIsc.getD "none"}")] else []
    ({ s with heap := h', ndials := s.ndials + 1 },
     { model := model, fails := f1s ++ f2s,
       tags := [if s.ndials == 0 then "sdial:first" else "sdial:later", if placeholder then "sdial:fills_placeholder" else "sdial:no_fill"] ++
               (if c.suppressIDs.isEmpty then [] else ["sdial:suppress"]) })
  | _ => (s, { model := "bad-op" })

def main : IO Unit := run { init := ({} : St), step := step }
