import Uquic.Oracle.Frame
import Uquic.Model.Reassembly.ReceiveStream
import Uquic.Spec.ReasmMon

/-!
Oracle of driver `rstream`: one `ReceiveStream` (real stream + connection flow controllers) per case.

  init <salt> <window> <connWindow>
  frame <id> <off> <len> <fin> <x>   => ok|E:T<code>|E:gaps|PANIC ev=<calls> done=<ids>
  reset <final> <reliable> <code>    => ok|E:T<code> ev= done=
  read <n>                           => <status> <bytes> ev= done=
  peek <n>                           => <status> <bytes> ev= done=
  cancel <code>                      => ok ev= done=
  shutdown                           => ok ev= done=
  ctrl                               => none|ss:<code>:<more>|msd:<v> ev= done=

status: ok | eof | cancel:<code>:<r|l> | cancel:nil | shutdown | wouldblock | PANIC
calls:  U<off>.<fin> R<n> A W (flow controller), C H D (sender: completed, hasStreamControlFrame, hasConnectionData)
-/

open Uquic.Oracle Uquic.Model.Reassembly Uquic.Spec.Reasm

structure Ghost where
  salt : Nat := 0
  window : Nat := 1048576          -- the driver's defaults when a (shrunk) case has no `init` line
  connWindow : Nat := 1099511627776
  recv : IvSet := []          -- bytes of frames the stream accepted
  rp : Nat := 0               -- bytes delivered to the reader so far (from the implementation's answers)
  final : Option Nat := none  -- established final size
  highest : Nat := 0
  tainted : Bool := false
  dead : Bool := false        -- gap limit / panic / frame beyond the offset space: nothing is judged any more
  closed : Bool := false      -- a transport error was answered: the connection is closing, limits are not judged any more
  resetCode : Option Nat := none
  reliable : Nat := 0
  reliableSet : Bool := false
  localCancel : Option Nat := none
  localCancelled : Bool := false
  shutdown : Bool := false
  eofSeen : Bool := false
  accepted : List Nat := []   -- ids of frames handed to the sorter
  doneIds : List Nat := []
  completedSeen : Bool := false

/-- the driver's default windows (used when a shrunk case has lost its `init` line) -/
def defaultStream : RStream :=
  { fc := { window := 1048576, windowSize := 1048576, conn := { window := 1099511627776, windowSize := 1099511627776 } } }

structure St where
  m : RStream := defaultStream
  mdead : Bool := false
  g : Ghost := {}

abbrev Fail := String × String × String

def fmtIds (l : List Nat) : String :=
  if l.isEmpty then "-" else ",".intercalate ((l.mergeSort (· ≤ ·)).map toString)

def parseIds (s : String) : List Nat :=
  if s == "-" || s == "" then [] else (s.splitOn ",").map natOf

def field (ws : List String) (key : String) : Option String :=
  ws.findSome? fun w => if w.startsWith key then some (w.drop key.length).toString else none

def tErr (code : Int) : String := s!"E:T{code}"

def fmtStreamErr : Option StreamErr → String
  | none => "ok"
  | some .finalSize => tErr Uquic.Gen.Reassembly.FinalSizeError
  | some .flowControl => tErr Uquic.Gen.Reassembly.FlowControlError
  | some .tooManyGaps => "E:gaps"
  | some .panic => "PANIC"

def fmtEv : Ev → Option String
  | .done _ => none
  | .fcUpdate o f => some s!"U{o}.{if f then 1 else 0}"
  | .fcRead n => some s!"R{n}"
  | .fcAbandon => some "A"
  | .fcWindow => some "W"
  | .completed => some "C"
  | .hasCtrl => some "H"
  | .hasConnData => some "D"

def fmtEvs (evs : List Ev) : String :=
  let calls := evs.filterMap fmtEv
  let dones := evs.filterMap fun | .done i => some i | _ => none
  s!"ev={if calls.isEmpty then "-" else ";".intercalate calls} done={fmtIds dones}"

def fmtStatus : RStatus → String
  | .ok => "ok" | .eof => "eof"
  | .cancelled (some (c, r)) => s!"cancel:{c}:{if r then "r" else "l"}"
  | .cancelled none => "cancel:nil"
  | .shutdown => "shutdown" | .deadline => "wouldblock" | .panic => "PANIC"

def doneFails (g : Ghost) (ids : List Nat) : List Fail := Id.run do
  let mut fails : List Fail := []
  let mut seen := g.doneIds
  for i in ids do
    if seen.contains i then
      fails := fails ++ [("buffer_done_once", "-", s!"buffer {i} released twice")]
    seen := i :: seen
  return fails

/-- monitors common to every op: released buffers, the completed callback -/
def commonFails (g : Ghost) (iw : List String) : Ghost × List Fail :=
  let ids := parseIds ((field iw "done=").getD "-")
  let calls := ((field iw "ev=").getD "-").splitOn ";"
  let nC := (calls.filter (· == "C")).length
  let fails := doneFails g ids ++
    (if nC > 1 || (nC == 1 && g.completedSeen) then [("completed_once", "-", "onStreamCompleted called twice")] else [])
  ({ g with doneIds := ids ++ g.doneIds, completedSeen := g.completedSeen || nC ≥ 1 }, fails)

/-- judged after the ghost was updated by the op: completion needs an established final size -/
def completedFails (g : Ghost) : List Fail :=
  if g.completedSeen && g.final.isNone && !g.dead then
    [("completed_needs_final_size", "-", "stream completed before the final size was known")] else []

/-- the transport error the ghost expects for an arriving final / non-final offset `hi` -/
def expectErr (g : Ghost) (hi : Nat) (fin : Bool) : String :=
  let finalErr := match g.final with
    | some f => hi > f || (fin && hi ≠ f)
    | none => fin && hi < g.highest
  if finalErr then tErr Uquic.Gen.Reassembly.FinalSizeError
  else if hi > g.highest && (hi > g.window || hi > g.connWindow) then tErr Uquic.Gen.Reassembly.FlowControlError
  else "ok"

/-- judge the bytes a read / peek delivered -/
def dataFails (g : Ghost) (what : String) (tok : String) : List Fail :=
  let n := tokLen tok
  if g.dead || n == 0 then [] else
  (if !ivCoversRange g.recv g.rp (g.rp + n) then
     [(what ++ "_only_received", "-", s!"[{g.rp},{g.rp + n}) delivered but not all of it was received")] else []) ++
  (if !g.tainted && tok != fmtBytes (srcSeg g.salt 0 g.rp n) then
     [(what ++ "_exact_bytes", "-", s!"[{g.rp},{g.rp + n}) delivered as {tok}, the source has {fmtBytes (srcSeg g.salt 0 g.rp n)}")] else [])

/-- judge the status of a read / peek of `asked` bytes that delivered `n` -/
def statusFails (g : Ghost) (what : String) (status : String) (asked n : Nat) : List Fail :=
  if g.dead then [] else
  let after := g.rp + n
  let isCancel := status.startsWith "cancel:"
  (if status == "eof" && g.final != some after then
     [(what ++ "_eof_at_final_size", "-", s!"EOF after {after} bytes, final size {g.final}")] else []) ++
  -- everything delivered and the final size known: a non-empty read must say EOF
  (if asked > 0 && what == "read" && g.final == some g.rp && g.resetCode.isNone && !g.localCancelled && !g.shutdown
       && status != "eof" then
     [("read_eof_when_complete", "-", s!"all {g.rp} bytes delivered and final size known, but read says {status}")] else []) ++
  (if status == "wouldblock" && n == 0 && g.final != some g.rp &&
      (if what == "read" then ivCovers g.recv g.rp else asked > 0 && ivCoversRange g.recv g.rp (g.rp + asked)) then
     [(what ++ "_progress", "-", s!"byte {g.rp} was received but the call would block")] else []) ++
  (if what == "read" && status == "ok" && n < asked && ivCovers g.recv after then
     [("read_short_only_at_gap", "-", s!"read returned {n} of {asked} bytes although byte {after} was received")] else []) ++
  -- a reset whose reliable prefix was delivered must be reported, not hidden behind a blocking call
  (if status == "wouldblock" && asked > 0 && g.resetCode.isSome && g.rp ≥ g.reliable && !g.localCancelled && !g.shutdown then
     [(what ++ "_reset_reported", "-", s!"the peer reset the stream (reliable size {g.reliable}), {g.rp} bytes were delivered, but the call would block")] else []) ++
  (if isCancel && status.endsWith ":r" then
     (match g.resetCode with
      | none => [(what ++ "_reset_error_unfounded", "-", "remote cancellation reported without RESET_STREAM")]
      | some c =>
        (if status != s!"cancel:{c}:r" then [(what ++ "_reset_code", "-", s!"{status}, the peer sent code {c}")] else []) ++
        (if after < g.reliable && !g.localCancelled then [(what ++ "_reset_before_reliable_size", "-", s!"reset error after {after} bytes, reliable size {g.reliable}")] else []))
   else []) ++
  (if isCancel && status.endsWith ":l" then
     (match g.localCancel with
      | none => [(what ++ "_cancel_error_unfounded", "-", "local cancellation reported without CancelRead")]
      | some c => if status != s!"cancel:{c}:l" then [(what ++ "_cancel_code", "-", s!"{status}, CancelRead used code {c}")] else [])
   else []) ++
  (if status == "shutdown" && !g.shutdown then [(what ++ "_shutdown_unfounded", "-", "shutdown error without closeForShutdown")] else [])

def step (s : St) (op impl : String) : St × StepOut :=
  let w := words op
  let iw := words impl
  let implHead := iw.headD ""
  if s.mdead && w.headD "" != "init" then (s, { model := "skip" }) else
  match w with
  | ["init", salt, win, cwin] =>
    let win := natOf win; let cwin := natOf cwin
    ({ s with m := { fc := { window := win, windowSize := win, conn := { window := cwin, windowSize := cwin } } },
              g := { s.g with salt := natOf salt, window := win, connWindow := cwin } }, { model := "ok" })
  | ["frame", id, off, len, fin, x] =>
    if natOf len > Uquic.Gen.Protocol.MaxPacketBufferSize.toNat then (s, { model := "skip" }) else   -- no receive buffer is that large
    let id := natOf id; let off := natOf off; let len := natOf len; let fin := fin == "1"; let x := natOf x
    let hi := off + len
    let r := s.m.handleStreamFrame off (srcSeg s.g.salt x off len) fin (some id)
    let model := s!"{fmtStreamErr r.err} {fmtEvs r.evs}"
    let (g, fails) := commonFails s.g iw
    let expect := expectErr g hi fin
    let expect := if expect == "ok" && !g.localCancelled && len > 0 &&
                     ivGapCount (ivInsert g.recv off hi) > maxStreamFrameSorterGaps then "E:gaps" else expect
    let fails := fails ++
      (if !g.dead && !g.closed && hi < maxByteCount && implHead != expect then
         [(if expect.startsWith "E:T6" || implHead.startsWith "E:T6" then "final_size_enforced"
           else if expect == "E:gaps" || implHead == "E:gaps" then "gap_limit_enforced" else "flow_limit_enforced", "-",
           s!"frame [{off},{hi}) fin={fin} with final={g.final} highest={g.highest} window={g.window}: answered {implHead}, expected {expect}")]
       else [])
    let ok := implHead == "ok"
    let pushed := ok && !g.localCancelled
    let g := { g with
      recv := if pushed && len > 0 then ivInsert g.recv off hi else g.recv,
      accepted := if pushed then id :: g.accepted else g.accepted,
      final := if ok && fin then some hi else g.final,
      highest := if ok then max g.highest hi else g.highest,
      tainted := g.tainted || (x ≠ 0 && len > 0),
      closed := g.closed || !ok,
      dead := g.dead || implHead == "E:gaps" || implHead == "PANIC" || hi ≥ maxByteCount }
    let tags := [s!"frame:{fmtStreamErr r.err}"] ++ (if fin then ["frame:fin"] else []) ++
      (if r.evs.any (fun e => match e with | .done _ => true | _ => false) then ["frame:done"] else []) ++
      (if r.evs.contains .completed then ["completed"] else [])
    ({ m := r.s, mdead := r.err == some .tooManyGaps || r.err == some .panic, g := g }, { model := model, tags := tags, fails := fails ++ completedFails g })
  | ["reset", fin, rel, code] =>
    let finalSize := natOf fin; let rel := natOf rel; let code := natOf code
    let r := s.m.handleResetStreamFrame finalSize rel code
    let model := s!"{fmtStreamErr r.err} {fmtEvs r.evs}"
    let (g, fails) := commonFails s.g iw
    let expect := if g.shutdown then "ok" else expectErr g finalSize true
    let fails := fails ++
      (if !g.dead && !g.closed && implHead != expect then
         [(if expect.startsWith "E:T6" || implHead.startsWith "E:T6" then "final_size_enforced" else "flow_limit_enforced", "-",
           s!"reset final={finalSize} with final={g.final} highest={g.highest} window={g.window}: answered {implHead}, expected {expect}")]
       else [])
    let ok := implHead == "ok" && !g.shutdown
    let g := { g with
      final := if ok then some finalSize else g.final,
      highest := if ok then max g.highest finalSize else g.highest,
      resetCode := if ok && g.resetCode.isNone && !g.localCancelled then some code else g.resetCode,
      reliable := if ok then (if g.reliableSet then min g.reliable rel else rel) else g.reliable,
      reliableSet := g.reliableSet || ok,
      closed := g.closed || implHead != "ok" }
    let tags := [s!"reset:{fmtStreamErr r.err}", if rel == 0 then "reset:plain" else "reset:at"] ++
      (if r.evs.contains .completed then ["completed"] else [])
    ({ s with m := r.s, g := g }, { model := model, tags := tags, fails := fails ++ completedFails g })
  | ["cancel", code] =>
    let code := natOf code
    let (m', evs) := s.m.cancelRead code
    let (g, fails) := commonFails s.g iw
    let effective := !g.localCancelled && !g.shutdown
    let g := { g with
      localCancel := if effective && !g.eofSeen && g.resetCode.isNone && g.localCancel.isNone then some code else g.localCancel,
      localCancelled := g.localCancelled || effective }
    ({ s with m := m', g := g }, { model := s!"ok {fmtEvs evs}", tags := ["cancel"] ++ (if evs.contains .completed then ["completed"] else []), fails := fails })
  | [rd, n] =>
    if rd != "read" && rd != "peek" then (s, { model := "bad-op" }) else
    let n := natOf n
    let r := if rd == "read" then s.m.read n else s.m.peek n
    let model := s!"{fmtStatus r.status} {fmtBytes r.data} {fmtEvs r.evs}"
    let (g, fails) := commonFails s.g iw
    let tok := iw.getD 1 "0:"
    let got := tokLen tok
    let fails := fails ++ dataFails g rd tok ++ statusFails g rd implHead n got ++
      (if !g.dead && got > n then [(rd ++ "_length", "-", s!"asked {n}, got {got}")] else [])
    let g := if rd == "read" then { g with rp := g.rp + got, eofSeen := g.eofSeen || implHead == "eof" } else g
    -- at EOF every buffer the stream took has been released
    let fails := fails ++
      (if rd == "read" && implHead == "eof" && !g.dead then
         match g.accepted.find? (fun i => !g.doneIds.contains i) with
         | some i => [("buffer_released", "-", s!"EOF delivered but buffer {i} was never released")]
         | none => []
       else [])
    let tags := [s!"{rd}:{(fmtStatus r.status).takeWhile (· ≠ ':')}"] ++
      (if r.data.length > 0 && r.data.length < n then [s!"{rd}:short"] else []) ++
      (if r.evs.any (fun e => match e with | .done _ => true | _ => false) then [s!"{rd}:done"] else []) ++
      (if r.evs.contains .completed then ["completed"] else []) ++
      (if r.evs.contains .hasCtrl then ["window-update-queued"] else [])
    ({ s with m := r.s, mdead := r.status == .panic, g := { g with dead := g.dead || implHead == "PANIC" } },
     { model := model, tags := tags, fails := fails })
  | ["shutdown"] =>
    let (g, fails) := commonFails s.g iw
    ({ s with m := s.m.closeForShutdown, g := { g with shutdown := true } }, { model := s!"ok {fmtEvs []}", tags := ["shutdown"], fails := fails })
  | ["ctrl"] =>
    let (m', f, evs) := s.m.getControlFrame
    let head := match f with
      | .none => "none"
      | .stopSending c more => s!"ss:{c}:{if more then 1 else 0}"
      | .maxStreamData v => s!"msd:{v}"
    let (g, fails) := commonFails s.g iw
    -- the window the peer may use grows by what the implementation announces
    let g := match implHead.splitOn ":" with
      | ["msd", v] => { g with window := max g.window (natOf v) }
      | _ => g
    let fails := fails ++
      (match implHead.splitOn ":" with
       | ["ss", c, _] => if g.localCancel != some (natOf c) then [("stop_sending_code", "-", s!"STOP_SENDING {c}, CancelRead used {g.localCancel}")] else []
       | _ => [])
    ({ s with m := m', g := g }, { model := s!"{head} {fmtEvs evs}", tags := [s!"ctrl:{(head.splitOn ":").headD ""}"], fails := fails })
  | _ => (s, { model := "bad-op" })

def main : IO Unit := run { init := ({} : St), step := step }
