/-
C12 helper lemmas: the Bool form of `LimitsCovered`, per-event arithmetic, the populated Config.
-/
import Uquic.Model.UQuic.Limits

namespace Uquic.Proofs.Limits
open Uquic.Gen Uquic.Model.UQuic.Limits

/-- executable form of `LimitsCovered` -/
def coveredB (a e : Limits) : Bool :=
  decide (a.connData ≤ e.connData) && decide (a.streamBidiLocal ≤ e.streamBidiLocal) &&
  decide (a.streamBidiRemote ≤ e.streamBidiRemote) && decide (a.streamUni ≤ e.streamUni) &&
  decide (a.streamsBidi ≤ e.streamsBidi) && decide (a.streamsUni ≤ e.streamsUni) &&
  decide (a.cids ≤ e.cids) && decide (a.datagram ≤ e.datagram) &&
  decide (0 < a.idle) && decide (a.idle ≤ e.idle)

theorem coveredB_iff (a e : Limits) : coveredB a e = true ↔ LimitsCovered a e := by
  simp only [coveredB, LimitsCovered, Bool.and_eq_true, decide_eq_true_eq]
  constructor
  · rintro ⟨⟨⟨⟨⟨⟨⟨⟨⟨h1, h2⟩, h3⟩, h4⟩, h5⟩, h6⟩, h7⟩, h8⟩, h9⟩, h10⟩
    exact ⟨h1, h2, h3, h4, h5, h6, h7, h8, h9, h10⟩
  · rintro ⟨h1, h2, h3, h4, h5, h6, h7, h8, h9, h10⟩
    exact ⟨⟨⟨⟨⟨⟨⟨⟨⟨h1, h2⟩, h3⟩, h4⟩, h5⟩, h6⟩, h7⟩, h8⟩, h9⟩, h10⟩

theorem stream_le {a e : Limits} (h : LimitsCovered a e) (k : StreamKind) : a.stream k ≤ e.stream k := by
  obtain ⟨_, h2, h3, h4, _⟩ := h
  cases k <;> simp only [Limits.stream] <;> assumption

theorem streams_le {a e : Limits} (h : LimitsCovered a e) (b : Bool) : a.streams b ≤ e.streams b := by
  obtain ⟨_, _, _, _, h5, h6, _⟩ := h
  cases b <;> simp [Limits.streams] <;> assumption

/-- one event: within the advertised limits and covered ⇒ the client's check does not fire -/
theorem event_no_fire {a e : Limits} (hc : LimitsCovered a e) (ev : PeerEvent) (hw : ev.within a) :
    ev.fires e = false := by
  cases ev with
  | streamData k h =>
    have := stream_le hc k
    simp only [PeerEvent.within] at hw
    simp only [PeerEvent.fires, decide_eq_false_iff_not]; omega
  | connData t =>
    obtain ⟨h1, _⟩ := hc
    simp only [PeerEvent.within] at hw
    simp only [PeerEvent.fires, decide_eq_false_iff_not]; omega
  | openStream b n =>
    have := streams_le hc b
    simp only [PeerEvent.within] at hw
    simp only [PeerEvent.fires, decide_eq_false_iff_not]; omega
  | newConnID q =>
    obtain ⟨_, _, _, _, _, _, h7, _⟩ := hc
    simp only [PeerEvent.within] at hw
    simp only [PeerEvent.fires, decide_eq_false_iff_not]; omega
  | datagram s =>
    obtain ⟨_, _, _, _, _, _, _, h8, _⟩ := hc
    simp only [PeerEvent.within] at hw
    simp only [PeerEvent.fires, Bool.or_eq_false_iff, decide_eq_false_iff_not]
    constructor <;> omega
  | silence ms peerIdle pto3 =>
    obtain ⟨_, _, _, _, _, _, _, _, h9, h10⟩ := hc
    simp only [PeerEvent.within, promisedIdle] at hw
    rw [if_pos h9] at hw
    have key : ¬ (ms ≥ effectiveIdle e.idle peerIdle pto3) := by
      unfold effectiveIdle
      by_cases hp : peerIdle > 0
      · rw [if_pos hp] at hw; rw [if_pos hp]
        have hw' : ms < min a.idle peerIdle := hw
        omega
      · rw [if_neg hp] at hw; rw [if_neg hp]
        have hw' : ms < a.idle := hw
        omega
    simp only [PeerEvent.fires, decide_eq_false_iff_not]
    exact key

/-! ### the populated Config -/

theorem populated_idle_pos (u : Config) (hv : u.Valid) : 0 < (populateConfig u).maxIdleTimeout := by
  obtain ⟨_, _, _, _, h⟩ := hv
  simp only [populateConfig, defaultIdleMs, Protocol.DefaultIdleTimeout]
  split <;> omega

theorem populated_streams_nonneg (u : Config) :
    0 ≤ (populateConfig u).maxIncomingStreams ∧ 0 ≤ (populateConfig u).maxIncomingUniStreams := by
  simp only [populateConfig, Protocol.DefaultMaxIncomingStreams, Protocol.DefaultMaxIncomingUniStreams]
  constructor <;> (split <;> try omega) <;> (split <;> omega)

end Uquic.Proofs.Limits
