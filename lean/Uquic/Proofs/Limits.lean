/-
C12 helper lemmas: the Bool form of `LimitsCovered`, per-event arithmetic, the populated Config.
-/
import Uquic.Model.UQuic.Limits

namespace Uquic.Proofs.Limits
open Uquic.Gen Uquic.Model.UQuic.Limits

/-- executable form of `LimitsCovered` -/
def coveredB (a e : Limits) : Bool :=
  decide (a.connData ≤ e.connData) && decide (a.streamBidiLocal ≤ e.streamBidiLocal) &&
  decide (a.streamBidiRemote ≤ e.streamBidiRemote) && decide (a.streamUni ≤ e.streamUni) &&
  decide (a.streamsBidi ≤ e.streamsBidi) && decide (a.streamsUni ≤ e.streamsUni) &&
  decide (a.cids ≤ e.cids) && decide (a.datagram ≤ e.datagram) &&
  decide (0 < a.idle) && decide (a.idle ≤ e.idle)

theorem coveredB_iff (a e : Limits) : coveredB a e = true ↔ LimitsCovered a e := by
  simp only [coveredB, LimitsCovered, Bool.and_eq_true, decide_eq_true_eq]
  constructor
  · rintro ⟨⟨⟨⟨⟨⟨⟨⟨⟨h1, h2⟩, h3⟩, h4⟩, h5⟩, h6⟩, h7⟩, h8⟩, h9⟩, h10⟩
    exact ⟨h1, h2, h3, h4, h5, h6, h7, h8, h9, h10⟩
  · rintro ⟨h1, h2, h3, h4, h5, h6, h7, h8, h9, h10⟩
    exact ⟨⟨⟨⟨⟨⟨⟨⟨⟨h1, h2⟩, h3⟩, h4⟩, h5⟩, h6⟩, h7⟩, h8⟩, h9⟩, h10⟩

theorem stream_le {a e : Limits} (h : LimitsCovered a e) (k : StreamKind) : a.stream k ≤ e.stream k := by
  obtain ⟨_, h2, h3, h4, _⟩ := h
  cases k <;> simp only [Limits.stream] <;> assumption

theorem streams_le {a e : Limits} (h : LimitsCovered a e) (b : Bool) : a.streams b ≤ e.streams b := by
  obtain ⟨_, _, _, _, h5, h6, _⟩ := h
  cases b <;> simp [Limits.streams] <;> assumption

/-- one event: within the advertised limits and covered ⇒ the client's check does not fire -/
theorem event_no_fire {a e : Limits} (hc : LimitsCovered a e) (ev : PeerEvent) (hw : ev.within a) :
    ev.fires e = false := by
  cases ev with
  | streamData k h =>
    have := stream_le hc k
    simp only [PeerEvent.within] at hw
    simp only [PeerEvent.fires, decide_eq_false_iff_not]; omega
  | connData t =>
    obtain ⟨h1, _⟩ := hc
    simp only [PeerEvent.within] at hw
    simp only [PeerEvent.fires, decide_eq_false_iff_not]; omega
  | openStream b n =>
    have := streams_le hc b
    simp only [PeerEvent.within] at hw
    simp only [PeerEvent.fires, decide_eq_false_iff_not]; omega
  | newConnID q =>
    obtain ⟨_, _, _, _, _, _, h7, _⟩ := hc
    simp only [PeerEvent.within] at hw
    simp only [PeerEvent.fires, decide_eq_false_iff_not]; omega
  | datagram s =>
    obtain ⟨_, _, _, _, _, _, _, h8, _⟩ := hc
    simp only [PeerEvent.within] at hw
    simp only [PeerEvent.fires, Bool.or_eq_false_iff, decide_eq_false_iff_not]
    constructor <;> omega
  | silence ms peerIdle pto3 =>
    obtain ⟨_, _, _, _, _, _, _, _, h9, h10⟩ := hc
    simp only [PeerEvent.within, promisedIdle] at hw
    rw [if_pos h9] at hw
    have key : ¬ (ms ≥ effectiveIdle e.idle peerIdle pto3) := by
      unfold effectiveIdle
      by_cases hp : peerIdle > 0
      · rw [if_pos hp] at hw; rw [if_pos hp]
        have hw' : ms < min a.idle peerIdle := hw
        omega
      · rw [if_neg hp] at hw; rw [if_neg hp]
        have hw' : ms < a.idle := hw
        omega
    simp only [PeerEvent.fires, decide_eq_false_iff_not]
    exact key

/-! ### `configCoveringAdvertised` + `newFlowController`: a Config recomputed from the advertised parameters covers them -/

theorem coverConfig_isrw_ge (c : Config) (p : OwnParams) (k : StreamKind) :
    p.streamData k ≤ (coverConfig c p).initialStreamReceiveWindow := by
  show p.streamData k ≤ max c.initialStreamReceiveWindow
      (max p.initialMaxStreamDataBidiLocal (max p.initialMaxStreamDataBidiRemote p.initialMaxStreamDataUni))
  cases k <;> simp only [OwnParams.streamData] <;> omega

/-- the window a stream of kind `k` starts with covers what was advertised for that kind, whether
    `newFlowController` uses the per-kind record (`some p`) or the Config's single window (`none`) -/
theorem streamWindow_covers (c : Config) (p : OwnParams) (adv : Option OwnParams) (hadv : adv = none ∨ adv = some p)
    (k : StreamKind) : p.streamData k ≤ streamWindow (coverConfig c p) adv k := by
  rcases hadv with h | h <;> subst h
  · exact coverConfig_isrw_ge c p k
  · exact Int.le_refl _

theorem coverConfig_conn_ge (c : Config) (p : OwnParams) :
    p.initialMaxData ≤ (coverConfig c p).initialConnectionReceiveWindow := by
  show p.initialMaxData ≤ (if Limits.specConnWindowExact then p.initialMaxData
    else max c.initialConnectionReceiveWindow p.initialMaxData)
  split <;> omega

theorem coverConfig_streams_ge (c : Config) (p : OwnParams) :
    p.maxBidiStreamNum ≤ (coverConfig c p).maxIncomingStreams ∧ p.maxUniStreamNum ≤ (coverConfig c p).maxIncomingUniStreams := by
  constructor
  · show p.maxBidiStreamNum ≤ (if Limits.specStreamCountsExact then p.maxBidiStreamNum else max c.maxIncomingStreams p.maxBidiStreamNum)
    split <;> omega
  · show p.maxUniStreamNum ≤ (if Limits.specStreamCountsExact then p.maxUniStreamNum else max c.maxIncomingUniStreams p.maxUniStreamNum)
    split <;> omega

theorem cover_config_covers (c : Config) (p : OwnParams) (adv : Option OwnParams) (hadv : adv = none ∨ adv = some p)
    (hidle : 0 < p.maxIdleTimeout) :
    LimitsCovered (advertised p) (enforced (coverConfig c p) adv p.activeConnectionIDLimit) := by
  refine ⟨?_, ?_, ?_, ?_, ?_, ?_, ?_, ?_, ?_⟩
  · exact coverConfig_conn_ge c p
  · exact streamWindow_covers c p adv hadv .bidiLocal
  · exact streamWindow_covers c p adv hadv .bidiRemote
  · exact streamWindow_covers c p adv hadv .uni
  · exact (coverConfig_streams_ge c p).1
  · exact (coverConfig_streams_ge c p).2
  · simp only [advertised, enforced, Protocol.DefaultActiveConnectionIDLimit, Protocol.MaxActiveConnectionIDs]
    split <;> omega
  · by_cases hd : p.maxDatagramFrameSize ≤ 0
    · have e : (advertised p).datagram = 0 := by
        show (if p.maxDatagramFrameSize ≤ 0 then 0 else min p.maxDatagramFrameSize receivable) = 0
        rw [if_pos hd]
      rw [e]
      show (0 : Int) ≤ if (coverConfig c p).enableDatagrams then Limits.MaxDatagramSize else 0
      split <;> simp [Limits.MaxDatagramSize]
    · have e : (advertised p).datagram = min p.maxDatagramFrameSize receivable := by
        show (if p.maxDatagramFrameSize ≤ 0 then 0 else min p.maxDatagramFrameSize receivable) = _
        rw [if_neg hd]
      have en : (coverConfig c p).enableDatagrams = true := by
        show (c.enableDatagrams || decide (p.maxDatagramFrameSize > 0)) = true
        have : p.maxDatagramFrameSize > 0 := by omega
        simp [this]
      rw [e]
      show min p.maxDatagramFrameSize receivable ≤ if (coverConfig c p).enableDatagrams then Limits.MaxDatagramSize else 0
      rw [en]
      simp only [receivable, Protocol.MaxPacketBufferSize, Limits.MaxDatagramSize, if_true]
      omega
  · have h2 : ¬ p.maxIdleTimeout ≤ 0 := by omega
    have e : (advertised p).idle = p.maxIdleTimeout := by
      show (if p.maxIdleTimeout ≤ 0 then 0 else p.maxIdleTimeout) = _
      rw [if_neg h2]
    rw [e]
    refine ⟨hidle, ?_⟩
    show p.maxIdleTimeout ≤ max c.maxIdleTimeout p.maxIdleTimeout
    omega

/-! ### when every listed id is recognised, the populated record is the full reading of the list -/

theorem populateWith_eq_recordAll (R : List Int) (ps : ParamList) (h : ∀ iv ∈ ps, R.contains iv.1 = true) :
    populateWith R ps = recordAll ps := by
  unfold populateWith recordAll
  generalize ({} : OwnParams) = init
  induction ps generalizing init with
  | nil => rfl
  | cons iv rest ih =>
    simp only [List.foldl_cons]
    rw [if_pos (h iv (by simp))]
    exact ih (fun q hq => h q (by simp [hq])) _

/-! ### the populated Config -/

theorem populated_idle_pos (u : Config) (hv : u.Valid) : 0 < (populateConfig u).maxIdleTimeout := by
  obtain ⟨_, _, _, _, h⟩ := hv
  simp only [populateConfig, defaultIdleMs, Protocol.DefaultIdleTimeout]
  split <;> omega

theorem populated_streams_nonneg (u : Config) :
    0 ≤ (populateConfig u).maxIncomingStreams ∧ 0 ≤ (populateConfig u).maxIncomingUniStreams := by
  simp only [populateConfig, Protocol.DefaultMaxIncomingStreams, Protocol.DefaultMaxIncomingUniStreams]
  constructor <;> (split <;> try omega) <;> (split <;> omega)

end Uquic.Proofs.Limits
