/-
Outgoing map: stream ids, the peer's limit, STREAMS_BLOCKED bookkeeping (C15).
-/
import Uquic.Proofs.StreamsOutgoing
import Uquic.Proofs.StreamsList

set_option linter.unusedSimpArgs false
set_option linter.unusedVariables false

namespace Uquic.Proofs.Streams
open Uquic.Model.Streams

theorem firstOutgoing_range (t : STyp) (p : Persp) : 0 ≤ firstOutgoing t p ∧ firstOutgoing t p ≤ 3 := by
  cases t <;> cases p <;> decide

theorem numToID_outgoing (t : STyp) (p : Persp) (n : Int) (h : n ≠ 0) :
    numToID n t p = firstOutgoing t p + 4 * n - 4 := by
  cases t <;> cases p <;>
    simp [numToID, h, firstOutgoing,
      Uquic.Gen.Protocol.FirstOutgoingBidiStreamClient, Uquic.Gen.Protocol.FirstOutgoingBidiStreamServer,
      Uquic.Gen.Protocol.FirstOutgoingUniStreamClient, Uquic.Gen.Protocol.FirstOutgoingUniStreamServer] <;> omega

/-- the peer's limit as a stream count (what a STREAMS_BLOCKED frame carries) -/
def limitNum (m : Outgoing) : Int := if m.maxStream = -1 then 0 else idToNum m.maxStream

structure IdInv (m : Outgoing) (k : Nat) : Prop where
  hnext : m.nextStream = firstOutgoing m.typ m.pers + 4 * (k : Int)
  hmax : m.maxStream = -1 ∨ ∃ c : Nat, 1 ≤ c ∧ m.maxStream = firstOutgoing m.typ m.pers + 4 * (c : Int) - 4
  below : ∀ id ∈ m.streams, ∃ i : Nat, i < k ∧ id = firstOutgoing m.typ m.pers + 4 * (i : Int)
  /-- whenever some queued caller cannot be served within the limit, STREAMS_BLOCKED was sent for it -/
  blocked : m.closeErr = none → m.openQueue ≠ [] →
    m.nextStream - 4 + 4 * (m.openQueue.length : Int) > m.maxStream → m.blockedSent = true

theorem idinv_new (t : STyp) (p : Persp) : IdInv (Outgoing.new t p) 0 := by
  constructor <;> simp [Outgoing.new, invalidStreamNum, Uquic.Gen.Protocol.InvalidStreamNum]

/-- the fields the id invariant talks about -/
structure SameIds (m m' : Outgoing) : Prop where
  h1 : m'.streams = m.streams
  h2 : m'.openQueue = m.openQueue
  h3 : m'.nextStream = m.nextStream
  h4 : m'.maxStream = m.maxStream
  h5 : m'.blockedSent = m.blockedSent
  h6 : m'.closeErr = m.closeErr
  h7 : m'.typ = m.typ
  h8 : m'.pers = m.pers

theorem SameIds.rfl' (m : Outgoing) : SameIds m m := ⟨rfl, rfl, rfl, rfl, rfl, rfl, rfl, rfl⟩

theorem SameIds.trans {a b c : Outgoing} (x : SameIds a b) (y : SameIds b c) : SameIds a c :=
  ⟨y.h1.trans x.h1, y.h2.trans x.h2, y.h3.trans x.h3, y.h4.trans x.h4, y.h5.trans x.h5, y.h6.trans x.h6,
   y.h7.trans x.h7, y.h8.trans x.h8⟩

theorem IdInv.of_same {m m' : Outgoing} {k : Nat} (h : IdInv m k) (s : SameIds m m') : IdInv m' k := by
  constructor
  · rw [s.h3, s.h7, s.h8]; exact h.hnext
  · rw [s.h4, s.h7, s.h8]; exact h.hmax
  · rw [s.h1, s.h7, s.h8]; exact h.below
  · rw [s.h2, s.h3, s.h4, s.h5, s.h6]; exact h.blocked

theorem same_updProc (m : Outgoing) (w : Nat) (f : Proc → Proc) : SameIds m (m.updProc w f) :=
  ⟨rfl, rfl, rfl, rfl, rfl, rfl, rfl, rfl⟩
theorem same_dropProc (m : Outgoing) (w : Nat) : SameIds m (m.dropProc w) :=
  ⟨rfl, rfl, rfl, rfl, rfl, rfl, rfl, rfl⟩
theorem same_maybeUnblock (m : Outgoing) : SameIds m m.maybeUnblock := by
  unfold Outgoing.maybeUnblock
  split
  · exact SameIds.rfl' m
  · split
    · exact SameIds.rfl' m
    · exact same_updProc _ _ _

/-! ### STREAMS_BLOCKED bookkeeping -/

def sbOfFrames (fs : List Frame) : List Int :=
  fs.filterMap fun f => match f with | .streamsBlocked _ l => some l | _ => none

structure SBFacts (m m' : Outgoing) (fs : List Frame) : Prop where
  mono : limitNum m ≤ limitNum m'
  keep : limitNum m' = limitNum m → m.blockedSent = true → m'.blockedSent = true
  sent : sbOfFrames fs = [] ∨
    (sbOfFrames fs = [limitNum m'] ∧ m'.blockedSent = true ∧ (limitNum m < limitNum m' ∨ m.blockedSent = false))
  /-- an outgoing map queues nothing but STREAMS_BLOCKED of its own type -/
  only : ∀ f ∈ fs, ∃ l, f = .streamsBlocked m.typ l

theorem SBFacts.of_same {m m' : Outgoing} (s : SameIds m m') : SBFacts m m' [] := by
  have : limitNum m' = limitNum m := by simp [limitNum, s.h4]
  exact ⟨by omega, fun _ h => by rw [s.h5]; exact h, Or.inl rfl, by simp⟩

theorem maybeSendBlocked_sb (m : Outgoing) :
    SBFacts m m.maybeSendBlocked.1 m.maybeSendBlocked.2 ∧
    m.maybeSendBlocked.1 = { m with blockedSent := true } := by
  unfold Outgoing.maybeSendBlocked
  by_cases hb : m.blockedSent = true
  · simp only [hb, if_true]
    refine ⟨SBFacts.of_same (SameIds.rfl' m), ?_⟩
    cases m; simp_all
  · have hb' : m.blockedSent = false := by simpa using hb
    simp only [hb', Bool.false_eq_true, if_false]
    refine ⟨⟨?_, fun _ _ => rfl, Or.inr ⟨?_, rfl, Or.inr hb'⟩, ?_⟩, by first | rfl | trivial⟩
    · simp [limitNum]
    · simp only [sbOfFrames, limitNum, invalidStreamID, Uquic.Gen.Protocol.InvalidStreamID]
      by_cases hm : m.maxStream = -1 <;> simp [hm]
    · intro f hf; simp at hf; exact ⟨_, hf⟩

/-! ### what each method does to ids, limit and frames -/

def idsOfRet : Ret → List Int
  | .stream id => [id]
  | _ => []

def idsOfOptRet : Option Ret → List Int
  | some r => idsOfRet r
  | none => []

structure MF (m m' : Outgoing) (ids : List Int) (fs : List Frame) : Prop where
  inv : ∀ k, IdInv m k → ∃ k', IdInv m' k'
  ids : (ids = [] ∧ m'.nextStream = m.nextStream) ∨
    (ids = [m.nextStream] ∧ m'.nextStream = m.nextStream + 4 ∧ m.nextStream ≤ m.maxStream)
  maxMono : m.maxStream ≤ m'.maxStream
  sb : SBFacts m m' fs
  typ : m'.typ = m.typ
  pers : m'.pers = m.pers

theorem MF.of_same {m m' : Outgoing} (s : SameIds m m') : MF m m' [] [] :=
  ⟨fun k h => ⟨k, h.of_same s⟩, Or.inl ⟨rfl, s.h3⟩, by rw [s.h4]; exact Int.le_refl _, SBFacts.of_same s, s.h7, s.h8⟩

theorem limitNum_eq_of_max {m m' : Outgoing} (h : m'.maxStream = m.maxStream) : limitNum m' = limitNum m := by
  simp [limitNum, h]

/-- a state that differs from `m` by one more opened stream (and possibly a shorter queue) -/
theorem mf_open (m m' : Outgoing) (hle : m.nextStream ≤ m.maxStream)
    (hs : m'.streams = m.nextStream :: m.streams.filter (· != m.nextStream))
    (hn : m'.nextStream = m.nextStream + 4) (hm : m'.maxStream = m.maxStream)
    (hb : m'.blockedSent = m.blockedSent) (hc : m'.closeErr = m.closeErr) (ht : m'.typ = m.typ) (hp : m'.pers = m.pers)
    (hq : m'.openQueue = [] ∨ (m.openQueue ≠ [] ∧ (m'.openQueue.length : Int) + 1 = m.openQueue.length)) :
    MF m m' [m.nextStream] [] := by
  refine ⟨?_, Or.inr ⟨rfl, hn, hle⟩, by rw [hm]; exact Int.le_refl _, ?_, ht, hp⟩
  · intro k h
    refine ⟨k + 1, ?_⟩
    constructor
    · rw [hn, ht, hp, h.hnext]; push_cast; omega
    · rw [hm, ht, hp]; exact h.hmax
    · intro id hid
      rw [hs] at hid
      rw [ht, hp]
      rcases List.mem_cons.mp hid with hid | hid
      · exact ⟨k, by omega, by rw [hid, h.hnext]⟩
      · obtain ⟨i, hi, he⟩ := h.below id (List.mem_filter.mp hid).1
        exact ⟨i, by omega, he⟩
    · intro hc' hne hgt
      rw [hb]
      rcases hq with hq | ⟨hq1, hq2⟩
      · exact absurd hq hne
      · apply h.blocked (by rw [← hc]; exact hc') hq1
        rw [hn, hm] at hgt; omega
  · exact ⟨by rw [limitNum_eq_of_max hm]; exact Int.le_refl _, fun _ h => by rw [hb]; exact h, Or.inl rfl, by simp⟩

theorem mf_openStream (m : Outgoing) : MF m m.openStream.1 (idsOfRet m.openStream.2.1) m.openStream.2.2 := by
  unfold Outgoing.openStream
  split
  · exact MF.of_same (SameIds.rfl' m)
  · next hc =>
    split
    · next hcond =>
      obtain ⟨sb, he⟩ := maybeSendBlocked_sb m
      simp only [idsOfRet]
      refine ⟨?_, Or.inl ⟨rfl, by rw [he]⟩, by rw [he]; exact Int.le_refl _, sb, by rw [he], by rw [he]⟩
      intro k h
      refine ⟨k, ?_⟩
      rw [he]
      exact ⟨h.hnext, h.hmax, h.below, fun _ _ _ => rfl⟩
    · next hcond =>
      have hq : m.openQueue = [] := by
        cases hq : m.openQueue with
        | nil => rfl
        | cons a b => simp [hq] at hcond
      have hle : m.nextStream ≤ m.maxStream := by
        have : ¬ (m.nextStream > m.maxStream) := by
          intro hgt; apply hcond; simp [hgt]
        omega
      exact mf_open m m.openRaw.1 hle rfl rfl rfl rfl rfl rfl rfl (Or.inl hq)

theorem mf_syncCall (m : Outgoing) (w : Nat) (c : Bool) :
    MF m (m.syncCall w c).1 (idsOfOptRet (m.syncCall w c).2.1) (m.syncCall w c).2.2 := by
  unfold Outgoing.syncCall
  split
  · exact MF.of_same (SameIds.rfl' m)
  split
  · exact MF.of_same (SameIds.rfl' m)
  · next hc =>
    split
    · exact MF.of_same (SameIds.rfl' m)
    split
    · next hcond =>
      have hq : m.openQueue = [] := by
        cases hq : m.openQueue with
        | nil => rfl
        | cons a b => simp [hq] at hcond
      have hle : m.nextStream ≤ m.maxStream := by
        simp [hq] at hcond; exact hcond
      exact mf_open m m.openRaw.1 hle rfl rfl rfl rfl rfl rfl rfl (Or.inl hq)
    · obtain ⟨sb, he⟩ := maybeSendBlocked_sb { m with openQueue := m.openQueue ++ [w], procs := m.procs ++ [({ wid := w } : Proc)] }
      simp only [idsOfOptRet]
      have hl : limitNum ({ m with openQueue := m.openQueue ++ [w], procs := m.procs ++ [({ wid := w } : Proc)] } : Outgoing) = limitNum m := rfl
      refine ⟨?_, Or.inl ⟨rfl, by rw [he]⟩, by rw [he]; exact Int.le_refl _, ?_, by rw [he], by rw [he]⟩
      · intro k h
        refine ⟨k, ?_⟩
        rw [he]
        exact ⟨h.hnext, h.hmax, h.below, fun _ _ _ => rfl⟩
      · exact ⟨by rw [← hl]; exact sb.mono, by rw [← hl]; exact sb.keep, by
          rcases sb.sent with s | s
          · exact Or.inl s
          · exact Or.inr s, sb.only⟩

theorem mf_wakeLocked (m : Outgoing) (w : Nat) (hf : FifoInv m) :
    MF m (m.wakeLocked w).1 (idsOfOptRet (m.wakeLocked w).2) [] ∧
    (∀ id, (m.wakeLocked w).2 = some (.stream id) → m.closeErr = none ∧ m.openQueue.head? = some w) := by
  unfold Outgoing.wakeLocked
  split
  · exact ⟨MF.of_same (SameIds.rfl' m), by simp⟩
  next p hfind =>
  obtain ⟨hp, hpw⟩ := findProc_some m w p hfind
  split
  · exact ⟨MF.of_same (SameIds.rfl' m), by simp⟩
  next hph =>
  have hph' : p.phase = .woken := by simpa using hph
  split
  · exact ⟨MF.of_same (same_dropProc m w), by simp⟩
  next hc =>
  split
  · exact ⟨MF.of_same (same_updProc m w _), by simp⟩
  · next hle =>
    have hle' : m.nextStream ≤ m.maxStream := by omega
    obtain ⟨rest, hq, _⟩ := head_of_woken m hf hc p hp hph'
    rw [hpw] at hq
    have hq' : m.openRaw.1.openQueue = w :: rest := hq
    simp only [hq', idsOfOptRet, idsOfRet]
    have s1 := same_maybeUnblock ({ m.openRaw.1 with openQueue := rest } : Outgoing)
    have s2 := same_dropProc ({ m.openRaw.1 with openQueue := rest } : Outgoing).maybeUnblock w
    have s := s1.trans s2
    refine ⟨mf_open m _ hle' s.h1 s.h3 s.h4 s.h5 s.h6 s.h7 s.h8
      (Or.inr ⟨by rw [hq]; simp, by rw [s.h2, hq]; simp⟩), ?_⟩
    intro id _
    exact ⟨hc, by rw [hq]; rfl⟩

theorem mf_cancelLocked (m : Outgoing) (w : Nat) :
    MF m (m.cancelLocked w).1 (idsOfOptRet (m.cancelLocked w).2) [] ∧
    (∀ id, (m.cancelLocked w).2 ≠ some (.stream id)) := by
  unfold Outgoing.cancelLocked
  split
  · exact ⟨MF.of_same (SameIds.rfl' m), by simp⟩
  split
  · exact ⟨MF.of_same (SameIds.rfl' m), by simp⟩
  · simp only [idsOfOptRet, idsOfRet]
    have s1 := same_maybeUnblock ({ m with openQueue := m.openQueue.filter (· != w) } : Outgoing)
    have s2 := same_dropProc ({ m with openQueue := m.openQueue.filter (· != w) } : Outgoing).maybeUnblock w
    have s := s1.trans s2
    refine ⟨⟨?_, Or.inl ⟨rfl, s.h3⟩, by rw [s.h4]; exact Int.le_refl _, ?_, s.h7, s.h8⟩, by simp⟩
    · intro k h
      refine ⟨k, ?_⟩
      constructor
      · rw [s.h3, s.h7, s.h8]; exact h.hnext
      · rw [s.h4, s.h7, s.h8]; exact h.hmax
      · rw [s.h1, s.h7, s.h8]; exact h.below
      · rw [s.h2, s.h3, s.h4, s.h5, s.h6]
        intro hc hne hgt
        have hlen : ((m.openQueue.filter (· != w)).length : Int) ≤ m.openQueue.length := by
          have := List.length_filter_le (· != w) m.openQueue; omega
        apply h.blocked hc
        · intro he; apply hne; show m.openQueue.filter (· != w) = []; rw [he]; rfl
        · have hgt' : m.nextStream - 4 + 4 * ((m.openQueue.filter (· != w)).length : Int) > m.maxStream := hgt
          omega
    · have hl : limitNum (({ m with openQueue := m.openQueue.filter (· != w) } : Outgoing).maybeUnblock.dropProc w) = limitNum m :=
        limitNum_eq_of_max s.h4
      exact ⟨by rw [hl]; exact Int.le_refl _, fun _ h => by rw [s.h5]; exact h, Or.inl rfl, by simp⟩

theorem limitNum_of_form (m : Outgoing) (first : Int) (hf0 : 0 ≤ first) (hf3 : first ≤ 3) (c : Nat) (hc : 1 ≤ c)
    (h : m.maxStream = first + 4 * (c : Int) - 4) : limitNum m = c := by
  have : m.maxStream ≠ -1 := by omega
  simp only [limitNum, this, if_false, idToNum, h]; omega

theorem limitNum_nonneg (m : Outgoing) (k : Nat) (h : IdInv m k) : 0 ≤ limitNum m := by
  have hfr := firstOutgoing_range m.typ m.pers
  rcases h.hmax with h1 | ⟨c, hc, h1⟩
  · simp [limitNum, h1]
  · rw [limitNum_of_form m _ hfr.1 hfr.2 c hc h1]; omega

theorem mf_setMax (m : Outgoing) (n : Int) (hn : 0 ≤ n) (k : Nat) (h : IdInv m k) :
    MF m (m.setMaxStream (numToID n m.typ m.pers)).1 [] (m.setMaxStream (numToID n m.typ m.pers)).2 ∧
    limitNum (m.setMaxStream (numToID n m.typ m.pers)).1 = max (limitNum m) n := by
  have hfr := firstOutgoing_range m.typ m.pers
  have hnn := limitNum_nonneg m k h
  unfold Outgoing.setMaxStream
  split
  · next hle =>
    refine ⟨MF.of_same (SameIds.rfl' m), ?_⟩
    show limitNum m = _
    by_cases hn0 : n = 0
    · subst hn0; omega
    · rw [numToID_outgoing _ _ _ hn0] at hle
      rcases h.hmax with h1 | ⟨c, hc, h1⟩
      · omega
      · rw [limitNum_of_form m _ hfr.1 hfr.2 c hc h1]; omega
  · next hgt =>
    simp only
    have hn0 : n ≠ 0 := by
      intro h0; subst h0
      have : numToID 0 m.typ m.pers = -1 := by simp [numToID, invalidStreamID, Uquic.Gen.Protocol.InvalidStreamID]
      rw [this] at hgt
      rcases h.hmax with h1 | ⟨c, hc, h1⟩ <;> omega
    have hid := numToID_outgoing m.typ m.pers n hn0
    obtain ⟨m1, hm1'⟩ : ∃ m1 : Outgoing, m1 = { m with maxStream := numToID n m.typ m.pers, blockedSent := false } := ⟨_, rfl⟩
    have hm1 := hm1'.symm
    have e1 : m1.maxStream = firstOutgoing m.typ m.pers + 4 * ((n.toNat : Nat) : Int) - 4 := by
      rw [← hm1]; show numToID n m.typ m.pers = _; rw [hid]; omega
    have e2 : m1.typ = m.typ := by rw [← hm1]
    have e3 : m1.pers = m.pers := by rw [← hm1]
    have e4 : m1.nextStream = m.nextStream := by rw [← hm1]
    have e5 : m1.streams = m.streams := by rw [← hm1]
    have e6 : m1.openQueue = m.openQueue := by rw [← hm1]
    have e7 : m1.closeErr = m.closeErr := by rw [← hm1]
    have e8 : m1.blockedSent = false := by rw [← hm1]
    have hl1 : limitNum m1 = n := by
      rw [limitNum_of_form m1 _ hfr.1 hfr.2 n.toNat (by omega) e1]; omega
    have hlt : limitNum m < n := by
      rw [numToID_outgoing _ _ _ hn0] at hgt
      rcases h.hmax with h1 | ⟨c, hc, h1⟩
      · simp [limitNum, h1]; omega
      · rw [limitNum_of_form m _ hfr.1 hfr.2 c hc h1]; omega
    obtain ⟨sb, he⟩ := maybeSendBlocked_sb m1
    -- the state before maybeUnblockOpenSync, and the frames
    have key : ∀ (m2 : Outgoing) (fs : List Frame),
        ((m2 = m1.maybeSendBlocked.1 ∧ fs = m1.maybeSendBlocked.2 ∧
            m1.maxStream < m1.nextStream - 4 + 4 * (m1.openQueue.length : Int)) ∨
          (m2 = m1 ∧ fs = [] ∧ ¬ m1.maxStream < m1.nextStream - 4 + 4 * (m1.openQueue.length : Int))) →
        MF m m2.maybeUnblock [] fs ∧ limitNum m2.maybeUnblock = max (limitNum m) n := by
      intro m2 fs hcase
      have s := same_maybeUnblock m2
      have hm2 : m2.maxStream = m1.maxStream ∧ m2.typ = m.typ ∧ m2.pers = m.pers ∧ m2.nextStream = m.nextStream ∧
          m2.streams = m.streams ∧ m2.openQueue = m.openQueue ∧ m2.closeErr = m.closeErr := by
        rcases hcase with ⟨rfl, _, _⟩ | ⟨rfl, _, _⟩
        · rw [he]; exact ⟨rfl, e2, e3, e4, e5, e6, e7⟩
        · exact ⟨rfl, e2, e3, e4, e5, e6, e7⟩
      obtain ⟨g1, g2, g3, g4, g5, g6, g7⟩ := hm2
      have hl2 : limitNum m2.maybeUnblock = n := by
        rw [limitNum_eq_of_max s.h4, limitNum_eq_of_max g1, hl1]
      refine ⟨⟨?_, Or.inl ⟨rfl, by rw [s.h3, g4]⟩, ?_, ?_, by rw [s.h7, g2], by rw [s.h8, g3]⟩, by rw [hl2]; omega⟩
      · intro k' h'
        refine ⟨k', ?_⟩
        constructor
        · rw [s.h3, s.h7, s.h8, g4, g2, g3]; exact h'.hnext
        · rw [s.h4, s.h7, s.h8, g1, g2, g3]; exact Or.inr ⟨n.toNat, by omega, e1⟩
        · rw [s.h1, s.h7, s.h8, g5, g2, g3]; exact h'.below
        · rw [s.h2, s.h3, s.h4, s.h5, s.h6, g1, g4, g6, g7]
          intro _ _ hgt'
          rcases hcase with ⟨rfl, _, _⟩ | ⟨rfl, _, hnc⟩
          · rw [he]
          · exfalso; apply hnc; rw [e4, e6]; omega
      · rw [s.h4, g1, e1]
        rw [numToID_outgoing _ _ _ hn0] at hgt; omega
      · refine ⟨by rw [hl2]; omega, fun he' => by rw [hl2] at he'; omega, ?_, ?_⟩
        · rcases hcase with ⟨rfl, rfl, _⟩ | ⟨rfl, rfl, _⟩
          · rcases sb.sent with s' | ⟨s1, s2, _⟩
            · exact Or.inl s'
            · refine Or.inr ⟨?_, by rw [s.h5]; exact s2, Or.inl (by rw [hl2]; exact hlt)⟩
              rw [s1, limitNum_eq_of_max s.h4]
          · exact Or.inl rfl
        · rcases hcase with ⟨rfl, rfl, _⟩ | ⟨rfl, rfl, _⟩
          · intro f hf; rw [← e2]; exact sb.only f hf
          · simp
    subst hm1'
    split
    · next hcond =>
      exact key _ _ (Or.inl ⟨rfl, rfl, hcond⟩)
    · next hcond =>
      exact key _ _ (Or.inr ⟨rfl, rfl, hcond⟩)

end Uquic.Proofs.Streams
