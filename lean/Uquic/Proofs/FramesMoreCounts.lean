/-
C09 (continued) helper lemmas: the frame COUNTS of QUICRandomFrames.buildInternal. The plan is
`numPING` PING frames, then `numCRYPTO` CRYPTO frames, then `numPADDING` PADDING frames (or none),
with every count inside the interval its draw and the documented clamping allow; the shuffle and
the serialisation keep the counts.
-/
import Uquic.Proofs.FramesMorePerm

namespace Uquic.Proofs.FramesMore
open Uquic.Spec.Framing Uquic.Spec.FramingMon Uquic.Model.UQuic.Frames Uquic.Proofs.Frames

/-- what `cryptoSafeRandUint64(min, max)` promises: a value of `[min, max)`, or `min` itself for a
    degenerate range -/
def InDraw (mn mx v : Nat) : Prop := mn ≤ v ∧ (v < mx ∨ (mx ≤ mn ∧ v = mn))

theorem chain_crypto {off off' : Nat} {fs : List QFrame}
    (h : Chain (fun o l => QFrame.crypto o l) off fs off') :
    fs.filter isPingQ = [] ∧ fs.filter isCryptoQ = fs ∧ fs.filter isPaddingQ = [] ∧ padBytesQ fs = 0 := by
  induction h with
  | nil => simp [padBytesQ]
  | cons hl _ ih =>
    obtain ⟨h1, h2, h3, h4⟩ := ih
    simp [List.filter_cons, isPingQ, isCryptoQ, isPaddingQ, padBytesQ, h1, h2, h3, h4]

theorem chain_padding {off off' : Nat} {fs : List QFrame}
    (h : Chain (fun _ l => QFrame.padding l) off fs off') :
    fs.filter isPingQ = [] ∧ fs.filter isCryptoQ = [] ∧ fs.filter isPaddingQ = fs ∧
      padBytesQ fs = off' - off ∧ ∀ f ∈ fs, ∃ l : Nat, f = QFrame.padding l ∧ 1 ≤ l := by
  induction h with
  | nil => simp [padBytesQ]
  | cons hl rest ih =>
    rename_i o l o' fs'
    obtain ⟨h1, h2, h3, h4, h5⟩ := ih
    have := rest.le
    refine ⟨?_, ?_, ?_, ?_, ?_⟩
    · simp [isPingQ, h1]
    · simp [isCryptoQ, h2]
    · simp [List.filter_cons, isPaddingQ, h3]
    · simp only [padBytesQ, h4, Int.toNat_natCast]; omega
    · intro f hf
      rcases List.mem_cons.mp hf with rfl | hf
      · exact ⟨l, rfl, hl⟩
      · exact h5 f hf

theorem replicate_ping_counts (k : Nat) :
    (List.replicate k QFrame.ping).filter isPingQ = List.replicate k QFrame.ping ∧
    (List.replicate k QFrame.ping).filter isCryptoQ = [] ∧
    (List.replicate k QFrame.ping).filter isPaddingQ = [] ∧ padBytesQ (List.replicate k QFrame.ping) = 0 := by
  induction k with
  | zero => simp [padBytesQ]
  | succ k ih =>
    obtain ⟨h1, h2, h3, h4⟩ := ih
    simp [List.replicate_succ, List.filter_cons, isPingQ, isCryptoQ, isPaddingQ, padBytesQ, h1, h2, h3, h4]

/-- the plan of `buildInternal` before the shuffle, with all its counts -/
structure PlanCounts (c : RFCfg) (data : List UInt8) (fl : List QFrame) : Prop where
  shape : ∃ (numPing nc : Nat) (cr pads : List QFrame) (dry : List UInt8),
    fl = List.replicate numPing QFrame.ping ++ cr ++ pads ∧
    InDraw c.minPing c.maxPing numPing ∧ InDraw c.minCrypto c.maxCrypto nc ∧
    cr.filter isCryptoQ = cr ∧ cr.filter isPingQ = [] ∧ cr.filter isPaddingQ = [] ∧ padBytesQ cr = 0 ∧
    cr.length = min (max nc 1) data.length - 1 + 1 ∧
    qfBuild (List.replicate numPing QFrame.ping ++ cr) data 0 = .ok dry ∧
    pads.filter isPaddingQ = pads ∧ pads.filter isPingQ = [] ∧ pads.filter isCryptoQ = [] ∧
    (∀ f ∈ pads, ∃ l : Nat, f = QFrame.padding l ∧ 1 ≤ l) ∧
    (c.length ≤ dry.length → pads = []) ∧
    (dry.length < c.length → ∃ np, InDraw c.minPad c.maxPad np ∧
      pads.length = min (max np 1) (c.length - dry.length) ∧ padBytesQ pads = c.length - dry.length)

theorem addPadding_counts {c : RFCfg} {fl : List QFrame} {dryLen : Nat} {d d' : Draws} {out : List QFrame}
    (h : addPadding c fl dryLen d = .ok (out, d')) :
    ∃ pads, out = fl ++ pads ∧
      pads.filter isPaddingQ = pads ∧ pads.filter isPingQ = [] ∧ pads.filter isCryptoQ = [] ∧
      (∀ f ∈ pads, ∃ l : Nat, f = QFrame.padding l ∧ 1 ≤ l) ∧
      (c.length ≤ dryLen → pads = []) ∧
      (dryLen < c.length → ∃ np, InDraw c.minPad c.maxPad np ∧
        pads.length = min (max np 1) (c.length - dryLen) ∧ padBytesQ pads = c.length - dryLen) := by
  unfold addPadding at h
  split at h
  · rename_i hlen
    cases hr : cryptoSafeRand c.minPad c.maxPad d with
    | none => rw [hr] at h; simp at h
    | some vd =>
      obtain ⟨np, d1⟩ := vd
      rw [hr] at h
      simp only [] at h
      have hrange := cryptoSafeRand_range hr
      have hk : (min (max np 1) (c.length - dryLen) - 1 = 0 ∨
          min (max np 1) (c.length - dryLen) - 1 + 1 ≤ c.length - dryLen) := by omega
      rcases cutLoop_spec (fun _ l => QFrame.padding l) _ (c.length - dryLen) 0 d1 fl hk with
        he | ⟨new, off', rem', d2, h1, h2, h3, h4, h5⟩
      · rw [he] at h; simp at h
      · rw [h1] at h
        simp only [Outcome.ok.injEq, Prod.mk.injEq] at h
        obtain ⟨rfl, _⟩ := h
        obtain ⟨c1, c2, c3, c4, c5⟩ := chain_padding h2
        have hrem : 1 ≤ rem' := h4 (by omega)
        refine ⟨new ++ [QFrame.padding rem'], by simp, ?_, ?_, ?_, ?_, by intro; omega, ?_⟩
        · simp [List.filter_append, c3, List.filter_cons, isPaddingQ]
        · simp [List.filter_append, c1, isPingQ]
        · simp [List.filter_append, c2, isCryptoQ]
        · intro f hf
          rcases List.mem_append.mp hf with hf | hf
          · exact c5 f hf
          · simp only [List.mem_singleton] at hf; exact ⟨rem', hf, hrem⟩
        · intro _
          refine ⟨np, hrange, by simp [h5]; omega, ?_⟩
          rw [padBytesQ_append, c4]
          simp only [padBytesQ, Int.toNat_natCast]; omega
  · rename_i hlen
    simp only [Outcome.ok.injEq, Prod.mk.injEq] at h
    obtain ⟨rfl, _⟩ := h
    exact ⟨[], by simp, rfl, rfl, rfl, by simp, fun _ => rfl, by intro; omega⟩

/-- `buildInternal` up to the shuffle: PINGs, then CRYPTO frames, then PADDING frames, every count
    inside the interval of its draw after the documented clamping -/
theorem rfPlan_counts {c : RFCfg} {data : List UInt8} {d d' : Draws} {fl : List QFrame}
    (h : rfPlan c data d = .ok (fl, d')) : PlanCounts c data fl := by
  unfold rfPlan at h
  cases hcb : checkBounds c with
  | some e => rw [hcb] at h; simp at h
  | none =>
    rw [hcb] at h
    simp only [] at h
    cases hp : cryptoSafeRand c.minPing c.maxPing d with
    | none => rw [hp] at h; simp at h
    | some vd =>
      obtain ⟨numPing, d1⟩ := vd
      rw [hp] at h
      simp only [] at h
      cases hc : cryptoSafeRand c.minCrypto c.maxCrypto d1 with
      | none => rw [hc] at h; simp at h
      | some vd2 =>
        obtain ⟨nc, d2⟩ := vd2
        rw [hc] at h
        simp only [] at h
        have hk : (min (max nc 1) data.length - 1 = 0 ∨ min (max nc 1) data.length - 1 + 1 ≤ data.length) := by omega
        rcases cutLoop_spec (fun off l => QFrame.crypto off l) _ data.length 0 d2
            (List.replicate numPing QFrame.ping) hk with he | ⟨new, off', rem', d3, h1, h2, h3, _, h5⟩
        · rw [he] at h; simp at h
        · rw [h1] at h
          simp only [] at h
          cases hdry : qfBuild (List.replicate numPing QFrame.ping ++ new ++ [QFrame.crypto (off' : Nat) 0]) data 0 with
          | ok dry =>
            rw [hdry] at h
            simp only [] at h
            cases hpad : addPadding c (List.replicate numPing QFrame.ping ++ new ++ [QFrame.crypto (off' : Nat) 0])
                dry.length d3 with
            | ok v =>
              obtain ⟨out, d4⟩ := v
              rw [hpad] at h
              simp only [Outcome.ok.injEq, Prod.mk.injEq] at h
              obtain ⟨rfl, _⟩ := h
              obtain ⟨pads, rfl, p1, p2, p3, p4, p5, p6⟩ := addPadding_counts hpad
              obtain ⟨c1, c2, c3, c4⟩ := chain_crypto h2
              refine ⟨numPing, nc, new ++ [QFrame.crypto (off' : Nat) 0], pads, dry, by simp,
                cryptoSafeRand_range hp, cryptoSafeRand_range hc, ?_, ?_, ?_, ?_, by simp [h5], ?_,
                p1, p2, p3, p4, p5, p6⟩
              · simp [List.filter_append, c2, List.filter_cons, isCryptoQ]
              · simp [List.filter_append, c1, isPingQ]
              · simp [List.filter_append, c3, isPaddingQ]
              · rw [padBytesQ_append, c4]; simp [padBytesQ]
              · rw [← hdry]; simp
            | err e => rw [hpad] at h; simp at h
            | panic => rw [hpad] at h; simp at h
            | wrap => rw [hpad] at h; simp at h
          | err e => rw [hdry] at h; simp at h
          | panic => rw [hdry] at h; simp at h
          | wrap => rw [hdry] at h; simp at h

/-- the counts of a plan as numbers -/
theorem PlanCounts.numbers {c : RFCfg} {data : List UInt8} {fl : List QFrame} (h : PlanCounts c data fl) :
    ∃ (numPing nc : Nat) (dry : List UInt8),
      InDraw c.minPing c.maxPing numPing ∧ InDraw c.minCrypto c.maxCrypto nc ∧
      (fl.filter isPingQ).length = numPing ∧
      (fl.filter isCryptoQ).length = min (max nc 1) data.length - 1 + 1 ∧
      qfBuild (fl.filter (fun f => !isPaddingQ f)) data 0 = .ok dry ∧
      (∀ f ∈ fl, ∀ l : Int, f = QFrame.padding l → 1 ≤ l) ∧
      (c.length ≤ dry.length → (fl.filter isPaddingQ).length = 0 ∧ padBytesQ fl = 0) ∧
      (dry.length < c.length → ∃ np, InDraw c.minPad c.maxPad np ∧
        (fl.filter isPaddingQ).length = min (max np 1) (c.length - dry.length) ∧
        padBytesQ fl = c.length - dry.length) := by
  obtain ⟨numPing, nc, cr, pads, dry, rfl, hp, hc, c1, c2, c3, c4, c5, hdry, p1, p2, p3, p4, p5, p6⟩ := h.shape
  obtain ⟨r1, r2, r3, r4⟩ := replicate_ping_counts numPing
  have hnp : (List.replicate numPing QFrame.ping ++ cr ++ pads).filter (fun f => !isPaddingQ f) =
      List.replicate numPing QFrame.ping ++ cr := by
    have e1 : (List.replicate numPing QFrame.ping).filter (fun f => !isPaddingQ f) = List.replicate numPing QFrame.ping := by
      rw [List.filter_eq_self]; intro x hx; rw [List.eq_of_mem_replicate hx]; rfl
    have e2 : cr.filter (fun f => !isPaddingQ f) = cr := by
      rw [List.filter_eq_self]; intro x hx
      have : x ∈ cr.filter isCryptoQ := by rw [c1]; exact hx
      have := (List.mem_filter.mp this).2
      cases x <;> simp_all [isCryptoQ, isPaddingQ]
    have e3 : pads.filter (fun f => !isPaddingQ f) = [] := by
      rw [List.filter_eq_nil_iff]; intro x hx
      have : x ∈ pads.filter isPaddingQ := by rw [p1]; exact hx
      have := (List.mem_filter.mp this).2
      simp [this]
    simp [List.filter_append, e1, e2, e3]
  refine ⟨numPing, nc, dry, hp, hc, ?_, ?_, by rw [hnp]; exact hdry, ?_, ?_, ?_⟩
  · simp [List.filter_append, r1, c2, p2]
  · simp [List.filter_append, r2, c1, p3, c5]
  · intro f hf l hl
    subst hl
    rcases List.mem_append.mp hf with hf | hf
    · rcases List.mem_append.mp hf with hf | hf
      · have := List.eq_of_mem_replicate hf; cases this
      · have : QFrame.padding l ∈ cr.filter isCryptoQ := by rw [c1]; exact hf
        have := (List.mem_filter.mp this).2
        simp [isCryptoQ] at this
    · obtain ⟨l', e, hl'⟩ := p4 _ hf
      simp only [QFrame.padding.injEq] at e
      omega
  · intro hle
    have := p5 hle
    subst this
    simp [List.filter_append, r3, c3, padBytesQ_append, r4, c4]
  · intro hlt
    obtain ⟨np, h1, h2, h3⟩ := p6 hlt
    refine ⟨np, h1, ?_, ?_⟩
    · simp [List.filter_append, r3, c3, p1, h2]
    · simp [padBytesQ_append, r4, c4, h3]

end Uquic.Proofs.FramesMore
