/-
Helper lemmas for Uquic.Props.C11Wire (receiver model of Uquic.Model.UQuic.ChWire).
-/
import Uquic.Model.UQuic.ChWire

set_option linter.unusedSectionVars false

namespace Uquic.Proofs.ChWire
open Uquic.Model.ChWire

variable {α : Type} [DecidableEq α]

theorem faithful_iff {S : List α} {f : Frame α} :
    faithful S f = true ↔ f.1 + f.2.length ≤ S.length ∧ (S.drop f.1).take f.2.length = f.2 := by
  simp [faithful]

/-- a faithful frame's byte for offset `i` is the stream's byte -/
theorem byteOf_faithful {S : List α} {f : Frame α} (h : faithful S f = true) {i : Nat} {b : α}
    (hb : byteOf f i = some b) : S[i]? = some b := by
  obtain ⟨_, heq⟩ := faithful_iff.mp h
  unfold byteOf at hb
  split at hb
  · rename_i hle
    have hlt : i - f.1 < f.2.length := by
      rcases Nat.lt_or_ge (i - f.1) f.2.length with c | c
      · exact c
      · rw [List.getElem?_eq_none c] at hb; cases hb
    rw [← heq, List.getElem?_take] at hb
    simp only [hlt, if_true, List.getElem?_drop] at hb
    have : f.1 + (i - f.1) = i := by omega
    rw [this] at hb
    exact hb
  · cases hb

theorem byteOf_isSome_of_covers {f : Frame α} {i : Nat} (h : covers f i = true) : (byteOf f i).isSome = true := by
  simp only [covers, Bool.and_eq_true, decide_eq_true_eq] at h
  unfold byteOf
  rw [if_pos h.1]
  have : i - f.1 < f.2.length := by omega
  simp [this]

theorem byteOf_none_of_not_covers {f : Frame α} {i : Nat} (h : covers f i = false) : byteOf f i = none := by
  unfold byteOf
  split
  · rename_i hle
    have : ¬ i < f.1 + f.2.length := by
      intro c
      simp [covers, hle, c] at h
    apply List.getElem?_eq_none
    omega
  · rfl

/-- soundness: whatever the receiver holds for offset `i` is the stream's byte -/
theorem recvAt_sound {S : List α} (keep : Bool) :
    ∀ (fs : List (Frame α)), (∀ f ∈ fs, faithful S f = true) → ∀ {i : Nat} {b : α},
      recvAt keep fs i = some b → S[i]? = some b := by
  intro fs
  induction fs with
  | nil => intro _ i b h; simp [recvAt] at h
  | cons f fs ih =>
    intro hf i b h
    have hf0 := hf f (List.mem_cons_self ..)
    have hfs : ∀ g ∈ fs, faithful S g = true := fun g hg => hf g (List.mem_cons_of_mem _ hg)
    unfold recvAt at h
    cases keep with
    | true =>
      simp only [if_true] at h
      cases hb : byteOf f i with
      | some c => rw [hb] at h; cases h; exact byteOf_faithful hf0 hb
      | none => rw [hb] at h; exact ih hfs h
    | false =>
      simp only [Bool.false_eq_true, if_false] at h
      cases hr : recvAt false fs i with
      | some c => rw [hr] at h; cases h; exact ih hfs hr
      | none => rw [hr] at h; exact byteOf_faithful hf0 h

/-- a covered offset is held by the receiver -/
theorem recvAt_isSome_of_covered (keep : Bool) :
    ∀ (fs : List (Frame α)) {i : Nat}, (∃ f ∈ fs, covers f i = true) → (recvAt keep fs i).isSome = true := by
  intro fs
  induction fs with
  | nil => intro i h; obtain ⟨f, hf, _⟩ := h; cases hf
  | cons g fs ih =>
    intro i h
    obtain ⟨f, hf, hc⟩ := h
    unfold recvAt
    cases keep with
    | true =>
      simp only [if_true]
      cases hb : byteOf g i with
      | some c => rfl
      | none =>
        simp only []
        rcases List.mem_cons.mp hf with e | e
        · subst e
          have := byteOf_isSome_of_covers hc
          rw [hb] at this; cases this
        · exact ih ⟨f, e, hc⟩
    | false =>
      simp only [Bool.false_eq_true, if_false]
      cases hr : recvAt false fs i with
      | some c => rfl
      | none =>
        simp only []
        rcases List.mem_cons.mp hf with e | e
        · subst e; exact byteOf_isSome_of_covers hc
        · have := ih (i := i) ⟨f, e, hc⟩
          rw [hr] at this; cases this

/-- an offset no frame covers is not held -/
theorem recvAt_none_of_uncovered (keep : Bool) :
    ∀ (fs : List (Frame α)) {i : Nat}, (∀ f ∈ fs, covers f i = false) → recvAt keep fs i = none := by
  intro fs
  induction fs with
  | nil => intro i _; rfl
  | cons g fs ih =>
    intro i h
    have hg := byteOf_none_of_not_covers (h g (List.mem_cons_self ..))
    have hr := ih (i := i) (fun f hf => h f (List.mem_cons_of_mem _ hf))
    unfold recvAt
    cases keep <;> simp [hg, hr]

theorem firstUnfaithful_none_iff {S : List α} {fs : List (Frame α)} :
    firstUnfaithful S fs = none ↔ ∀ f ∈ fs, faithful S f = true := by
  simp [firstUnfaithful, List.find?_eq_none]

theorem firstGap_none_iff {fs : List (Frame α)} {n : Nat} :
    firstGap fs n = none ↔ ∀ i, i < n → ∃ f ∈ fs, covers f i = true := by
  simp [firstGap, List.find?_eq_none]

/-- an unfaithful, non-empty frame holds a byte that is not the stream's byte at that offset
    (a different byte, or a byte beyond the end of the stream) -/
theorem unfaithful_has_wrong_byte {S : List α} {f : Frame α} (hne : f.2 ≠ []) (h : faithful S f = false) :
    ∃ i b, byteOf f i = some b ∧ S[i]? ≠ some b := by
  by_cases hlen : f.1 + f.2.length ≤ S.length
  · -- inside the stream: some byte differs
    have hneq : (S.drop f.1).take f.2.length ≠ f.2 := by
      intro c
      have := faithful_iff.mpr ⟨hlen, c⟩
      rw [h] at this; cases this
    have hl : ((S.drop f.1).take f.2.length).length = f.2.length := by
      simp only [List.length_take, List.length_drop]; omega
    have : ∃ j, ∃ (hj : j < f.2.length), ((S.drop f.1).take f.2.length)[j]? ≠ f.2[j]? := by
      apply Classical.byContradiction
      intro hno
      apply hneq
      apply List.ext_getElem?
      intro j
      by_cases hj : j < f.2.length
      · apply Classical.byContradiction
        intro c
        exact hno ⟨j, hj, c⟩
      · rw [List.getElem?_eq_none (by omega), List.getElem?_eq_none (by omega)]
    obtain ⟨j, hj, hd⟩ := this
    refine ⟨f.1 + j, f.2[j], ?_, ?_⟩
    · unfold byteOf
      rw [if_pos (by omega)]
      have : f.1 + j - f.1 = j := by omega
      rw [this]
      exact List.getElem?_eq_getElem hj
    · intro c
      apply hd
      rw [List.getElem?_take]
      simp only [hj, if_true, List.getElem?_drop]
      rw [c, List.getElem?_eq_getElem hj]
  · -- reaches beyond the end of the stream: its last byte has no counterpart
    have hpos : 0 < f.2.length := by
      cases hf : f.2 with
      | nil => exact absurd hf hne
      | cons _ _ => simp
    refine ⟨f.1 + (f.2.length - 1), f.2[f.2.length - 1]'(by omega), ?_, ?_⟩
    · unfold byteOf
      rw [if_pos (by omega)]
      have : f.1 + (f.2.length - 1) - f.1 = f.2.length - 1 := by omega
      rw [this]
      exact List.getElem?_eq_getElem (by omega)
    · rw [List.getElem?_eq_none (by omega)]
      intro c; cases c

end Uquic.Proofs.ChWire
