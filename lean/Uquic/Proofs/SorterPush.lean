/-
C03: `frameSorter.push` (all paths) on a state satisfying the invariant.
-/
import Uquic.Proofs.SorterPushNe
namespace Uquic.Proofs.Sorter
open Uquic.Model.Reassembly

theorem split_at {rest : List Gap} {j : Nat} {eg : Gap} (h : rest[j]? = some eg) :
    rest = rest.take j ++ eg :: rest.drop (j + 1) ∧ (rest.take j).length = j := by
  have hj : j < rest.length := by
    rcases Nat.lt_or_ge j rest.length with hlt | hge
    · exact hlt
    · rw [List.getElem?_eq_none hge] at h; cases h
  have hget : rest[j] = eg := by
    rw [List.getElem?_eq_getElem hj] at h; exact Option.some.inj h
  refine ⟨?_, by simp [List.length_take]; omega⟩
  rw [← hget, ← List.drop_eq_getElem_cons hj, List.take_append_drop]

theorem last_in_tail {pre : List Gap} {sg : Gap} {rest : List Gap} {v : Gap}
    (h : (pre ++ sg :: rest).getLast? = some v) : v ∈ sg :: rest := by
  rw [List.getLast?_append] at h
  cases hl : (sg :: rest).getLast? with
  | none => simp at hl
  | some w =>
    rw [hl] at h
    simp at h
    subst h
    exact List.mem_of_getLast? hl

/-- `frameSorter.push` on a state satisfying the invariant, for a frame consistent with the source -/
theorem pushInner_spec {src : Nat → UInt8} {s : Sorter} (h : Inv src s) (data : Bytes) (off : Nat) (cb : Option Nat)
    (hmax : off + data.length < maxByteCount) (hsrc : ∀ j, j < data.length → data[j]? = some (src (off + j))) :
    PushDup s off (off + data.length) (s.pushInner data off cb) ∨
    PushNew src s off (off + data.length) cb (s.pushInner data off cb) := by
  unfold Sorter.pushInner
  split
  · rename_i hl
    left
    exact ⟨rfl, rfl, rfl, by intro p hp1 hp2; omega⟩
  rename_i hl
  have hse : off < off + data.length := by omega
  have hdok : DataOK src data off (off + data.length) := ⟨by omega, hsrc⟩
  obtain ⟨xl, hxl⟩ := h.glast
  split
  · rename_i hg; rw [hg] at hxl; simp at hxl
  rename_i g0 gtl hg
  simp only
  split
  · -- the frame ends at or before the first gap
    rename_i hle
    left
    refine ⟨rfl, rfl, rfl, ?_⟩
    intro p hp1 hp2 ⟨g, hgm, h1, h2⟩
    rw [hg] at hgm
    rcases List.mem_cons.mp hgm with hgm | hgm
    · subst hgm; omega
    · have hwf := h.gwf
      rw [hg] at hwf
      have := hwf.head_lt g hgm
      have := hwf.pos g0 (by simp)
      omega
  rename_i hfront
  have hlastmem : (xl, maxByteCount) ∈ s.gaps := List.mem_of_getLast? hxl
  split
  · -- findStartGap = none
    rename_i hfs
    have := findStartGap_none hfs _ hlastmem
    simp only at this
    omega
  rename_i i sIn hfs
  obtain ⟨sg, rest, hdrop, htake, hsin, hsout⟩ := findStartGap_some hfs
  rw [hdrop]
  simp only
  have hgaps : s.gaps = s.gaps.take i ++ sg :: rest := by rw [← hdrop, List.take_append_drop]
  have hwf : GapsWF (s.gaps.take i ++ sg :: rest) := hgaps ▸ h.gwf
  have hsgmem : sg ∈ s.gaps := by rw [hgaps]; simp
  have hsgpos := h.gwf.pos sg hsgmem
  split
  · -- nogap
    rename_i hfe
    have hall := findEndGap_nogap hfe
    have hlm : (xl, maxByteCount) ∈ sg :: rest := last_in_tail (hgaps ▸ hxl)
    have := hall _ hlm
    have hp := h.gwf.pos _ hlastmem
    simp only at this hp
    omega
  · -- prev 0: the frame lies completely below startGap
    rename_i hfe
    obtain ⟨g, hg0, hlt, _⟩ := findEndGap_prev hfe
    simp only [List.getElem?_cons_zero, Option.some.injEq] at hg0
    subst hg0
    split
    · rename_i hnone
      -- startGap is the first gap: contradiction with the first check
      have : s.gaps.take i = [] := by
        cases hq : s.gaps.take i with
        | nil => rfl
        | cons a l => rw [hq] at hnone; simp at hnone
      have h0 : s.gaps = sg :: rest := by rw [hgaps, this]; simp
      rw [hg] at h0
      cases h0
      omega
    · rename_i eg' hsome
      have hegm : eg' ∈ s.gaps.take i := List.mem_of_getLast? hsome
      have h1 := hwf.cross eg' hegm sg (by simp)
      have h2 := hwf.of_append_left.pos eg' hegm
      rw [if_pos ⟨by omega, by omega⟩]
      left
      refine ⟨rfl, rfl, rfl, ?_⟩
      intro p hp1 hp2
      rw [hgaps]
      exact not_inGap_between hwf htake hp1 (by omega)
  · -- found k
    rename_i k hfe
    obtain ⟨g, hgk, hg1, hg2, _⟩ := findEndGap_found hfe
    cases k with
    | zero =>
      simp only [List.getElem?_cons_zero, Option.some.injEq] at hgk
      subst hgk
      exact pushBody_eq h data off _ cb _ sg rest sIn true hgaps hse hmax hdok htake hsin hsout
        (fun _ => ⟨hg1, hg2⟩) (by simp)
    | succ j =>
      simp at hgk
      obtain ⟨hsplit, hlen⟩ := split_at hgk
      rw [hsplit] at hgaps ⊢
      have := pushBody_ne h data off _ cb _ sg (rest.take j) g (rest.drop (j + 1)) sIn true hgaps hse hmax hdok
        htake hsin hsout (fun _ => ⟨hg1, hg2⟩) (by simp)
      rw [hlen] at this
      exact this
  · -- prev (k+1)
    rename_i k hfe
    obtain ⟨nx, hnx, hlt, hall⟩ := findEndGap_prev hfe
    cases k with
    | zero =>
      simp at hnx
      have hsg := hall sg (by simp)
      refine pushBody_eq h data off _ cb _ sg rest sIn false hgaps hse hmax hdok htake hsin hsout (by simp)
        (fun _ => ⟨hsg.2 hsgpos, nx, ?_, hlt⟩)
      cases rest with
      | nil => simp at hnx
      | cons r rs => simp at hnx; subst hnx; rfl
    | succ j =>
      simp at hnx
      have hj : j < rest.length := by
        rcases Nat.lt_or_ge j rest.length with hlt' | hge
        · exact hlt'
        · have : rest[j + 1]? = none := List.getElem?_eq_none (by omega)
          rw [this] at hnx; cases hnx
      have hgk : rest[j]? = some rest[j] := List.getElem?_eq_getElem hj
      obtain ⟨hsplit, hlen⟩ := split_at hgk
      have heg := hall rest[j] (by
        simp only [List.take_succ_cons]
        apply List.mem_cons_of_mem
        rw [List.mem_take_iff_getElem]
        exact ⟨j, by omega, rfl⟩)
      have hegmem : rest[j] ∈ s.gaps := by rw [hgaps]; simp
      have hegpos := h.gwf.pos _ hegmem
      have hpost : (rest.drop (j + 1)).head? = some nx := by
        rw [List.head?_drop]; exact hnx
      rw [hsplit] at hgaps ⊢
      have := pushBody_ne h data off _ cb _ sg (rest.take j) rest[j] (rest.drop (j + 1)) sIn false hgaps hse hmax hdok
        htake hsin hsout (by simp) (fun _ => ⟨heg.2 hegpos, nx, hpost, hlt⟩)
      rw [hlen] at this
      exact this
end Uquic.Proofs.Sorter
