/-
The interval-list history refines the set-based specification, step by step.
-/
import Uquic.Proofs.RcvSet
import Uquic.Proofs.RcvHandler

namespace Uquic.Proofs.Rcv
open Uquic.Model.Rcv Uquic.Spec.RcvSet

theorem insertAsc_mem (p : Int) (t : List Int) (q : Int) : q ∈ insertAsc p t ↔ q = p ∨ q ∈ t := by
  induction t with
  | nil => simp [insertAsc]
  | cons x xs ih =>
    unfold insertAsc
    split
    · simp
    · split
      · rename_i h; subst h; simp
      · simp [ih]
        constructor
        · rintro (h | h | h)
          · exact Or.inr (Or.inl h)
          · exact Or.inl h
          · exact Or.inr (Or.inr h)
        · rintro (h | h | h)
          · exact Or.inr (Or.inl h)
          · exact Or.inl h
          · exact Or.inr (Or.inr h)

theorem Asc_cons_of {x : Int} {xs : List Int} (h : Asc xs) (hlt : ∀ y ∈ xs, x < y) : Asc (x :: xs) := by
  cases xs with
  | nil => trivial
  | cons y ys => exact ⟨hlt y (by simp), h⟩

theorem insertAsc_asc (p : Int) (t : List Int) (h : Asc t) : Asc (insertAsc p t) := by
  induction t with
  | nil => simp [insertAsc, Asc]
  | cons x xs ih =>
    unfold insertAsc
    split
    · rename_i hlt; exact ⟨hlt, h⟩
    · split
      · exact h
      · rename_i h1 h2
        apply Asc_cons_of (ih h.tail)
        intro y hy
        rcases (insertAsc_mem p xs y).mp hy with rfl | hy
        · omega
        · exact h.head_lt y hy

theorem filter_asc (f : Int → Bool) (t : List Int) (h : Asc t) : Asc (t.filter f) := by
  induction t with
  | nil => simp [Asc]
  | cons x xs ih =>
    simp only [List.filter_cons]
    split
    · apply Asc_cons_of (ih h.tail)
      intro y hy
      exact h.head_lt y (List.mem_filter.mp hy).1
    · exact ih h.tail

/-- in a WF list everything in a suffix lies at least two below everything in the prefix -/
theorem WF_split (a b : List Range) (h : WF (a ++ b)) : ∀ x ∈ a, ∀ y ∈ b, y.2 + 1 < x.1 := by
  induction a with
  | nil => simp
  | cons r rest ih =>
    intro x hx y hy
    rcases List.mem_cons.mp hx with rfl | hx
    · exact h.2.1 y (List.mem_append.mpr (Or.inr hy))
    · exact ih h.2.2 x hx y hy

/-- what `take n` keeps of a WF list: exactly the covered numbers at or above the lowest kept start -/
theorem covers_take_iff (n : Nat) (l : List Range) (hw : WF l) (low : Range)
    (hl : (l.take n).getLast? = some low) (q : Int) :
    covers (l.take n) q ↔ covers l q ∧ low.1 ≤ q := by
  have hsplit : WF (l.take n ++ l.drop n) := by rw [List.take_append_drop]; exact hw
  have hlowmem : low ∈ l.take n := List.mem_of_getLast? hl
  constructor
  · intro hq
    refine ⟨covers_take n l q hq, ?_⟩
    obtain ⟨x, hx, a, b⟩ := hq
    -- x is `low` or lies before it in the descending list: its start is ≥ low's start
    have : low.1 ≤ x.1 := by
      obtain ⟨pre, hpre⟩ : ∃ pre, l.take n = pre ++ [low] := by
        have := List.getLast?_eq_some_iff.mp hl
        obtain ⟨ys, hys⟩ := this
        exact ⟨ys, hys⟩
      rw [hpre] at hx
      rcases List.mem_append.mp hx with hx | hx
      · have hw' : WF (pre ++ ([low] ++ l.drop n)) := by
          rw [← List.append_assoc, ← hpre]; exact hsplit
        have := WF_split pre ([low] ++ l.drop n) hw' x hx low (by simp)
        have := (WF.all_wf (WF_take n l hw)) low hlowmem
        omega
      · simp at hx; subst hx; exact Int.le_refl _
    omega
  · rintro ⟨hq, hge⟩
    rcases covers_take_or_drop n l q hq with h | ⟨y, hy, a, b⟩
    · exact h
    · have := WF_split (l.take n) (l.drop n) hsplit low hlowmem y hy
      omega

structure Rel (h : Hist) (s : SetHist) : Prop where
  floor : h.deletedBelow = s.floor
  asc : Asc s.tracked
  wf : WF h.ranges
  len : h.ranges.length ≤ maxNumAckRanges
  same : ∀ q, covers h.ranges q ↔ q ∈ s.tracked

theorem Rel.init : Rel {} {} := ⟨rfl, trivial, by simp [WF], by simp, by simp⟩

theorem Rel.ranges_eq {h : Hist} {s : SetHist} (r : Rel h s) : h.ranges = s.ranges :=
  ranges_eq_runs h.ranges s.tracked r.wf r.asc r.same

theorem Rel.dup_eq {h : Hist} {s : SetHist} (r : Rel h s) (p : Int) :
    h.isPotentiallyDuplicate p = s.isDup p := by
  unfold Hist.isPotentiallyDuplicate SetHist.isDup
  rw [r.floor]
  by_cases hlt : p < s.floor
  · simp [hlt]
  · simp only [hlt, if_false, decide_false, Bool.false_or]
    have h1 := dupScan_iff p h.ranges r.wf
    have h2 := r.same p
    cases hd : dupScan p h.ranges <;> cases hc : s.tracked.contains p <;> simp_all

theorem Rel.recv {h : Hist} {s : SetHist} (r : Rel h s) (p : Int) :
    Rel (h.receivedPacket p).1 (s.recv p).1 ∧ (h.receivedPacket p).2 = (s.recv p).2 := by
  have hf := r.floor
  unfold Hist.receivedPacket SetHist.recv
  by_cases hlt : p < h.deletedBelow
  · have hlt' : p < s.floor := by omega
    simp only [hlt, hlt', if_true]
    exact ⟨r, by simp⟩
  · have hlt' : ¬ p < s.floor := by omega
    simp only [hlt, hlt', if_false]
    have hnew := addRev_isNew p h.ranges r.wf
    by_cases hc : s.tracked.contains p = true
    · -- already tracked: not new, nothing changes
      have hcov : covers h.ranges p := (r.same p).mpr (by simpa using hc)
      have hb : (addRev p h.ranges).2 = false := hnew.mpr hcov
      have he := addRev_not_new_eq p h.ranges hb
      simp only [hc, if_true]
      refine ⟨?_, hb⟩
      have hlen := r.len
      have hnl : ¬ h.ranges.length > maxNumAckRanges := by omega
      simp only [he, hnl, if_false]
      exact r
    · have hc' : s.tracked.contains p = false := by simpa using hc
      have hncov : ¬ covers h.ranges p := fun hh => by
        have := (r.same p).mp hh; simp [this] at hc'
      have hb : (addRev p h.ranges).2 = true := by
        cases hbb : (addRev p h.ranges).2
        · exact absurd (hnew.mp hbb) hncov
        · rfl
      simp only [hc', Bool.false_eq_true, if_false]
      refine ⟨?_, hb⟩
      -- l = the ranges after insertion, t = the set after insertion
      have hwl := addRev_wf p h.ranges r.wf
      have hat := insertAsc_asc p s.tracked r.asc
      have hsame : ∀ q, covers (addRev p h.ranges).1 q ↔ q ∈ insertAsc p s.tracked := by
        intro q
        rw [addRev_covers p h.ranges r.wf q, insertAsc_mem, r.same q]
        constructor
        · rintro (a | a)
          · exact Or.inr a
          · exact Or.inl a
        · rintro (a | a)
          · exact Or.inr a
          · exact Or.inl a
      have hruns := ranges_eq_runs _ _ hwl hat hsame
      unfold capTo
      rw [← hruns]
      by_cases hlong : (addRev p h.ranges).1.length > maxNumAckRanges
      · have hnle : ¬ (addRev p h.ranges).1.length ≤ maxNumAckRanges := by omega
        simp only [hlong, if_true, hnle, if_false]
        -- the kept prefix is non-empty
        have hne : (addRev p h.ranges).1.take maxNumAckRanges ≠ [] := by
          intro e
          have hl := congrArg List.length e
          rw [List.length_take, List.length_nil] at hl
          have := cap_pos
          omega
        obtain ⟨low, hlow⟩ : ∃ low, ((addRev p h.ranges).1.take maxNumAckRanges).getLast? = some low := by
          cases hg : ((addRev p h.ranges).1.take maxNumAckRanges).getLast? with
          | none => exact absurd (List.getLast?_eq_none_iff.mp hg) hne
          | some low => exact ⟨low, rfl⟩
        simp only [hlow]
        refine ⟨hf, filter_asc _ _ hat, WF_take _ _ hwl, by rw [List.length_take]; omega, ?_⟩
        intro q
        simp only
        rw [covers_take_iff _ _ hwl low hlow q, hsame q, List.mem_filter]
        simp
      · have hle : (addRev p h.ranges).1.length ≤ maxNumAckRanges := by omega
        simp only [hlong, if_false, hle, if_true]
        exact ⟨hf, hat, hwl, hle, hsame⟩

theorem Rel.del {h : Hist} {s : SetHist} (r : Rel h s) (p : Int) :
    Rel (h.deleteBelow p) (s.deleteBelow p) := by
  have hf := r.floor
  unfold Hist.deleteBelow SetHist.deleteBelow
  by_cases hlt : p < h.deletedBelow
  · have hlt' : p < s.floor := by omega
    simp only [hlt, hlt', if_true]; exact r
  · have hlt' : ¬ p < s.floor := by omega
    simp only [hlt, hlt', if_false]
    obtain ⟨dwf, dcov, _, _, _⟩ := delBelowDesc_spec p h.ranges r.wf
    refine ⟨rfl, filter_asc _ _ r.asc, dwf, Nat.le_trans (delBelowDesc_length p h.ranges) r.len, ?_⟩
    intro q
    simp only
    rw [dcov q, r.same q, List.mem_filter]
    simp

end Uquic.Proofs.Rcv
