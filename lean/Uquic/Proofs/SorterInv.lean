/-
C03: the sorter invariant `Inv`, the generic "cut `[a, b)` out of the gap list" lemma, and the generic
re-establishment of `Inv` after the frames inside `[a, b)` were replaced by one new frame.
-/
import Uquic.Proofs.SorterGaps

namespace Uquic.Proofs.Sorter
open Uquic.Model.Reassembly

/-- The invariant of `frameSorter`, relative to the source byte string `src`. -/
structure Inv (src : Nat → UInt8) (s : Sorter) : Prop where
  /-- gaps ascending, disjoint, non-adjacent, non-empty -/
  gwf : GapsWF s.gaps
  /-- the last gap is open-ended -/
  glast : ∃ a, s.gaps.getLast? = some (a, maxByteCount)
  /-- nothing below `readPos` is missing -/
  grp : ∀ g ∈ s.gaps, s.readPos ≤ g.1
  /-- queued frames: distinct offsets, non-empty, pairwise disjoint -/
  qinv : QInv s.queue
  erp : ∀ x ∈ s.queue, s.readPos ≤ x.1
  emax : ∀ x ∈ s.queue, x.1 + elen x ≤ maxByteCount
  /-- above `readPos` the gaps and the queued frames tile the offset space exactly -/
  tile : ∀ p, s.readPos ≤ p → p < maxByteCount → (inGap s.gaps p ↔ ¬ inEntry s.queue p)
  /-- every queued byte is the source byte at its offset -/
  data : ∀ x ∈ s.queue, ∀ j, j < elen x → x.2.data[j]? = some (src (x.1 + j))

theorem Inv.gap_le_max {src : Nat → UInt8} {s : Sorter} (h : Inv src s) : ∀ g ∈ s.gaps, g.2 ≤ maxByteCount := by
  obtain ⟨a, ha⟩ := h.glast
  intro g hg
  obtain ⟨l, hl⟩ : ∃ l, s.gaps = l ++ [(a, maxByteCount)] := by
    have := List.getLast?_eq_some_iff.mp ha
    exact this
  rw [hl] at hg
  have hwf := h.gwf
  rw [hl] at hwf
  rcases List.mem_append.mp hg with hg | hg
  · have h1 := hwf.cross g hg (a, maxByteCount) (by simp)
    have h2 := hwf.pos (a, maxByteCount) (by simp)
    simp only at h1 h2
    omega
  · simp at hg; subst hg; simp

theorem Inv.excl {src : Nat → UInt8} {s : Sorter} (h : Inv src s) {p : Nat} (hg : inGap s.gaps p) : ¬ inEntry s.queue p := by
  obtain ⟨g, hgm, h1, h2⟩ := hg
  have := h.grp g hgm
  have hm := h.gap_le_max g hgm
  exact (h.tile p (by omega) (by omega)).mp ⟨g, hgm, h1, h2⟩

theorem Inv.cov {src : Nat → UInt8} {s : Sorter} (h : Inv src s) {p : Nat} (h1 : s.readPos ≤ p) (h2 : p < maxByteCount)
    (hg : ¬ inGap s.gaps p) : inEntry s.queue p := by
  have := h.tile p h1 h2
  exact Classical.byContradiction fun hc => hg (this.mpr hc)

/-- no queued frame starts inside a gap -/
theorem Inv.key_not_inGap {src : Nat → UInt8} {s : Sorter} (h : Inv src s) {x : Nat × Entry} (hx : x ∈ s.queue) :
    ¬ inGap s.gaps x.1 := by
  intro hg
  have hp := h.qinv.pos x hx
  exact h.excl hg ⟨x, hx, Nat.le_refl _, by simp only [elen] at *; omega⟩

/-- the end of a gap is a boundary -/
theorem Inv.boundary_gap_end {src : Nat → UInt8} {s : Sorter} (h : Inv src s) {g : Gap} (hg : g ∈ s.gaps) :
    Boundary s.queue g.2 := by
  intro x hx ⟨h1, h2⟩
  have hp := h.gwf.pos g hg
  exact h.excl ⟨g, hg, show g.1 ≤ g.2 - 1 by omega, show g.2 - 1 < g.2 by omega⟩
    ⟨x, hx, show x.1 ≤ g.2 - 1 by omega, show g.2 - 1 < x.1 + elen x by omega⟩

/-- a position inside a gap (or at its start) is a boundary -/
theorem Inv.boundary_inGap {src : Nat → UInt8} {s : Sorter} (h : Inv src s) {p : Nat} (hg : inGap s.gaps p) :
    Boundary s.queue p :=
  boundary_of_not_inEntry (h.excl hg)

/-! ### cutting `[a, b)` out of the gap list -/

/-- `startGap = endGap = sg`: what remains of `sg` left of `a` and right of `b` -/
theorem gaps_cut_eq (pre post : List Gap) (sg : Gap) (a b : Nat)
    (hwf : GapsWF (pre ++ sg :: post))
    (hpre : ∀ g ∈ pre, g.2 < a) (hpost : ∀ g ∈ post, b < g.1) (hab : a < b) (ha : a ≤ sg.2) (hb : sg.1 ≤ b) :
    let L := (if sg.1 < a then [(sg.1, a)] else []) ++ (if b < sg.2 then [(b, sg.2)] else [])
    GapsWF (pre ++ L ++ post) ∧
      ∀ p, inGap (pre ++ L ++ post) p ↔ (inGap (pre ++ sg :: post) p ∧ ¬(a ≤ p ∧ p < b)) := by
  intro L
  have hwpre := hwf.of_append_left
  have hwr := hwf.of_append_right
  have hwpost := hwr.tail
  have hsgpos := hwr.pos sg (by simp)
  have hpresg : ∀ g ∈ pre, g.2 < sg.1 := fun g hg => hwf.cross g hg sg (by simp)
  have hsgpost : ∀ g ∈ post, sg.2 < g.1 := hwr.head_lt
  have hprepost : ∀ x ∈ pre, ∀ y ∈ post, x.2 < y.1 := fun x hx y hy => hwf.cross x hx y (by simp [hy])
  have hLwf : GapsWF L := by
    refine ⟨?_, ?_⟩
    · simp only [L]
      split <;> split <;> simp <;> omega
    · intro g hg
      simp only [L] at hg
      split at hg <;> split at hg <;> simp at hg
      · rcases hg with hg | hg <;> subst hg <;> simp <;> omega
      · subst hg; simp; omega
      · subst hg; simp; omega
  have hLmem : ∀ g ∈ L, sg.1 ≤ g.1 ∧ g.2 ≤ sg.2 ∧ (g.2 ≤ a ∨ b ≤ g.1) := by
    intro g hg
    simp only [L] at hg
    split at hg <;> split at hg <;> simp at hg
    · rcases hg with hg | hg <;> subst hg <;> simp <;> omega
    · subst hg; simp; omega
    · subst hg; simp; omega
  constructor
  · rw [List.append_assoc]
    apply GapsWF.append hwpre (GapsWF.append hLwf hwpost ?_) ?_
    · intro x hx y hy
      have := hLmem x hx
      have := hsgpost y hy
      omega
    · intro x hx y hy
      rcases List.mem_append.mp hy with hy | hy
      · have := hLmem y hy
        have := hpresg x hx
        omega
      · exact hprepost x hx y hy
  · intro p
    simp only [inGap_append, inGap_cons]
    have hL : inGap L p ↔ ((sg.1 ≤ p ∧ p < sg.2) ∧ ¬(a ≤ p ∧ p < b)) := by
      simp only [L, inGap_append]
      constructor
      · rintro (h | h)
        · split at h
          · simp [inGap] at h; omega
          · simp at h
        · split at h
          · simp [inGap] at h; omega
          · simp at h
      · rintro ⟨h1, h2⟩
        by_cases hpa : p < a
        · left
          rw [if_pos (by omega)]
          simp [inGap]; omega
        · right
          rw [if_pos (by omega)]
          simp [inGap]; omega
    rw [hL]
    constructor
    · rintro ((h | h) | h)
      · obtain ⟨g, hg, h1, h2⟩ := h
        have := hpre g hg
        exact ⟨Or.inl ⟨g, hg, h1, h2⟩, by omega⟩
      · exact ⟨Or.inr (Or.inl h.1), h.2⟩
      · obtain ⟨g, hg, h1, h2⟩ := h
        have := hpost g hg
        exact ⟨Or.inr (Or.inr ⟨g, hg, h1, h2⟩), by omega⟩
    · rintro ⟨h | h | h, hn⟩
      · exact Or.inl (Or.inl h)
      · exact Or.inl (Or.inr ⟨h, hn⟩)
      · exact Or.inr h

/-- `startGap ≠ endGap`: the gaps strictly between them disappear -/
theorem gaps_cut_ne (pre mid post : List Gap) (sg eg : Gap) (a b : Nat)
    (hwf : GapsWF (pre ++ sg :: (mid ++ eg :: post)))
    (hpre : ∀ g ∈ pre, g.2 < a) (hpost : ∀ g ∈ post, b < g.1) (ha : a ≤ sg.2) (hb : eg.1 ≤ b) :
    let L := (if sg.1 < a then [(sg.1, a)] else []) ++ (if b < eg.2 then [(b, eg.2)] else [])
    GapsWF (pre ++ L ++ post) ∧
      ∀ p, inGap (pre ++ L ++ post) p ↔ (inGap (pre ++ sg :: (mid ++ eg :: post)) p ∧ ¬(a ≤ p ∧ p < b)) := by
  intro L
  have hwpre := hwf.of_append_left
  have hwr := hwf.of_append_right
  have hwr2 := hwr.tail
  have hwmid := hwr2.of_append_left
  have hwr3 := hwr2.of_append_right
  have hwpost := hwr3.tail
  have hsgpos := hwr.pos sg (by simp)
  have hegpos := hwr3.pos eg (by simp)
  have hpresg : ∀ g ∈ pre, g.2 < sg.1 := fun g hg => hwf.cross g hg sg (by simp)
  have hsgmid : ∀ g ∈ mid, sg.2 < g.1 := fun g hg => hwr.head_lt g (by simp [hg])
  have hsgeg : sg.2 < eg.1 := hwr.head_lt eg (by simp)
  have hmideg : ∀ g ∈ mid, g.2 < eg.1 := fun g hg => hwr2.cross g hg eg (by simp)
  have hegpost : ∀ g ∈ post, eg.2 < g.1 := hwr3.head_lt
  have hprepost : ∀ x ∈ pre, ∀ y ∈ post, x.2 < y.1 := fun x hx y hy => hwf.cross x hx y (by simp [hy])
  have hLwf : GapsWF L := by
    refine ⟨?_, ?_⟩
    · simp only [L]
      split <;> split <;> simp <;> omega
    · intro g hg
      simp only [L] at hg
      split at hg <;> split at hg <;> simp at hg
      · rcases hg with hg | hg <;> subst hg <;> simp <;> omega
      · subst hg; simp; omega
      · subst hg; simp; omega
  have hLmem : ∀ g ∈ L, sg.1 ≤ g.1 ∧ g.2 ≤ eg.2 := by
    intro g hg
    simp only [L] at hg
    split at hg <;> split at hg <;> simp at hg
    · rcases hg with hg | hg <;> subst hg <;> simp <;> omega
    · subst hg; simp; omega
    · subst hg; simp; omega
  constructor
  · rw [List.append_assoc]
    apply GapsWF.append hwpre (GapsWF.append hLwf hwpost ?_) ?_
    · intro x hx y hy
      have := hLmem x hx
      have := hegpost y hy
      omega
    · intro x hx y hy
      rcases List.mem_append.mp hy with hy | hy
      · have := hLmem y hy
        have := hpresg x hx
        omega
      · exact hprepost x hx y hy
  · intro p
    simp only [inGap_append, inGap_cons]
    have hL : inGap L p ↔ (((sg.1 ≤ p ∧ p < sg.2) ∨ (eg.1 ≤ p ∧ p < eg.2)) ∧ ¬(a ≤ p ∧ p < b)) := by
      simp only [L, inGap_append]
      constructor
      · rintro (h | h)
        · split at h
          · simp [inGap] at h; omega
          · simp at h
        · split at h
          · simp [inGap] at h; omega
          · simp at h
      · rintro ⟨h1 | h1, h2⟩
        · left
          rw [if_pos (by omega)]
          simp [inGap]; omega
        · right
          rw [if_pos (by omega)]
          simp [inGap]; omega
    rw [hL]
    constructor
    · rintro ((h | h) | h)
      · obtain ⟨g, hg, h1, h2⟩ := h
        have := hpre g hg
        exact ⟨Or.inl ⟨g, hg, h1, h2⟩, by omega⟩
      · rcases h with ⟨h1 | h1, h2⟩
        · exact ⟨Or.inr (Or.inl h1), h2⟩
        · exact ⟨Or.inr (Or.inr (Or.inr (Or.inl h1))), h2⟩
      · obtain ⟨g, hg, h1, h2⟩ := h
        have := hpost g hg
        exact ⟨Or.inr (Or.inr (Or.inr (Or.inr ⟨g, hg, h1, h2⟩))), by omega⟩
    · rintro ⟨h | h | h | h | h, hn⟩
      · exact Or.inl (Or.inl h)
      · exact Or.inl (Or.inr ⟨Or.inl h, hn⟩)
      · obtain ⟨g, hg, h1, h2⟩ := h
        have := hsgmid g hg
        have := hmideg g hg
        omega
      · exact Or.inl (Or.inr ⟨Or.inr h, hn⟩)
      · exact Or.inr h

/-! ### re-establishing the invariant -/

/-- If the frames that start inside `[a, b)` are removed, `[a, b)` is cut out of the gaps, `a` and `b`
are boundaries of the old queue and one new frame with the source bytes of `[a, b)` is stored, the
invariant holds again. -/
theorem inv_assemble {src : Nat → UInt8} {s : Sorter} (h : Inv src s) (gs' : List Gap) (q2 : Queue)
    (a b : Nat) (d : Bytes) (cb : Option Nat)
    (hg1 : GapsWF gs') (hg2 : ∃ x, gs'.getLast? = some (x, maxByteCount))
    (hg3 : ∀ p, inGap gs' p ↔ (inGap s.gaps p ∧ ¬(a ≤ p ∧ p < b)))
    (hg4 : ∀ g ∈ gs', s.readPos ≤ g.1)
    (hq : ∀ x, x ∈ q2 ↔ (x ∈ s.queue ∧ ¬(a ≤ x.1 ∧ x.1 < b))) (hq2 : q2.Sublist s.queue)
    (hba : Boundary s.queue a) (hbb : Boundary s.queue b)
    (hrp : s.readPos ≤ a) (hab : a < b) (hbm : b ≤ maxByteCount)
    (hlen : d.length = b - a) (hd : ∀ j, j < d.length → d[j]? = some (src (a + j))) :
    Inv src { s with queue := qset q2 a ⟨d, cb⟩, gaps := gs' } := by
  have hq2inv : QInv q2 := h.qinv.sublist hq2
  -- an old frame that survives does not overlap [a, b)
  have hsurv : ∀ y ∈ q2, y.1 + elen y ≤ a ∨ b ≤ y.1 := by
    intro y hy
    obtain ⟨hyq, hyk⟩ := (hq y).mp hy
    have h1 := hba y hyq
    have h2 := hbb y hyq
    have hp := h.qinv.pos y hyq
    by_cases hc : y.1 < a
    · left; omega
    · right; omega
  -- an old frame that was removed lies inside [a, b)
  have hgone : ∀ y ∈ s.queue, y ∉ q2 → a ≤ y.1 ∧ y.1 + elen y ≤ b := by
    intro y hyq hn
    have hk : a ≤ y.1 ∧ y.1 < b := by
      by_cases hk : a ≤ y.1 ∧ y.1 < b
      · exact hk
      · exact absurd ((hq y).mpr ⟨hyq, hk⟩) hn
    have h2 := hbb y hyq
    omega
  refine ⟨hg1, hg2, hg4, ?_, ?_, ?_, ?_, ?_⟩
  · -- QInv
    refine ⟨keys_nodup_qset hq2inv.nodup a _, ?_, ?_⟩
    · intro x hx
      rcases mem_qset.mp hx with hx | ⟨hx, _⟩
      · subst hx; simp only [elen]; omega
      · exact hq2inv.pos x hx
    · intro x hx y hy h1 h2
      rcases mem_qset.mp hx with hx | ⟨hx, _⟩ <;> rcases mem_qset.mp hy with hy | ⟨hy, _⟩
      · subst hx; subst hy; rfl
      · subst hx
        have := hsurv y hy
        simp only [elen] at h1 h2 this
        omega
      · subst hy
        have := hsurv x hx
        simp only [elen] at h1 h2 this
        omega
      · exact hq2inv.disj x hx y hy h1 h2
  · intro x hx
    rcases mem_qset.mp hx with hx | ⟨hx, _⟩
    · subst hx; exact hrp
    · exact h.erp x (hq2.subset hx)
  · intro x hx
    rcases mem_qset.mp hx with hx | ⟨hx, _⟩
    · subst hx; simp only [elen]; omega
    · exact h.emax x (hq2.subset hx)
  · -- tiling
    intro p hp1 hp2
    simp only
    rw [hg3 p]
    by_cases hin : a ≤ p ∧ p < b
    · constructor
      · intro hc; exact absurd hin hc.2
      · intro hc
        exfalso
        apply hc
        exact ⟨(a, ⟨d, cb⟩), mem_qset.mpr (Or.inl rfl), hin.1, by simp only [elen]; omega⟩
    · have hold := h.tile p hp1 hp2
      have hiff : inEntry (qset q2 a ⟨d, cb⟩) p ↔ inEntry s.queue p := by
        constructor
        · rintro ⟨y, hy, h1, h2⟩
          rcases mem_qset.mp hy with hy | ⟨hy, _⟩
          · subst hy
            simp only [elen] at h2
            exact absurd ⟨h1, by omega⟩ hin
          · exact ⟨y, hq2.subset hy, h1, h2⟩
        · rintro ⟨y, hy, h1, h2⟩
          by_cases hy2 : y ∈ q2
          · refine ⟨y, mem_qset.mpr (Or.inr ⟨hy2, ?_⟩), h1, h2⟩
            intro hk
            have := hsurv y hy2
            have hp := h.qinv.pos y hy
            omega
          · have := hgone y hy hy2
            omega
      rw [hiff]
      constructor
      · intro hc; exact hold.mp hc.1
      · intro hc; exact ⟨hold.mpr hc, hin⟩
  · intro x hx j hj
    rcases mem_qset.mp hx with hx | ⟨hx, _⟩
    · subst hx; exact hd j hj
    · exact h.data x (hq2.subset hx) j hj

end Uquic.Proofs.Sorter
