/-
Helper lemmas for C20: per-operation facts about the congestion window of the Reno sender model
and the window-bounds invariant.
-/
import Uquic.Model.Cong.Sender
import Uquic.Proofs.CongArith

namespace Uquic.Proofs.Cong

open Uquic.Model.Cong

/-! ### the regenerated constants, as the literals the property text speaks about -/
theorem minCwndPackets_eq : minCwndPackets = 2 := by decide
theorem maxCwndPackets_eq : maxCwndPackets = 10000 := by decide
theorem initialCwndPackets_eq : initialCwndPackets = 32 := by decide
theorem maxBurstPackets_eq : maxBurstPackets = 3 := by decide

/-- the window-bounds invariant for the current datagram size -/
def Inv (s : Sender) : Prop :=
  2 * s.mds ≤ s.cwnd ∧ s.cwnd ≤ maxCwndPackets * s.mds + s.mds

theorem inv_new (mds : Nat) (rtt : Rtt) : Inv (Sender.new mds rtt) := by
  simp only [Inv, Sender.new, initialCwndPackets_eq, maxCwndPackets_eq]
  omega

/-! ### OnPacketSent, MaybeExitSlowStart: the window is not touched -/
theorem onPacketSent_cwnd (s : Sender) (t pn : Int) (b : Nat) (r : Bool) :
    (s.onPacketSent t pn b r).cwnd = s.cwnd ∧ (s.onPacketSent t pn b r).mds = s.mds ∧
    (s.onPacketSent t pn b r).lastCutback = s.lastCutback := by
  unfold Sender.onPacketSent
  split <;> simp

theorem maybeExitSlowStart_cwnd (s : Sender) :
    (s.maybeExitSlowStart).1.cwnd = s.cwnd ∧ (s.maybeExitSlowStart).1.mds = s.mds ∧
    (s.maybeExitSlowStart).1.lastCutback = s.lastCutback := by
  unfold Sender.maybeExitSlowStart
  split
  · simp
  · split
    · simp
    · simp only []
      split <;> simp

/-! ### maybeIncreaseCwnd / OnPacketAcked -/
theorem maybeIncreaseCwnd_spec (s : Sender) (prior : Nat) :
    let r := s.maybeIncreaseCwnd prior
    r.1.mds = s.mds ∧ r.1.lastCutback = s.lastCutback ∧ r.1.largestAcked = s.largestAcked ∧
    (r.1.cwnd = s.cwnd ∨
      (r.1.cwnd = s.cwnd + s.mds ∧ s.isCwndLimited prior = true ∧ s.cwnd < s.maxCwnd ∧
        (r.2 = .slowStart ∨ r.2 = .caGrow))) := by
  unfold Sender.maybeIncreaseCwnd
  by_cases h1 : s.isCwndLimited prior = true
  · by_cases h2 : s.cwnd ≥ s.maxCwnd
    · simp [h1, h2]
    · by_cases h3 : s.inSlowStart = true
      · simp [h1, h2, h3]; omega
      · by_cases h4 : s.mds = 0
        · simp [h1, h2, h3, h4]
        · by_cases h5 : wrapU64 (s.numAcked + 1) ≥ s.cwnd / s.mds
          · simp [h1, h2, h3, h4, h5]; omega
          · simp [h1, h2, h3, h4, h5]
  · simp [h1]

theorem onPacketAcked_spec (s : Sender) (pn : Int) (prior : Nat) :
    let r := (s.onPacketAcked pn prior).1
    let s1 := { s with largestAcked := Max.max pn s.largestAcked }
    r.mds = s.mds ∧ r.lastCutback = s.lastCutback ∧
    (r.cwnd = s.cwnd ∨
      (r.cwnd = s.cwnd + s.mds ∧ s1.inRecovery = false ∧ s.isCwndLimited prior = true ∧ s.cwnd < s.maxCwnd)) := by
  unfold Sender.onPacketAcked
  simp only []
  by_cases hr : ({ s with largestAcked := Max.max pn s.largestAcked } : Sender).inRecovery = true
  · simp [hr]
  · have hspec := maybeIncreaseCwnd_spec ({ s with largestAcked := Max.max pn s.largestAcked } : Sender) prior
    simp only [hr, Bool.false_eq_true, if_false]
    generalize hg : ({ s with largestAcked := Max.max pn s.largestAcked } : Sender).maybeIncreaseCwnd prior = g at hspec
    obtain ⟨g1, g2⟩ := g
    simp only [] at hspec
    obtain ⟨hm, hc, _, hw⟩ := hspec
    have hlim : ({ s with largestAcked := Max.max pn s.largestAcked } : Sender).isCwndLimited prior = s.isCwndLimited prior := rfl
    have hmax : ({ s with largestAcked := Max.max pn s.largestAcked } : Sender).maxCwnd = s.maxCwnd := rfl
    simp only [hlim, hmax] at hw
    have hr' : ({ s with largestAcked := Max.max pn s.largestAcked } : Sender).inRecovery = false := by
      simpa using hr
    split
    · simp only []
      refine ⟨hm, hc, ?_⟩
      rcases hw with hw | ⟨hw, hl, hx, _⟩
      · exact Or.inl hw
      · exact Or.inr ⟨hw, trivial, hl, hx⟩
    · simp only []
      split
      · simp only []
        refine ⟨hm, hc, ?_⟩
        rcases hw with hw | ⟨hw, hl, hx, _⟩
        · exact Or.inl hw
        · exact Or.inr ⟨hw, trivial, hl, hx⟩
      · refine ⟨hm, hc, ?_⟩
        rcases hw with hw | ⟨hw, hl, hx, _⟩
        · exact Or.inl hw
        · exact Or.inr ⟨hw, trivial, hl, hx⟩

/-! ### OnCongestionEvent -/
theorem onCongestionEvent_spec (s : Sender) (pn : Int) :
    let r := s.onCongestionEvent pn
    r.1.mds = s.mds ∧
    ((pn ≤ s.lastCutback ∧ r.2 = false ∧ r.1 = s) ∨
     (s.lastCutback < pn ∧ r.2 = true ∧ r.1.lastCutback = s.largestSent ∧
        r.1.cwnd = Max.max (renoCut s.cwnd) (s.mds * minCwndPackets) ∧ r.1.ssthresh = r.1.cwnd)) := by
  unfold Sender.onCongestionEvent
  by_cases h : pn ≤ s.lastCutback
  · simp [h]
  · simp only [h, if_false]
    refine ⟨trivial, Or.inr ⟨by omega, trivial, trivial, ?_, trivial⟩⟩
    have hmin : s.minCwnd = s.mds * minCwndPackets := rfl
    by_cases h2 : renoCut s.cwnd < s.minCwnd
    · rw [if_pos h2]; omega
    · rw [if_neg h2]; omega

/-! ### SetMaxDatagramSize -/
theorem setMaxDatagramSize_spec (s : Sender) (m : Nat) :
    let r := s.setMaxDatagramSize m
    r.1.lastCutback = s.lastCutback ∧
    ((m < s.mds ∧ r.2 = .panic ∧ r.1 = s) ∨
     (s.mds ≤ m ∧ r.2 = .ok ∧ r.1.mds = m ∧ r.1.cwnd = Max.max s.cwnd (m * minCwndPackets))) := by
  unfold Sender.setMaxDatagramSize
  by_cases h : m < s.mds
  · simp [h]
  · simp only [h, if_false, Sender.minCwnd]
    by_cases h2 : s.cwnd < m * minCwndPackets
    · simp [h2]; omega
    · simp [h2]; omega

/-! ### the invariant is preserved by every operation -/
theorem cut_bounds (mds cwnd c : Nat) (_hlo : 2 * mds ≤ cwnd) (hhi : cwnd ≤ 10000 * mds + mds) (hc : c ≤ cwnd) :
    2 * mds ≤ Max.max c (mds * 2) ∧ Max.max c (mds * 2) ≤ 10000 * mds + mds := by
  omega

theorem inv_step (s : Sender) (op : Op) (h : Inv s) : Inv (s.step op).1 := by
  obtain ⟨hlo, hhi⟩ := h
  rw [maxCwndPackets_eq] at hhi
  cases op with
  | sent t pn b r =>
    obtain ⟨hc, hm, _⟩ := onPacketSent_cwnd s t pn b r
    simp only [Sender.step, Inv, hc, hm, maxCwndPackets_eq]; omega
  | acked pn b prior t =>
    have := onPacketAcked_spec s pn prior
    simp only [] at this
    obtain ⟨hm, _, hw⟩ := this
    simp only [Sender.step, Inv, hm, maxCwndPackets_eq]
    rcases hw with hw | ⟨hw, _, _, hx⟩
    · rw [hw]; omega
    · rw [hw]; simp only [Sender.maxCwnd, maxCwndPackets_eq] at hx; omega
  | lost pn b prior =>
    have := onCongestionEvent_spec s pn
    simp only [] at this
    obtain ⟨hm, hw⟩ := this
    simp only [Sender.step, Inv, hm, maxCwndPackets_eq]
    rcases hw with ⟨_, _, he⟩ | ⟨_, _, _, hw, _⟩
    · rw [he]; omega
    · rw [hw, minCwndPackets_eq]
      exact cut_bounds _ _ _ hlo hhi (renoCut_le _)
  | exitSS =>
    obtain ⟨hc, hm, _⟩ := maybeExitSlowStart_cwnd s
    simp only [Sender.step, Inv, hc, hm, maxCwndPackets_eq]; omega
  | setMDS m =>
    have := setMaxDatagramSize_spec s m
    simp only [] at this
    obtain ⟨_, hw⟩ := this
    simp only [Sender.step, Inv, maxCwndPackets_eq]
    rcases hw with ⟨_, _, he⟩ | ⟨hle, _, hm, hw⟩
    · rw [he]; omega
    · rw [hm, hw, minCwndPackets_eq]; omega
  | rtt r => simp only [Sender.step, Inv, maxCwndPackets_eq]; omega
  | idle => simp only [Sender.step, Inv, maxCwndPackets_eq]; omega

theorem inv_run (ops : List Op) : ∀ (s : Sender), Inv s → Inv (s.run ops) := by
  induction ops with
  | nil => intro s h; exact h
  | cons op ops ih =>
    intro s h
    simp only [Sender.run, List.foldl_cons]
    exact ih _ (inv_step s op h)

end Uquic.Proofs.Cong
