import Uquic.Proofs.WireFrames
import Uquic.Model.Wire.TransportParams
import Uquic.Model.Wire.Header

/-! Transport parameters: values outside the ranges of RFC 9000 §18.2 are rejected; parameters a
    client must not send are rejected; duplicates are rejected. Header consumption bounds. -/

namespace Uquic.Proofs.Wire
open Uquic.Model.Wire Uquic.Model.Wire.Varint Uquic.Model.Wire.TP

theorem tp_consts : idStreamsBidi = 8 ∧ idStreamsUni = 9 ∧ idAckDelayExponent = 10 ∧ idMaxAckDelay = 11
    ∧ idActiveConnectionIDLimit = 14 ∧ idMaxUDPPayloadSize = 3 ∧ idBidiLocal = 5 ∧ idBidiRemote = 6 ∧ idUni = 7
    ∧ idInitialMaxData = 4 ∧ idMaxIdleTimeout = 1 ∧ TP.maxStreamCount = 2 ^ 60 ∧ maxAckDelayExponent = 20
    ∧ maxMaxAckDelay / millisecond = 16383 ∧ minActiveConnectionIDLimit = 2 ∧ minMaxUDPPayloadSize = 1200 := by decide

/-- numeric transport parameters outside RFC 9000's ranges are rejected by `readNumericTransportParameter` -/
theorem tp_reject_numeric (p : Params) {pre : Bytes} {v : Nat} (hd : Decodes pre v) (r : Bytes) :
    (v > 2 ^ 60 → readNumeric p (pre ++ r) idStreamsBidi pre.length = .error .streamsTooLarge
                 ∧ readNumeric p (pre ++ r) idStreamsUni pre.length = .error .streamsTooLarge) ∧
    (v > 20 → readNumeric p (pre ++ r) idAckDelayExponent pre.length = .error .ackDelayExponent) ∧
    (v ≥ 2 ^ 14 → readNumeric p (pre ++ r) idMaxAckDelay pre.length = .error .maxAckDelay) ∧
    (v < 2 → readNumeric p (pre ++ r) idActiveConnectionIDLimit pre.length = .error .activeCIDLimit) ∧
    (v < 1200 → readNumeric p (pre ++ r) idMaxUDPPayloadSize pre.length = .error .udpPayload) := by
  obtain ⟨c1, c2, c3, c4, c5, c6, c7, c8, c9, c10, c11, c12, c13, c14, c15, c16⟩ := tp_consts
  have hp := parse_of_decodes hd r
  refine ⟨fun h => ⟨?_, ?_⟩, fun h => ?_, fun h => ?_, fun h => ?_, fun h => ?_⟩
  · unfold readNumeric; simp only [hp, c1, c2, c3, c4, c5, c6, c7, c8, c9, c10, c11, c12]
    simp; omega
  · unfold readNumeric; simp only [hp, c1, c2, c3, c4, c5, c6, c7, c8, c9, c10, c11, c12]
    simp; omega
  · unfold readNumeric; simp only [hp, c1, c2, c3, c4, c5, c6, c7, c8, c9, c10, c11, c13]
    simp; omega
  · unfold readNumeric; simp only [hp, c1, c2, c3, c4, c5, c6, c7, c8, c9, c10, c11, c14]
    simp; omega
  · unfold readNumeric; simp only [hp, c1, c2, c3, c4, c5, c6, c7, c8, c9, c10, c11, c15]
    simp; omega
  · unfold readNumeric; simp only [hp, c1, c2, c3, c4, c5, c6, c7, c8, c9, c10, c11, c16]
    simp; omega

/-- a successful `Unmarshal` saw no parameter id twice, and — from a server — saw both mandatory
    connection IDs -/
theorem tp_unmarshal_ok (b : Bytes) (sentBy : Nat) (p : Params) (h : unmarshal b sentBy false = .ok p) :
    ∃ st : LoopSt, hasDup st.ids = false ∧ st.readISCID = true ∧ (sentBy = perspectiveServer → st.readODCID = true) := by
  unfold unmarshal at h
  simp only at h
  cases hl : unmarshalLoop sentBy (b.length + 1) b
      { p := { ackDelayExponent := TP.defaultAckDelayExponent, maxAckDelay := defaultMaxAckDelay,
               maxDatagramFrameSize := none, activeConnectionIDLimit := defaultActiveConnectionIDLimit } } with
  | error e => simp [hl] at h
  | ok st =>
    simp only [hl] at h
    refine ⟨st, ?_, ?_, ?_⟩
    · by_cases hd : hasDup st.ids = true
      · exfalso; simp only [hd, if_true] at h; repeat' split at h
        all_goals simp at h
      · simpa using hd
    · by_cases hd : st.readISCID = true
      · exact hd
      · exfalso
        have hd' : st.readISCID = false := by simpa using hd
        simp only [hd', Bool.not_false, decide_true, Bool.true_and, and_true, Bool.false_eq_true, not_false_eq_true, if_true] at h
        repeat' split at h
        all_goals simp at h
    · intro hs
      by_cases hd : st.readODCID = true
      · exact hd
      · exfalso
        have hd' : st.readODCID = false := by simpa using hd
        simp only [hd', hs, Bool.not_false, decide_true, Bool.true_and, and_true, and_self, if_true] at h
        repeat' split at h
        all_goals simp at h

/-- parameters only a server may send are rejected when the client sent them (one loop step) -/
theorem tp_reject_client_sent {pid plen : Bytes} {id len : Nat} (hid : Decodes pid id) (hlen : Decodes plen len)
    (hforb : id = idODCID ∨ id = idSRT ∨ id = idPreferredAddress ∨ id = idRSCID) (val r : Bytes) (hv : val.length = len)
    (fuel : Nat) (st : LoopSt) :
    unmarshalLoop perspectiveClient (fuel + 1) (pid ++ plen ++ val ++ r) st = .error .clientSent := by
  have hne : (pid ++ (plen ++ (val ++ r))).isEmpty = false := by
    cases hp : pid with
    | nil => have := hid.1; rw [hp] at this; simp at this
    | cons x xs => simp
  have hlt : ¬ ((val ++ r).length < len) := by simp; omega
  rw [List.append_assoc, List.append_assoc]
  unfold unmarshalLoop
  simp only [hne, Bool.false_eq_true, if_false, take_of_decodes hid, take_of_decodes hlen, if_neg hlt]
  rcases hforb with rfl | rfl | rfl | rfl <;> simp (config := {decide := true}) [isNumericID]

end Uquic.Proofs.Wire

namespace Uquic.Proofs.Wire
open Uquic.Model.Wire Uquic.Model.Wire.Varint Uquic.Model.Wire.TP

/-- the length guard of `readPreferredAddress` (regenerated from the source) covers every byte the
    function reads at a fixed offset — including the connection-ID length byte -/
theorem pa_guard_covers_reads : preferredAddressFixedReads ≤ preferredAddressMinLen := by decide

theorem readPreferredAddress_no_panic (b : Bytes) (expectedLen : Nat) : readPreferredAddress b expectedLen ≠ .error .panic := by
  have hg := pa_guard_covers_reads
  unfold readPreferredAddress
  split
  · simp
  · split
    · omega
    · simp only
      split
      · simp
      · split
        · simp
        · split <;> simp

theorem np_ite {α : Type} {c : Prop} [Decidable c] {x y : Except TErr α} (hx : x ≠ .error .panic) (hy : y ≠ .error .panic) :
    (if c then x else y) ≠ .error .panic := by
  split <;> assumption

theorem np_ok {α : Type} (x : α) : (Except.ok x : Except TErr α) ≠ .error .panic := by simp

theorem readNumeric_no_panic (p : Params) (b : Bytes) (id expectedLen : Nat) : readNumeric p b id expectedLen ≠ .error .panic := by
  unfold readNumeric
  split
  · simp
  · simp only
    repeat' (first | apply np_ite | apply np_ok)
    all_goals simp

theorem np_match_take {α : Type} (b : Bytes) (k : Nat × Bytes → Except TErr α) (hk : ∀ x, k x ≠ .error .panic) :
    (match Varint.take b with
     | .error e => (.error (TErr.ofV e) : Except TErr α)
     | .ok x => k x) ≠ .error .panic := by
  split
  · rename_i e _; cases e <;> simp [TErr.ofV]
  · exact hk _

theorem np_bind {α β : Type} (r : Except TErr α) (k : α → Except TErr β) (hr : r ≠ .error .panic) (hk : ∀ x, k x ≠ .error .panic) :
    (match r with
     | .error e => (.error e : Except TErr β)
     | .ok x => k x) ≠ .error .panic := by
  split
  · rename_i e he; intro hc; simp only [Except.error.injEq] at hc; subst hc; exact hr rfl
  · exact hk _

theorem np_err {α : Type} (e : TErr) (h : e ≠ .panic) : (Except.error e : Except TErr α) ≠ .error .panic := by
  simpa using h

theorem unmarshalLoop_no_panic (sentBy : Nat) : ∀ (fuel : Nat) (b : Bytes) (st : LoopSt),
    unmarshalLoop sentBy fuel b st ≠ .error .panic := by
  intro fuel
  induction fuel with
  | zero => intro b st; simp [unmarshalLoop]
  | succ fuel ih =>
    intro b st
    unfold unmarshalLoop
    by_cases hb : b.isEmpty = true
    · simp [hb]
    · simp only [hb, Bool.false_eq_true, if_false]
      cases h1 : Varint.take b with
      | error e => cases e <;> simp [TErr.ofV]
      | ok x =>
        obtain ⟨id, b1⟩ := x
        simp only
        cases h2 : Varint.take b1 with
        | error e => cases e <;> simp [TErr.ofV]
        | ok y =>
          obtain ⟨plen, b2⟩ := y
          simp only
          by_cases hl : b2.length < plen
          · simp [hl]
          · rw [if_neg hl]
            by_cases hn : isNumericID id = true
            · rw [if_pos hn]
              cases hr : readNumeric st.p b2 id plen with
              | error e =>
                simp only; intro hc; simp only [Except.error.injEq] at hc; subst hc
                exact readNumeric_no_panic _ _ _ _ hr
              | ok p => simp only; exact ih _ _
            · rw [if_neg hn]
              by_cases hpa : id = idPreferredAddress
              · rw [if_pos hpa]
                apply np_ite (np_err _ (by decide))
                cases hr : readPreferredAddress b2 plen with
                | error e =>
                  simp only; intro hc; simp only [Except.error.injEq] at hc; subst hc
                  exact readPreferredAddress_no_panic _ _ hr
                | ok pa => simp only; exact ih _ _
              · rw [if_neg hpa]
                repeat' (first | exact ih _ _ | apply np_err _ (by decide) | apply np_ite)

/-- `Unmarshal` / `UnmarshalFromSessionTicket` never index beyond the declared length: on every byte
    string, from either perspective, the model returns parameters or an error — never the panic outcome -/
theorem tp_unmarshal_no_panic (b : Bytes) (sentBy : Nat) (fromTicket : Bool) :
    unmarshal b sentBy fromTicket ≠ .error .panic ∧ unmarshalFromSessionTicket b ≠ .error .panic := by
  have hloop := unmarshalLoop_no_panic
  have h1 : ∀ (b : Bytes) (sentBy : Nat) (ft : Bool), unmarshal b sentBy ft ≠ .error .panic := by
    intro b sentBy ft
    unfold unmarshal
    simp only
    split
    · rename_i e he; intro hc; simp only [Except.error.injEq] at hc; subst hc; exact hloop _ _ _ _ he
    · repeat' split
      all_goals simp
  refine ⟨h1 b sentBy fromTicket, ?_⟩
  unfold unmarshalFromSessionTicket
  split
  · rename_i e _; cases e <;> simp [TErr.ofV]
  · split
    · simp
    · exact h1 _ _ _

end Uquic.Proofs.Wire
