import Uquic.Proofs.WireFrames

namespace Uquic.Proofs.Wire
open Uquic.Model.Wire Uquic.Model.Wire.Varint

/-! ### CONNECTION_CLOSE -/

theorem parseConnectionClose_of_transport {p1 p2 p3 : Bytes} {ec ft : Nat} (reason : Bytes) (typ : Nat) (ht : typ ≠ ftApplicationClose)
    (h1 : Decodes p1 ec) (h2 : Decodes p2 ft) (h3 : Decodes p3 reason.length) (r : Bytes) :
    parseConnectionClose (p1 ++ p2 ++ p3 ++ reason ++ r) typ =
      .ok (.connectionClose false ec ft reason, p1.length + p2.length + p3.length + reason.length) := by
  simp [parseConnectionClose, takeV_of_decodes h1, ht, takeV_of_decodes h2, takeV_of_decodes h3]
  exact if_len_ok (by omega) _ _ (by omega)

theorem parseConnectionClose_of_app {p1 p3 : Bytes} {ec : Nat} (reason : Bytes) (typ : Nat) (ht : typ = ftApplicationClose)
    (h1 : Decodes p1 ec) (h3 : Decodes p3 reason.length) (r : Bytes) :
    parseConnectionClose (p1 ++ p3 ++ reason ++ r) typ =
      .ok (.connectionClose true ec 0 reason, p1.length + p3.length + reason.length) := by
  simp [parseConnectionClose, takeV_of_decodes h1, ht, takeV_of_decodes h3]
  exact if_len_ok (by omega) _ _ (by omega)

theorem parseConnectionClose_inv (b : Bytes) (typ : Nat) (f : Frame) (n : Nat) (h : parseConnectionClose b typ = .ok (f, n)) :
    ∃ p1 p2 p3 reason r ec ft, b = p1 ++ p2 ++ p3 ++ reason ++ r ∧ Decodes p1 ec ∧
      (if typ = ftApplicationClose then (p2 = [] ∧ ft = 0) else Decodes p2 ft) ∧ Decodes p3 reason.length ∧
      f = .connectionClose (typ = ftApplicationClose) ec ft reason ∧ n = p1.length + p2.length + p3.length + reason.length := by
  unfold parseConnectionClose at h
  rcases takeV_cases b with he | ⟨p1, b1, ec, rfl, hd1, ht1⟩
  · simp [he] at h
  · by_cases happ : typ = ftApplicationClose
    · rcases takeV_cases b1 with he | ⟨p3, b3, rl, rfl, hd3, ht3⟩
      · simp [ht1, happ, he] at h
      · by_cases hgt : rl > b3.length
        · simp [ht1, happ, ht3, hgt] at h
        · simp [ht1, happ, ht3, hgt] at h
          have hmin : min rl b3.length = rl := Nat.min_eq_left (Nat.not_lt.mp hgt)
          refine ⟨p1, [], p3, b3.take rl, b3.drop rl, ec, 0, by simp, hd1, by simp [happ], by simpa [hmin] using hd3, ?_, ?_⟩
          · simp [happ, h.1.symm]
          · simp [hmin]; omega
    · rcases takeV_cases b1 with he | ⟨p2, b2, ft, rfl, hd2, ht2⟩
      · simp [ht1, happ, he] at h
      · rcases takeV_cases b2 with he | ⟨p3, b3, rl, rfl, hd3, ht3⟩
        · simp [ht1, happ, ht2, he] at h
        · by_cases hgt : rl > b3.length
          · simp [ht1, happ, ht2, ht3, hgt] at h
          · simp [ht1, happ, ht2, ht3, hgt] at h
            have hmin : min rl b3.length = rl := Nat.min_eq_left (Nat.not_lt.mp hgt)
            refine ⟨p1, p2, p3, b3.take rl, b3.drop rl, ec, ft, by simp, hd1, by simp [happ]; exact hd2, by simpa [hmin] using hd3, ?_, ?_⟩
            · simp [happ, h.1.symm]
            · simp [hmin]; omega

/-! ### DATAGRAM -/

theorem parseDatagram_of_len {p : Bytes} (data : Bytes) (typ : Nat) (ht : typ % 2 = 1) (h : Decodes p data.length) (r : Bytes) :
    parseDatagram (p ++ data ++ r) typ = .ok (.datagram true data, p.length + data.length) := by
  simp [parseDatagram, ht, takeV_of_decodes h]

theorem parseDatagram_of_nolen (data : Bytes) (typ : Nat) (ht : typ % 2 ≠ 1) :
    parseDatagram data typ = .ok (.datagram false data, data.length) := by
  simp [parseDatagram, ht]

theorem parseDatagram_inv (b : Bytes) (typ : Nat) (f : Frame) (n : Nat) (h : parseDatagram b typ = .ok (f, n)) :
    (typ % 2 = 1 ∧ ∃ p data r, b = p ++ data ++ r ∧ Decodes p data.length ∧ f = .datagram true data ∧ n = p.length + data.length)
    ∨ (typ % 2 ≠ 1 ∧ f = .datagram false b ∧ n = b.length) := by
  unfold parseDatagram at h
  by_cases ht : typ % 2 = 1
  · left
    simp only [ht, if_true] at h
    rcases takeV_cases b with he | ⟨p, b1, dl, rfl, hd, ht1⟩
    · simp [he] at h
    · simp only [ht1] at h
      by_cases hgt : dl > b1.length
      · simp [hgt] at h
      · simp [hgt] at h
        have hmin : min dl b1.length = dl := Nat.min_eq_left (Nat.not_lt.mp hgt)
        exact ⟨ht, p, b1.take dl, b1.drop dl, by simp, by simpa [hmin] using hd, h.1.symm, by simp [hmin]; omega⟩
  · right
    simp [ht] at h
    exact ⟨ht, h.1.symm, h.2.symm⟩

/-! ### PATH_CHALLENGE / PATH_RESPONSE -/

theorem parsePathChallenge_of (d : Bytes) (hd : d.length = 8) (r : Bytes) :
    parsePathChallenge (d ++ r) = .ok (.pathChallenge d, 8) := by
  simp [parsePathChallenge, hd]

theorem parsePathChallenge_inv (b : Bytes) (f : Frame) (n : Nat) (h : parsePathChallenge b = .ok (f, n)) :
    ∃ d r, b = d ++ r ∧ d.length = 8 ∧ f = .pathChallenge d ∧ n = 8 := by
  unfold parsePathChallenge at h
  by_cases hl : b.length < 8
  · simp [hl] at h
  · simp [hl] at h
    exact ⟨b.take 8, b.drop 8, by simp, by simp; omega, h.1.symm, h.2.symm⟩

theorem parsePathResponse_of (d : Bytes) (hd : d.length = 8) (r : Bytes) :
    parsePathResponse (d ++ r) = .ok (.pathResponse d, 8) := by
  simp [parsePathResponse, hd]

theorem parsePathResponse_inv (b : Bytes) (f : Frame) (n : Nat) (h : parsePathResponse b = .ok (f, n)) :
    ∃ d r, b = d ++ r ∧ d.length = 8 ∧ f = .pathResponse d ∧ n = 8 := by
  unfold parsePathResponse at h
  by_cases hl : b.length < 8
  · simp [hl] at h
  · simp [hl] at h
    exact ⟨b.take 8, b.drop 8, by simp, by simp; omega, h.1.symm, h.2.symm⟩

/-! ### NEW_CONNECTION_ID -/

theorem parseNewConnectionID_of {p1 p2 : Bytes} {seq rpt : Nat} (cid tok : Bytes) (h1 : Decodes p1 seq) (h2 : Decodes p2 rpt)
    (hle : rpt ≤ seq) (hc1 : 1 ≤ cid.length) (hc2 : cid.length ≤ maxConnIDLen) (hc3 : cid.length < 256) (ht : tok.length = 16) (r : Bytes) :
    parseNewConnectionID (p1 ++ p2 ++ [Varint.u8 cid.length] ++ cid ++ tok ++ r) =
      .ok (.newConnectionID seq rpt cid tok, p1.length + p2.length + 1 + cid.length + 16) := by
  unfold parseNewConnectionID
  simp only [List.append_assoc, takeV_of_decodes h1, takeV_of_decodes h2, List.singleton_append]
  have hu : (Varint.u8 cid.length).toNat = cid.length := by rw [u8_toNat]; omega
  simp [Nat.not_lt.mpr hle, hu, ht]
  have hne : cid ≠ [] := by intro h; rw [h] at hc1; simp at hc1
  rw [if_neg hne, if_neg (by omega), if_neg (by omega)]
  exact if_len_ok (by omega) _ _ (by omega)

theorem parseNewConnectionID_inv (b : Bytes) (f : Frame) (n : Nat) (h : parseNewConnectionID b = .ok (f, n)) :
    ∃ p1 p2 cid tok r seq rpt, b = p1 ++ p2 ++ [Varint.u8 cid.length] ++ cid ++ tok ++ r ∧ Decodes p1 seq ∧ Decodes p2 rpt ∧
      rpt ≤ seq ∧ 1 ≤ cid.length ∧ cid.length ≤ maxConnIDLen ∧ cid.length < 256 ∧ tok.length = 16 ∧
      f = .newConnectionID seq rpt cid tok ∧ n = p1.length + p2.length + 1 + cid.length + 16 := by
  unfold parseNewConnectionID at h
  rcases takeV_cases b with he | ⟨p1, b1, seq, rfl, hd1, ht1⟩
  · simp [he] at h
  · rcases takeV_cases b1 with he | ⟨p2, b2, rpt, rfl, hd2, ht2⟩
    · simp [ht1, he] at h
    · simp only [ht1, ht2] at h
      by_cases hgt : rpt > seq
      · simp [hgt] at h
      · simp only [hgt, if_false] at h
        cases b2 with
        | nil => simp at h
        | cons l0 b3 =>
          simp only at h
          have hl0 := l0.toNat_lt
          by_cases h0 : l0.toNat = 0
          · simp [h0] at h
          · rw [if_neg h0] at h
            by_cases hmax : l0.toNat > maxConnIDLen
            · simp [hmax] at h
            · rw [if_neg hmax] at h
              by_cases hlen : b3.length < l0.toNat
              · simp [hlen] at h
              · rw [if_neg hlen] at h
                by_cases htok : (b3.drop l0.toNat).length < 16
                · simp only [htok, if_true] at h; simp at h
                · rw [if_neg htok] at h
                  simp only [Except.ok.injEq, Prod.mk.injEq] at h
                  have htok' : 16 ≤ b3.length - l0.toNat := by simpa using Nat.not_lt.mp htok
                  have hcl : (b3.take l0.toNat).length = l0.toNat := by simp; omega
                  have hu : Varint.u8 (b3.take l0.toNat).length = l0 := by
                    rw [hcl]; apply UInt8.toNat_inj.mp; rw [u8_toNat]; omega
                  refine ⟨p1, p2, b3.take l0.toNat, (b3.drop l0.toNat).take 16, (b3.drop l0.toNat).drop 16, seq, rpt, ?_, hd1, hd2,
                    Nat.not_lt.mp hgt, by rw [hcl]; omega, by rw [hcl]; omega, by rw [hcl]; exact hl0, by simp; omega,
                    h.1.symm, ?_⟩
                  · rw [hu]; simp
                    have e1 : b3 = b3.take l0.toNat ++ b3.drop l0.toNat := (List.take_append_drop _ _).symm
                    have e2 : b3.drop l0.toNat = (b3.drop l0.toNat).take 16 ++ (b3.drop l0.toNat).drop 16 :=
                      (List.take_append_drop _ _).symm
                    rw [List.drop_drop] at e2
                    rw [← e2, ← e1]
                  · rw [hcl, ← h.2]; simp; omega

end Uquic.Proofs.Wire
