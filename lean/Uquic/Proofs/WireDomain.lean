import Uquic.Proofs.WireAccept

/-! Everything the decoder accepts lies in the range RFC 9000 allows, and (up to the named
    exceptions `FixCond`) in the domain on which the encoder round-trips. -/

namespace Uquic.Proofs.Wire
open Uquic.Model.Wire Uquic.Model.Wire.Varint Uquic.Spec.WireMon

/-- the two places where the parsed value is not what the encoder can reproduce -/
def FixCond : Frame → Prop
  | .ack ranges d _ _ _ => ranges.length ≤ maxNumAckRanges ∧ d % (1000 * 2 ^ sendAckDelayExponent) = 0
  | .ackFrequency _ _ mad _ => mad % 1000 = 0
  | _ => True

/-- what `body_domain` establishes for a parsed frame of type `t` -/
structure Dom (c : Ctx) (t : Nat) (f : Frame) : Prop where
  typ : typeAccepted c t → typeAccepted c f.typ
  dom : FixCond f → f.appendErr = none → roundTripDomain f = true
  wt : f.wellTyped = true

theorem le62 {v : Nat} (h : v ≤ maxVarInt8) : v < 2 ^ 62 := by rw [max8_eq] at h; omega

theorem ackDelayTime_lt (delay exp : Nat) : ackDelayTime delay exp < 2 ^ 63 := by
  unfold ackDelayTime maxInt64
  simp only
  split <;> omega

theorem ackFreqDelay_lt (mad : Nat) : ackFreqDelay mad < 2 ^ 63 := by
  unfold ackFreqDelay maxInt64
  simp only
  split <;> omega

section
variable (c : Ctx)

theorem dom_parse1_maxData (b : Bytes) (f : Frame) (n : Nat) (h : parseMaxData b = .ok (f, n)) : Dom c ftMaxData f := by
  rw [parseMaxData_eq] at h
  obtain ⟨p, r, v, _, hd, rfl, _⟩ := parse1_inv _ b f n h
  exact ⟨id, fun _ _ => by simp [roundTripDomain]; exact le62 hd.2.1, rfl⟩

theorem dom_dataBlocked (b : Bytes) (f : Frame) (n : Nat) (h : parseDataBlocked b = .ok (f, n)) : Dom c ftDataBlocked f := by
  rw [parseDataBlocked_eq] at h
  obtain ⟨p, r, v, _, hd, rfl, _⟩ := parse1_inv _ b f n h
  exact ⟨id, fun _ _ => by simp [roundTripDomain]; exact le62 hd.2.1, rfl⟩

theorem dom_retireConnectionID (b : Bytes) (f : Frame) (n : Nat) (h : parseRetireConnectionID b = .ok (f, n)) :
    Dom c ftRetireConnectionID f := by
  rw [parseRetireConnectionID_eq] at h
  obtain ⟨p, r, v, _, hd, rfl, _⟩ := parse1_inv _ b f n h
  exact ⟨id, fun _ _ => by simp [roundTripDomain]; exact le62 hd.2.1, rfl⟩

theorem dom_maxStreams (typ : Nat) (ht : typ = ftBidiMaxStreams ∨ typ = ftUniMaxStreams) (b : Bytes) (f : Frame) (n : Nat)
    (h : parseMaxStreams b typ = .ok (f, n)) : Dom c typ f := by
  obtain ⟨p, r, v, _, hd, hv, rfl, _⟩ := parseMaxStreams_inv b typ f n h
  refine ⟨?_, fun _ _ => by simp [roundTripDomain]; rw [msc_eq] at hv; exact hv, rfl⟩
  rcases ht with rfl | rfl
  · simp (config := {decide := true}) [Frame.typ]
  · simp [Frame.typ]

theorem dom_streamsBlocked (typ : Nat) (ht : typ = ftBidiStreamBlocked ∨ typ = ftUniStreamBlocked) (b : Bytes) (f : Frame)
    (n : Nat) (h : parseStreamsBlocked b typ = .ok (f, n)) : Dom c typ f := by
  obtain ⟨p, r, v, _, hd, hv, rfl, _⟩ := parseStreamsBlocked_inv b typ f n h
  refine ⟨?_, fun _ _ => by simp [roundTripDomain]; rw [msc_eq] at hv; exact hv, rfl⟩
  rcases ht with rfl | rfl
  · simp (config := {decide := true}) [Frame.typ]
  · simp [Frame.typ]

theorem dom_maxStreamData (b : Bytes) (f : Frame) (n : Nat) (h : parseMaxStreamData b = .ok (f, n)) :
    Dom c ftMaxStreamData f := by
  obtain ⟨p1, p2, r, sid, v, _, h1, h2, rfl, _⟩ := parseMaxStreamData_inv b f n h
  exact ⟨id, fun _ _ => by simp [roundTripDomain]; exact ⟨le62 h1.2.1, le62 h2.2.1⟩, rfl⟩

theorem dom_stopSending (b : Bytes) (f : Frame) (n : Nat) (h : parseStopSending b = .ok (f, n)) : Dom c ftStopSending f := by
  obtain ⟨p1, p2, r, sid, v, _, h1, h2, rfl, _⟩ := parseStopSending_inv b f n h
  exact ⟨id, fun _ _ => by simp [roundTripDomain]; exact ⟨le62 h1.2.1, le62 h2.2.1⟩, rfl⟩

theorem dom_streamDataBlocked (b : Bytes) (f : Frame) (n : Nat) (h : parseStreamDataBlocked b = .ok (f, n)) :
    Dom c ftStreamDataBlocked f := by
  obtain ⟨p1, p2, r, sid, v, _, h1, h2, rfl, _⟩ := parseStreamDataBlocked_inv b f n h
  have e : ftStreamDataBlocked = 0x15 := by decide
  exact ⟨by simp only [Frame.typ, e]; exact id,
    fun _ _ => by simp [roundTripDomain]; exact ⟨le62 h1.2.1, le62 h2.2.1⟩, rfl⟩

theorem dom_resetStream (at_ : Bool) (b : Bytes) (f : Frame) (n : Nat) (h : parseResetStream b at_ = .ok (f, n)) :
    Dom c (if at_ then ftResetStreamAt else ftResetStream) f := by
  obtain ⟨p1, p2, p3, p4, r, sid, ec, fs, rs, _, h1, h2, h3, h4, hle, rfl, _⟩ := parseResetStream_inv b at_ f n h
  refine ⟨?_, fun _ _ => by simp [roundTripDomain]; exact ⟨⟨⟨le62 h1.2.1, le62 h2.2.1⟩, le62 h3.2.1⟩, hle⟩, rfl⟩
  cases at_ with
  | false =>
    simp only [Bool.false_eq_true, if_false] at h4
    simp [Frame.typ, h4.2]
  | true =>
    simp only [if_true]
    by_cases h0 : rs = 0
    · simp only [Frame.typ, h0, if_true]; exact accepted_reset c
    · simp [Frame.typ, h0]

theorem dom_ackFrequency (b : Bytes) (f : Frame) (n : Nat) (h : parseAckFrequency b = .ok (f, n)) :
    Dom c ftAckFrequency f := by
  obtain ⟨p1, p2, p3, p4, r, seq, th, mad, rt, _, h1, h2, h3, h4, rfl, _⟩ := parseAckFrequency_inv b f n h
  refine ⟨id, fun hfix _ => ?_, rfl⟩
  simp only [FixCond] at hfix
  have := ackFreqDelay_lt mad
  simp [roundTripDomain]
  exact ⟨⟨⟨⟨⟨le62 h1.2.1, le62 h2.2.1⟩, le62 h4.2.1⟩, hfix⟩, by omega⟩, this⟩

theorem dom_crypto (b : Bytes) (f : Frame) (n : Nat) (h : parseCrypto b = .ok (f, n)) : Dom c ftCrypto f := by
  obtain ⟨p1, p2, data, r, off, _, h1, h2, rfl, _⟩ := parseCrypto_inv b f n h
  exact ⟨id, fun _ _ => by simp [roundTripDomain]; exact ⟨le62 h1.2.1, le62 h2.2.1⟩, rfl⟩

theorem dom_newToken (b : Bytes) (f : Frame) (n : Nat) (h : parseNewToken b = .ok (f, n)) : Dom c ftNewToken f := by
  obtain ⟨p, tok, r, _, hd, hne, rfl, _⟩ := parseNewToken_inv b f n h
  exact ⟨id, fun _ _ => by simp [roundTripDomain]; exact ⟨hne, le62 hd.2.1⟩, rfl⟩

theorem dom_pathChallenge (b : Bytes) (f : Frame) (n : Nat) (h : parsePathChallenge b = .ok (f, n)) :
    Dom c ftPathChallenge f := by
  obtain ⟨d, r, _, hd, rfl, _⟩ := parsePathChallenge_inv b f n h
  exact ⟨id, fun _ _ => by simp [roundTripDomain, hd], by simp [Frame.wellTyped, hd]⟩

theorem dom_pathResponse (b : Bytes) (f : Frame) (n : Nat) (h : parsePathResponse b = .ok (f, n)) :
    Dom c ftPathResponse f := by
  obtain ⟨d, r, _, hd, rfl, _⟩ := parsePathResponse_inv b f n h
  exact ⟨id, fun _ _ => by simp [roundTripDomain, hd], by simp [Frame.wellTyped, hd]⟩

theorem dom_newConnectionID (b : Bytes) (f : Frame) (n : Nat) (h : parseNewConnectionID b = .ok (f, n)) :
    Dom c ftNewConnectionID f := by
  obtain ⟨p1, p2, cid, tok, r, seq, rpt, _, h1, h2, hle, hc1, hc2, hc3, ht, rfl, _⟩ := parseNewConnectionID_inv b f n h
  rw [mcl_eq] at hc2
  exact ⟨id, fun _ _ => by simp [roundTripDomain]; exact ⟨⟨⟨⟨le62 h1.2.1, hle⟩, hc1⟩, hc2⟩, ht⟩,
    by simp [Frame.wellTyped]; exact ⟨hc2, ht⟩⟩

theorem dom_connectionClose (typ : Nat) (ht : typ = ftConnectionClose ∨ typ = ftApplicationClose) (b : Bytes) (f : Frame)
    (n : Nat) (h : parseConnectionClose b typ = .ok (f, n)) : Dom c typ f := by
  obtain ⟨p1, p2, p3, reason, r, ec, ft, _, h1, h2, h3, rfl, _⟩ := parseConnectionClose_inv b typ f n h
  rcases ht with rfl | rfl
  · have hne : ftConnectionClose ≠ ftApplicationClose := by decide
    simp only [hne, if_false] at h2
    refine ⟨by simp (config := {decide := true}) [Frame.typ], fun _ _ => ?_, rfl⟩
    simp (config := {decide := true}) [roundTripDomain]
    exact ⟨⟨le62 h1.2.1, le62 h2.2.1⟩, le62 h3.2.1⟩
  · simp only [if_true] at h2
    refine ⟨by simp [Frame.typ], fun _ _ => ?_, rfl⟩
    simp [roundTripDomain]
    exact ⟨⟨le62 h1.2.1, h2.2⟩, le62 h3.2.1⟩

end

end Uquic.Proofs.Wire
