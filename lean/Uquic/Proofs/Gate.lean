/-
Helper lemmas for C13: single-step facts about the gate model (Uquic/Model/Handshake/Gate.lean).
-/
import Uquic.Model.Handshake.Gate

namespace Uquic.Proofs.Gate
open Uquic.Model.Handshake

/-- the gate state without the counter of queued undecryptable packets -/
def core (s : GateState) : GateState := { s with undecryptable := 0 }

theorem core_eq_iff (a b : GateState) :
    core a = core b ↔
      a.perspective = b.perspective ∧ a.version = b.version ∧ a.supported = b.supported ∧
      a.receivedFirstPacket = b.receivedFirstPacket ∧ a.receivedRetry = b.receivedRetry ∧
      a.versionNegotiated = b.versionNegotiated ∧ a.handshakeDestConnID = b.handshakeDestConnID ∧
      a.origDestConnID = b.origDestConnID ∧ a.retrySrcConnID = b.retrySrcConnID ∧ a.destConnID = b.destConnID := by
  cases a; cases b; simp [core]

def Action.isDrop : Action → Bool
  | .drop _ => true
  | _ => false

def Action.isRetryAccept : Action → Bool
  | .restartWithRetry _ _ => true
  | _ => false

/-! ### handleRetry -/

theorem handleRetry_cases (s : GateState) (p : PacketSummary) :
    ((handleRetry s p).1 = s ∧ ∃ r, (handleRetry s p).2 = .drop r) ∨
    (s.perspective = .client ∧ s.receivedFirstPacket = false ∧ s.receivedRetry = false ∧
      p.srcConnID ≠ s.destConnID ∧ p.retryTagFor = some s.destConnID ∧
      (handleRetry s p).1 = { s with receivedRetry := true, handshakeDestConnID := p.srcConnID,
                                     retrySrcConnID := some p.srcConnID, destConnID := p.srcConnID } ∧
      (handleRetry s p).2 = .restartWithRetry p.srcConnID p.token) := by
  unfold handleRetry
  by_cases h1 : s.perspective = .server
  · simp [h1]
  by_cases h2 : s.receivedFirstPacket = true
  · simp [h1, h2]
  by_cases h3 : p.srcConnID = s.destConnID
  · simp [h1, h2, h3]
  by_cases h4 : s.receivedRetry = true
  · simp [h1, h2, h3, h4]
  by_cases h5 : p.retryTagFor = some s.destConnID
  · right
    have hc : s.perspective = .client := by cases hp : s.perspective <;> simp_all
    simp_all
  · simp [h1, h2, h3, h4, h5]

/-! ### handleVN -/

theorem handleVN_state (s : GateState) (p : PacketSummary) : (handleVN s p).1 = s := by
  unfold handleVN
  split
  · rfl
  · split
    · rfl
    · split
      · rfl
      · split <;> rfl

/-! ### unpack / firstPacket -/

theorem firstPacket_of_rfp (s : GateState) (p : PacketSummary) (h : s.receivedFirstPacket = true) :
    firstPacket s p = s := by
  simp [firstPacket, h]

theorem firstPacket_core (s : GateState) (p : PacketSummary) :
    (firstPacket s p).receivedFirstPacket = true ∧ (firstPacket s p).perspective = s.perspective ∧
    (firstPacket s p).version = s.version ∧ (firstPacket s p).supported = s.supported ∧
    (firstPacket s p).receivedRetry = s.receivedRetry ∧ (firstPacket s p).versionNegotiated = s.versionNegotiated ∧
    (firstPacket s p).origDestConnID = s.origDestConnID ∧ (firstPacket s p).retrySrcConnID = s.retrySrcConnID := by
  unfold firstPacket
  split
  · simp_all
  · split <;> simp

/-- `unpack` either leaves the state alone (drop), queues the packet (only the counter moves), or processes it -/
theorem unpack_cases (s : GateState) (p : PacketSummary) (long : Bool) :
    ((unpack s p long).1 = s ∧ ∃ r, (unpack s p long).2 = .drop r) ∨
    ((unpack s p long).1 = { s with undecryptable := s.undecryptable + 1 } ∧ (unpack s p long).2 = .buffer ∧ p.keys = .notYet) ∨
    (p.keys = .avail ∧ p.hdrOK = true ∧ p.opens = true ∧ p.duplicate = false ∧
      (unpack s p long).1 = (if long then firstPacket s p else s) ∧
      ((unpack s p long).2 = .process ∨ (unpack s p long).2 = .processFatal)) := by
  unfold unpack
  cases hk : p.keys with
  | dropped => simp
  | notYet =>
    by_cases h : s.undecryptable + 1 > maxUndecryptablePackets
    · simp [h]
    · simp [h]
  | avail =>
    by_cases h1 : p.hdrOK = true
    · by_cases h2 : p.opens = true
      · by_cases h3 : p.duplicate = true
        · simp [h1, h2, h3]
        · right; right
          by_cases h4 : p.fatal = true <;> simp_all
      · simp [h1, h2]
    · simp [h1]

/-! ### gate -/

/-- every step of the gate: the state is unchanged, or only the undecryptable counter grew, or a Retry was
accepted, or a packet was processed (first-packet bookkeeping) -/
inductive StepKind (s : GateState) (p : PacketSummary) : GateState → Action → Prop
  | drop (r : Reason) : StepKind s p s (.drop r)
  | buffer : p.kind ≠ .retry → p.kind ≠ .vn → p.keys = .notYet →
      (s.receivedFirstPacket = true → p.kind = .initial → p.srcConnID = s.handshakeDestConnID) →
      StepKind s p { s with undecryptable := s.undecryptable + 1 } .buffer
  | retry : p.kind = .retry → s.perspective = .client → s.receivedFirstPacket = false → s.receivedRetry = false →
      p.srcConnID ≠ s.destConnID → p.retryTagFor = some s.destConnID → p.version = s.version →
      StepKind s p { s with receivedRetry := true, handshakeDestConnID := p.srcConnID,
                            retrySrcConnID := some p.srcConnID, destConnID := p.srcConnID }
        (.restartWithRetry p.srcConnID p.token)
  | recreate (v : Nat) : p.kind = .vn → s.perspective = .client → s.receivedFirstPacket = false → s.versionNegotiated = false →
      p.vnVersions.contains s.version = false → chooseSupportedVersion s.supported p.vnVersions = some v →
      StepKind s p s (.recreate v)
  | fail : p.kind = .vn → s.perspective = .client → s.receivedFirstPacket = false → s.versionNegotiated = false →
      p.vnVersions.contains s.version = false → chooseSupportedVersion s.supported p.vnVersions = none →
      StepKind s p s .fail
  | processLong (fatal : Bool) : p.kind ≠ .retry → p.kind ≠ .vn → p.kind ≠ .short → p.opens = true → p.keys = .avail →
      p.version = s.version →
      (s.receivedFirstPacket = true → p.kind = .initial → p.srcConnID = s.handshakeDestConnID) →
      StepKind s p (firstPacket s p) (if fatal then .processFatal else .process)
  | processShort (fatal : Bool) : p.kind = .short → p.opens = true → p.keys = .avail →
      StepKind s p s (if fatal then .processFatal else .process)

theorem gate_long (s : GateState) (p : PacketSummary) (h1 : p.kind ≠ .vn) (h2 : p.kind ≠ .short) :
    gate s p = gateLong s p := by
  unfold gate
  cases hk : p.kind <;> simp_all

theorem preCheck_cases (s : GateState) (p : PacketSummary) :
    (∃ r, preCheck s p = some r) ∨ (preCheck s p = none ∧ p.version = s.version) := by
  unfold preCheck
  by_cases h1 : p.parse = .headerErr
  · left; simp [h1]
  by_cases h2 : p.parse = .unsupportedVersion
  · left; simp [h1, h2]
  by_cases h3 : p.version = s.version
  · right; simp [h1, h2, h3]
  · left; simp [h1, h2, h3]

theorem handleLong_stepKind (s : GateState) (p : PacketSummary) (hv : p.version = s.version)
    (h1 : p.kind ≠ .vn) (h2 : p.kind ≠ .short) : StepKind s p (handleLong s p).1 (handleLong s p).2 := by
  unfold handleLong
  by_cases hr : p.kind = .retry
  · simp only [hr, ite_true]
    rcases handleRetry_cases s p with ⟨h4, r, h5⟩ | ⟨a, b, c, d, e, f, g⟩
    · rw [h4, h5]; exact .drop r
    · rw [f, g]; exact .retry hr a b c d e hv
  · simp only [hr, ite_false]
    by_cases h4 : s.receivedFirstPacket = true ∧ p.kind = .initial ∧ p.srcConnID ≠ s.handshakeDestConnID
    · rw [if_pos h4]; exact .drop _
    · rw [if_neg h4]
      by_cases h5 : s.perspective = .client ∧ p.kind = .zeroRTT
      · rw [if_pos h5]; exact .drop _
      · rw [if_neg h5]
        have hs : s.receivedFirstPacket = true → p.kind = .initial → p.srcConnID = s.handshakeDestConnID := by
          intro ha hb
          by_cases he : p.srcConnID = s.handshakeDestConnID
          · exact he
          · exact absurd ⟨ha, hb, he⟩ h4
        rcases unpack_cases s p true with ⟨h6, r, h7⟩ | ⟨h6, h7, h8⟩ | ⟨h6, h7, h8, h9, h10, h11⟩
        · rw [h6, h7]; exact .drop r
        · rw [h6, h7]; exact .buffer hr h1 h8 hs
        · simp only [ite_true] at h10
          rw [h10]
          rcases h11 with h11 | h11 <;> rw [h11]
          · exact .processLong false hr h1 h2 h8 h6 hv hs
          · exact .processLong true hr h1 h2 h8 h6 hv hs

theorem gate_stepKind (s : GateState) (p : PacketSummary) : StepKind s p (gate s p).1 (gate s p).2 := by
  by_cases hvn : p.kind = .vn
  · have : gate s p = handleVN s p := by unfold gate; simp [hvn]
    rw [this]
    unfold handleVN
    by_cases h1 : s.perspective = .server ∨ s.receivedFirstPacket = true ∨ s.versionNegotiated = true
    · rw [if_pos h1]; exact .drop _
    · have hc : s.perspective = .client := by cases hp : s.perspective <;> simp_all
      have hr : s.receivedFirstPacket = false := by cases hp : s.receivedFirstPacket <;> simp_all
      have hv : s.versionNegotiated = false := by cases hp : s.versionNegotiated <;> simp_all
      rw [if_neg h1]
      by_cases h2 : ¬ p.vnParseOK = true
      · rw [if_pos h2]; exact .drop _
      · rw [if_neg h2]
        by_cases h3 : p.vnVersions.contains s.version = true
        · rw [if_pos h3]; exact .drop _
        · rw [if_neg h3]
          have h3' : p.vnVersions.contains s.version = false := by simpa using h3
          cases hch : chooseSupportedVersion s.supported p.vnVersions with
          | none => exact .fail hvn hc hr hv h3' hch
          | some v => exact .recreate v hvn hc hr hv h3' hch
  by_cases hsh : p.kind = .short
  · have : gate s p = unpack s p false := by unfold gate; simp [hsh]
    rw [this]
    rcases unpack_cases s p false with ⟨h1, r, h2⟩ | ⟨h1, h2, h3⟩ | ⟨h1, h2, h3, h4, h5, h6⟩
    · rw [h1, h2]; exact .drop r
    · rw [h1, h2]; exact .buffer (by simp [hsh]) (by simp [hsh]) h3 (by simp [hsh])
    · simp only [Bool.false_eq_true, ite_false] at h5
      rw [h5]
      rcases h6 with h6 | h6 <;> rw [h6]
      · exact .processShort false hsh h3 h1
      · exact .processShort true hsh h3 h1
  rw [gate_long s p hvn hsh]
  unfold gateLong
  rcases preCheck_cases s p with ⟨r, hr⟩ | ⟨hn, hv⟩
  · rw [hr]; exact .drop r
  · rw [hn]; exact handleLong_stepKind s p hv hvn hsh

end Uquic.Proofs.Gate
