/-
C19: the parser accepts what encodeHeaders emits and decodes it to the same fields. Part 3.
-/
import Uquic.Proofs.FieldsWriter2

namespace Uquic.Proofs.Fields
open Uquic.Model.H3.Fields Uquic.Model.H3.Writer Uquic.Gen.H3Fields
open Uquic.Spec.H3Fields (isPseudoName lowerTchar fieldValueByte isDigitByte connectionSpecific allowedPseudo
  fieldSize sectionSize WellFormedG WellFormed)

/-- the path encodeHeaders puts into :path -/
def emittedPath (w : WReq) (host : List Nat) : List Nat :=
  if validPseudoPath w.reqURI then w.reqURI else trimPrefix (w.scheme ++ [58, 47, 47] ++ host) w.reqURI

theorem encode_decompose (ua : List Nat) (w : WReq) (fs : List Field) (hw : encodeHeaders ua w = .ok fs) :
    ∃ host, w.puny = some host ∧ validHost host = true ∧
      w.headers.any (fun kv => !validFieldName kv.1 || kv.2.any (fun v => !validFieldValue v)) = false ∧
      (needPath w = true → validPseudoPath (emittedPath w host) = true) ∧
      fs = pseudoPart w host (emittedPath w host) ++ regularPart ua w := by
  unfold encodeHeaders at hw
  split at hw
  · cases hw
  rename_i host hpuny
  split at hw
  · cases hw
  rename_i hvh
  simp only [] at hw
  split at hw
  · cases hw
  rename_i hpath
  split at hw
  · cases hw
  rename_i hhdr
  cases hw
  refine ⟨host, hpuny, by simpa using hvh, by simpa using hhdr, ?_, rfl⟩
  intro hn
  simp only [hn, Bool.true_and, Bool.and_eq_true, Bool.not_eq_true', not_and, Bool.not_eq_false] at hpath
  unfold emittedPath
  split
  · assumption
  · rename_i h1; exact hpath (by simpa using h1)

theorem emittedPath_bytes (w : WReq) (host : List Nat) (h : validFieldValue w.reqURI = true) :
    ∀ b ∈ emittedPath w host, fieldValueByte b = true := by
  have hb := value_bytes_of_valid _ h
  unfold emittedPath trimPrefix
  split
  · exact hb
  · split
    · exact drop_bytes _ _ hb
    · exact hb

theorem fieldValue_append_left (P R : List Field) (n : List Nat) (h : ∀ g ∈ R, g.1 ≠ n) :
    fieldValue (P ++ R) n = fieldValue P n := by
  simp only [fieldValue, Uquic.Spec.H3FieldsMon.fieldValue, List.find?_append]
  have : R.find? (fun g => g.1 == n) = none := by
    simp only [List.find?_eq_none, beq_iff_eq]; exact h
  rw [this]; simp

theorem pseudoPart_values (w : WReq) (host path : List Nat) :
    fieldValue (pseudoPart w host path) nMethod = w.method ∧
    fieldValue (pseudoPart w host path) nAuthority = host ∧
    fieldValue (pseudoPart w host path) nPath = (if needPath w then path else []) ∧
    fieldValue (pseudoPart w host path) nScheme = (if needPath w then w.scheme else []) ∧
    fieldValue (pseudoPart w host path) nProtocol = (if isExtendedConnect w then w.proto else []) := by
  have e1 : (nAuthority == nMethod) = false := by decide
  have e2 : (nAuthority == nPath) = false := by decide
  have e3 : (nMethod == nPath) = false := by decide
  have e4 : (nAuthority == nScheme) = false := by decide
  have e5 : (nMethod == nScheme) = false := by decide
  have e6 : (nPath == nScheme) = false := by decide
  have e7 : (nAuthority == nProtocol) = false := by decide
  have e8 : (nMethod == nProtocol) = false := by decide
  have e9 : (nPath == nProtocol) = false := by decide
  have e10 : (nScheme == nProtocol) = false := by decide
  have e11 : (nProtocol == nPath) = false := by decide
  have e12 : (nProtocol == nScheme) = false := by decide
  simp only [pseudoPart]
  generalize needPath w = np
  generalize isExtendedConnect w = ie
  cases np <;> cases ie <;>
    simp [fieldValue, Uquic.Spec.H3FieldsMon.fieldValue, List.find?, e1, e2, e3, e4, e5, e6, e7, e8, e9, e10, e11, e12]

theorem decodedHeaders_parts (P R : List Field) (hP : ∀ f ∈ P, isPseudoName f.1 = true) :
    decodedHeaders (P ++ R) = decodedHeaders R := by
  have : P.filter (fun f => !isPseudoName f.1 && f.1 != nContentLength) = [] :=
    List.filter_eq_nil_iff.mpr (fun f hf => by simp [hP f hf])
  simp [decodedHeaders, List.filter_append, this]

/-- what the parser returns for a section in which every Content-Length field carries `clv` -/
theorem parse_cl_result (ext : List Nat → Bool) (isReq : Bool) (lim : Int) (fs : List Field) (h : Hdr)
    (hp : parseHeaders ext isReq lim fs = .ok h) (clv : List Nat) (hclv : clv ≠ [])
    (hall : ∀ f ∈ fs, f.1 = nContentLength → f.2 = clv) :
    ((∃ f ∈ fs, f.1 = nContentLength) → h.contentLength = (decVal clv : Int) ∧ h.headers = hdrSet (decodedHeaders fs) kContentLength clv) ∧
    ((∀ f ∈ fs, f.1 ≠ nContentLength) → h.contentLength = -1 ∧ h.headers = decodedHeaders fs) := by
  obtain ⟨s, inv, _, hf⟩ := parse_ok_inv ext isReq lim fs false h hp
  constructor
  · rintro ⟨f, hfm, hfn⟩
    have hr : s.readCL = true := by
      cases hr : s.readCL with
      | true => rfl
      | false => exact absurd hfn ((inv.clNone hr).1 f hfm)
    have hs : s.clStr = clv := by rw [← inv.clSome hr f hfm hfn]; exact hall f hfm hfn
    unfold finish at hf
    rw [hs] at hf
    simp only [ne_eq, hclv, not_false_eq_true, if_true] at hf
    split at hf
    · cases hf
    · rename_i v hv
      cases hf
      unfold parseUint63 at hv
      split at hv
      · cases hv; exact ⟨rfl, by simp only []; rw [inv.headers]⟩
      · cases hv
  · intro hno
    have hr : s.readCL = false := by
      cases hr : s.readCL with
      | false => rfl
      | true => obtain ⟨g, hg, hg1, _⟩ := inv.clWitness hr; exact absurd hg1 (hno g hg)
    have hs := (inv.clNone hr).2
    unfold finish at hf
    simp only [hs, ne_eq, not_true_eq_false, if_false] at hf
    cases hf
    exact ⟨rfl, inv.headers⟩

end Uquic.Proofs.Fields
