/-
C04: small technical lemmas used by the property theorems (closed form of the receive outcome,
absence of panics with a non-nil callback, sum comparison, which operation can answer `resetOk`).
-/
import Uquic.Proofs.FlowMono

set_option linter.unusedVariables false

namespace Uquic.Proofs.Flow
open Uquic.Model.FlowControl

theorem resetOk_only_reset {s : State} {op : Op} (h : (step s op).2 = .resetOk) : op = .reset := by
  cases op <;> simp only [step, stepT] at h
  all_goals (first | rfl | (repeat' split at h) <;> simp at h)


/-- the outcome of `UpdateHighestReceived` in closed form (same case order as the Go code) -/
def recvOutcome (st : Stream) (c : Base) (off : Int) (fin : Bool) : RecvOut :=
  if st.receivedFinalOffset = true ∧ fin = true ∧ off ≠ st.base.highestReceived then .finalSize
  else if st.receivedFinalOffset = true ∧ off > st.base.highestReceived then .finalSize
  else if off = st.base.highestReceived then .ok
  else if off < st.base.highestReceived then (if fin = true then .finalSize else .ok)
  else if off > st.base.receiveWindow then .flowControl
  else if c.highestReceived + (off - st.base.highestReceived) > c.receiveWindow then .flowControl
  else .ok

theorem recv_outcome (st : Stream) (c : Base) (off : Int) (fin : Bool) (now : Int) :
    (st.updateHighestReceived c off fin now).2.2.1 = recvOutcome st c off fin := by
  unfold Stream.updateHighestReceived Conn.incrementHighestReceived recvOutcome Base.checkFlowControlViolation
  simp only [cmp, Uquic.Gen.Flowcontrol.violationCmpOp]
  repeat' split
  all_goals (simp [Base.startNewAutoTuningEpoch] at *)
  all_goals (try omega)


theorem sumBy_le {f g : Stream → Int} {l : List Stream} (h : ∀ st ∈ l, f st ≤ g st) : sumBy f l ≤ sumBy g l := by
  induction l with
  | nil => simp
  | cons a l ih =>
    have h1 := h a (by simp)
    have h2 := ih (fun st hst => h st (by simp [hst]))
    simp only [sumBy_cons]; omega

theorem sumBy_congr {f g : Stream → Int} {l : List Stream} (h : ∀ st ∈ l, f st = g st) : sumBy f l = sumBy g l := by
  induction l with
  | nil => simp
  | cons a l ih =>
    have h1 := h a (by simp)
    have h2 := ih (fun st hst => h st (by simp [hst]))
    simp only [sumBy_cons]; omega


theorem askAllow_nopanic (g : Bool) (allow : Option Bool) (d : Int) (h : g = true ∨ allow ≠ none) :
    (Base.askAllow g allow d).2.2 = false := by
  unfold Base.askAllow
  cases allow <;> simp_all

theorem maybeAdjust_nopanic (c : Base) (now rtt : Int) (allow : Option Bool) :
    (c.maybeAdjustWindowSize now rtt allow).2.2 = false := by
  have hq := fun d => askAllow_nopanic Uquic.Gen.Flowcontrol.adjustCallbackNilGuarded allow d (Or.inl rfl)
  unfold Base.maybeAdjustWindowSize
  simp only []
  repeat' split
  all_goals (first | rfl | skip)
  rename_i heq
  have := congrArg (fun t => t.2.2) heq
  simp [hq] at this

theorem getWindowUpdate_nopanic (c : Base) (now rtt : Int) (allow : Option Bool) :
    (c.getWindowUpdate now rtt allow).2.2.2 = false := by
  have hq := maybeAdjust_nopanic c now rtt allow
  unfold Base.getWindowUpdate
  repeat' split
  all_goals (first | rfl | skip)
  rename_i heq
  rw [heq] at hq
  simp at hq

theorem ensureMin_nopanic (c : Base) (inc now : Int) (b : Bool) :
    (Conn.ensureMinimumWindowSize c inc now (some b)).2.2 = false := by
  have hq := fun d => askAllow_nopanic Uquic.Gen.Flowcontrol.ensureMinCallbackNilGuarded (some b) d (Or.inr (by simp))
  unfold Conn.ensureMinimumWindowSize
  simp only []
  repeat' split
  all_goals (first | rfl | skip)
  rename_i heq
  have := congrArg (fun t => t.2.2) heq
  simp [hq] at this

theorem stream_getWindowUpdate_nopanic (st : Stream) (c : Base) (now rtt : Int) (b : Bool) :
    (st.getWindowUpdate c now rtt (some b)).2.2.2.2 = false := by
  unfold Stream.getWindowUpdate
  simp only [getWindowUpdate_nopanic, ensureMin_nopanic]
  repeat' split
  all_goals (first | rfl | simp_all)


end Uquic.Proofs.Flow
