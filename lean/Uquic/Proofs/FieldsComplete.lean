/-
C19: completeness — parseHeaders accepts every section that satisfies the (weakened) reference
predicate and whose Content-Length fits 63 bits. Together with accept_sound_partial this
characterises the accepted sections exactly.
-/
import Uquic.Proofs.FieldsParse

namespace Uquic.Proofs.Fields
open Uquic.Model.H3.Fields Uquic.Gen.H3Fields
open Uquic.Spec.H3Fields (isPseudoName lowerTchar fieldValueByte isDigitByte connectionSpecific allowedPseudo
  fieldSize sectionSize NameTokens ValueBytes NoConnectionSpecific TeTrailers PseudoKnown PseudoFirst PseudoUnique
  ClSingle ClNumeric SizeOk WellFormed)

theorem fieldSize_nonneg (f : Field) : 0 ≤ fieldSize f := by simp only [fieldSize]; omega

theorem sectionSize_nonneg (fs : List Field) : 0 ≤ sectionSize fs := by
  induction fs with
  | nil => simp [sectionSize]
  | cons f r ih =>
    have := fieldSize_nonneg f
    simp only [sectionSize, List.map_cons, List.sum_cons] at ih ⊢; omega

theorem allowedPseudo_lookup : ∀ (r : Bool), ∀ n ∈ allowedPseudo r,
    isASCII n = true ∧ n.any isUpper = false ∧ isPseudoName n = true ∧ n ∈ knownPseudo ∧
    ∃ x, pseudoCases.lookup n = some x ∧ (r && x) = false ∧ (!r && !x) = false := by decide

theorem invalid_sub_conn : ∀ n ∈ invalidHeaderFields, n ∈ connectionSpecific := by decide

theorem fieldValue_none (pre : List Field) (n : List Nat) (h : ∀ g ∈ pre, g.1 ≠ n) : fieldValue pre n = [] := by
  simp only [fieldValue, Uquic.Spec.H3FieldsMon.fieldValue]
  have : pre.find? (fun g => g.1 == n) = none := by
    simp only [List.find?_eq_none, beq_iff_eq]; exact h
  rw [this]

/-- the loop does not reject a field of a well-formed section -/
theorem step_complete (ext : List Nat → Bool) (isReq : Bool) (lim : Int) (pre rest : List Field) (f : Field) (s : PS)
    (inv : Inv isReq lim pre s) (wf : WellFormed isReq lim (pre ++ f :: rest)) :
    ∃ s', stepField ext isReq s f = .ok s' := by
  have hfmem : f ∈ pre ++ f :: rest := by simp
  -- size
  have hsz : 0 ≤ s.limit - ((f.1.length : Int) + (f.2.length : Int) + headerFieldOverhead) := by
    have h1 : sectionSize (pre ++ f :: rest) ≤ lim := wf.size_ok
    rw [sectionSize_append] at h1
    have h2 : sectionSize (f :: rest) = fieldSize f + sectionSize rest := by simp [sectionSize]
    have h3 := sectionSize_nonneg rest
    have h4 := inv.lim
    simp only [overhead_eq, fieldSize] at *
    omega
  have hval : validFieldValue f.2 = true := by
    apply List.all_eq_true.mpr
    intro b hb; rw [validValueByte_iff]; exact wf.value_bytes f hfmem b hb
  have hnotbefore : ∀ g ∈ pre, isPseudoName f.1 = true → g.1 ≠ f.1 := by
    intro g hg hp heq
    have hu := wf.pseudo_unique
    simp only [PseudoUnique, List.filter_append, List.map_append, List.filter_cons, hp, if_true, List.map_cons,
      List.nodup_append, List.nodup_cons] at hu
    have : g.1 ∈ (pre.filter (fun f => isPseudoName f.1)).map Prod.fst := by
      simp only [List.mem_map, List.mem_filter]
      exact ⟨g, ⟨hg, by rw [heq]; exact hp⟩, rfl⟩
    exact hu.2.2 _ this _ (List.mem_cons_self) heq
  unfold stepField
  simp only []
  rw [if_neg (by omega)]
  cases hps : isPseudo f.1 with
  | true =>
    have hps' : isPseudoName f.1 = true := by rw [← isPseudo_eq]; exact hps
    obtain ⟨hasc, hup, _, hkn, x, hx, hx1, hx2⟩ := allowedPseudo_lookup isReq f.1 (wf.pseudo_known f hfmem hps')
    have hlow : lowerFix ext f.1 = true := by simp [lowerFix, hasc, hup]
    have hfr : s.firstRegular = false := by
      cases hfr : s.firstRegular with
      | false => rfl
      | true =>
        obtain ⟨g, hg, hgp⟩ := inv.someRegular hfr
        have hpw := wf.pseudo_first
        simp only [PseudoFirst, List.pairwise_append] at hpw
        have := hpw.2.2 g hg f (List.mem_cons_self) hps'
        rw [hgp] at this; cases this
    have hget : getPseudo s.hdr f.1 = [] := by
      rw [inv.hdrv f.1 hkn]; exact fieldValue_none pre f.1 (fun g hg => hnotbefore g hg hps')
    have hseen : s.seen.contains f.1 = false := by
      simp only [List.contains_eq_mem, decide_eq_false_iff_not, inv.seen, List.mem_map, List.mem_filter, not_exists, not_and]
      intro g hg heq; exact hnotbefore g hg.1 hps' heq
    simp only [hlow, hval, hfr, hx, hget, hseen, hx1, hx2, Bool.not_true, Bool.false_eq_true, if_false, if_true,
      ne_eq, not_true_eq_false, decide_false, Bool.or_self]
    exact ⟨_, rfl⟩
  | false =>
    have hps' : isPseudoName f.1 = false := by rw [← isPseudo_eq]; exact hps
    obtain ⟨hne, htok⟩ := wf.name_tokens f hfmem hps'
    have hname : validFieldName f.1 = true := by
      simp only [validFieldName, Bool.and_eq_true, Bool.not_eq_true', List.isEmpty_eq_false_iff]
      exact ⟨hne, List.all_eq_true.mpr (fun b hb => (lowerTchar_token b (htok b hb)).1)⟩
    have hlow : lowerFix ext f.1 = true := by
      have ha := validFieldName_ascii f.1 hname
      simp only [lowerFix, ha, if_true, Bool.not_eq_true', List.any_eq_false]
      intro b hb; simp [(lowerTchar_token b (htok b hb)).2]
    have hinv : invalidHeaderFields.contains f.1 = false := by
      simp only [List.contains_eq_mem, decide_eq_false_iff_not]
      intro hc; exact wf.no_connection_specific f hfmem (invalid_sub_conn _ hc)
    have hvr : validateRegular f = .ok () := by
      unfold validateRegular
      simp only [hname, hinv, Bool.not_true, Bool.false_eq_true, if_false]
      by_cases hte : f.1 = nTe
      · have := wf.te_trailers f hfmem hte
        have h2 : f.2 = vTrailers := this
        simp [hte, h2]
      · simp [hte]
    simp only [hlow, hval, hvr, Bool.not_true, Bool.false_eq_true, if_false]
    by_cases hcl : f.1 = nContentLength
    · simp only [hcl, if_true]
      cases hr : s.readCL with
      | false => simp only [Bool.not_false, if_true]; exact ⟨_, rfl⟩
      | true =>
        obtain ⟨g, hg, hg1, hg2⟩ := inv.clWitness hr
        have : g.2 = f.2 := wf.cl_single g (List.mem_append_left _ hg) f hfmem hg1 hcl
        simp only [Bool.not_true, Bool.false_eq_true, if_false, ← hg2, this, ne_eq, not_true_eq_false]
        exact ⟨_, rfl⟩
    · simp only [hcl, if_false]; exact ⟨_, rfl⟩

theorem run_complete (ext : List Nat → Bool) (isReq : Bool) (lim : Int) (rest : List Field) :
    ∀ (pre : List Field) (s : PS), Inv isReq lim pre s → WellFormed isReq lim (pre ++ rest) →
      ∃ s', runFields ext isReq s rest = .ok s' := by
  induction rest with
  | nil => intro pre s _ _; exact ⟨s, rfl⟩
  | cons f r ih =>
    intro pre s inv wf
    obtain ⟨s1, hs1⟩ := step_complete ext isReq lim pre r f s inv wf
    have inv1 := inv_step ext isReq lim pre s s1 f inv hs1
    obtain ⟨s', hs'⟩ := ih (pre ++ [f]) s1 inv1 (by simpa using wf)
    exact ⟨s', by simp only [runFields, hs1]; exact hs'⟩

/-- the Content-Length values of a section fit `strconv.ParseUint(_, 10, 63)` -/
def ClFits (fs : List Field) : Prop := ∀ f ∈ fs, f.1 = nContentLength → decVal f.2 < 2 ^ 63

theorem accept_complete_of_wf (ext : List Nat → Bool) (isReq : Bool) (lim : Int) (fs : List Field)
    (wf : WellFormed isReq lim fs) : ∃ h, parseHeaders ext isReq lim fs = .ok h := by
  have hfit : ClFits fs := wf.cl_range
  obtain ⟨s, hs⟩ := run_complete ext isReq lim fs [] _ (inv_init isReq lim) (by simpa using wf)
  have inv := inv_run ext isReq lim fs [] _ s (inv_init isReq lim) hs
  simp only [List.nil_append] at inv
  simp only [parseHeaders, parseHeadersQ, hs, Bool.false_eq_true, if_false]
  unfold finish
  cases hr : s.readCL with
  | false => simp
  | true =>
    simp only [if_true]
    obtain ⟨g, hg, hg1, hg2⟩ := inv.clWitness hr
    obtain ⟨hne, hd⟩ := wf.cl_numeric g hg hg1
    have hf := hfit g hg hg1
    have : parseUint63 s.clStr = some (decVal s.clStr) := by
      unfold parseUint63
      rw [← hg2]
      have h1 : g.2.isEmpty = false := by simpa using hne
      have h2 : g.2.all isDigit = true := List.all_eq_true.mpr (fun b hb => hd b hb)
      simp [h1, h2, hf]
    rw [this]; exact ⟨_, rfl⟩

theorem fits_of_ok (ext : List Nat → Bool) (isReq : Bool) (lim : Int) (fs : List Field) (h : Hdr)
    (hp : parseHeaders ext isReq lim fs = .ok h) : ClFits fs := by
  obtain ⟨s, inv, _, hf⟩ := parse_ok_inv ext isReq lim fs false h hp
  intro f hfm hn
  cases hr : s.readCL with
  | false => exact absurd hn ((inv.clNone hr).1 f hfm)
  | true =>
    rw [inv.clSome hr f hfm hn]
    rcases finish_cl s h hf with h0 | ⟨_, _, _, hlt⟩
    · rw [hr] at h0; cases h0
    · exact hlt

end Uquic.Proofs.Fields
