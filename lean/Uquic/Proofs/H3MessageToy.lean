/-
A concrete instance of the QPACK parameter for the non-vacuity examples of Props/C18Compose.lean:
a length-prefixed listing of the fields (no compression). Its only purpose is to show that the
round-trip contract `Qpack.RoundTrip` is satisfiable and to let `decide` run a whole message through
the composed pipeline.
-/
import Uquic.Proofs.H3MessageFields

namespace Uquic.Proofs.H3Msg

/-- so that `decide` can compare results (core has no such instance) -/
instance instDecEqExcept {ε α : Type} [DecidableEq ε] [DecidableEq α] : DecidableEq (Except ε α)
  | .ok a, .ok b => if h : a = b then isTrue (by rw [h]) else isFalse (by intro hc; cases hc; exact h rfl)
  | .error a, .error b => if h : a = b then isTrue (by rw [h]) else isFalse (by intro hc; cases hc; exact h rfl)
  | .ok _, .error _ => isFalse (by intro hc; cases hc)
  | .error _, .ok _ => isFalse (by intro hc; cases hc)

def toyEnc : List (List Nat × List Nat) → List Nat
  | [] => []
  | (n, v) :: fs => n.length :: (n ++ (v.length :: (v ++ toyEnc fs)))

def toyDec : Nat → List Nat → Option (List (List Nat × List Nat))
  | _, [] => some []
  | 0, _ :: _ => none
  | fuel + 1, nl :: rest =>
    match rest.drop nl with
    | [] => none
    | vl :: rest2 => (toyDec fuel (rest2.drop vl)).map fun fs => (rest.take nl, rest2.take vl) :: fs

def toyQ : Qpack := { enc := toyEnc, dec := fun bs => toyDec bs.length bs }

theorem toyDec_enc (fs : List (List Nat × List Nat)) :
    ∀ fuel, (toyEnc fs).length ≤ fuel → toyDec fuel (toyEnc fs) = some fs := by
  induction fs with
  | nil => intro fuel _; cases fuel <;> rfl
  | cons f fs ih =>
    obtain ⟨n, v⟩ := f
    intro fuel hf
    simp only [toyEnc, List.length_cons, List.length_append] at hf
    obtain ⟨k, rfl⟩ : ∃ k, fuel = k + 1 := ⟨fuel - 1, by omega⟩
    simp only [toyEnc, toyDec, List.drop_left', List.take_left']
    rw [ih k (by omega)]
    rfl

theorem toyQ_roundTrip : toyQ.RoundTrip := fun fs => toyDec_enc fs _ (Nat.le_refl _)

end Uquic.Proofs.H3Msg
