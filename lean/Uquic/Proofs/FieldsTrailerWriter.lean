/-
C19: parseTrailers accepts what writeTrailers emits and decodes it to the same fields.
-/
import Uquic.Proofs.FieldsWriter2
import Uquic.Proofs.FieldsTrailers

namespace Uquic.Proofs.Fields
open Uquic.Model.H3.Fields Uquic.Model.H3.Writer Uquic.Gen.H3Fields
open Uquic.Spec.H3Fields (isPseudoName lowerTchar fieldValueByte connectionSpecific fieldSize sectionSize)

def lowerB (c : Nat) : Nat := if isUpper c then c + 32 else c

theorem lowerASCII_eq (k : List Nat) : lowerASCII k = k.map lowerB := rfl

theorem canonByte_lower (up : Bool) (c : Nat) :
    (if up && isLower (lowerB c) then lowerB c - 32 else if !up && isUpper (lowerB c) then lowerB c + 32 else lowerB c) =
    (if up && isLower c then c - 32 else if !up && isUpper c then c + 32 else c) := by
  cases up <;> simp only [lowerB, isUpper, isLower, Bool.true_and, Bool.false_and, Bool.not_true, Bool.not_false,
      Bool.false_eq_true, if_false, Bool.and_eq_true, decide_eq_true_eq] <;>
    repeat' split
  all_goals omega

theorem canonGo_lower (k : List Nat) : ∀ up, canonGo up (k.map lowerB) = canonGo up k := by
  induction k with
  | nil => intro up; rfl
  | cons c r ih =>
    intro up
    simp only [List.map_cons, canonGo]
    rw [canonByte_lower up c, ih]

theorem token_lowerB_small : ∀ c, c < 127 → isTokenByte (lowerB c) = isTokenByte c := by decide

theorem token_lowerB (c : Nat) : isTokenByte (lowerB c) = isTokenByte c := by
  by_cases h : c < 127
  · exact token_lowerB_small c h
  · have : isUpper c = false := by
      simp only [isUpper, Bool.and_eq_false_iff, decide_eq_false_iff_not]; omega
    simp [lowerB, this]

theorem canonKey_lower (k : List Nat) : canonKey (lowerASCII k) = canonKey k ∨ k.all isTokenByte = false := by
  by_cases h : k.all isTokenByte = true
  · left
    have h2 : (lowerASCII k).all isTokenByte = true := by
      rw [lowerASCII_eq, List.all_map]
      apply List.all_eq_true.mpr
      intro c hc
      simp only [Function.comp, token_lowerB]
      exact List.all_eq_true.mp h c hc
    simp only [canonKey, h, h2, if_true]
    rw [lowerASCII_eq, canonGo_lower]
  · right; simpa using h

theorem validTrailer_lower (k : List Nat) (h : validFieldName k = true) :
    validTrailerHeader (lowerASCII k) = validTrailerHeader k := by
  simp only [validFieldName, Bool.and_eq_true] at h
  rcases canonKey_lower k with hc | hc
  · simp only [validTrailerHeader, hc]
  · rw [h.2] at hc; cases hc

/-- per-field condition under which parseTrailers' loop accepts a field -/
def TrlOK (ext : List Nat → Bool) (f : Field) : Prop :=
  lowerFix ext f.1 = true ∧ validFieldValue f.2 = true ∧ isPseudo f.1 = false ∧ validateRegular f = .ok () ∧
  validTrailerHeader f.1 = true

theorem runTrailers_ok (ext : List Nat → Bool) (fs : List Field) :
    ∀ (s : TS), (∀ f ∈ fs, TrlOK ext f) → sectionSize fs ≤ s.limit →
      runTrailers ext s fs = .ok { h := s.h ++ fs.map (fun f => (canonKey f.1, f.2)), limit := s.limit - sectionSize fs } := by
  induction fs with
  | nil => intro s _ _; simp [runTrailers, sectionSize]
  | cons f r ih =>
    intro s hall hsz
    obtain ⟨h1, h2, h3, h4, h5⟩ := hall f (by simp)
    have hsz' : sectionSize (f :: r) = fieldSize f + sectionSize r := by simp [sectionSize]
    have hr := sectionSize_nonneg r
    have hstep : stepTrailer ext s f = .ok { h := hdrAdd s.h f.1 f.2, limit := s.limit - fieldSize f } := by
      unfold stepTrailer
      simp only [h1, h2, h3, h4, h5, trailer_overhead_eq, Bool.not_true, Bool.false_eq_true, if_false]
      rw [if_neg (by simp only [fieldSize] at hsz'; omega)]
      simp [fieldSize]
    simp only [runTrailers, hstep]
    rw [ih _ (fun g hg => hall g (List.mem_cons_of_mem _ hg)) (by simp only []; omega)]
    simp only [hdrAdd, List.map_cons, List.append_assoc, List.singleton_append, hsz']
    congr 2; omega

theorem lowerFix_of_tokens (ext : List Nat → Bool) (n : List Nat) (hne : n ≠ [])
    (htok : ∀ b ∈ n, lowerTchar b = true) : validFieldName n = true ∧ lowerFix ext n = true := by
  have hname : validFieldName n = true := by
    simp only [validFieldName, Bool.and_eq_true, Bool.not_eq_true', List.isEmpty_eq_false_iff]
    exact ⟨hne, List.all_eq_true.mpr (fun b hb => (lowerTchar_token b (htok b hb)).1)⟩
  refine ⟨hname, ?_⟩
  have ha := validFieldName_ascii n hname
  simp only [lowerFix, ha, if_true, Bool.not_eq_true', List.any_eq_false]
  intro b hb; simp [(lowerTchar_token b (htok b hb)).2]

/-- the trailers of a valid net/http message: token keys, values without forbidden bytes, no
    connection-specific key -/
def ValidTrailers (t : List (List Nat × List (List Nat))) : Prop :=
  ∀ kv ∈ t, validFieldName kv.1 = true ∧ (∀ v ∈ kv.2, validFieldValue v = true) ∧ lowerASCII kv.1 ∉ connectionSpecific

theorem validTrailer_te : validTrailerHeader nTe = false := by decide

theorem writeTrailers_ok (ext : List Nat → Bool) (t : List (List Nat × List (List Nat))) (fs : List Field)
    (hw : writeTrailers t = some fs) (hv : ValidTrailers t) : ∀ f ∈ fs, TrlOK ext f := by
  unfold writeTrailers at hw
  split at hw
  · cases hw
  cases hw
  intro f hf
  simp only [List.mem_flatMap] at hf
  obtain ⟨kv, hkv, hf⟩ := hf
  split at hf
  · simp at hf
  rename_i hc
  simp only [Bool.or_eq_true, Bool.not_eq_true', not_or, Bool.not_eq_false] at hc
  simp only [List.mem_map] at hf
  obtain ⟨v, hvm, rfl⟩ := hf
  obtain ⟨hname, hvals, hnc⟩ := hv kv hkv
  obtain ⟨hne, htok⟩ := lowerASCII_tokens kv.1 hname
  obtain ⟨hname', hlow⟩ := lowerFix_of_tokens ext _ hne htok
  have hvt : validTrailerHeader (lowerASCII kv.1) = true := by rw [validTrailer_lower _ hname]; exact hc.2
  refine ⟨hlow, hvals v hvm, ?_, ?_, hvt⟩
  · rw [isPseudo_eq]; exact tokens_not_pseudo _ htok
  · unfold validateRegular
    have hinv : invalidHeaderFields.contains (lowerASCII kv.1) = false := by
      simp only [List.contains_eq_mem, decide_eq_false_iff_not]
      intro h; exact hnc (invalid_sub_conn _ h)
    have hte : lowerASCII kv.1 ≠ nTe := by
      intro h; rw [h, validTrailer_te] at hvt; cases hvt
    have hinv' : lowerASCII kv.1 ∉ invalidHeaderFields := fun h => hnc (invalid_sub_conn _ h)
    simp [hname', hinv', hte]

end Uquic.Proofs.Fields
