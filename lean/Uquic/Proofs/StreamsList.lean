/-
Association-list lemmas for the stream-map models (C15).
-/
import Uquic.Model.Streams.Basic
set_option linter.unusedSimpArgs false
namespace Uquic.Proofs.Streams
open Uquic.Model.Streams

def keys {β} (l : List (SID × β)) : List SID := l.map (·.1)

theorem lookup_nil {β} (id : SID) : lookup ([] : List (SID × β)) id = none := rfl
theorem lookup_cons {β} (x : SID × β) (xs : List (SID × β)) (id : SID) :
    lookup (x :: xs) id = if x.1 = id then some x.2 else lookup xs id := by
  simp only [lookup, List.find?_cons]
  by_cases h : x.1 = id
  · have hb : (x.1 == id) = true := by simpa using h
    simp [hb, h]
  · have hb : (x.1 == id) = false := by simpa using h
    simp [hb, h]

theorem eraseKey_nil {β} (id : SID) : eraseKey ([] : List (SID × β)) id = [] := rfl
theorem eraseKey_cons {β} (x : SID × β) (xs : List (SID × β)) (id : SID) :
    eraseKey (x :: xs) id = if x.1 = id then eraseKey xs id else x :: eraseKey xs id := by
  simp only [eraseKey, List.filter_cons]
  by_cases h : x.1 = id
  · have hb : (x.1 != id) = false := by simpa using h
    simp [hb, h]
  · have hb : (x.1 != id) = true := by simpa using h
    simp [hb, h]

theorem lookup_some_mem {β} (l : List (SID × β)) (id : SID) (v : β) (h : lookup l id = some v) :
    (id, v) ∈ l := by
  induction l with
  | nil => simp [lookup_nil] at h
  | cons x xs ih =>
    rw [lookup_cons] at h
    grind

theorem lookup_isSome_iff {β} (l : List (SID × β)) (id : SID) :
    (lookup l id).isSome ↔ id ∈ keys l := by
  induction l with
  | nil => simp [lookup_nil, keys]
  | cons x xs ih =>
    rw [lookup_cons]; simp only [keys] at *
    grind

theorem lookup_eraseKey {β} (l : List (SID × β)) (id : SID) (k : SID) :
    lookup (eraseKey l id) k = if k = id then none else lookup l k := by
  induction l with
  | nil => simp [eraseKey_nil, lookup_nil]
  | cons x xs ih =>
    rw [eraseKey_cons, lookup_cons]
    grind [lookup_cons]

theorem lookup_append {β} (l l' : List (SID × β)) (k : SID) :
    lookup (l ++ l') k = match lookup l k with | some v => some v | none => lookup l' k := by
  induction l with
  | nil => simp [lookup_nil]
  | cons x xs ih =>
    rw [List.cons_append, lookup_cons, lookup_cons]
    grind

theorem lookup_setKey {β} (l : List (SID × β)) (id : SID) (b : β) (k : SID) :
    lookup (setKey l id b) k = if k = id then some b else lookup l k := by
  simp only [setKey, lookup_append, lookup_eraseKey, lookup_cons, lookup_nil]
  grind

theorem mem_eraseKey {β} (l : List (SID × β)) (id : SID) (e : SID × β) :
    e ∈ eraseKey l id ↔ e ∈ l ∧ e.1 ≠ id := by
  simp [eraseKey]

theorem mem_setKey {β} (l : List (SID × β)) (id : SID) (b : β) (e : SID × β) :
    e ∈ setKey l id b ↔ (e ∈ l ∧ e.1 ≠ id) ∨ e = (id, b) := by
  simp [setKey, mem_eraseKey]

theorem mem_keys {β} (l : List (SID × β)) (k : SID) : k ∈ keys l ↔ ∃ v, (k, v) ∈ l := by
  simp [keys]

theorem mem_keys_of_mem {β} (l : List (SID × β)) (e : SID × β) (h : e ∈ l) : e.1 ∈ keys l := by
  simp only [keys, List.mem_map]; exact ⟨e, h, rfl⟩

theorem mem_keys_eraseKey {β} (l : List (SID × β)) (id k : SID) :
    k ∈ keys (eraseKey l id) ↔ k ∈ keys l ∧ k ≠ id := by
  simp only [mem_keys, mem_eraseKey]; grind

theorem mem_keys_setKey {β} (l : List (SID × β)) (id : SID) (b : β) (k : SID) :
    k ∈ keys (setKey l id b) ↔ k ∈ keys l ∨ k = id := by
  constructor
  · rw [mem_keys]; rintro ⟨v, hv⟩
    rcases (mem_setKey l id b (k, v)).mp hv with h | h
    · exact Or.inl (mem_keys_of_mem l _ h.1)
    · exact Or.inr (by simpa using congrArg Prod.fst h)
  · intro h
    by_cases hk : k = id
    · subst hk; rw [mem_keys]; exact ⟨b, (mem_setKey l k b (k, b)).mpr (Or.inr rfl)⟩
    · rcases h with h | h
      · rw [mem_keys] at h ⊢; obtain ⟨v, hv⟩ := h
        exact ⟨v, (mem_setKey l id b (k, v)).mpr (Or.inl ⟨hv, hk⟩)⟩
      · exact absurd h hk

theorem keys_cons {β} (x : SID × β) (xs : List (SID × β)) : keys (x :: xs) = x.1 :: keys xs := rfl

theorem nodup_keys_eraseKey {β} (l : List (SID × β)) (id : SID) (h : (keys l).Nodup) :
    (keys (eraseKey l id)).Nodup := by
  induction l with
  | nil => simpa [eraseKey_nil] using h
  | cons x xs ih =>
    rw [eraseKey_cons]
    rw [keys_cons, List.nodup_cons] at h
    by_cases hx : x.1 = id
    · simp [hx]; exact ih h.2
    · simp only [hx, if_false, keys_cons, List.nodup_cons]
      refine ⟨?_, ih h.2⟩
      intro hm; exact h.1 ((mem_keys_eraseKey xs id x.1).mp hm).1

theorem keys_setKey {β} (l : List (SID × β)) (id : SID) (b : β) :
    keys (setKey l id b) = keys (eraseKey l id) ++ [id] := by
  simp [setKey, keys]

theorem nodup_keys_setKey {β} (l : List (SID × β)) (id : SID) (b : β) (h : (keys l).Nodup) :
    (keys (setKey l id b)).Nodup := by
  rw [keys_setKey]
  have h1 := nodup_keys_eraseKey l id h
  have h2 : id ∉ keys (eraseKey l id) := by rw [mem_keys_eraseKey]; simp
  rw [List.nodup_append]
  refine ⟨h1, by simp, ?_⟩
  intro a ha b hb
  simp at hb; subst hb
  intro e; subst e; exact h2 ha

theorem mem_lookup_of_nodup {β} (l : List (SID × β)) (id : SID) (v : β) (hn : (keys l).Nodup)
    (h : (id, v) ∈ l) : lookup l id = some v := by
  induction l with
  | nil => simp at h
  | cons x xs ih =>
    rw [keys_cons, List.nodup_cons] at hn
    rw [lookup_cons]
    rcases List.mem_cons.mp h with h | h
    · subst h; simp
    · have hne : x.1 ≠ id := by
        intro e; apply hn.1; rw [e]; exact mem_keys_of_mem xs _ h
      simp [hne, ih hn.2 h]

theorem length_eraseKey_of_not_mem {β} (l : List (SID × β)) (id : SID) (h : id ∉ keys l) :
    (eraseKey l id).length = l.length := by
  induction l with
  | nil => rfl
  | cons x xs ih =>
    rw [eraseKey_cons]
    rw [keys_cons, List.mem_cons, not_or] at h
    have hx : ¬ x.1 = id := fun e => h.1 e.symm
    simp [hx, ih h.2]

theorem length_eraseKey_of_mem {β} (l : List (SID × β)) (id : SID) (hn : (keys l).Nodup)
    (h : id ∈ keys l) : (eraseKey l id).length + 1 = l.length := by
  induction l with
  | nil => simp [keys] at h
  | cons x xs ih =>
    rw [eraseKey_cons]
    rw [keys_cons, List.nodup_cons] at hn
    rw [keys_cons, List.mem_cons] at h
    by_cases hx : x.1 = id
    · have : id ∉ keys xs := by rw [← hx]; exact hn.1
      simp [hx, length_eraseKey_of_not_mem xs id this]
    · have h' : id ∈ keys xs := by
        rcases h with h | h
        · exact absurd h.symm hx
        · exact h
      simp [hx]; exact ih hn.2 h'

theorem length_setKey_of_mem {β} (l : List (SID × β)) (id : SID) (b : β) (hn : (keys l).Nodup)
    (h : id ∈ keys l) : (setKey l id b).length = l.length := by
  simp [setKey]; exact length_eraseKey_of_mem l id hn h

theorem length_setKey_of_not_mem {β} (l : List (SID × β)) (id : SID) (b : β) (h : id ∉ keys l) :
    (setKey l id b).length = l.length + 1 := by
  simp [setKey, length_eraseKey_of_not_mem l id h]

theorem lookup_eq_none_iff {β} (l : List (SID × β)) (id : SID) :
    lookup l id = none ↔ id ∉ keys l := by
  rw [← lookup_isSome_iff]; cases lookup l id <;> simp

/-- stream ids among the results of blocking calls that returned -/
def streamsOfRets (rs : List (Nat × Ret)) : List Int :=
  rs.filterMap fun r => match r.2 with | .stream id => some id | _ => none

end Uquic.Proofs.Streams
