import Uquic.Proofs.WireVarint
import Uquic.Model.Wire.Header

/-! Packet headers: packet-number bytes, short header and Version Negotiation round trips. -/

namespace Uquic.Proofs.Wire
open Uquic.Model.Wire Uquic.Model.Wire.Varint Uquic.Model.Wire.Hdr

theorem beBytes_length (n v : Nat) : (beBytes n v).length = n := by
  induction n with
  | zero => rfl
  | succ n ih => simp [beBytes, ih]

theorem beNat_append (a b : Bytes) : beNat (a ++ b) = beNat a * 256 ^ b.length + beNat b := by
  induction a with
  | nil => simp [beNat]
  | cons x xs ih =>
    simp only [List.cons_append, beNat, List.length_append, ih]
    rw [Nat.pow_add, Nat.add_mul, Nat.mul_assoc]
    omega

/-- writing `n` big-endian bytes of `v` and reading them back gives `v mod 256^n` (Go's `uint8/16/32(pn)`) -/
theorem beNat_beBytes (n v : Nat) : beNat (beBytes n v) = v % 256 ^ n := by
  induction n with
  | zero => simp [beBytes, beNat, Nat.mod_one]
  | succ n ih =>
    simp only [beBytes, beNat, beBytes_length, ih, u8_toNat]
    have h1 : 0 < 256 ^ n := Nat.pow_pos (by omega)
    rw [Nat.pow_succ]
    have : v % (256 ^ n * 256) = v / 256 ^ n % 256 * 256 ^ n + v % 256 ^ n := by
      rw [Nat.mod_mul, Nat.add_comm, Nat.mul_comm]
    omega

theorem take_beBytes (n v : Nat) (rest : Bytes) : (beBytes n v ++ rest).take n = beBytes n v :=
  List.take_left' (beBytes_length n v)

/-! ### short header -/

theorem kp_consts : keyPhaseZero = 1 ∧ keyPhaseOne = 2 := by decide

/-- `ParseShortHeader(AppendShortHeader(…) ++ payload)` gives back packet number (truncated to its
    length), length and key phase, consumes exactly `ShortHeaderLen`, reserved bits valid -/
theorem shortHeader_roundtrip (cid : Bytes) (pn pnLen kp : Nat) (rest : Bytes)
    (hl : 1 ≤ pnLen ∧ pnLen ≤ 4) (hk : kp = keyPhaseZero ∨ kp = keyPhaseOne) :
    ∃ b, appendShortHeader cid pn pnLen kp = some b ∧ b.length = shortHeaderLen cid pnLen ∧
      parseShortHeader (b ++ rest) cid.length =
        .ok { n := shortHeaderLen cid pnLen, pn := pn % 256 ^ pnLen, pnLen := pnLen, keyPhase := kp, reservedOK := true } := by
  obtain ⟨k0, k1⟩ := kp_consts
  have happ : appendPacketNumber pn pnLen = some (beBytes pnLen pn) := by
    unfold appendPacketNumber; rw [if_neg (by omega)]
  let tb := 0x40 + (pnLen + 255) % 256 % 4 + (if kp = keyPhaseOne then 4 else 0)
  refine ⟨[u8 tb] ++ cid ++ beBytes pnLen pn, by simp only [appendShortHeader, happ, tb], ?_, ?_⟩
  · simp [shortHeaderLen, beBytes_length]; omega
  · have htb : tb < 256 := by simp only [tb]; split <;> omega
    have hu : (u8 tb).toNat = tb := by rw [u8_toNat]; omega
    have hpn : tb % 4 + 1 = pnLen := by simp only [tb]; split <;> omega
    have hlong : ¬ (tb / 128 % 2 = 1) := by simp only [tb]; split <;> omega
    have hquic : ¬ (tb / 64 % 2 = 0) := by simp only [tb]; split <;> omega
    have hres : tb / 8 % 4 = 0 := by simp only [tb]; split <;> omega
    have hkp : (if tb / 4 % 2 = 1 then keyPhaseOne else keyPhaseZero) = kp := by
      rcases hk with rfl | rfl
      · have hne : keyPhaseZero ≠ keyPhaseOne := by decide
        have : tb / 4 % 2 ≠ 1 := by simp only [tb, hne, if_false]; omega
        simp [this]
      · have : tb / 4 % 2 = 1 := by simp only [tb, if_true]; omega
        simp [this]
    generalize tb = t at *
    unfold parseShortHeader
    simp only [List.singleton_append, List.cons_append, List.nil_append, hu, hlong, hquic, if_false, hpn]
    have hlen : ¬ ((u8 t :: (cid ++ beBytes pnLen pn ++ rest)).length < 1 + pnLen + cid.length) := by
      simp [beBytes_length]; omega
    rw [if_neg hlen]
    have hdrop : (u8 t :: (cid ++ beBytes pnLen pn ++ rest)).drop (1 + cid.length) = beBytes pnLen pn ++ rest := by
      rw [Nat.add_comm]; simp
    rw [hdrop, take_beBytes, beNat_beBytes, hkp, hres]
    simp [shortHeaderLen]

/-! ### Version Negotiation -/

theorem versionList_flatMap (vs : List Nat) (h : ∀ v ∈ vs, v < 2 ^ 32) : versionList (vs.flatMap (beBytes 4)) = vs := by
  induction vs with
  | nil => simp [versionList]
  | cons v vs ih =>
    have hv := h v (by simp)
    have ih' := ih (fun x hx => h x (by simp [hx]))
    simp only [List.flatMap_cons]
    have e : beBytes 4 v = [u8 (v / 256 ^ 3), u8 (v / 256 ^ 2), u8 (v / 256 ^ 1), u8 (v / 256 ^ 0)] := rfl
    rw [e]
    simp only [List.cons_append, List.nil_append, versionList, ih']
    congr 1
    have := beNat_beBytes 4 v
    rw [e] at this
    rw [this]
    exact Nat.mod_eq_of_lt (by omega)

theorem parseArb_layout (f v1 v2 v3 v4 : UInt8) (dest src tail : Bytes) (hd : dest.length < 256) (hs : src.length < 256) :
    parseArbitraryLenConnectionIDs (f :: v1 :: v2 :: v3 :: v4 :: u8 dest.length :: (dest ++ u8 src.length :: (src ++ tail))) =
      .ok (7 + dest.length + src.length, dest, src) := by
  have hud : (u8 dest.length).toNat = dest.length := by rw [u8_toNat]; omega
  have hus : (u8 src.length).toNat = src.length := by rw [u8_toNat]; omega
  unfold parseArbitraryLenConnectionIDs
  simp only [List.length_cons, List.drop_succ_cons, List.drop_zero, List.getD_cons_zero, hud]
  rw [if_neg (by omega)]
  rw [if_neg (by simp)]
  have hdd : (dest ++ u8 src.length :: (src ++ tail)).drop dest.length = u8 src.length :: (src ++ tail) := by simp
  have htd : (dest ++ u8 src.length :: (src ++ tail)).take dest.length = dest := List.take_left' rfl
  simp only [hdd, htd, List.getD_cons_zero, hus, List.drop_succ_cons, List.drop_zero]
  rw [if_neg (by simp)]
  have hts : (src ++ tail).take src.length = src := List.take_left' rfl
  rw [hts]
  simp; omega

/-- `ParseVersionNegotiationPacket(ComposeVersionNegotiation(dest, src, versions))` gives the three back,
    whatever the random first byte was -/
theorem versionNegotiation_roundtrip (randFirst : Nat) (dest src : Bytes) (vs : List Nat)
    (hd : dest.length < 256) (hs : src.length < 256) (hne : vs ≠ []) (hv : ∀ v ∈ vs, v < 2 ^ 32) :
    parseVersionNegotiation (composeVersionNegotiation randFirst dest src vs) = .ok (dest, src, vs) := by
  have hfl : ∀ (l : List Nat), (l.flatMap (beBytes 4)).length = 4 * l.length := by
    intro l
    induction l with
    | nil => simp
    | cons v l ih => simp only [List.flatMap_cons, List.length_append, beBytes_length, List.length_cons, ih]; omega
  have hpos : 0 < vs.length := List.length_pos_iff.mpr hne
  have hcomp : composeVersionNegotiation randFirst dest src vs =
      u8 (randFirst % 64 + 0xc0) :: 0 :: 0 :: 0 :: 0 :: u8 dest.length :: (dest ++ u8 src.length :: (src ++ vs.flatMap (beBytes 4))) := by
    simp [composeVersionNegotiation]
  rw [hcomp]
  unfold parseVersionNegotiation
  rw [parseArb_layout _ _ _ _ _ dest src _ hd hs]
  have hdrop : (u8 (randFirst % 64 + 0xc0) :: 0 :: 0 :: 0 :: 0 :: u8 dest.length :: (dest ++ u8 src.length :: (src ++ vs.flatMap (beBytes 4)))).drop
      (7 + dest.length + src.length) = vs.flatMap (beBytes 4) := by
    have e : 7 + dest.length + src.length = (dest.length + (src.length + 1)) + 6 := by omega
    rw [e]
    simp only [List.drop_succ_cons]
    rw [← List.drop_drop]
    simp
  simp only [hdrop, hfl vs]
  rw [if_neg (by omega), if_neg (by omega), versionList_flatMap vs hv]

end Uquic.Proofs.Wire
