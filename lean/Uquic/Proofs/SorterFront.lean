/-
C03: what the replace loop of `push` does, by the position of `start` relative to startGap.
-/
import Uquic.Proofs.SorterShape

namespace Uquic.Proofs.Sorter
open Uquic.Model.Reassembly

theorem replaceLoop_none (fuel : Nat) (q : Queue) (pos en : Nat) (hr : Bool) (h : qget q pos = none) :
    replaceLoop (fuel + 1) q pos en hr = ⟨q, pos, hr, [], .noEntry⟩ := by
  simp [replaceLoop, h]

/-- a frame that starts below an uncovered position ends at or below it -/
theorem entry_below {q : Queue} {o x : Nat} {e : Entry} (he : (o, e) ∈ q) (hox : o ≤ x) (hx : ¬ inEntry q x) :
    o + e.data.length ≤ x := by
  rcases Nat.lt_or_ge x (o + e.data.length) with hc | hc
  · exact absurd ⟨(o, e), he, hox, hc⟩ hx
  · exact hc

/-- the gaps of a decomposed gap list, by position -/
theorem not_inGap_between {pre : List Gap} {sg : Gap} {rest : List Gap} (hwf : GapsWF (pre ++ sg :: rest))
    {lo p : Nat} (hpre : ∀ g ∈ pre, g.2 < lo) (hlo : lo ≤ p) (hp : p < sg.1) : ¬ inGap (pre ++ sg :: rest) p := by
  rw [inGap_append, inGap_cons]
  rintro (⟨g, hg, h1, h2⟩ | h | ⟨g, hg, h1, h2⟩)
  · have := hpre g hg; omega
  · omega
  · have := hwf.of_append_right.head_lt g hg
    have := hwf.of_append_right.pos sg (by simp)
    omega

/-- behind `sg` and before the next gap nothing is missing -/
theorem not_inGap_after {pre : List Gap} {sg : Gap} {rest : List Gap} (hwf : GapsWF (pre ++ sg :: rest))
    {p : Nat} (hlo : sg.2 ≤ p) (hp : ∀ nx ∈ rest.head?, p < nx.1) : ¬ inGap (pre ++ sg :: rest) p := by
  rw [inGap_append, inGap_cons]
  have hsgpos := hwf.of_append_right.pos sg (by simp)
  rintro (⟨g, hg, h1, h2⟩ | h | ⟨g, hg, h1, h2⟩)
  · have := hwf.cross g hg sg (by simp); omega
  · omega
  · cases rest with
    | nil => cases hg
    | cons nx rs =>
      have h3 := hp nx (by simp)
      rcases List.mem_cons.mp hg with hg | hg
      · subst hg; omega
      · have := hwf.of_append_right.tail.head_lt g hg
        have := hwf.of_append_right.tail.pos nx (by simp)
        omega

/-- outcome of the replace loop -/
structure Front (s : Sorter) (start en : Nat) (sg : Gap) (rest : List Gap) (sIn : Bool) (lp : LoopOut) : Prop where
  sub : lp.q.Sublist s.queue
  mem : ∀ x, x ∈ lp.q ↔ (x ∈ s.queue ∧ ¬(start ≤ x.1 ∧ x.1 < lp.pos))
  conserve : (lp.done ++ cbsOf lp.q).Perm (cbsOf s.queue)
  cases :
    (lp.stop = .dup ∧ ∃ e, (start, e) ∈ s.queue ∧ en ≤ start + e.data.length) ∨
    (lp.stop = .noEntry ∧ lp.replaced = false ∧ lp.pos = start ∧ sg.1 ≤ start ∧ start < sg.2 ∧ sIn = true) ∨
    (lp.stop = .cut ∧ lp.replaced = true ∧ sIn = true ∧ start = sg.2 ∧ start < lp.pos ∧ lp.pos ≤ en ∧
       Boundary s.queue lp.pos ∧ ∃ nx, rest.head? = some nx ∧ en < nx.1) ∨
    (lp.stop = .noEntry ∧ lp.replaced = true ∧ sIn = true ∧ start = sg.2 ∧ lp.pos ≤ en ∧
       ∃ nx, rest.head? = some nx ∧ lp.pos = nx.1) ∨
    (lp.stop = .noEntry ∧ lp.replaced = false ∧ lp.pos = start ∧ start < sg.1 ∧ sIn = false) ∨
    (lp.stop = .noEntry ∧ lp.replaced = true ∧ lp.pos = sg.1 ∧ start < sg.1 ∧ sIn = false ∧ s.readPos ≤ start ∧
       Boundary s.queue start)

theorem front_spec {src : Nat → UInt8} {s : Sorter} (h : Inv src s) (start en : Nat)
    (pre : List Gap) (sg : Gap) (rest : List Gap) (sIn : Bool)
    (hgaps : s.gaps = pre ++ sg :: rest) (hse : start < en) (hmax : en < maxByteCount)
    (hpre : ∀ g ∈ pre, g.2 < start)
    (hsin : sIn = true → sg.1 ≤ start ∧ start ≤ sg.2) (hsout : sIn = false → start < sg.1)
    (hsgen : sg.1 < en) :
    Front s start en sg rest sIn (replaceLoop (s.queue.length + 1) s.queue start en false) := by
  have hcons := replaceLoop_conserve (s.queue.length + 1) s.queue h.qinv.nodup start en false
  have hwf : GapsWF (pre ++ sg :: rest) := hgaps ▸ h.gwf
  have hsgmem : sg ∈ s.gaps := by rw [hgaps]; simp
  have hsgpos : sg.1 < sg.2 := h.gwf.pos sg hsgmem
  have hsgmax : sg.2 ≤ maxByteCount := h.gap_le_max sg hsgmem
  have hsgrp : s.readPos ≤ sg.1 := h.grp sg hsgmem
  -- the loop finds no frame at `start`
  have hnone : qget s.queue start = none →
      (∀ x, x ∈ (replaceLoop (s.queue.length + 1) s.queue start en false).q ↔
        (x ∈ s.queue ∧ ¬(start ≤ x.1 ∧ x.1 < (replaceLoop (s.queue.length + 1) s.queue start en false).pos)))
      ∧ (replaceLoop (s.queue.length + 1) s.queue start en false).stop = .noEntry
      ∧ (replaceLoop (s.queue.length + 1) s.queue start en false).replaced = false
      ∧ (replaceLoop (s.queue.length + 1) s.queue start en false).pos = start := by
    intro hq
    rw [replaceLoop_none _ _ _ _ _ hq]
    refine ⟨?_, rfl, rfl, rfl⟩
    intro x
    simp only
    constructor
    · intro hx; exact ⟨hx, by omega⟩
    · intro hx; exact hx.1
  cases hsI : sIn with
  | true =>
    obtain ⟨h1, h2⟩ := hsin hsI
    rcases Nat.lt_or_ge start sg.2 with hlt | hge
    · -- strictly inside the gap: no frame starts here
      have hq : qget s.queue start = none :=
        qget_none_of_not_inEntry h.qinv (h.excl ⟨sg, hsgmem, h1, hlt⟩)
      obtain ⟨hm, hs, hr, hp⟩ := hnone hq
      exact ⟨hcons.2.2, hm, hcons.2.1, Or.inr (Or.inl ⟨hs, hr, hp, h1, hlt, rfl⟩)⟩
    · -- at the end of the gap: the run behind it
      have hst : start = sg.2 := by omega
      obtain ⟨nx, rs, hrest⟩ : ∃ nx rs, rest = nx :: rs := by
        cases rest with
        | nil =>
          exfalso
          obtain ⟨a, ha⟩ := h.glast
          rw [hgaps] at ha
          simp at ha
          have : sg.2 = maxByteCount := by rw [ha]
          omega
        | cons nx rs => exact ⟨nx, rs, rfl⟩
      have hnxmem : nx ∈ s.gaps := by rw [hgaps, hrest]; simp
      have hnxpos : nx.1 < nx.2 := h.gwf.pos nx hnxmem
      have hnxmax : nx.2 ≤ maxByteCount := h.gap_le_max nx hnxmem
      have hsgnx : sg.2 < nx.1 := hwf.of_append_right.head_lt nx (by rw [hrest]; simp)
      have hbnd : Boundary s.queue start := hst ▸ h.boundary_gap_end hsgmem
      have hrun : Run s.queue start nx.1 := by
        intro p hp1 hp2
        apply h.cov (by omega) (by omega)
        rw [hgaps]
        exact not_inGap_after hwf (by omega) (by rw [hrest]; simp; omega)
      have hnb : ¬ inEntry s.queue nx.1 := h.excl ⟨nx, hnxmem, Nat.le_refl _, hnxpos⟩
      have sp := replaceLoop_run (s.queue.length + 1) s.queue start nx.1 en false h.qinv (Nat.lt_succ_self _)
        (by omega) hbnd hrun hnb (by omega)
      refine ⟨hcons.2.2, sp.mem, hcons.2.1, ?_⟩
      cases hstop : (replaceLoop (s.queue.length + 1) s.queue start en false).stop with
      | dup =>
        obtain ⟨_, _, e, he, hle⟩ := sp.dup hstop
        exact Or.inl ⟨rfl, e, he, hle⟩
      | cut =>
        obtain ⟨hrep, e, he, hlt⟩ := sp.cut hstop
        have hpl := entry_below he sp.le_b hnb
        have hlt' : start < (replaceLoop (s.queue.length + 1) s.queue start en false).pos := by
          have := sp.repl
          rw [hrep] at this
          simpa using this
        exact Or.inr (Or.inr (Or.inl ⟨rfl, hrep, rfl, hst, hlt', sp.le_en, sp.bnd, nx, by rw [hrest]; rfl, by omega⟩))
      | noEntry =>
        have hp := sp.noEntry hstop
        have hrep : (replaceLoop (s.queue.length + 1) s.queue start en false).replaced = true := by
          rw [sp.repl, hp]; simp; omega
        exact Or.inr (Or.inr (Or.inr (Or.inl ⟨rfl, hrep, rfl, hst, sp.le_en, nx, by rw [hrest]; rfl, hp⟩)))
  | false =>
    have h1 := hsout hsI
    cases hq : qget s.queue start with
    | none =>
      obtain ⟨hm, hs, hr, hp⟩ := hnone hq
      exact ⟨hcons.2.2, hm, hcons.2.1, Or.inr (Or.inr (Or.inr (Or.inr (Or.inl ⟨hs, hr, hp, h1, rfl⟩))))⟩
    | some e =>
      have he := mem_of_qget hq
      have hrp : s.readPos ≤ start := h.erp _ he
      have hbnd : Boundary s.queue start := boundary_start h.qinv he
      have hrun : Run s.queue start sg.1 := by
        intro p hp1 hp2
        apply h.cov (by omega) (by omega)
        rw [hgaps]
        exact not_inGap_between hwf hpre hp1 hp2
      have hnb : ¬ inEntry s.queue sg.1 := h.excl ⟨sg, hsgmem, Nat.le_refl _, hsgpos⟩
      have sp := replaceLoop_run (s.queue.length + 1) s.queue start sg.1 en false h.qinv (Nat.lt_succ_self _)
        (by omega) hbnd hrun hnb (by omega)
      refine ⟨hcons.2.2, sp.mem, hcons.2.1, ?_⟩
      cases hstop : (replaceLoop (s.queue.length + 1) s.queue start en false).stop with
      | dup =>
        obtain ⟨_, _, e', he', hle⟩ := sp.dup hstop
        have := entry_below he' (by omega) hnb
        omega
      | cut =>
        obtain ⟨hrep, e', he', hlt⟩ := sp.cut hstop
        have := entry_below he' sp.le_b hnb
        omega
      | noEntry =>
        have hp := sp.noEntry hstop
        have hrep : (replaceLoop (s.queue.length + 1) s.queue start en false).replaced = true := by
          rw [sp.repl, hp]; simp; omega
        exact Or.inr (Or.inr (Or.inr (Or.inr (Or.inr ⟨rfl, hrep, hp, h1, rfl, hrp, hbnd⟩))))

end Uquic.Proofs.Sorter
