import Uquic.Proofs.WireLongHeader

/-! `ParseConnectionID` / `ParseArbitraryLenConnectionIDs` agree with the header parsers on the same
    bytes, and return only bytes that are in the buffer. -/

set_option linter.unusedSimpArgs false
set_option linter.unusedVariables false

namespace Uquic.Proofs.WireMore
open Uquic.Proofs.Wire
open Uquic.Model.Wire Uquic.Model.Wire.Varint Uquic.Model.Wire.Hdr

/-- where `parseLongHeader` finds the two connection IDs, whenever it gets past them (success, or
    `ErrUnsupportedVersion`, which the callers treat as "header parsed") -/
theorem plh_ids (tb : Nat) (b0 : Bytes) (h : Header) (l : Nat) (e : Option HErr)
    (hp : parseLongHeader tb b0 = (h, l, e)) (he : e = none ∨ e = some .unsupportedVersion) :
    5 ≤ b0.length ∧ (b0.getD 4 0).toNat ≤ Hdr.maxConnIDLen ∧
    (b0.getD 4 0).toNat + 1 ≤ (b0.drop 5).length ∧
    h.dest = (b0.drop 5).take (b0.getD 4 0).toNat ∧
    ((b0.drop 5).getD (b0.getD 4 0).toNat 0).toNat ≤ Hdr.maxConnIDLen ∧
    ((b0.drop 5).getD (b0.getD 4 0).toNat 0).toNat ≤ ((b0.drop 5).drop ((b0.getD 4 0).toNat + 1)).length ∧
    h.src = ((b0.drop 5).drop ((b0.getD 4 0).toNat + 1)).take ((b0.drop 5).getD (b0.getD 4 0).toNat 0).toNat := by
  unfold parseLongHeader at hp
  simp only [] at hp
  by_cases h1 : b0.length < 5
  · simp [h1] at hp; obtain ⟨_, _, rfl⟩ := hp; simp at he
  rw [if_neg h1] at hp
  by_cases h2 : beNat (b0.take 4) ≠ 0 ∧ tb / 64 % 2 = 0
  · rw [if_pos h2] at hp; simp only [Prod.mk.injEq] at hp; obtain ⟨_, _, rfl⟩ := hp; simp at he
  rw [if_neg h2] at hp
  by_cases h3 : (b0.getD 4 0).toNat > Hdr.maxConnIDLen
  · rw [if_pos h3] at hp; simp only [Prod.mk.injEq] at hp; obtain ⟨_, _, rfl⟩ := hp; simp at he
  rw [if_neg h3] at hp
  by_cases h4 : (b0.drop 5).length < (b0.getD 4 0).toNat + 1
  · rw [if_pos h4] at hp; simp only [Prod.mk.injEq] at hp; obtain ⟨_, _, rfl⟩ := hp; simp at he
  rw [if_neg h4] at hp
  by_cases h5 : ((b0.drop 5).getD (b0.getD 4 0).toNat 0).toNat > Hdr.maxConnIDLen
  · rw [if_pos h5] at hp; simp only [Prod.mk.injEq] at hp; obtain ⟨_, _, rfl⟩ := hp; simp at he
  rw [if_neg h5] at hp
  by_cases h6 : ((b0.drop 5).drop ((b0.getD 4 0).toNat + 1)).length < ((b0.drop 5).getD (b0.getD 4 0).toNat 0).toNat
  · rw [if_pos h6] at hp; simp only [Prod.mk.injEq] at hp; obtain ⟨_, _, rfl⟩ := hp; simp at he
  rw [if_neg h6] at hp
  refine ⟨by omega, by omega, by omega, ?_, by omega, by omega, ?_⟩
  all_goals
    repeat' split at hp
    all_goals
      simp only [Prod.mk.injEq] at hp
      obtain ⟨rfl, _, _⟩ := hp
      rfl

theorem getD_drop (b : Bytes) (k i : Nat) : (b.drop k).getD i 0 = b.getD (k + i) 0 := by
  simp [List.getD_eq_getElem?_getD, List.getElem?_drop]

/-- long header: the destination connection ID `ParseConnectionID` extracts (which the server uses to
    route the packet) is the one `parseHeader` returns for the same bytes -/
theorem parseConnectionID_long (data : Bytes) (h : Header) (e : Option HErr) (n : Nat)
    (hp : parseHeader data = (h, e)) (he : e = none ∨ e = some .unsupportedVersion)
    (hlong : (data.getD 0 0).toNat / 128 % 2 = 1) :
    parseConnectionID data n = .ok h.dest ∧ h.dest.length = (data.getD 5 0).toNat ∧ 6 + h.dest.length ≤ data.length := by
  match data, hp, hlong with
  | [], hp, _ => simp [parseHeader] at hp; rcases he with rfl | rfl <;> simp at hp
  | t :: b0, hp, hlong =>
    rw [parseHeader_cons] at hp
    simp only [Prod.mk.injEq] at hp
    obtain ⟨hh, hee⟩ := hp
    obtain ⟨g1, g2, g3, g4, g5, g6, g7⟩ := plh_ids t.toNat b0 _ _ _ rfl (hee ▸ he)
    have hd : h.dest = (b0.drop 5).take (b0.getD 4 0).toNat := by rw [← hh]; exact g4
    simp only [List.getD_cons_zero] at hlong
    have hdl : h.dest.length = (b0.getD 4 0).toNat := by rw [hd, List.length_take]; omega
    refine ⟨?_, ?_, ?_⟩
    · unfold parseConnectionID
      simp only [List.length_cons, List.getD_cons_succ, List.drop_succ_cons]
      rw [if_neg (by omega), if_neg (by omega)]
      have : ¬ ((b0.getD 4 0).toNat > Hdr.maxConnIDLen) := by omega
      simp only [this, if_false]
      rw [if_neg (by simp only [List.length_cons, List.length_drop] at g3 ⊢; omega), hd]
    · simp only [List.getD_cons_succ]; exact hdl
    · simp only [List.length_cons, List.length_drop] at g3 ⊢; omega

/-- long header, version-independent form (RFC 8999): `ParseArbitraryLenConnectionIDs` returns the two
    connection IDs `parseHeader` returns, and the number of bytes up to the end of the source ID -/
theorem parseArb_long (data : Bytes) (h : Header) (e : Option HErr)
    (hp : parseHeader data = (h, e)) (he : e = none ∨ e = some .unsupportedVersion) :
    parseArbitraryLenConnectionIDs data = .ok (7 + h.dest.length + h.src.length, h.dest, h.src) ∧
      7 + h.dest.length + h.src.length ≤ data.length := by
  match data, hp with
  | [], hp => simp [parseHeader] at hp; rcases he with rfl | rfl <;> simp at hp
  | t :: b0, hp =>
    rw [parseHeader_cons] at hp
    simp only [Prod.mk.injEq] at hp
    obtain ⟨hh, hee⟩ := hp
    obtain ⟨g1, g2, g3, g4, g5, g6, g7⟩ := plh_ids t.toNat b0 _ _ _ rfl (hee ▸ he)
    have hd : h.dest = (b0.drop 5).take (b0.getD 4 0).toNat := by rw [← hh]; exact g4
    have hs : h.src = ((b0.drop 5).drop ((b0.getD 4 0).toNat + 1)).take ((b0.drop 5).getD (b0.getD 4 0).toNat 0).toNat := by
      rw [← hh]; exact g7
    have hdl : h.dest.length = (b0.getD 4 0).toNat := by rw [hd, List.length_take]; omega
    have hsl : h.src.length = ((b0.drop 5).getD (b0.getD 4 0).toNat 0).toNat := by rw [hs, List.length_take]; omega
    simp only [List.length_drop] at g3 g6
    refine ⟨?_, by simp only [List.length_cons]; omega⟩
    unfold parseArbitraryLenConnectionIDs
    simp only [List.length_cons, List.drop_succ_cons]
    rw [if_neg (by omega)]
    have e1 : (b0.drop 4).getD 0 0 = b0.getD 4 0 := by rw [getD_drop]
    have e2 : (b0.drop 4).drop 1 = b0.drop 5 := by rw [List.drop_drop]
    simp only [e1, e2]
    rw [if_neg (by simp only [List.length_drop]; omega)]
    have e3 : ((b0.drop 5).drop (b0.getD 4 0).toNat).getD 0 0 = (b0.drop 5).getD (b0.getD 4 0).toNat 0 := by
      rw [getD_drop]; simp
    have e4 : ((b0.drop 5).drop (b0.getD 4 0).toNat).drop 1 = (b0.drop 5).drop ((b0.getD 4 0).toNat + 1) := by
      rw [List.drop_drop]
    simp only [e3, e4]
    rw [if_neg (by simp only [List.length_drop]; omega), ← hd, ← hs]
    simp only [List.length_drop, hdl, hsl]
    congr 2
    omega

theorem u8_self (x : UInt8) : u8 x.toNat = x := by
  unfold u8
  have := x.toNat_lt
  rw [Nat.mod_eq_of_lt (by omega)]
  simp

/-- every successful `ParseArbitraryLenConnectionIDs` has the RFC 8999 layout
    `first ‖ version(4) ‖ dcil ‖ dcid ‖ scil ‖ scid ‖ tail`, with `n` the length up to the tail -/
theorem parseArb_inv (data : Bytes) (n : Nat) (d s : Bytes) (h : parseArbitraryLenConnectionIDs data = .ok (n, d, s)) :
    ∃ f v1 v2 v3 v4 tail, data = f :: v1 :: v2 :: v3 :: v4 :: u8 d.length :: (d ++ u8 s.length :: (s ++ tail)) ∧
      n = 7 + d.length + s.length ∧ d.length < 256 ∧ s.length < 256 := by
  match data, h with
  | [], h => simp [parseArbitraryLenConnectionIDs] at h
  | [_], h => simp [parseArbitraryLenConnectionIDs] at h
  | [_, _], h => simp [parseArbitraryLenConnectionIDs] at h
  | [_, _, _], h => simp [parseArbitraryLenConnectionIDs] at h
  | [_, _, _, _], h => simp [parseArbitraryLenConnectionIDs] at h
  | [_, _, _, _, _], h => simp [parseArbitraryLenConnectionIDs] at h
  | f :: v1 :: v2 :: v3 :: v4 :: dl :: r, h =>
    unfold parseArbitraryLenConnectionIDs at h
    simp only [List.length_cons, List.drop_succ_cons, List.drop_zero, List.getD_cons_zero] at h
    rw [if_neg (by omega)] at h
    by_cases h1 : r.length < dl.toNat + 1
    · simp [h1] at h
    rw [if_neg h1] at h
    cases hr : r.drop dl.toNat with
    | nil =>
      have : (r.drop dl.toNat).length = 0 := by rw [hr]; rfl
      rw [List.length_drop] at this; omega
    | cons sl r2 =>
      simp only [hr, List.getD_cons_zero, List.drop_succ_cons, List.drop_zero] at h
      by_cases h2 : r2.length < sl.toNat
      · simp [h2] at h
      rw [if_neg h2] at h
      simp only [Except.ok.injEq, Prod.mk.injEq] at h
      obtain ⟨hn, hd, hs⟩ := h
      have hdl : d.length = dl.toNat := by rw [← hd, List.length_take]; omega
      have hsl : s.length = sl.toNat := by rw [← hs, List.length_take]; omega
      have hr2 : r2.length + 1 = r.length - dl.toNat := by
        have : (r.drop dl.toNat).length = r2.length + 1 := by rw [hr]; rfl
        rw [List.length_drop] at this; omega
      refine ⟨f, v1, v2, v3, v4, r2.drop sl.toNat, ?_, ?_, ?_, ?_⟩
      · rw [hdl, hsl, u8_self, u8_self, ← hd, ← hs, List.take_append_drop, ← hr, List.take_append_drop]
      · rw [← hn, hdl, hsl]; omega
      · rw [hdl]; exact dl.toNat_lt
      · rw [hsl]; exact sl.toNat_lt

/-- `ParseArbitraryLenConnectionIDs` consumes what it reports: `n` bytes, all inside the packet, and the
    result depends on these `n` bytes only -/
theorem parseArb_stable (data : Bytes) (n : Nat) (d s : Bytes) (h : parseArbitraryLenConnectionIDs data = .ok (n, d, s)) :
    n ≤ data.length ∧ n = 7 + d.length + s.length ∧ d.length < 256 ∧ s.length < 256 ∧
      parseArbitraryLenConnectionIDs (data.take n) = .ok (n, d, s) := by
  obtain ⟨f, v1, v2, v3, v4, tail, hdata, hn, hd, hs⟩ := parseArb_inv data n d s h
  refine ⟨?_, hn, hd, hs, ?_⟩
  · rw [hdata, hn]; simp; omega
  · have ht : data.take n = f :: v1 :: v2 :: v3 :: v4 :: u8 d.length :: (d ++ u8 s.length :: (s ++ [])) := by
      rw [hdata, hn]
      have e : 7 + d.length + s.length = (d.length + (s.length + 1)) + 6 := by omega
      rw [e]
      simp only [List.take_succ_cons]
      congr 6
      have : d.length + (s.length + 1) = (d ++ u8 s.length :: (s ++ [])).length := by simp
      rw [this, List.append_nil]
      have e2 : d ++ u8 s.length :: (s ++ tail) = (d ++ u8 s.length :: s) ++ tail := by simp
      rw [e2, List.take_left']
      rfl
    rw [ht, parseArb_layout f v1 v2 v3 v4 d s [] hd hs, hn]

/-- what `ParseConnectionID` returns is a slice of the packet of the announced length: the
    `shortHeaderConnIDLen` bytes after the first byte (short header), or the `data[5] ≤ 20` bytes at
    offset 6 (long header) -/
theorem parseConnectionID_in_buffer (data : Bytes) (n : Nat) (c : Bytes) (h : parseConnectionID data n = .ok c) :
    ∃ off, off + c.length ≤ data.length ∧ c = (data.drop off).take c.length ∧
      (if (data.getD 0 0).toNat / 128 % 2 = 0 then off = 1 ∧ c.length = n
       else off = 6 ∧ c.length = (data.getD 5 0).toNat ∧ c.length ≤ Hdr.maxConnIDLen) := by
  match data, h with
  | [], h => simp [parseConnectionID] at h
  | t :: r, h =>
    unfold parseConnectionID at h
    simp only [List.getD_cons_zero]
    by_cases hl : t.toNat / 128 % 2 = 0
    · simp only [hl, if_true] at h ⊢
      by_cases h1 : (t :: r).length < n + 1
      · rw [if_pos h1] at h; simp at h
      rw [if_neg h1] at h
      simp only [Except.ok.injEq] at h
      have hc : c.length = n := by rw [← h, List.length_take, List.length_drop]; omega
      exact ⟨1, by omega, by rw [hc, h], rfl, hc⟩
    · simp only [hl, if_false] at h ⊢
      by_cases h1 : (t :: r).length < 6
      · rw [if_pos h1] at h; simp at h
      rw [if_neg h1] at h
      by_cases h2 : ((t :: r).getD 5 0).toNat > Hdr.maxConnIDLen
      · rw [if_pos h2] at h; simp at h
      rw [if_neg h2] at h
      by_cases h3 : (t :: r).length < 6 + ((t :: r).getD 5 0).toNat
      · rw [if_pos h3] at h; simp at h
      rw [if_neg h3] at h
      simp only [Except.ok.injEq] at h
      have hc : c.length = ((t :: r).getD 5 0).toNat := by rw [← h, List.length_take, List.length_drop]; omega
      exact ⟨6, by omega, by rw [hc, h], rfl, hc, by omega⟩

/-- short header: `ParseConnectionID` returns the bytes between the first byte and the packet number
    `ParseShortHeader` reads, for the same connection ID length -/
theorem parseConnectionID_short (data : Bytes) (n : Nat) (o : ShortOut) (h : parseShortHeader data n = .ok o) :
    parseConnectionID data n = .ok ((data.drop 1).take n) ∧ ((data.drop 1).take n).length = n ∧
      o.n = 1 + n + o.pnLen ∧ o.n ≤ data.length := by
  match data, h with
  | [], h => simp [parseShortHeader] at h
  | t :: r, h =>
    unfold parseShortHeader at h
    simp only [] at h
    by_cases h1 : t.toNat / 128 % 2 = 1
    · rw [if_pos h1] at h; simp at h
    rw [if_neg h1] at h
    by_cases h2 : t.toNat / 64 % 2 = 0
    · rw [if_pos h2] at h; simp at h
    rw [if_neg h2] at h
    by_cases h3 : (t :: r).length < 1 + (t.toNat % 4 + 1) + n
    · rw [if_pos h3] at h; simp at h
    rw [if_neg h3] at h
    simp only [Except.ok.injEq] at h
    subst h
    simp only [List.length_cons] at h3
    refine ⟨?_, ?_, rfl, ?_⟩
    · unfold parseConnectionID
      have : t.toNat / 128 % 2 = 0 := by omega
      simp only [this, if_true, List.length_cons]
      rw [if_neg (by omega)]
    · simp only [List.drop_succ_cons, List.drop_zero, List.length_take]; omega
    · simp only [List.length_cons]; omega

/-- on what `AppendShortHeader` wrote, `ParseConnectionID` returns the connection ID that was written -/
theorem parseConnectionID_appendShort (cid : Bytes) (pn pnLen kp : Nat) (b rest : Bytes)
    (h : appendShortHeader cid pn pnLen kp = some b) :
    parseConnectionID (b ++ rest) cid.length = .ok cid := by
  unfold appendShortHeader at h
  cases hp : appendPacketNumber pn pnLen with
  | none => simp [hp] at h
  | some pnb =>
    simp only [hp, Option.some.injEq] at h
    subst h
    have hpl : pnLen % 4 ≤ 3 := by omega
    have hlt : (0x40 + (pnLen + 255) % 256 % 4 + (if kp = keyPhaseOne then 4 else 0)) % 256 / 128 % 2 = 0 := by
      split <;> omega
    unfold parseConnectionID
    simp only [List.singleton_append, List.cons_append, u8_toNat, hlt, if_true, List.length_cons, List.length_append,
      List.drop_succ_cons, List.drop_zero]
    rw [if_neg (by omega)]
    simp [List.take_left']

end Uquic.Proofs.WireMore
