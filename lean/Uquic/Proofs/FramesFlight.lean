/-
C09 helper lemmas: flight builders (resolve, buildAbsolute, splitRange) and the soundness of
validateInitialFlight for payloads that are frame sequences.
-/
import Uquic.Proofs.FramesLenient
import Uquic.Proofs.FramesPlan

namespace Uquic.Proofs.Frames
open Uquic.Spec.Framing Uquic.Model.UQuic.Frames

/-- `resolve` never returns out-of-bounds indices (and has no panic path) -/
theorem resolve_spec (off len : Int) (n : Nat) :
    Good (fun r => r.1 ≤ r.2 ∧ r.2 ≤ n ∧
        (r.1 : Int) = (if off < 0 then (n : Int) + off else off) ∧
        (r.2 : Int) = (if len > 0 then (if off < 0 then (n : Int) + off else off) + len else (n : Int) + len))
      (fun e => e = "offset" ∨ e = "range") (resolve off len n) := by
  unfold resolve
  simp only []
  generalize (if off < 0 then (n : Int) + off else off) = start
  by_cases h1 : start < 0 ∨ start > n
  · rw [if_pos h1]; simp
  · rw [if_neg h1]
    generalize (if len > 0 then start + len else (n : Int) + len) = e
    by_cases h2 : e > n ∨ e < start
    · rw [if_pos h2]; simp
    · rw [if_neg h2]
      simp only [good_ok]
      refine ⟨by omega, by omega, by omega, by omega⟩

/-- the payload reads back strictly and every CRYPTO frame carries the stream bytes of its offset -/
def Truthy (full : List UInt8) (p : List UInt8) : Prop :=
  ∃ frames, readFrames p = some frames ∧ ∀ c ∈ cryptoOf frames, sliceEq full 0 c.1 c.2 = true

theorem absOne_spec (full : List UInt8) (f : QFrame) (bytes : List UInt8) (h : absOne full f = .ok bytes) :
    ∃ frames, (∀ rest, readFrames (bytes ++ rest) = (readFrames rest).map (frames ++ ·)) ∧
        ∀ c ∈ cryptoOf frames, sliceEq full 0 c.1 c.2 = true := by
  cases f with
  | ping =>
    simp only [absOne] at h
    obtain rfl := Outcome.ok.inj h
    refine ⟨[Frame.ping], ?_, by simp [cryptoOf]⟩
    intro rest; rw [List.singleton_append, readFrames_ping]; cases readFrames rest <;> simp
  | padding l =>
    simp only [absOne] at h
    split at h
    · simp at h
    · obtain rfl := Outcome.ok.inj h
      exact ⟨List.replicate l.toNat Frame.padding, fun rest => readFrames_paddings _ _,
        by simp [cryptoOf_replicate_padding]⟩
  | crypto off len =>
    simp only [absOne] at h
    have hr := resolve_spec off len full.length
    revert hr h
    cases resolve off len full.length with
    | ok se =>
      obtain ⟨s, e⟩ := se
      intro h hr
      simp only [good_ok] at hr
      simp only [] at h
      cases ha : appendVarint s with
      | none => rw [ha] at h; simp at h
      | some a =>
        cases hb : appendVarint (e - s) with
        | none => rw [ha, hb] at h; simp at h
        | some b =>
          rw [ha, hb] at h
          simp only [] at h
          obtain rfl := Outcome.ok.inj h
          have hdl : ((full.drop s).take (e - s)).length = e - s := by simp; omega
          refine ⟨[Frame.crypto s ((full.drop s).take (e - s))], ?_, ?_⟩
          · intro rest
            have := readFrames_crypto ((full.drop s).take (e - s)) rest ha (by rw [hdl]; exact hb)
            rw [this]; cases readFrames rest <;> simp
          · intro c hc
            simp only [cryptoOf, List.mem_singleton] at hc
            subst hc
            rw [sliceEq_iff]
            simp only [hdl]
            exact ⟨Nat.zero_le _, by omega, by simp⟩
    | err e => intro h; simp at h
    | panic => intro h; simp at h
    | wrap => intro h; simp at h

theorem buildAbsolute_truthy (full : List UInt8) : ∀ (fs : List QFrame) (p : List UInt8),
    buildAbsolute full fs = .ok p → Truthy full p := by
  intro fs
  induction fs with
  | nil => intro p h; simp [buildAbsolute] at h; subst h; exact ⟨[], readFrames_nil, by simp [cryptoOf]⟩
  | cons f fs ih =>
    intro p h
    simp only [buildAbsolute] at h
    cases ha : absOne full f with
    | ok a =>
      rw [ha] at h
      simp only [] at h
      obtain ⟨fr, hr, hc⟩ := absOne_spec full f a ha
      cases hb : buildAbsolute full fs with
      | ok b =>
        rw [hb] at h
        simp only [] at h
        obtain rfl := Outcome.ok.inj h
        obtain ⟨frames, hrp, hcp⟩ := ih b hb
        refine ⟨fr ++ frames, by rw [hr, hrp]; rfl, ?_⟩
        intro c hcm
        rw [cryptoOf_append] at hcm
        rcases List.mem_append.mp hcm with hcm | hcm
        · exact hc c hcm
        · exact hcp c hcm
      | err e => rw [hb] at h; simp at h
      | panic => rw [hb] at h; simp at h
      | wrap => rw [hb] at h; simp at h
    | err e => rw [ha] at h; simp at h
    | panic => rw [ha] at h; simp at h
    | wrap => rw [ha] at h; simp at h

theorem flightLoop_truthy (full : List UInt8) : ∀ (dgs : List (List QFrame)) (i : Nat) (ps : List (List UInt8)),
    flightLoop full i dgs = .ok ps → ∀ p ∈ ps, Truthy full p := by
  intro dgs
  induction dgs with
  | nil => intro i ps h; simp [flightLoop] at h; subst h; simp
  | cons dg rest ih =>
    intro i ps h
    simp only [flightLoop] at h
    cases hb : buildAbsolute full dg with
    | ok p =>
      rw [hb] at h
      simp only [tagIdx] at h
      cases hl : flightLoop full (i + 1) rest with
      | ok ps' =>
        rw [hl] at h
        simp only [] at h
        obtain rfl := Outcome.ok.inj h
        intro q hq
        rcases List.mem_cons.mp hq with rfl | hq
        · exact buildAbsolute_truthy full dg _ hb
        · exact ih _ _ hl q hq
      | err e => rw [hl] at h; simp at h
      | panic => rw [hl] at h; simp at h
      | wrap => rw [hl] at h; simp at h
    | err e => rw [hb] at h; simp [tagIdx] at h
    | panic => rw [hb] at h; simp [tagIdx] at h
    | wrap => rw [hb] at h; simp [tagIdx] at h

/-- QUICFlightFrames.BuildFlight: every payload it returns is a frame sequence carrying true bytes -/
theorem ffBuild_truthy {dgs : List (List QFrame)} {full : List UInt8} {ps : List (List UInt8)}
    (h : ffBuild dgs full = .ok ps) : ∀ p ∈ ps, Truthy full p := by
  unfold ffBuild at h
  split at h
  · simp at h
  · exact flightLoop_truthy full dgs 0 ps h

theorem rfdBuild_truthy {dg : RFDatagram} {full : List UInt8} {d d' : Draws} {perm : List Nat} {p : List UInt8}
    (h : rfdBuild dg full d perm = .ok (p, d')) : Truthy full p := by
  unfold rfdBuild at h
  split at h
  · rename_i fl d1 _
    split at h
    · rename_i fl' _
      cases hb : buildAbsolute full fl' with
      | ok q =>
        rw [hb] at h
        simp only [] at h
        obtain ⟨rfl, _⟩ := Prod.mk.inj (Outcome.ok.inj h)
        exact buildAbsolute_truthy full fl' _ hb
      | err e => rw [hb] at h; simp at h
      | panic => rw [hb] at h; simp at h
      | wrap => rw [hb] at h; simp at h
    · simp at h
  · simp at h
  · simp at h
  · simp at h

theorem rffLoop_truthy (full : List UInt8) : ∀ (dgs : List RFDatagram) (i : Nat) (d : Draws)
    (perms : List (List Nat)) (ps : List (List UInt8)),
    rffLoop full i dgs d perms = .ok ps → ∀ p ∈ ps, Truthy full p := by
  intro dgs
  induction dgs with
  | nil => intro i d perms ps h; simp [rffLoop] at h; subst h; simp
  | cons dg rest ih =>
    intro i d perms ps h
    simp only [rffLoop] at h
    cases hb : rfdBuild dg full d (perms.headD []) with
    | ok pd =>
      obtain ⟨p, d1⟩ := pd
      rw [hb] at h
      simp only [] at h
      cases hl : rffLoop full (i + 1) rest d1 perms.tail with
      | ok ps' =>
        rw [hl] at h
        simp only [] at h
        obtain rfl := Outcome.ok.inj h
        intro q hq
        rcases List.mem_cons.mp hq with rfl | hq
        · exact rfdBuild_truthy hb
        · exact ih _ _ _ _ hl q hq
      | err e => rw [hl] at h; simp at h
      | panic => rw [hl] at h; simp at h
      | wrap => rw [hl] at h; simp at h
    | err e => rw [hb] at h; simp at h
    | panic => rw [hb] at h; simp at h
    | wrap => rw [hb] at h; simp at h

/-- QUICRandomFlightFrames.BuildFlight: every payload is a frame sequence carrying true bytes -/
theorem rffBuild_truthy {dgs : List RFDatagram} {full : List UInt8} {d : Draws} {perms : List (List Nat)}
    {ps : List (List UInt8)} (h : rffBuild dgs full d perms = .ok ps) : ∀ p ∈ ps, Truthy full p := by
  unfold rffBuild at h
  split at h
  · simp at h
  · exact rffLoop_truthy full dgs 0 d perms ps h

/-! ### splitRange -/

/-- `splitRange` never underflows; its pieces are consecutive, at least one byte each, from `start`
    to `end` -/
theorem splitLoop_spec (e : Nat) : ∀ (k off : Nat) (d : Draws) (acc : List QFrame), off + k + 1 ≤ e →
    Good (fun r => ∃ new, r.1 = acc ++ new ∧ Chain (fun o l => QFrame.crypto o l) off new e ∧ new.length = k + 1)
      (fun err => err = "rand") (splitLoop e k off d acc) := by
  intro k
  induction k with
  | zero =>
    intro off d acc h
    simp only [splitLoop, good_ok]
    refine ⟨[QFrame.crypto off ((e - off : Nat) : Int)], ?_, ?_, rfl⟩
    · have : ((e - off : Nat) : Int) = (e : Int) - off := by omega
      rw [this]
    · have := Chain.cons (mk := fun o l => QFrame.crypto o l) (off := off) (l := e - off) (off' := e) (fs := [])
        (by omega) (by rw [show off + (e - off) = e by omega]; exact Chain.nil _)
      exact this
  | succ k ih =>
    intro off d acc h
    simp only [splitLoop]
    rw [if_neg (by omega)]
    cases hr : cryptoSafeRand 1 (e - off - (k + 1) + 1) d with
    | none => simp
    | some vd =>
      obtain ⟨l, d1⟩ := vd
      have hrange := cryptoSafeRand_range hr
      simp only []
      have := ih (off + l) d1 (acc ++ [QFrame.crypto off l]) (by omega)
      revert this
      cases splitLoop e k (off + l) d1 (acc ++ [QFrame.crypto off l]) with
      | ok r =>
        intro this
        simp only [good_ok] at this ⊢
        obtain ⟨new, h1, h2, h3⟩ := this
        exact ⟨QFrame.crypto off l :: new, by rw [h1]; simp, Chain.cons (by omega) h2, by simp [h3]⟩
      | err e => intro this; exact this
      | panic => intro this; exact this
      | wrap => intro this; exact this

theorem splitRange_spec (s e minN maxN : Nat) (d : Draws) (hse : s < e) :
    Good (fun r => Chain (fun o l => QFrame.crypto o l) s r.1 e ∧ 1 ≤ r.1.length ∧ r.1.length ≤ e - s)
      (fun err => err = "rand") (splitRange s e minN maxN d) := by
  unfold splitRange
  cases hr : cryptoSafeRand minN maxN d with
  | none => simp
  | some vd =>
    obtain ⟨n, d1⟩ := vd
    simp only []
    have := splitLoop_spec e (min (max n 1) (e - s) - 1) s d1 [] (by omega)
    revert this
    cases splitLoop e (min (max n 1) (e - s) - 1) s d1 [] with
    | ok r =>
      intro this
      simp only [good_ok] at this ⊢
      obtain ⟨new, h1, h2, h3⟩ := this
      simp at h1
      rw [h1]
      exact ⟨h2, by omega, by omega⟩
    | err e => intro this; exact this
    | panic => intro this; exact this
    | wrap => intro this; exact this

/-! ### validateInitialFlight is sound for frame sequences -/

theorem lenient_strict : ∀ (ps : List (List UInt8)) (rs : List (Nat × Nat)) (fs : List Frame),
    lenientRanges ps = some rs → readAll ps = some fs → rs = rangesOf (cryptoOf fs) := by
  intro ps
  induction ps with
  | nil => intro rs fs h1 h2; simp [lenientRanges] at h1; simp [readAll] at h2; subst h1; subst h2; rfl
  | cons p ps ih =>
    intro rs fs h1 h2
    simp only [lenientRanges] at h1
    simp only [readAll] at h2
    split at h1
    · rename_i cs rs' hc hl
      split at h2
      · rename_i a b ha hb
        obtain rfl := Option.some.inj h1
        obtain rfl := Option.some.inj h2
        have := chReadAll_strict ha hc
        rw [this, ih rs' b hl hb, cryptoOf_append]
        simp [rangesOf, asLenient]
      · simp at h2
    · simp at h1

/-- validateInitialFlight = nil on payloads that are frame sequences ⇒ their CRYPTO ranges lie inside
    the stream and cover every byte of it -/
theorem validate_covers {ps : List (List UInt8)} {budgets : List Int} {n : Nat} {rs : List (Nat × Nat)}
    {fs : List Frame} (hv : validate ps budgets n = .ok rs) (hs : readAll ps = some fs) :
    coversShape 0 n ps = true := by
  obtain ⟨_, _, hl, hb, hc⟩ := validate_ok hv
  have e := lenient_strict ps rs fs hl hs
  unfold coversShape
  rw [hs]
  simp only [Bool.and_eq_true, List.all_eq_true, decide_eq_true_eq]
  refine ⟨fun c hcm => ⟨Nat.zero_le _, ?_⟩, ?_⟩
  · have := hb (c.1, c.2.length) (by rw [e]; exact mem_rangesOf.mpr ⟨c, hcm, rfl⟩)
    simpa using this
  · rw [coversAll_iff]
    intro i _ h2
    have := hc i (by simpa using h2)
    rw [e] at this
    exact this

theorem readAll_of_truthy (full : List UInt8) : ∀ (ps : List (List UInt8)), (∀ p ∈ ps, Truthy full p) →
    ∃ fs, readAll ps = some fs ∧ ∀ c ∈ cryptoOf fs, sliceEq full 0 c.1 c.2 = true := by
  intro ps
  induction ps with
  | nil => intro _; exact ⟨[], rfl, by simp [cryptoOf]⟩
  | cons p ps ih =>
    intro h
    obtain ⟨fr, h1, h2⟩ := h p (List.mem_cons_self ..)
    obtain ⟨fs, h3, h4⟩ := ih (fun q hq => h q (List.mem_cons_of_mem _ hq))
    refine ⟨fr ++ fs, by simp [readAll, h1, h3], ?_⟩
    intro c hc
    rw [cryptoOf_append] at hc
    rcases List.mem_append.mp hc with hc | hc
    · exact h2 c hc
    · exact h4 c hc

/-- payloads that carry true bytes and pass validateInitialFlight carry the whole stream -/
theorem truthy_validate_carries {full : List UInt8} {ps : List (List UInt8)} {budgets : List Int}
    {rs : List (Nat × Nat)} (ht : ∀ p ∈ ps, Truthy full p)
    (hv : validate ps budgets full.length = .ok rs) : carries full 0 ps = true := by
  obtain ⟨fs, hr, hd⟩ := readAll_of_truthy full ps ht
  obtain ⟨_, _, hl, hb, hc⟩ := validate_ok hv
  have e := lenient_strict ps rs fs hl hr
  unfold carries
  apply carriesAt_intro hr
  · intro c hcm
    refine ⟨hd c hcm, Nat.zero_le _, ?_⟩
    have := hb (c.1, c.2.length) (by rw [e]; exact mem_rangesOf.mpr ⟨c, hcm, rfl⟩)
    simpa using this
  · intro i _ h2
    have := hc i (by simpa using h2)
    rw [e] at this
    obtain ⟨r, hr', h3, h4⟩ := this
    obtain ⟨c, hcm, rfl⟩ := mem_rangesOf.mp hr'
    exact ⟨c, hcm, h3, h4⟩

end Uquic.Proofs.Frames
