/-
Helper lemmas for Uquic/Props/C02Flight.lean (flight plans): what a build without write-back leaves behind, and the
agreement of the model's `resolve` / `buildDG` / `buildDGs` with the documented reading of a plan (`Uquic.Spec.FlightMon`).
-/
import Uquic.Model.UQuic.FlightPlan
import Uquic.Spec.FlightMon

namespace Uquic.Proofs.FlightPlan
open Uquic.Model.UQuic.FlightPlan Uquic.Spec.FlightMon

/-- `resolve` implements the documented meaning of a `QUICCryptoRange` (negative Offset: from the end; Length 0: to the
    end; negative Length: that far short of the end), and rejects exactly the ranges that do not fit the stream -/
theorem resolve_doc (r : Range) (n : Nat) :
    (match resolve r n with | .ok se => some se | .err _ => none) = docBounds r n := by
  have hd : docBounds r n =
      if 0 ≤ startOf r n ∧ startOf r n ≤ endOf r n ∧ endOf r n ≤ (n : Int) then
        some ((startOf r n).toNat, (endOf r n).toNat) else none := rfl
  rw [hd]
  unfold resolve
  by_cases h1 : startOf r n < 0 ∨ (n : Int) < startOf r n
  · rw [if_pos h1, if_neg (by omega)]
  · rw [if_neg h1]
    by_cases h2 : (n : Int) < endOf r n ∨ endOf r n < startOf r n
    · rw [if_pos h2, if_neg (by omega)]
    · rw [if_neg h2, if_pos (by omega)]

theorem resolve_of (r : Range) (n : Nat) (s e : Int) (hs : startOf r n = s) (he : endOf r n = e)
    (h0 : 0 ≤ s) (h1 : s ≤ e) (h2 : e ≤ (n : Int)) : resolve r n = .ok (s.toNat, e.toNat) := by
  unfold resolve
  rw [hs, he, if_neg (by omega), if_neg (by omega)]

theorem resolveAll_leaves (n : Nat) (rs : List Range) : (resolveAll false n rs).1 = rs := by
  induction rs with
  | nil => rfl
  | cons r rs ih =>
    unfold resolveAll
    split
    · rfl
    · simp [ih]

theorem buildDG_leaves (random : Bool) (n : Nat) (d : DG) : (buildDG false random n d).1 = d := by
  unfold buildDG
  split
  · rfl
  · split
    · rfl
    · simp [resolveAll_leaves]

theorem buildDGs_leaves (random : Bool) (n : Nat) (ds : List DG) : (buildDGs false random n ds).1 = ds := by
  induction ds with
  | nil => rfl
  | cons d ds ih =>
    unfold buildDGs
    simp only
    split <;> simp [buildDG_leaves, ih]

theorem resolveAll_matches_doc (n : Nat) (rs : List Range) (h : (rs.all fun r => (docBounds r n).isSome) = true) :
    (resolveAll false n rs).2 = .ok ((rs.filterMap (docBounds · n)).filter fun iv => iv.1 < iv.2) := by
  induction rs with
  | nil => rfl
  | cons r rs ih =>
    simp only [List.all_cons, Bool.and_eq_true] at h
    have hd := resolve_doc r n
    unfold resolveAll
    split
    · next e he => rw [he] at hd; simp at hd; rw [← hd] at h; simp at h
    · next se he =>
      rw [he] at hd; simp only at hd
      simp only [ih h.2, List.filterMap_cons, ← hd]
      by_cases hlt : se.1 < se.2 <;> simp [hlt]

theorem match_noBytes (random : Bool) (l : List (Nat × Nat)) (hne : random = true → l ≠ []) :
    (match (Res.ok l : Res (List (Nat × Nat))) with
     | .ok [] => if random then Res.err .noBytes else .ok []
     | y => y) = .ok l := by
  cases l with
  | nil => cases random <;> simp_all
  | cons => rfl

theorem buildDG_matches_doc (random : Bool) (n : Nat) (d : DG) (ivs : List (Nat × Nat))
    (h : docDG random n d = some ivs) : (buildDG false random n d).2 = .ok ivs := by
  unfold docDG at h
  dsimp only at h
  split at h
  · cases h
  · next hall =>
    have hall' : (d.ranges.all fun r => (docBounds r n).isSome) = true := by
      cases hx : (d.ranges.all fun r => (docBounds r n).isSome) <;> simp_all
    have hres := resolveAll_matches_doc n d.ranges hall'
    split at h
    · cases h
    · next hr =>
      injection h with h
      subst h
      have c1 : (random && d.ranges.isEmpty) = false := by cases random <;> simp_all
      have c2 : (random && !d.cfgOK) = false := by cases random <;> simp_all
      unfold buildDG
      simp only [c1, c2, Bool.false_eq_true, if_false, hres]
      apply match_noBytes
      intro hrand hnil
      subst hrand
      simp [hnil] at hr

theorem buildDGs_matches_doc (random : Bool) (n : Nat) (ds : List DG)
    (h : (ds.all fun d => (docDG random n d).isSome) = true) :
    (buildDGs false random n ds).2 = .ok (ds.filterMap (docDG random n)) := by
  induction ds with
  | nil => rfl
  | cons d ds ih =>
    simp only [List.all_cons, Bool.and_eq_true] at h
    obtain ⟨iv, hiv⟩ := Option.isSome_iff_exists.mp h.1
    unfold buildDGs
    simp only [buildDG_matches_doc random n d iv hiv, ih h.2, List.filterMap_cons, hiv]

end Uquic.Proofs.FlightPlan
