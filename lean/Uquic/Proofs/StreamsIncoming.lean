/-
Invariant of the incoming streams map and its preservation by every atomic step (C15).
-/
import Uquic.Model.Streams.Incoming
import Uquic.Proofs.StreamsList

set_option linter.unusedSimpArgs false
set_option linter.unusedVariables false

namespace Uquic.Proofs.Streams
open Uquic.Model.Streams

/-! ### the entries created by one `GetOrOpenStream` -/

def addNew (s : List (SID × Bool)) (ids : List SID) : List (SID × Bool) :=
  ids.foldl (fun s i => setKey s i false) s

theorem addNew_nil (s : List (SID × Bool)) : addNew s [] = s := rfl
theorem addNew_cons (s : List (SID × Bool)) (i : SID) (ids : List SID) :
    addNew s (i :: ids) = addNew (setKey s i false) ids := rfl

theorem mem_keys_addNew (s : List (SID × Bool)) (ids : List SID) (k : SID) :
    k ∈ keys (addNew s ids) ↔ k ∈ keys s ∨ k ∈ ids := by
  induction ids generalizing s with
  | nil => simp [addNew_nil]
  | cons i ids ih => rw [addNew_cons, ih, mem_keys_setKey]; simp; grind

theorem nodup_keys_addNew (s : List (SID × Bool)) (ids : List SID) (h : (keys s).Nodup) :
    (keys (addNew s ids)).Nodup := by
  induction ids generalizing s with
  | nil => simpa [addNew_nil] using h
  | cons i ids ih => rw [addNew_cons]; exact ih _ (nodup_keys_setKey s i false h)

theorem length_addNew (s : List (SID × Bool)) (ids : List SID) (hn : ids.Nodup)
    (hd : ∀ k ∈ ids, k ∉ keys s) : (addNew s ids).length = s.length + ids.length := by
  induction ids generalizing s with
  | nil => simp [addNew_nil]
  | cons i ids ih =>
    rw [addNew_cons]
    rw [List.nodup_cons] at hn
    have h1 : i ∉ keys s := hd i (by simp)
    rw [ih (setKey s i false) hn.2]
    · rw [length_setKey_of_not_mem s i false h1]; simp; omega
    · intro k hk; rw [mem_keys_setKey]
      intro h; rcases h with h | h
      · exact hd k (by simp [hk]) h
      · subst h; exact hn.1 hk

theorem lookup_addNew (s : List (SID × Bool)) (ids : List SID) (k : SID) :
    lookup (addNew s ids) k = if k ∈ ids then some false else lookup s k := by
  induction ids generalizing s with
  | nil => simp [addNew_nil]
  | cons i ids ih =>
    rw [addNew_cons, ih, lookup_setKey]
    by_cases h1 : k ∈ ids <;> by_cases h2 : k = i <;> simp [h1, h2]

theorem mem_addNew (s : List (SID × Bool)) (ids : List SID) (e : SID × Bool) (h : e ∈ addNew s ids) :
    (e ∈ s ∧ e.1 ∉ ids) ∨ (e.1 ∈ ids ∧ e.2 = false) := by
  induction ids generalizing s with
  | nil => simp [addNew_nil] at h; simp [h]
  | cons i ids ih =>
    rw [addNew_cons] at h
    rcases ih _ h with ⟨h1, h2⟩ | ⟨h1, h2⟩
    · rcases (mem_setKey s i false e).mp h1 with h3 | h3
      · left; exact ⟨h3.1, by simp [h2, h3.2]⟩
      · right; subst h3; simp
    · right; exact ⟨by simp [h1], h2⟩

theorem mem_newIds (n id k : SID) :
    k ∈ newIds n id ↔ ∃ i : Nat, (i : Int) < (id - n) / 4 + 1 ∧ k = n + 4 * (i : Int) := by
  simp only [newIds, List.mem_map, List.mem_range]
  constructor
  · rintro ⟨i, hi, rfl⟩; exact ⟨i, by omega, rfl⟩
  · rintro ⟨i, hi, rfl⟩; exact ⟨i, by omega, rfl⟩

theorem nodup_newIds (n id : SID) : (newIds n id).Nodup := by
  simp only [newIds]
  rw [List.Nodup, List.pairwise_map]
  have := @List.nodup_range ((id - n) / 4 + 1).toNat
  rw [List.Nodup] at this
  refine this.imp ?_
  intro a b h h2
  apply h
  omega

theorem length_newIds (n id : SID) : ((newIds n id).length : Int) = max ((id - n) / 4 + 1) 0 := by
  simp [newIds]

/-! ### the invariant -/

/-- `o` streams opened by the peer so far, `a` of them handed out by `AcceptStream` -/
structure InCoreX (first : Int) (m : Incoming) (o a : Nat) (exc : Option Int) : Prop where
  hopen : m.nextOpen = first + 4 * (o : Int)
  hacc : m.nextAccept = first + 4 * (a : Int)
  hao : a ≤ o
  nodup : (keys m.streams).Nodup
  /-- every entry is a stream the peer opened -/
  opened : ∀ k ∈ keys m.streams, ∃ i : Nat, i < o ∧ k = first + 4 * (i : Int)
  /-- entries queued for deletion are not yet accepted -/
  sdAbove : ∀ e ∈ m.streams, e.2 = true → exc ≠ some e.1 → m.nextAccept ≤ e.1
  /-- every opened, not yet accepted stream is still in the map (even when already completed) -/
  pending : ∀ i : Nat, a ≤ i → i < o → first + 4 * (i : Int) ∈ keys m.streams
  /-- `c` = number of streams the peer may open in total (advertised credit) -/
  credit : (m.maxNum = 0 ∧ m.maxStream = -1 ∧ o = 0 ∧ m.streams = []) ∨
    (∃ c : Nat, 1 ≤ c ∧ m.maxStream = first + 4 * (c : Int) - 4 ∧ o ≤ c ∧
      (m.streams.length : Int) + ((c : Int) - (o : Int)) ≤ m.maxNum)

/-- `exc` is only used in the middle of `AcceptStream` (between `nextStreamToAccept += 4` and the
    deletion of the entry that was queued for deletion) -/
abbrev InCore (first : Int) (m : Incoming) (o a : Nat) : Prop := InCoreX first m o a none

def InInv (first : Int) (m : Incoming) : Prop := m.dead = true ∨ ∃ o a, InCore first m o a

/-- the operations the dispatch in `streamsMap` can hand to this map: ids of its own residue class -/
def _root_.Uquic.Model.Streams.InOp.wf (first : Int) : InOp → Prop
  | .getOrOpen id => ∃ j : Nat, id = first + 4 * (j : Int)
  | _ => True

theorem firstIncoming_range (t : STyp) (p : Persp) : 0 ≤ firstIncoming t p ∧ firstIncoming t p ≤ 3 := by
  cases t <;> cases p <;> decide

theorem numToID_incoming (t : STyp) (p : Persp) (n : Int) (h : n ≠ 0) :
    numToID n t p.opposite = firstIncoming t p + 4 * n - 4 := by
  cases t <;> cases p <;>
    simp [numToID, h, firstIncoming, Persp.opposite,
      Uquic.Gen.Protocol.FirstIncomingBidiStreamClient, Uquic.Gen.Protocol.FirstIncomingBidiStreamServer,
      Uquic.Gen.Protocol.FirstIncomingUniStreamClient, Uquic.Gen.Protocol.FirstIncomingUniStreamServer] <;> omega

theorem inv_new (t : STyp) (p : Persp) (n : Int) (hn : 0 ≤ n) :
    InInv (firstIncoming t p) (Incoming.new t n p) := by
  right
  refine ⟨0, 0, ?_⟩
  constructor <;> try simp [Incoming.new, keys]
  by_cases h : n = 0
  · left; simp [h, numToID, invalidStreamID, Uquic.Gen.Protocol.InvalidStreamID]
  · right; refine ⟨n.toNat, by omega, ?_, by omega⟩
    rw [numToID_incoming t p n h]; omega

/-! ### preservation, method by method -/

theorem getOrOpen_streams (m : Incoming) (id : SID) (h1 : ¬ id > m.maxStream) (h2 : ¬ id < m.nextOpen)
    (h3 : m.chanClosed = false) :
    (m.getOrOpen id).1 = { m with streams := addNew m.streams (newIds m.nextOpen id), chan := true, nextOpen := id + 4 } := by
  simp [Incoming.getOrOpen, h1, h2, h3, addNew]

theorem getOrOpen_core (first : Int) (hf0 : 0 ≤ first) (m : Incoming) (o a : Nat)
    (h : InCore first m o a) (j : Nat) :
    (m.getOrOpen (first + 4 * (j : Int))).1.dead = true ∨
      ∃ o', o ≤ o' ∧ InCore first (m.getOrOpen (first + 4 * (j : Int))).1 o' a := by
  by_cases h1 : first + 4 * (j : Int) > m.maxStream
  · right; refine ⟨o, Nat.le_refl _, ?_⟩; simpa [Incoming.getOrOpen, h1] using h
  by_cases h2 : first + 4 * (j : Int) < m.nextOpen
  · right; refine ⟨o, Nat.le_refl _, ?_⟩
    have : (m.getOrOpen (first + 4 * (j : Int))).1 = m := by
      simp only [Incoming.getOrOpen, h1, h2, if_true, if_false]
      split <;> rfl
    rw [this]; exact h
  by_cases h3 : m.chanClosed = true
  · left; simp [Incoming.getOrOpen, h1, h2, h3]
  have h3' : m.chanClosed = false := by simpa using h3
  right
  rw [getOrOpen_streams m _ h1 h2 h3']
  have hopen := h.hopen
  have hjo : o ≤ j := by omega
  obtain ⟨c, hc1, hms, hoc, hlen⟩ : ∃ c : Nat, 1 ≤ c ∧ m.maxStream = first + 4 * (c : Int) - 4 ∧ o ≤ c ∧
      (m.streams.length : Int) + ((c : Int) - (o : Int)) ≤ m.maxNum := by
    rcases h.credit with hcr | hcr
    · exfalso; omega
    · exact hcr
  have hjc : j + 1 ≤ c := by omega
  have hcount : (first + 4 * (j : Int) - m.nextOpen) / 4 + 1 = (j : Int) - (o : Int) + 1 := by omega
  have hnew : ∀ k, k ∈ newIds m.nextOpen (first + 4 * (j : Int)) ↔ ∃ i : Nat, o ≤ i ∧ i ≤ j ∧ k = first + 4 * (i : Int) := by
    intro k; rw [mem_newIds, hcount]
    constructor
    · rintro ⟨i, hi, rfl⟩; exact ⟨o + i, by omega, by omega, by omega⟩
    · rintro ⟨i, hi1, hi2, rfl⟩; exact ⟨i - o, by omega, by omega⟩
  refine ⟨j + 1, by omega, ?_⟩
  constructor
  · show first + 4 * (j : Int) + 4 = first + 4 * ((j + 1 : Nat) : Int); omega
  · exact h.hacc
  · have := h.hao; omega
  · exact nodup_keys_addNew _ _ h.nodup
  · intro k hk
    rcases (mem_keys_addNew _ _ k).mp hk with hk | hk
    · obtain ⟨i, hi, rfl⟩ := h.opened k hk; exact ⟨i, by omega, rfl⟩
    · obtain ⟨i, hi1, hi2, rfl⟩ := (hnew k).mp hk; exact ⟨i, by omega, rfl⟩
  · intro e he hsd _
    rcases mem_addNew _ _ e he with ⟨he1, _⟩ | ⟨_, he2⟩
    · exact h.sdAbove e he1 hsd (by simp)
    · simp [he2] at hsd
  · intro i hi1 hi2
    apply (mem_keys_addNew _ _ _).mpr
    by_cases hio : i < o
    · left; exact h.pending i hi1 hio
    · right; exact (hnew _).mpr ⟨i, by omega, by omega, rfl⟩
  · right
    refine ⟨c, hc1, hms, by omega, ?_⟩
    have hl : (addNew m.streams (newIds m.nextOpen (first + 4 * (j : Int)))).length
        = m.streams.length + (newIds m.nextOpen (first + 4 * (j : Int))).length := by
      apply length_addNew _ _ (nodup_newIds _ _)
      intro k hk hk2
      obtain ⟨i, hi1, hi2, rfl⟩ := (hnew k).mp hk
      obtain ⟨i', hi', he⟩ := h.opened _ hk2
      omega
    have hl2 := length_newIds m.nextOpen (first + 4 * (j : Int))
    rw [hcount] at hl2
    show ((addNew m.streams (newIds m.nextOpen (first + 4 * (j : Int)))).length : Int) + ((c : Int) - ((j + 1 : Nat) : Int)) ≤ m.maxNum
    rw [hl]; push_cast; omega

/-- the advertised credit as a stream count -/
def credit (first : Int) (m : Incoming) : Int := (m.maxStream + 4 - first) / 4

theorem deleteInner_real (m : Incoming) (id : SID) (sd : Bool) (hl : lookup m.streams id = some sd)
    (hlt : id < m.nextAccept) :
    m.deleteInner id =
      if m.maxNum > ((eraseKey m.streams id).length : Int) then
        if m.nextOpen + 4 * (m.maxNum - ((eraseKey m.streams id).length : Int) - 1) ≤ maxStreamID then
          ({ m with streams := eraseKey m.streams id,
                    maxStream := m.nextOpen + 4 * (m.maxNum - ((eraseKey m.streams id).length : Int) - 1) }, none,
           [.maxStreams m.typ (idToNum (m.nextOpen + 4 * (m.maxNum - ((eraseKey m.streams id).length : Int) - 1)))])
        else ({ m with streams := eraseKey m.streams id }, none, [])
      else ({ m with streams := eraseKey m.streams id }, none, []) := by
  have : ¬ id ≥ m.nextAccept := by omega
  simp only [Incoming.deleteInner, hl, this, if_false]

/-- what a step may do to the credit and which MAX_STREAMS it may queue -/
def CreditStep (first : Int) (m m' : Incoming) (fs : List Frame) : Prop :=
  (fs = [] ∧ m'.maxStream = m.maxStream) ∨
  (∃ n, fs = [.maxStreams m.typ n] ∧ credit first m < n ∧ n = credit first m' ∧ n ≤ maxStreamCount)

theorem realDelete_core (first : Int) (hf0 : 0 ≤ first) (hf3 : first ≤ 3) (m : Incoming) (o a : Nat) (id : SID)
    (sd : Bool) (h : InCoreX first m o a (some id)) (hl : lookup m.streams id = some sd)
    (hlt : id < m.nextAccept) :
    InCore first (m.deleteInner id).1 o a ∧ (m.deleteInner id).2.1 = none ∧
      CreditStep first m (m.deleteInner id).1 (m.deleteInner id).2.2 ∧
      (m.deleteInner id).1.streams = eraseKey m.streams id := by
  have hmem : id ∈ keys m.streams := (lookup_isSome_iff _ _).mp (by simp [hl])
  have hlen := length_eraseKey_of_mem m.streams id h.nodup hmem
  obtain ⟨c, hc1, hms, hoc, hcl⟩ : ∃ c : Nat, 1 ≤ c ∧ m.maxStream = first + 4 * (c : Int) - 4 ∧ o ≤ c ∧
      (m.streams.length : Int) + ((c : Int) - (o : Int)) ≤ m.maxNum := by
    rcases h.credit with hcr | hcr
    · exfalso; rw [hcr.2.2.2] at hmem; simp [keys] at hmem
    · exact hcr
  have hopen := h.hopen
  have hacc := h.hacc
  -- facts shared by all branches
  have hnodup : (keys (eraseKey m.streams id)).Nodup := nodup_keys_eraseKey _ _ h.nodup
  have hopened : ∀ k ∈ keys (eraseKey m.streams id), ∃ i : Nat, i < o ∧ k = first + 4 * (i : Int) := by
    intro k hk; exact h.opened k ((mem_keys_eraseKey _ _ _).mp hk).1
  have hsdA : ∀ e ∈ eraseKey m.streams id, e.2 = true → (none : Option Int) ≠ some e.1 → m.nextAccept ≤ e.1 := by
    intro e he hsd _
    have := (mem_eraseKey _ _ _).mp he
    exact h.sdAbove e this.1 hsd (by simp; exact fun e' => this.2 e'.symm)
  have hpend : ∀ i : Nat, a ≤ i → i < o → first + 4 * (i : Int) ∈ keys (eraseKey m.streams id) := by
    intro i h1 h2
    apply (mem_keys_eraseKey _ _ _).mpr
    exact ⟨h.pending i h1 h2, by omega⟩
  have hgt : m.maxNum > ((eraseKey m.streams id).length : Int) := by omega
  rw [deleteInner_real m id sd hl hlt]
  simp only [hgt, if_true]
  split
  · rename_i hle
    refine ⟨?_, rfl, ?_, rfl⟩
    · constructor
      · exact hopen
      · exact hacc
      · exact h.hao
      · exact hnodup
      · exact hopened
      · exact hsdA
      · exact hpend
      · right
        refine ⟨(o + (m.maxNum - ((eraseKey m.streams id).length : Int))).toNat, by omega, ?_, by omega, ?_⟩
        · show m.nextOpen + 4 * (m.maxNum - ((eraseKey m.streams id).length : Int) - 1) = _
          omega
        · show ((eraseKey m.streams id).length : Int) + _ ≤ m.maxNum
          omega
    · right
      refine ⟨_, rfl, ?_, ?_, ?_⟩
      · simp only [credit, idToNum]; omega
      · simp only [credit, idToNum]; omega
      · have : maxStreamID = 4611686018427387903 := rfl
        have : maxStreamCount = 1152921504606846976 := rfl
        simp only [idToNum]; omega
  · refine ⟨?_, rfl, Or.inl ⟨rfl, rfl⟩, rfl⟩
    constructor
    · exact hopen
    · exact hacc
    · exact h.hao
    · exact hnodup
    · exact hopened
    · exact hsdA
    · exact hpend
    · right
      exact ⟨c, hc1, hms, hoc, by show ((eraseKey m.streams id).length : Int) + _ ≤ m.maxNum; omega⟩

theorem InCoreX.congr {first : Int} {m m' : Incoming} {o a : Nat} {exc : Option Int}
    (h : InCoreX first m o a exc) (h1 : m'.nextOpen = m.nextOpen) (h2 : m'.nextAccept = m.nextAccept)
    (h3 : m'.streams = m.streams) (h4 : m'.maxStream = m.maxStream) (h5 : m'.maxNum = m.maxNum) :
    InCoreX first m' o a exc := by
  constructor
  · rw [h1]; exact h.hopen
  · rw [h2]; exact h.hacc
  · exact h.hao
  · rw [h3]; exact h.nodup
  · rw [h3]; exact h.opened
  · rw [h3, h2]; exact h.sdAbove
  · rw [h3]; exact h.pending
  · rw [h3, h4, h5]; exact h.credit

theorem CreditStep.refl' (first : Int) (m m' : Incoming) (h : m'.maxStream = m.maxStream) :
    CreditStep first m m' [] := Or.inl ⟨rfl, h⟩

theorem deferDelete_core (first : Int) (m : Incoming) (o a : Nat) (id : SID)
    (h : InCore first m o a) (hl : lookup m.streams id = some false) (hge : id ≥ m.nextAccept) :
    InCore first { m with streams := setKey m.streams id true } o a := by
  have hmem : id ∈ keys m.streams := (lookup_isSome_iff _ _).mp (by simp [hl])
  constructor
  · exact h.hopen
  · exact h.hacc
  · exact h.hao
  · exact nodup_keys_setKey _ _ _ h.nodup
  · intro k hk
    rcases (mem_keys_setKey _ _ _ _).mp hk with hk | hk
    · exact h.opened k hk
    · subst hk; exact h.opened k hmem
  · intro e he hsd _
    rcases (mem_setKey _ _ _ _).mp he with he | he
    · exact h.sdAbove e he.1 hsd (by simp)
    · subst he; exact hge
  · intro i h1 h2
    exact (mem_keys_setKey _ _ _ _).mpr (Or.inl (h.pending i h1 h2))
  · rcases h.credit with hcr | hcr
    · exfalso; rw [hcr.2.2.2] at hmem; simp [keys] at hmem
    · right
      obtain ⟨c, h1, h2, h3, h4⟩ := hcr
      refine ⟨c, h1, h2, h3, ?_⟩
      show ((setKey m.streams id true).length : Int) + _ ≤ _
      rw [length_setKey_of_mem _ _ _ h.nodup hmem]; exact h4

/-- `deleteInner` on an invariant state -/
theorem deleteInner_core (first : Int) (hf0 : 0 ≤ first) (hf3 : first ≤ 3) (m : Incoming) (o a : Nat) (id : SID)
    (h : InCore first m o a) :
    InCore first (m.deleteInner id).1 o a ∧ CreditStep first m (m.deleteInner id).1 (m.deleteInner id).2.2 ∧
      ((m.deleteInner id).2.2 ≠ [] → id < m.nextAccept ∧ (m.deleteInner id).2.1 = none) := by
  cases hl : lookup m.streams id with
  | none => simp [Incoming.deleteInner, hl]; exact ⟨h, CreditStep.refl' _ _ _ rfl⟩
  | some sd =>
    by_cases hge : id ≥ m.nextAccept
    · cases sd with
      | true => simp [Incoming.deleteInner, hl, hge]; exact ⟨h, CreditStep.refl' _ _ _ rfl⟩
      | false =>
        simp [Incoming.deleteInner, hl, hge]
        exact ⟨deferDelete_core first m o a id h hl hge, CreditStep.refl' _ _ _ rfl⟩
    · have hlt : id < m.nextAccept := by omega
      have hx : InCoreX first m o a (some id) := by
        constructor
        · exact h.hopen
        · exact h.hacc
        · exact h.hao
        · exact h.nodup
        · exact h.opened
        · intro e he hsd _; exact h.sdAbove e he hsd (by simp)
        · exact h.pending
        · exact h.credit
      obtain ⟨r1, r2, r3, _⟩ := realDelete_core first hf0 hf3 m o a id sd hx hl hlt
      exact ⟨r1, r3, fun _ => ⟨hlt, r2⟩⟩

theorem dropAcc_fields (m : Incoming) (c : Nat) :
    (m.dropAcc c).nextOpen = m.nextOpen ∧ (m.dropAcc c).nextAccept = m.nextAccept ∧
    (m.dropAcc c).streams = m.streams ∧ (m.dropAcc c).maxStream = m.maxStream ∧
    (m.dropAcc c).maxNum = m.maxNum ∧ (m.dropAcc c).dead = m.dead ∧ (m.dropAcc c).typ = m.typ :=
  ⟨rfl, rfl, rfl, rfl, rfl, rfl, rfl⟩

theorem updAcc_fields (m : Incoming) (c : Nat) (f : Acc → Acc) :
    (m.updAcc c f).nextOpen = m.nextOpen ∧ (m.updAcc c f).nextAccept = m.nextAccept ∧
    (m.updAcc c f).streams = m.streams ∧ (m.updAcc c f).maxStream = m.maxStream ∧
    (m.updAcc c f).maxNum = m.maxNum ∧ (m.updAcc c f).dead = m.dead ∧ (m.updAcc c f).typ = m.typ :=
  ⟨rfl, rfl, rfl, rfl, rfl, rfl, rfl⟩

theorem deleteInner_maxNum (m : Incoming) (id : SID) : (m.deleteInner id).1.maxNum = m.maxNum := by
  unfold Incoming.deleteInner
  split
  · rfl
  split
  · split <;> rfl
  simp only
  split
  · split <;> rfl
  · rfl

theorem deleteInner_typ (m : Incoming) (id : SID) : (m.deleteInner id).1.typ = m.typ := by
  unfold Incoming.deleteInner
  split
  · rfl
  split
  · split <;> rfl
  simp only
  split
  · split <;> rfl
  · rfl

/-- what `accLocked` guarantees on an invariant state -/
structure AccFacts (first : Int) (m : Incoming) (o : Nat) (c : Nat) (r : Incoming × Option Ret × List Frame) : Prop where
  inv : ∃ a', InCore first r.1 o a'
  credit : CreditStep first m r.1 r.2.2
  ret : ∀ id, r.2.1 = some (.stream id) → id = m.nextAccept ∧ r.1.nextAccept = id + 4
  noret : (∀ id, r.2.1 ≠ some (.stream id)) → r.1.nextAccept = m.nextAccept
  frames : r.2.2 ≠ [] → lookup m.streams m.nextAccept = some true
  dead : r.1.dead = m.dead
  typ : r.1.typ = m.typ
  maxNum : r.1.maxNum = m.maxNum
  /-- a ready acceptor of an open map gets the next stream as soon as it is in the map -/
  progress : ∀ p, m.findAcc c = some p → p.ready = true → m.closeErr = none →
    (lookup m.streams m.nextAccept).isSome → r.2.1 = some (.stream m.nextAccept)

theorem accLocked_core (first : Int) (hf0 : 0 ≤ first) (hf3 : first ≤ 3) (m : Incoming) (o a : Nat) (c : Nat)
    (h : InCore first m o a) : AccFacts first m o c (m.accLocked c) := by
  have same : (∀ p, m.findAcc c = some p → p.ready = true → False) → AccFacts first m o c (m, none, []) := fun hno =>
    ⟨⟨a, h⟩, CreditStep.refl' _ _ _ rfl, by simp, by simp, by simp, rfl, rfl, rfl,
     fun p h1 h2 _ _ => (hno p h1 h2).elim⟩
  unfold Incoming.accLocked
  cases hf : m.findAcc c with
  | none => exact same (fun p hp _ => by rw [hf] at hp; simp at hp)
  | some p =>
    simp only
    by_cases hr0 : p.ready = false
    · simp only [hr0, Bool.not_false, if_true]
      exact same (fun p' hp' hr' => by rw [hf] at hp'; simp at hp'; subst hp'; rw [hr0] at hr'; simp at hr')
    have hr : p.ready = true := by simpa using hr0
    simp only [hr, Bool.not_true, Bool.false_eq_true, if_false]
    split
    next e hce =>
      exact ⟨⟨a, h.congr rfl rfl rfl rfl rfl⟩, CreditStep.refl' _ _ _ rfl, by simp, fun _ => rfl, by simp, rfl, rfl, rfl,
        fun _ _ _ hc _ => by rw [hce] at hc; simp at hc⟩
    next hce =>
      cases hl : lookup m.streams m.nextAccept with
      | none =>
        simp only
        exact ⟨⟨a, h.congr rfl rfl rfl rfl rfl⟩, CreditStep.refl' _ _ _ rfl, by simp, fun _ => rfl, by simp, rfl, rfl, rfl,
          fun _ _ _ _ hs => by rw [hl] at hs; simp at hs⟩
      | some sd =>
        simp only
        have hmem : m.nextAccept ∈ keys m.streams := (lookup_isSome_iff _ _).mp (by simp [hl])
        obtain ⟨i, hi, hie⟩ := h.opened _ hmem
        have hacc := h.hacc
        have hia : i = a := by omega
        subst hia
        -- entries queued for deletion other than the accepted one lie above the new nextAccept
        have hsd' : ∀ e ∈ m.streams, e.2 = true → e.1 ≠ m.nextAccept → m.nextAccept + 4 ≤ e.1 := by
          intro e he hsd hne
          have h1 := h.sdAbove e he hsd (by simp)
          obtain ⟨i', _, hi'⟩ := h.opened e.1 (mem_keys_of_mem _ _ he)
          omega
        cases sd with
        | false =>
          simp only [Bool.false_eq_true, if_false]
          refine ⟨⟨i + 1, ?_⟩, CreditStep.refl' _ _ _ rfl, ?_, ?_, by simp, rfl, rfl, rfl, fun _ _ _ _ _ => rfl⟩
          · constructor
            · exact h.hopen
            · show m.nextAccept + 4 = first + 4 * ((i + 1 : Nat) : Int); omega
            · omega
            · exact h.nodup
            · exact h.opened
            · intro e he hsd _
              apply hsd' e he hsd
              intro heq
              have : lookup m.streams e.1 = some e.2 := mem_lookup_of_nodup _ _ _ h.nodup (by cases e; exact he)
              rw [heq, hl, hsd] at this; simp at this
            · intro i' h1 h2; exact h.pending i' (by omega) h2
            · exact h.credit
          · intro id hid; simp at hid; subst hid; exact ⟨rfl, rfl⟩
          · intro hn; exact absurd rfl (hn m.nextAccept)
        | true =>
          simp only [if_true]
          have hx : InCoreX first { m with nextAccept := m.nextAccept + 4 } o (i + 1) (some m.nextAccept) := by
            constructor
            · exact h.hopen
            · show m.nextAccept + 4 = first + 4 * ((i + 1 : Nat) : Int); omega
            · omega
            · exact h.nodup
            · exact h.opened
            · intro e he hsd hne
              apply hsd' e he hsd
              intro heq; apply hne; rw [heq]
            · intro i' h1 h2; exact h.pending i' (by omega) h2
            · exact h.credit
          have hlt : m.nextAccept < ({ m with nextAccept := m.nextAccept + 4 } : Incoming).nextAccept := by
            show m.nextAccept < m.nextAccept + 4; omega
          obtain ⟨r1, r2, r3, r4⟩ := realDelete_core first hf0 hf3 { m with nextAccept := m.nextAccept + 4 } o (i + 1)
            m.nextAccept true hx hl hlt
          generalize hd : Incoming.deleteInner { m with nextAccept := m.nextAccept + 4 } m.nextAccept = res at r1 r2 r3 r4
          obtain ⟨m', e, fs⟩ := res
          simp only at r1 r2 r3 r4
          subst r2
          have htyp : m'.typ = m.typ := by
            have := deleteInner_typ { m with nextAccept := m.nextAccept + 4 } m.nextAccept
            rw [hd] at this; exact this
          have hmn : m'.maxNum = m.maxNum := by
            have := deleteInner_maxNum { m with nextAccept := m.nextAccept + 4 } m.nextAccept
            rw [hd] at this; exact this
          refine ⟨⟨i + 1, r1.congr rfl rfl rfl rfl rfl⟩, ?_, ?_, ?_, fun _ => hl, ?_, htyp, hmn, fun _ _ _ _ _ => rfl⟩
          · rcases r3 with r3 | r3
            · exact Or.inl r3
            · exact Or.inr r3
          · intro id hid; simp at hid; subst hid
            refine ⟨rfl, ?_⟩
            show m'.nextAccept = m.nextAccept + 4
            have := r1.hacc; omega
          · intro hn; exact absurd rfl (hn m.nextAccept)
          · show m'.dead = m.dead
            have hdd : (Incoming.deleteInner { m with nextAccept := m.nextAccept + 4 } m.nextAccept).1.dead = m.dead := by
              rw [deleteInner_real { m with nextAccept := m.nextAccept + 4 } m.nextAccept true hl hlt]
              split
              · split <;> rfl
              · rfl
            rw [hd] at hdd; exact hdd

/-! ### one step of the transition system -/

structure SameCore (m m' : Incoming) : Prop where
  h1 : m'.nextOpen = m.nextOpen
  h2 : m'.nextAccept = m.nextAccept
  h3 : m'.streams = m.streams
  h4 : m'.maxStream = m.maxStream
  h5 : m'.maxNum = m.maxNum
  h6 : m'.dead = m.dead
  h7 : m'.typ = m.typ

theorem InInv.of_same {first : Int} {m m' : Incoming} (h : InInv first m) (s : SameCore m m') : InInv first m' := by
  rcases h with h | ⟨o, a, h⟩
  · left; rw [s.h6]; exact h
  · right; exact ⟨o, a, h.congr s.h1 s.h2 s.h3 s.h4 s.h5⟩

structure InStepFacts (first : Int) (m : Incoming) (op : InOp) : Prop where
  inv : InInv first (m.step op).1
  credit : CreditStep first m (m.step op).1 (m.step op).2.frames
  ret : ∀ c id, (c, Ret.stream id) ∈ (m.step op).2.rets →
    id = m.nextAccept ∧ (m.step op).1.nextAccept = id + 4 ∧ (m.step op).2.rets = [(c, .stream id)]
  noret : (∀ c id, (c, Ret.stream id) ∉ (m.step op).2.rets) → (m.step op).1.nextAccept = m.nextAccept
  frames : (m.step op).2.frames ≠ [] →
    (∃ id, op = .delete id ∧ id < m.nextAccept) ∨ (∃ a, op = .accLocked a ∧ lookup m.streams m.nextAccept = some true)
  typ : (m.step op).1.typ = m.typ
  maxNum : (m.step op).1.maxNum = m.maxNum

theorem InStepFacts.of_same {first : Int} {m : Incoming} {op : InOp} (h : InInv first m)
    (s : SameCore m (m.step op).1) (hf : (m.step op).2.frames = [])
    (hr : ∀ c id, (c, Ret.stream id) ∉ (m.step op).2.rets) : InStepFacts first m op :=
  ⟨h.of_same s, by rw [hf]; exact CreditStep.refl' _ _ _ s.h4, fun c id hm => absurd hm (hr c id),
   fun _ => s.h2, by simp [hf], s.h7, s.h5⟩

theorem getOrOpen_same (m : Incoming) (id : SID) :
    (m.getOrOpen id).1.nextAccept = m.nextAccept ∧ (m.getOrOpen id).1.maxStream = m.maxStream ∧
    (m.getOrOpen id).1.maxNum = m.maxNum ∧ (m.getOrOpen id).1.typ = m.typ := by
  unfold Incoming.getOrOpen
  split
  · exact ⟨rfl, rfl, rfl, rfl⟩
  split
  · split <;> exact ⟨rfl, rfl, rfl, rfl⟩
  split <;> exact ⟨rfl, rfl, rfl, rfl⟩

theorem deleteStream_eq (m : Incoming) (id : SID) :
    (m.deleteStream id).1 = (m.deleteInner id).1 ∧ (m.deleteStream id).2.2 = (m.deleteInner id).2.2 := by
  unfold Incoming.deleteStream
  split <;> simp_all

theorem step_facts (first : Int) (hf0 : 0 ≤ first) (hf3 : first ≤ 3) (m : Incoming) (op : InOp)
    (h : InInv first m) (hw : op.wf first) : InStepFacts first m op := by
  have same0 : SameCore m m := ⟨rfl, rfl, rfl, rfl, rfl, rfl, rfl⟩
  cases op with
  | getOrOpen id =>
    by_cases hd : m.dead = true
    · exact InStepFacts.of_same h (by simp [Incoming.step, hd]; exact same0) (by simp [Incoming.step, hd])
        (by simp [Incoming.step, hd])
    have hd' : m.dead = false := by simpa using hd
    obtain ⟨o, a, hc⟩ : ∃ o a, InCore first m o a := by
      rcases h with h | h
      · exact absurd h hd
      · exact h
    obtain ⟨j, rfl⟩ := hw
    have hs := getOrOpen_same m (first + 4 * (j : Int))
    have hst : (m.step (.getOrOpen (first + 4 * (j : Int)))).1 = (m.getOrOpen (first + 4 * (j : Int))).1 := by
      simp [Incoming.step, hd']
    have hfr : (m.step (.getOrOpen (first + 4 * (j : Int)))).2.frames = [] := by simp [Incoming.step, hd']
    have hrt : (m.step (.getOrOpen (first + 4 * (j : Int)))).2.rets = [] := by simp [Incoming.step, hd']
    refine ⟨?_, ?_, ?_, ?_, ?_, ?_, by rw [hst]; exact hs.2.2.1⟩
    · rw [hst]
      rcases getOrOpen_core first hf0 m o a hc j with h1 | ⟨o', _, h1⟩
      · exact Or.inl h1
      · exact Or.inr ⟨o', a, h1⟩
    · rw [hfr, hst]; exact CreditStep.refl' _ _ _ hs.2.1
    · intro c id hm; rw [hrt] at hm; simp at hm
    · intro _; rw [hst]; exact hs.1
    · intro hne; exact absurd hfr hne
    · rw [hst]; exact hs.2.2.2
  | delete id =>
    by_cases hd : m.dead = true
    · exact InStepFacts.of_same h (by simp [Incoming.step, hd]; exact same0) (by simp [Incoming.step, hd])
        (by simp [Incoming.step, hd])
    have hd' : m.dead = false := by simpa using hd
    obtain ⟨o, a, hc⟩ : ∃ o a, InCore first m o a := by
      rcases h with h | h
      · exact absurd h hd
      · exact h
    have he := deleteStream_eq m id
    have hst : (m.step (.delete id)).1 = (m.deleteInner id).1 := by
      simp only [Incoming.step, hd', Bool.false_eq_true, if_false]; exact he.1
    have hfr : (m.step (.delete id)).2.frames = (m.deleteInner id).2.2 := by
      simp only [Incoming.step, hd', Bool.false_eq_true, if_false]; exact he.2
    have hrt : (m.step (.delete id)).2.rets = [] := by simp [Incoming.step, hd']
    obtain ⟨r1, r2, r3⟩ := deleteInner_core first hf0 hf3 m o a id hc
    refine ⟨?_, ?_, ?_, ?_, ?_, ?_, by rw [hst]; exact deleteInner_maxNum m id⟩
    · rw [hst]; exact Or.inr ⟨o, a, r1⟩
    · rw [hfr, hst]; exact r2
    · intro c id' hm; rw [hrt] at hm; simp at hm
    · intro _; rw [hst]; rw [r1.hacc, hc.hacc]
    · intro hne; rw [hfr] at hne; exact Or.inl ⟨id, rfl, (r3 hne).1⟩
    · rw [hst]; exact deleteInner_typ m id
  | accCall a =>
    refine InStepFacts.of_same h ?_ (by simp [Incoming.step]) (by simp [Incoming.step])
    simp only [Incoming.step, Incoming.accCall]
    split
    · exact same0
    · exact ⟨rfl, rfl, rfl, rfl, rfl, rfl, rfl⟩
  | accLocked c =>
    by_cases hd : m.dead = true
    · exact InStepFacts.of_same h (by simp [Incoming.step, hd]; exact same0) (by simp [Incoming.step, hd])
        (by simp [Incoming.step, hd])
    have hd' : m.dead = false := by simpa using hd
    obtain ⟨o, a, hc⟩ : ∃ o a, InCore first m o a := by
      rcases h with h | h
      · exact absurd h hd
      · exact h
    have af := accLocked_core first hf0 hf3 m o a c hc
    have hst : (m.step (.accLocked c)).1 = (m.accLocked c).1 := by simp [Incoming.step, hd']
    have hfr : (m.step (.accLocked c)).2.frames = (m.accLocked c).2.2 := by simp [Incoming.step, hd']
    have hrt : (m.step (.accLocked c)).2.rets = match (m.accLocked c).2.1 with | some r => [(c, r)] | none => [] := by
      simp only [Incoming.step, hd', Bool.false_eq_true, if_false]
      rfl
    refine ⟨?_, ?_, ?_, ?_, ?_, ?_, by rw [hst]; exact af.maxNum⟩
    · rw [hst]; obtain ⟨a', ha'⟩ := af.inv; exact Or.inr ⟨o, a', ha'⟩
    · rw [hfr, hst]; exact af.credit
    · intro c' id hm
      rw [hrt] at hm ⊢
      cases hr : (m.accLocked c).2.1 with
      | none => rw [hr] at hm; simp at hm
      | some r =>
        rw [hr] at hm; simp at hm
        obtain ⟨rfl, rfl⟩ := hm
        have := af.ret id hr
        rw [hst]; exact ⟨this.1, this.2, rfl⟩
    · intro hn
      rw [hst]; apply af.noret
      intro id hid
      apply hn c id
      rw [hrt, hid]; simp
    · intro hne; rw [hfr] at hne; exact Or.inr ⟨c, rfl, af.frames hne⟩
    · rw [hst]; exact af.typ
  | accRecv a =>
    refine InStepFacts.of_same h ?_ (by simp [Incoming.step]) (by simp [Incoming.step])
    simp only [Incoming.step, Incoming.accRecv]
    split
    · exact same0
    split
    · exact same0
    split
    · exact ⟨rfl, rfl, rfl, rfl, rfl, rfl, rfl⟩
    split
    · exact ⟨rfl, rfl, rfl, rfl, rfl, rfl, rfl⟩
    · exact same0
  | accCtx a =>
    have hx : SameCore m (m.accCtx a).1 ∧ ∀ r, (m.accCtx a).2 = some r → r = .err .ctxCanceled := by
      simp only [Incoming.accCtx]
      split
      · exact ⟨same0, by simp⟩
      split
      · exact ⟨⟨rfl, rfl, rfl, rfl, rfl, rfl, rfl⟩, by simp⟩
      · exact ⟨same0, by simp⟩
    refine InStepFacts.of_same h (by simpa [Incoming.step] using hx.1) (by simp [Incoming.step]) ?_
    intro c id hm
    simp only [Incoming.step] at hm
    cases hr : (m.accCtx a).2 with
    | none => rw [hr] at hm; simp at hm
    | some r => rw [hr] at hm; have := hx.2 r hr; subst this; simp at hm
  | cancelCtx a =>
    exact InStepFacts.of_same h (by simp only [Incoming.step, Incoming.cancelCtx]; exact ⟨rfl, rfl, rfl, rfl, rfl, rfl, rfl⟩)
      (by simp [Incoming.step]) (by simp [Incoming.step])
  | close e =>
    by_cases hd : m.dead = true
    · exact InStepFacts.of_same h (by simp [Incoming.step, hd]; exact same0) (by simp [Incoming.step, hd])
        (by simp [Incoming.step, hd])
    have hd' : m.dead = false := by simpa using hd
    refine InStepFacts.of_same h ?_ (by simp [Incoming.step, hd']) (by simp [Incoming.step, hd'])
    simp only [Incoming.step, hd', Bool.false_eq_true, if_false, Incoming.closeWithError]
    split <;> exact ⟨rfl, rfl, rfl, rfl, rfl, hd'.symm, rfl⟩

end Uquic.Proofs.Streams
