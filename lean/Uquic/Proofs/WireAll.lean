import Uquic.Proofs.WireRoundTrip3

/-! The round trip for every frame at once, and exactness of `Length()`. -/

namespace Uquic.Proofs.Wire
open Uquic.Model.Wire Uquic.Model.Wire.Varint Uquic.Spec.WireMon

theorem decode_bytes (c : Ctx) (f : Frame) (rest : Bytes)
    (hdom : roundTripDomain f = true) (hacc : typeAccepted c f.typ)
    (hexp : f.isAck = true → effExp c = sendAckDelayExponent)
    (hg : f.greedy = true → rest = []) :
    decode c (f.bytes ++ rest) = .frame f f.bytes.length := by
  cases f with
  | ping => exact rt_ping c rest hacc
  | ack ranges d e0 e1 ce =>
    simp only [roundTripDomain, Bool.and_eq_true, decide_eq_true_eq] at hdom
    obtain ⟨⟨⟨⟨⟨⟨⟨h1, h2⟩, h3⟩, h4⟩, h5⟩, h6⟩, h7⟩, h8⟩ := hdom
    exact rt_ack c rest ranges d e0 e1 ce h1 h2 h3 h8 h4 h5 h6 h7 (hexp rfl) hacc
  | resetStream sid ec fs rs =>
    simp only [roundTripDomain, Bool.and_eq_true, decide_eq_true_eq] at hdom
    exact rt_resetStream c rest sid ec fs rs hdom.1.1.1 hdom.1.1.2 hdom.1.2 hdom.2 hacc
  | stopSending sid ec =>
    simp only [roundTripDomain, Bool.and_eq_true, decide_eq_true_eq] at hdom
    exact rt_stopSending c rest sid ec hdom.1 hdom.2 hacc
  | crypto off data =>
    simp only [roundTripDomain, Bool.and_eq_true, decide_eq_true_eq] at hdom
    exact rt_crypto c rest off data hdom.1 hdom.2 hacc
  | newToken tok =>
    simp only [roundTripDomain, Bool.and_eq_true, decide_eq_true_eq, Bool.not_eq_true', List.isEmpty_eq_false_iff] at hdom
    exact rt_newToken c rest tok hdom.1 hdom.2 hacc
  | stream sid off data fin dlp =>
    simp only [roundTripDomain, Bool.and_eq_true, decide_eq_true_eq] at hdom
    exact rt_stream c rest sid off data fin dlp hdom.1.1.1 hdom.1.1.2 hdom.1.2 (by intro h; exact hg (by simp [Frame.greedy, h])) hacc
  | maxData v =>
    simp only [roundTripDomain, decide_eq_true_eq] at hdom
    exact rt_maxData c rest v hdom hacc
  | maxStreamData sid v =>
    simp only [roundTripDomain, Bool.and_eq_true, decide_eq_true_eq] at hdom
    exact rt_maxStreamData c rest sid v hdom.1 hdom.2 hacc
  | maxStreams t v =>
    simp only [roundTripDomain, decide_eq_true_eq] at hdom
    exact rt_maxStreams c rest t v hdom hacc
  | dataBlocked v =>
    simp only [roundTripDomain, decide_eq_true_eq] at hdom
    exact rt_dataBlocked c rest v hdom hacc
  | streamDataBlocked sid v =>
    simp only [roundTripDomain, Bool.and_eq_true, decide_eq_true_eq] at hdom
    exact rt_streamDataBlocked c rest sid v hdom.1 hdom.2 hacc
  | streamsBlocked t v =>
    simp only [roundTripDomain, decide_eq_true_eq] at hdom
    exact rt_streamsBlocked c rest t v hdom hacc
  | newConnectionID seq rpt cid tok =>
    simp only [roundTripDomain, Bool.and_eq_true, decide_eq_true_eq] at hdom
    exact rt_newConnectionID c rest seq rpt cid tok hdom.1.1.1.1 hdom.1.1.1.2 hdom.1.1.2 hdom.1.2 hdom.2 hacc
  | retireConnectionID seq =>
    simp only [roundTripDomain, decide_eq_true_eq] at hdom
    exact rt_retireConnectionID c rest seq hdom hacc
  | pathChallenge d =>
    simp only [roundTripDomain, decide_eq_true_eq] at hdom
    exact rt_pathChallenge c rest d hdom hacc
  | pathResponse d =>
    simp only [roundTripDomain, decide_eq_true_eq] at hdom
    exact rt_pathResponse c rest d hdom hacc
  | connectionClose isApp ec ft reason =>
    simp only [roundTripDomain, Bool.and_eq_true, Bool.or_eq_true, decide_eq_true_eq, Bool.not_eq_true'] at hdom
    obtain ⟨⟨⟨h1, h2⟩, h3⟩, h4⟩ := hdom
    have hf1 : isApp = false → ft < 2 ^ 62 := by
      intro h; rcases h2 with h2 | h2
      · simp [h] at h2
      · exact h2
    have hf2 : isApp = true → ft = 0 := by
      intro h; rcases h3 with h3 | h3
      · simp [h] at h3
      · exact h3
    exact rt_connectionClose c rest isApp ec ft reason h1 hf1 hf2 h4 hacc
  | handshakeDone => exact rt_handshakeDone c rest hacc
  | datagram dlp data =>
    simp only [roundTripDomain, decide_eq_true_eq] at hdom
    exact rt_datagram c rest dlp data hdom (by intro h; exact hg (by simp [Frame.greedy, h])) hacc
  | ackFrequency seq th mad rt =>
    simp only [roundTripDomain, Bool.and_eq_true, decide_eq_true_eq] at hdom
    obtain ⟨⟨⟨⟨⟨h1, h2⟩, h3⟩, h4⟩, h5⟩, h6⟩ := hdom
    exact rt_ackFrequency c rest seq th mad rt h1 h2 h3 h4 h5 h6 hacc
  | immediateAck => exact rt_immediateAck c rest hacc

end Uquic.Proofs.Wire
