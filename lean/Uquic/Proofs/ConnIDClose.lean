/-
After the connection closes: every connection ID is removed at once
(`RemoveAll`), or replaced by the closed stand-in and removed when the closing
period ends (`ReplaceWithClosed`).
-/
import Uquic.Proofs.ConnIDRouting

namespace Uquic.Proofs.ConnID
open Uquic.Model.ConnID

theorem handlers_nil_of_keys {hs : List (Bytes × Handler)} (h : ∀ x, x ∉ hs.map (·.1)) : hs = [] := by
  cases hs with
  | nil => rfl
  | cons kv rest => exfalso; apply h kv.1; simp

/-- `RemoveAll`: nothing of the connection stays in the handler map -/
theorem removeAll_clean {mk : Nat → Bytes} {I : List Bytes} {g : Generator} {r : Routing} (h : RInv mk I g r) :
    (g.removeAll.foldl Routing.applyG r).handlers = [] := by
  unfold Generator.removeAll
  have := removeMany_ok g.allIDs h.map
  apply handlers_nil_of_keys
  intro x hx
  have := (this.2 x).mp hx
  exact this.2 ((h.exact x).mp this.1)

theorem lookupH_setH (id : Bytes) (hd : Handler) (x : Bytes) : ∀ (hs : List (Bytes × Handler)),
    lookupH x (setH id hd hs) = if x = id then some hd else lookupH x hs
  | [] => by
    simp only [setH, lookupH]
    by_cases hx : x = id
    · simp [hx]
    · have : ¬ id = x := fun h => hx h.symm
      simp [hx, this]
  | (k, v) :: rest => by
    unfold setH
    by_cases hk : k = id
    · simp only [hk, ↓reduceIte]
      unfold lookupH
      by_cases hx : id = x
      · simp [hx]
      · have : ¬ x = id := fun h => hx h.symm
        simp [hx, this]
    · simp only [hk, ↓reduceIte]
      unfold lookupH
      by_cases hkx : k = x
      · have : ¬ x = id := by intro h; apply hk; rw [hkx, h]
        simp [hkx, this]
      · simp only [hkx, ↓reduceIte]
        exact lookupH_setH id hd x rest

theorem keys_setH (id : Bytes) (hd : Handler) (x : Bytes) : ∀ (hs : List (Bytes × Handler)),
    x ∈ (setH id hd hs).map (·.1) ↔ x ∈ hs.map (·.1) ∨ x = id
  | [] => by simp [setH]
  | (k, v) :: rest => by
    unfold setH
    by_cases hk : k = id
    · simp only [hk, ↓reduceIte, List.map_cons, List.mem_cons]
      constructor
      · rintro (h | h); exact Or.inr h; exact Or.inl (Or.inr h)
      · rintro ((h | h) | h); exact Or.inl h; exact Or.inr h; exact Or.inl h
    · simp only [hk, ↓reduceIte, List.map_cons, List.mem_cons]
      rw [keys_setH id hd x rest]
      constructor
      · rintro (h | h | h); exact Or.inl (Or.inl h); exact Or.inl (Or.inr h); exact Or.inr h
      · rintro ((h | h) | h); exact Or.inl h; exact Or.inr (Or.inl h); exact Or.inr (Or.inr h)

theorem setAll_spec (hd : Handler) : ∀ (ids : List Bytes) (hs : List (Bytes × Handler)) (x : Bytes),
    (lookupH x (ids.foldl (fun hs id => setH id hd hs) hs) = if x ∈ ids then some hd else lookupH x hs) ∧
    (x ∈ (ids.foldl (fun hs id => setH id hd hs) hs).map (·.1) ↔ x ∈ hs.map (·.1) ∨ x ∈ ids)
  | [], hs, x => by simp
  | id :: ids, hs, x => by
    simp only [List.foldl_cons]
    have ih := setAll_spec hd ids (setH id hd hs) x
    refine ⟨?_, ?_⟩
    · rw [ih.1, lookupH_setH]
      by_cases h1 : x ∈ ids
      · simp [h1]
      · by_cases h2 : x = id
        · simp [h2]
        · simp [h1, h2]
    · rw [ih.2, keys_setH]
      simp only [List.mem_cons]
      constructor
      · rintro ((h | h) | h); exact Or.inl h; exact Or.inr (Or.inl h); exact Or.inr (Or.inr h)
      · rintro (h | h | h); exact Or.inl (Or.inl h); exact Or.inl (Or.inr h); exact Or.inr h

/-- the handler that replaces the connection -/
def closedHandler (r : Routing) (localClose : Bool) : Handler :=
  if localClose then .closedLocal r.counters.length else .closedRemote

/-- `ReplaceWithClosed`: between close and expiry every connection ID of the connection maps to the closed stand-in and
    none to the connection; once the closing period is over nothing is left, and no timer is pending -/
theorem replace_clean {mk : Nat → Bytes} {I : List Bytes} {g : Generator} {r : Routing} (h : RInv mk I g r)
    (localClose : Bool) (expiry : Int) :
    let r1 := (g.replaceWithClosed localClose expiry).foldl Routing.applyG r
    (∀ id ∈ g.allIDs, lookupH id r1.handlers = some (closedHandler r localClose)) ∧
    (∀ id, lookupH id r1.handlers ≠ some Handler.conn) ∧
    (∀ id, (r1.deliver id).2 ≠ Delivery.conn) ∧
    (∀ d, expiry ≤ d → (r1.advance d).handlers = [] ∧ (r1.advance d).timers = []) := by
  intro r1
  have hr1 : r1 = r.replaceWithClosed g.allIDs localClose expiry := by
    simp [r1, Generator.replaceWithClosed, Routing.applyG]
  have hspec := setAll_spec (closedHandler r localClose) g.allIDs r.handlers
  have hh : r1.handlers = g.allIDs.foldl (fun hs id => setH id (closedHandler r localClose) hs) r.handlers := by
    rw [hr1]; simp [Routing.replaceWithClosed, closedHandler]
  have hlook : ∀ id, lookupH id r1.handlers = if id ∈ g.allIDs then some (closedHandler r localClose) else none := by
    intro id
    rw [hh, (hspec id).1]
    by_cases hin : id ∈ g.allIDs
    · simp [hin]
    · simp only [hin, ↓reduceIte]
      apply lookupH_none.mpr
      intro hk; exact hin ((h.exact id).mp hk)
  have hne : closedHandler r localClose ≠ Handler.conn := by
    unfold closedHandler; cases localClose <;> simp
  have hnoconn : ∀ id, lookupH id r1.handlers ≠ some Handler.conn := by
    intro id; rw [hlook id]
    by_cases hin : id ∈ g.allIDs
    · simp only [hin, ↓reduceIte, ne_eq, Option.some.injEq]; exact hne
    · simp [hin]
  refine ⟨?_, hnoconn, ?_, ?_⟩
  · intro id hid; rw [hlook id]; simp [hid]
  · intro id
    unfold Routing.deliver
    have := hnoconn id
    split
    · simp
    · rename_i hc; exact absurd hc this
    · simp
    · simp
  · intro d hd
    have ht : r1.timers = [(r.now + expiry, g.allIDs)] := by
      rw [hr1]; simp [Routing.replaceWithClosed, h.map.noTimers]
    have hnow : r1.now = r.now := by rw [hr1]; simp [Routing.replaceWithClosed]
    unfold Routing.advance
    have hdue : (r.now + expiry ≤ r1.now + d) := by rw [hnow]; omega
    simp only [ht, List.filter_cons, hdue, decide_true, ↓reduceIte, List.filter_nil, List.foldl_cons, List.foldl_nil,
      not_true_eq_false, decide_false, Bool.false_eq_true, and_true]
    apply handlers_nil_of_keys
    intro x hx
    unfold removeAllIDs at hx
    obtain ⟨kv, hkv, rfl⟩ := List.mem_map.mp hx
    have hkv' := List.mem_filter.mp hkv
    have hkey : kv.1 ∈ r1.handlers.map (·.1) := List.mem_map.mpr ⟨kv, hkv'.1, rfl⟩
    rw [hh, (hspec kv.1).2] at hkey
    have hin : kv.1 ∈ g.allIDs := by
      rcases hkey with hk | hk
      · exact (h.exact kv.1).mp hk
      · exact hk
    have hnot : ¬ kv.1 ∈ g.allIDs := by simpa using hkv'.2
    exact hnot hin

end Uquic.Proofs.ConnID
