/-
After the connection closes: every connection ID is removed at once
(`RemoveAll`), or replaced by the closed stand-in and removed when the closing
period ends (`ReplaceWithClosed`).
-/
import Uquic.Proofs.ConnIDRouting

namespace Uquic.Proofs.ConnID
open Uquic.Model.ConnID

theorem handlers_nil_of_keys {hs : List (Bytes × Handler)} (h : ∀ x, x ∉ hs.map (·.1)) : hs = [] := by
  cases hs with
  | nil => rfl
  | cons kv rest => exfalso; apply h kv.1; simp

/-- `RemoveAll`: nothing of the connection stays in the handler map -/
theorem removeAll_clean {mk : Nat → Bytes} {I : List Bytes} {g : Generator} {r : Routing} (h : RInv mk I g r) :
    (g.removeAll.foldl Routing.applyG r).handlers = [] := by
  unfold Generator.removeAll
  have := removeMany_ok g.allIDs h.map
  apply handlers_nil_of_keys
  intro x hx
  have := (this.2 x).mp hx
  exact this.2 ((h.exact x).mp this.1)

theorem lookupH_setH (id : Bytes) (hd : Handler) (x : Bytes) : ∀ (hs : List (Bytes × Handler)),
    lookupH x (setH id hd hs) = if x = id then some hd else lookupH x hs
  | [] => by
    simp only [setH, lookupH]
    by_cases hx : x = id
    · simp [hx]
    · have : ¬ id = x := fun h => hx h.symm
      simp [hx, this]
  | (k, v) :: rest => by
    unfold setH
    by_cases hk : k = id
    · simp only [hk, ↓reduceIte]
      unfold lookupH
      by_cases hx : id = x
      · simp [hx]
      · have : ¬ x = id := fun h => hx h.symm
        simp [hx, this]
    · simp only [hk, ↓reduceIte]
      unfold lookupH
      by_cases hkx : k = x
      · have : ¬ x = id := by intro h; apply hk; rw [hkx, h]
        simp [hkx, this]
      · simp only [hkx, ↓reduceIte]
        exact lookupH_setH id hd x rest

theorem keys_setH (id : Bytes) (hd : Handler) (x : Bytes) : ∀ (hs : List (Bytes × Handler)),
    x ∈ (setH id hd hs).map (·.1) ↔ x ∈ hs.map (·.1) ∨ x = id
  | [] => by simp [setH]
  | (k, v) :: rest => by
    unfold setH
    by_cases hk : k = id
    · simp only [hk, ↓reduceIte, List.map_cons, List.mem_cons]
      constructor
      · rintro (h | h); exact Or.inr h; exact Or.inl (Or.inr h)
      · rintro ((h | h) | h); exact Or.inl h; exact Or.inr h; exact Or.inl h
    · simp only [hk, ↓reduceIte, List.map_cons, List.mem_cons]
      rw [keys_setH id hd x rest]
      constructor
      · rintro (h | h | h); exact Or.inl (Or.inl h); exact Or.inl (Or.inr h); exact Or.inr h
      · rintro ((h | h) | h); exact Or.inl h; exact Or.inr (Or.inl h); exact Or.inr (Or.inr h)

theorem setAll_spec (hd : Handler) : ∀ (ids : List Bytes) (hs : List (Bytes × Handler)) (x : Bytes),
    (lookupH x (ids.foldl (fun hs id => setH id hd hs) hs) = if x ∈ ids then some hd else lookupH x hs) ∧
    (x ∈ (ids.foldl (fun hs id => setH id hd hs) hs).map (·.1) ↔ x ∈ hs.map (·.1) ∨ x ∈ ids)
  | [], hs, x => by simp
  | id :: ids, hs, x => by
    simp only [List.foldl_cons]
    have ih := setAll_spec hd ids (setH id hd hs) x
    refine ⟨?_, ?_⟩
    · rw [ih.1, lookupH_setH]
      by_cases h1 : x ∈ ids
      · simp [h1]
      · by_cases h2 : x = id
        · simp [h2]
        · simp [h1, h2]
    · rw [ih.2, keys_setH]
      simp only [List.mem_cons]
      constructor
      · rintro ((h | h) | h); exact Or.inl h; exact Or.inr (Or.inl h); exact Or.inr (Or.inr h)
      · rintro (h | h | h); exact Or.inl (Or.inl h); exact Or.inl (Or.inr h); exact Or.inr h

theorem setH_keys_nodup (id : Bytes) (hd : Handler) : ∀ (hs : List (Bytes × Handler)),
    (hs.map (·.1)).Nodup → ((setH id hd hs).map (·.1)).Nodup
  | [], _ => by simp [setH]
  | (k, v) :: rest, h => by
    unfold setH
    by_cases hk : k = id
    · simpa [hk] using h
    · simp only [hk, ↓reduceIte, List.map_cons, List.nodup_cons] at h ⊢
      refine ⟨?_, setH_keys_nodup id hd rest h.2⟩
      intro hm
      rcases (keys_setH id hd k rest).mp hm with h1 | h1
      · exact h.1 h1
      · exact hk h1

theorem setAll_keys_nodup (hd : Handler) : ∀ (ids : List Bytes) (hs : List (Bytes × Handler)),
    (hs.map (·.1)).Nodup → ((ids.foldl (fun hs id => setH id hd hs) hs).map (·.1)).Nodup
  | [], _, h => h
  | id :: ids, hs, h => by
    simp only [List.foldl_cons]
    exact setAll_keys_nodup hd ids _ (setH_keys_nodup id hd hs h)

/-- the expiry callback keeps every entry that is not the given stand-in -/
theorem removeOwn_mem {ids : List Bytes} {hd : Handler} {hs : List (Bytes × Handler)} {kv : Bytes × Handler} :
    kv ∈ removeOwn ids hd hs ↔ kv ∈ hs ∧ ¬ (kv.1 ∈ ids ∧ kv.2 = hd) := by
  unfold removeOwn
  simp only [List.mem_filter, List.contains_iff_mem, decide_not, Bool.not_eq_eq_eq_not, Bool.not_true,
    decide_eq_false_iff_not]

theorem foldl_removeOwn_mem : ∀ (ts : List (Int × List Bytes × Handler)) (hs : List (Bytes × Handler)) (kv : Bytes × Handler),
    kv ∈ ts.foldl (fun hs t => removeOwn t.2.1 t.2.2 hs) hs ↔ kv ∈ hs ∧ ∀ t ∈ ts, ¬ (kv.1 ∈ t.2.1 ∧ kv.2 = t.2.2)
  | [], hs, kv => by simp
  | t :: ts, hs, kv => by
    simp only [List.foldl_cons]
    rw [foldl_removeOwn_mem ts, removeOwn_mem]
    simp only [List.mem_cons, forall_eq_or_imp]
    constructor
    · rintro ⟨⟨a, b⟩, c⟩; exact ⟨a, b, c⟩
    · rintro ⟨a, b, c⟩; exact ⟨⟨a, b⟩, c⟩

/-- An entry survives every expiry unless some due timer was armed for its ID with exactly its handler:
    expiry removes only the closed connections' own stand-in entries. -/
theorem advance_mem {r : Routing} {d : Int} {kv : Bytes × Handler} :
    kv ∈ (r.advance d).handlers ↔
      kv ∈ r.handlers ∧ ∀ t ∈ r.timers, t.1 ≤ r.now + d → ¬ (kv.1 ∈ t.2.1 ∧ kv.2 = t.2.2) := by
  unfold Routing.advance
  simp only
  rw [foldl_removeOwn_mem]
  simp only [List.mem_filter, decide_eq_true_eq, and_imp]

theorem advance_keys_nodup {r : Routing} (d : Int) (h : (r.handlers.map (·.1)).Nodup) :
    ((r.advance d).handlers.map (·.1)).Nodup := by
  unfold Routing.advance
  simp only
  generalize (r.timers.filter fun t => decide (t.1 ≤ r.now + d)) = ts
  induction ts generalizing r with
  | nil => exact h
  | cons t ts ih =>
    simp only [List.foldl_cons]
    have : ((removeOwn t.2.1 t.2.2 r.handlers).map (·.1)).Nodup :=
      List.Nodup.sublist (List.Sublist.map _ List.filter_sublist) h
    exact ih (r := { r with handlers := removeOwn t.2.1 t.2.2 r.handlers }) this

/-- the handler that replaces the connection -/
def closedHandler (r : Routing) (localClose : Bool) : Handler :=
  if localClose then .closedLocal r.counters.length else .closedRemote

/-- `ReplaceWithClosed`: between close and expiry every connection ID of the connection maps to the closed stand-in and
    none to the connection; once the closing period is over nothing is left, and no timer is pending -/
theorem replace_clean {mk : Nat → Bytes} {I : List Bytes} {g : Generator} {r : Routing} (h : RInv mk I g r)
    (localClose : Bool) (expiry : Int) :
    let r1 := (g.replaceWithClosed localClose expiry).foldl Routing.applyG r
    (∀ id ∈ g.allIDs, lookupH id r1.handlers = some (closedHandler r localClose)) ∧
    (∀ id c, lookupH id r1.handlers ≠ some (Handler.conn c)) ∧
    (∀ id c, (r1.deliver id).2 ≠ Delivery.conn c) ∧
    (∀ d, expiry ≤ d → (r1.advance d).handlers = [] ∧ (r1.advance d).timers = []) := by
  intro r1
  have hr1 : r1 = r.replaceWithClosed g.allIDs localClose expiry := by
    simp [r1, Generator.replaceWithClosed, Routing.applyG]
  have hspec := setAll_spec (closedHandler r localClose) g.allIDs r.handlers
  have hh : r1.handlers = g.allIDs.foldl (fun hs id => setH id (closedHandler r localClose) hs) r.handlers := by
    rw [hr1]; simp [Routing.replaceWithClosed, closedHandler]
  have hlook : ∀ id, lookupH id r1.handlers = if id ∈ g.allIDs then some (closedHandler r localClose) else none := by
    intro id
    rw [hh, (hspec id).1]
    by_cases hin : id ∈ g.allIDs
    · simp [hin]
    · simp only [hin, ↓reduceIte]
      apply lookupH_none.mpr
      intro hk; exact hin ((h.exact id).mp hk)
  have hne : ∀ c, closedHandler r localClose ≠ Handler.conn c := by
    intro c; unfold closedHandler; cases localClose <;> simp
  have hnoconn : ∀ id c, lookupH id r1.handlers ≠ some (Handler.conn c) := by
    intro id c; rw [hlook id]
    by_cases hin : id ∈ g.allIDs
    · simp only [hin, ↓reduceIte, ne_eq, Option.some.injEq]; exact hne c
    · simp [hin]
  refine ⟨?_, hnoconn, ?_, ?_⟩
  · intro id hid; rw [hlook id]; simp [hid]
  · intro id c
    unfold Routing.deliver
    split
    · simp
    · rename_i c' hc; exact absurd hc (hnoconn id c')
    · simp
    · simp
  · intro d hd
    have ht : r1.timers = [(r.now + expiry, g.allIDs, closedHandler r localClose)] := by
      rw [hr1]; simp [Routing.replaceWithClosed, h.map.noTimers, closedHandler]
    have hnow : r1.now = r.now := by rw [hr1]; simp [Routing.replaceWithClosed]
    refine ⟨?_, ?_⟩
    · cases hh2 : (r1.advance d).handlers with
      | nil => rfl
      | cons kv rest =>
        exfalso
        have hm : kv ∈ (r1.advance d).handlers := by rw [hh2]; simp
        obtain ⟨hkv, hno⟩ := advance_mem.mp hm
        have hkey : kv.1 ∈ r1.handlers.map (·.1) := List.mem_map.mpr ⟨kv, hkv, rfl⟩
        have hnd : (r1.handlers.map (·.1)).Nodup := by rw [hh]; exact setAll_keys_nodup _ _ _ h.map.nodup
        rw [hh, (hspec kv.1).2] at hkey
        have hin : kv.1 ∈ g.allIDs := by
          rcases hkey with hk | hk
          · exact (h.exact kv.1).mp hk
          · exact hk
        have hl := lookupH_of_mem hnd (show (kv.1, kv.2) ∈ r1.handlers from hkv)
        rw [hlook kv.1] at hl
        simp only [hin, ↓reduceIte, Option.some.injEq] at hl
        apply hno (r.now + expiry, g.allIDs, closedHandler r localClose) (by rw [ht]; simp) (by rw [hnow]; simp only; omega)
        exact ⟨hin, hl.symm⟩
    · unfold Routing.advance
      simp only [ht, hnow]
      have : r.now + expiry ≤ r.now + d := by omega
      simp [this]

/-- Another connection `c` registers one of the closed connection's IDs before the closing period ends (with
    zero-length connection IDs every dial on the transport uses the empty ID): the expiry removes exactly the closed
    connection's own stand-in entries, the other connection's entry stays and keeps receiving its packets. -/
theorem expiry_keeps_foreign {mk : Nat → Bytes} {I : List Bytes} {g : Generator} {r : Routing} (h : RInv mk I g r)
    (localClose : Bool) (expiry : Int) (id : Bytes) (c : Nat) (d : Int) (hd : expiry ≤ d) :
    let r1 := (g.replaceWithClosed localClose expiry).foldl Routing.applyG r
    let r2 := (r1.install id c).advance d
    (∀ kv, kv ∈ r2.handlers ↔ kv = (id, Handler.conn c)) ∧ (r2.deliver id).2 = Delivery.conn c := by
  intro r1 r2
  have hr1 : r1 = r.replaceWithClosed g.allIDs localClose expiry := by
    simp [r1, Generator.replaceWithClosed, Routing.applyG]
  have hspec := setAll_spec (closedHandler r localClose) g.allIDs r.handlers
  have hh : r1.handlers = g.allIDs.foldl (fun hs id => setH id (closedHandler r localClose) hs) r.handlers := by
    rw [hr1]; simp [Routing.replaceWithClosed, closedHandler]
  have ht : (r1.install id c).timers = [(r.now + expiry, g.allIDs, closedHandler r localClose)] := by
    rw [hr1]; simp [Routing.install, Routing.replaceWithClosed, h.map.noTimers, closedHandler]
  have hnow : (r1.install id c).now = r.now := by rw [hr1]; simp [Routing.install, Routing.replaceWithClosed]
  have hnd1 : (r1.handlers.map (·.1)).Nodup := by rw [hh]; exact setAll_keys_nodup _ _ _ h.map.nodup
  have hnd2 : ((r1.install id c).handlers.map (·.1)).Nodup := setH_keys_nodup id _ _ hnd1
  have hne : closedHandler r localClose ≠ Handler.conn c := by
    unfold closedHandler; cases localClose <;> simp
  -- lookups in the map after the second connection registered
  have hlook2 : ∀ x, lookupH x (r1.install id c).handlers =
      if x = id then some (Handler.conn c) else if x ∈ g.allIDs then some (closedHandler r localClose) else none := by
    intro x
    simp only [Routing.install]
    rw [lookupH_setH, hh, (hspec x).1]
    by_cases hx : x = id
    · simp [hx]
    · simp only [hx, ↓reduceIte]
      by_cases hin : x ∈ g.allIDs
      · simp [hin]
      · simp only [hin, ↓reduceIte]
        apply lookupH_none.mpr
        intro hk; exact hin ((h.exact x).mp hk)
  have hmem : ∀ kv, kv ∈ r2.handlers ↔ kv = (id, Handler.conn c) := by
    intro kv
    rw [advance_mem]
    constructor
    · rintro ⟨hkv, hno⟩
      have hl := lookupH_of_mem hnd2 (show (kv.1, kv.2) ∈ (r1.install id c).handlers from hkv)
      rw [hlook2 kv.1] at hl
      by_cases hx : kv.1 = id
      · simp only [hx, ↓reduceIte, Option.some.injEq] at hl
        exact Prod.ext hx hl.symm
      · simp only [hx, ↓reduceIte] at hl
        by_cases hin : kv.1 ∈ g.allIDs
        · simp only [hin, ↓reduceIte, Option.some.injEq] at hl
          exfalso
          apply hno (r.now + expiry, g.allIDs, closedHandler r localClose) (by rw [ht]; simp) (by rw [hnow]; simp only; omega)
          exact ⟨hin, hl.symm⟩
        · simp [hin] at hl
    · rintro rfl
      refine ⟨?_, ?_⟩
      · apply lookupH_some_mem
        rw [hlook2]; simp
      · intro t ht' _ hc
        rw [ht] at ht'
        simp only [List.mem_singleton] at ht'
        subst ht'
        exact hne hc.2.symm
  refine ⟨hmem, ?_⟩
  have hl : lookupH id r2.handlers = some (Handler.conn c) :=
    lookupH_of_mem (advance_keys_nodup d hnd2) ((hmem _).mpr rfl)
  unfold Routing.deliver
  rw [hl]

end Uquic.Proofs.ConnID
