/-
C03: frames, resets and the other stream operations keep `SInv`; histories of a ReceiveStream.
-/
import Uquic.Proofs.StreamInv
namespace Uquic.Proofs.Stream
open Uquic.Model.Reassembly Uquic.Proofs.Sorter

/-- what an accepted `UpdateHighestReceived` does to the flow controller -/
theorem fc_accept (c : FC) (o : Nat) (fin : Bool) (h : (c.updateHighestReceived o fin).2 = none) :
    (c.updateHighestReceived o fin).1.highest = max c.highest o ∧
    (fin = true → (c.updateHighestReceived o fin).1.receivedFinal = true ∧ (c.updateHighestReceived o fin).1.highest = o) ∧
    (c.receivedFinal = true → (c.updateHighestReceived o fin).1.receivedFinal = true ∧
      (c.updateHighestReceived o fin).1.highest = c.highest ∧ (fin = true → o = c.highest)) ∧
    (fin = false → (c.updateHighestReceived o fin).1.receivedFinal = c.receivedFinal) := by
  unfold FC.updateHighestReceived at h ⊢
  cases hrf : c.receivedFinal <;> cases fin <;> simp [hrf] at h ⊢ <;> (repeat' split at h) <;>
    (repeat' split) <;> simp_all <;> omega

@[simp] theorem getWindowUpdate_highest (c : FC) : c.getWindowUpdate.1.highest = c.highest := by
  unfold FC.getWindowUpdate; (repeat' split) <;> rfl
@[simp] theorem getWindowUpdate_final (c : FC) : c.getWindowUpdate.1.receivedFinal = c.receivedFinal := by
  unfold FC.getWindowUpdate; (repeat' split) <;> rfl

/-- the flow controller accepted offset `o` (final or not): the invariant with the new flow controller
and, for a final offset, the new final offset -/
theorem sinv_fc_update {src : Nat → UInt8} {s : RStream} (h : SInv src s) (o : Nat) (fin : Bool)
    (hmax : 2 * o < maxByteCount) (hu : (s.fc.updateHighestReceived o fin).2 = none) :
    SInv src (if fin = true then { s with fc := (s.fc.updateHighestReceived o fin).1, finalOffset := o }
              else { s with fc := (s.fc.updateHighestReceived o fin).1 }) := by
  obtain ⟨a1, a2, a3, a4⟩ := fc_accept s.fc o fin hu
  have hr := h.high_rp
  have hm := h.hmax
  split
  · rename_i hfin
    obtain ⟨b1, b2⟩ := a2 hfin
    refine ⟨h.sorter, h.cur_some, h.cur_none, by simp only; rw [a1]; omega,
      fun p hp => by have := h.high p hp; simp only; rw [a1]; omega, by simp only; rw [a1]; omega,
      fun _ => ⟨b1, b2.symm⟩, ?_⟩
    intro hl
    have hl' := h.last hl
    have hne : s.finalOffset ≠ maxByteCount := by omega
    obtain ⟨c1, c2⟩ := h.final hne
    have := (a3 c1).2.2 hfin
    simp only
    omega
  · rename_i hfin
    refine ⟨h.sorter, h.cur_some, h.cur_none, by simp only; rw [a1]; omega,
      fun p hp => by have := h.high p hp; simp only; rw [a1]; omega, by simp only; rw [a1]; omega,
      ?_, h.last⟩
    intro hne
    obtain ⟨c1, c2⟩ := h.final hne
    simp only
    exact ⟨(a3 c1).1, by rw [(a3 c1).2.1]; exact c2⟩

theorem complete_fields (o : FrameOut) (ab : Bool) :
    (o.complete ab).err = o.err ∧ (o.complete ab).s.sorter = o.s.sorter ∧ (o.complete ab).s.cur = o.s.cur ∧
    (o.complete ab).s.rpif = o.s.rpif ∧ (o.complete ab).s.readPos = o.s.readPos ∧
    (o.complete ab).s.fc.highest = o.s.fc.highest ∧ (o.complete ab).s.fc.receivedFinal = o.s.fc.receivedFinal ∧
    (o.complete ab).s.finalOffset = o.s.finalOffset ∧ (o.complete ab).s.curIsLast = o.s.curIsLast := by
  unfold FrameOut.complete
  obtain ⟨f1, f2, f3, f4, f5, f6, f7⟩ := isNewlyCompleted_fields o.s
  split
  · simp
  · simp only
    split
    · cases ab <;> simp [f1, f2, f3, f4, f5, f6, f7]
    · simp [f1, f2, f3, f4, f5, f6, f7]

theorem SInv.complete {src : Nat → UInt8} {o : FrameOut} (h : SInv src o.s) (ab : Bool) : SInv src (o.complete ab).s := by
  obtain ⟨_, f1, f2, f3, f4, f5, f6, f7, f8⟩ := complete_fields o ab
  exact h.congr f1 f2 f3 f4 f5 f6 f7 f8

/-- pushing a consistent frame into the sorter of a stream that satisfies the invariant -/
theorem push_sinv {src : Nat → UInt8} {s1 : RStream} (h : SInv src s1) (off len : Nat) (cb : Option Nat)
    (hmax : off + len < maxByteCount) (hhi : off + len ≤ s1.fc.highest)
    (hok : (s1.sorter.push (srcSeg src off len) off cb).res = .ok) :
    SInv src { s1 with sorter := (s1.sorter.push (srcSeg src off len) off cb).s } := by
  have sp := push_spec h.sorter (srcSeg src off len) off cb (by rw [srcSeg_length]; exact hmax)
    (fun j hj => srcSeg_get src off _ j (by rw [srcSeg_length] at hj; exact hj))
  rw [srcSeg_length] at sp
  refine ⟨sp.inv hok, ?_, ?_, by simp only; rw [sp.rp]; exact h.high_rp, ?_, h.hmax, h.final, by simp only; rw [sp.rp]; exact h.last⟩
  · intro c hc; simp only at hc ⊢; rw [sp.rp]; exact h.cur_some c hc
  · intro hc; simp only at hc ⊢; rw [sp.rp]; exact h.cur_none hc
  · intro p hp
    show p < s1.fc.highest
    simp only [received, sp.rp, sp.gaps p] at hp
    by_cases hin : off ≤ p ∧ p < off + len
    · omega
    · exact h.high p ⟨hp.1, hp.2.1, fun hg => hp.2.2 ⟨hg, hin⟩⟩

theorem acceptFrame_sinv {src : Nat → UInt8} {s0 : RStream} (off len : Nat) (fin : Bool) (cb : Option Nat)
    (h1 : SInv src (if fin = true then { s0 with finalOffset := off + len } else s0))
    (hmax : off + len < maxByteCount) (hhi : off + len ≤ s0.fc.highest)
    (hok : (s0.acceptFrame off (srcSeg src off len) fin cb).err = none) :
    SInv src (s0.acceptFrame off (srcSeg src off len) fin cb).s ∧
    (s0.acceptFrame off (srcSeg src off len) fin cb).s.readPos = s0.readPos := by
  unfold RStream.acceptFrame at hok ⊢
  simp only [srcSeg_length] at hok ⊢
  have hrp : (if fin = true then { s0 with finalOffset := off + len } else s0).readPos = s0.readPos := by split <;> rfl
  have hfc : (if fin = true then { s0 with finalOffset := off + len } else s0).fc = s0.fc := by split <;> rfl
  generalize (if fin = true then { s0 with finalOffset := off + len } else s0) = s1 at h1 hok hrp hfc ⊢
  split
  · exact ⟨h1, hrp⟩
  · rename_i hcl
    rw [if_neg hcl] at hok
    simp only at hok
    have sp := push_spec h1.sorter (srcSeg src off len) off cb (by rw [srcSeg_length]; exact hmax)
      (fun j hj => srcSeg_get src off _ j (by rw [srcSeg_length] at hj; exact hj))
    have hres : (s1.sorter.push (srcSeg src off len) off cb).res = .ok := by
      rcases sp.res with hr | hr
      · exact hr
      · rw [hr] at hok; simp at hok
    exact ⟨push_sinv h1 off len cb hmax (by rw [hfc]; exact hhi) hres, hrp⟩

/-- an accepted STREAM frame that is consistent with the source keeps the invariant and does not move
the read position -/
theorem frame_sinv {src : Nat → UInt8} {s : RStream} (h : SInv src s) (off len : Nat) (fin : Bool) (cb : Option Nat)
    (hmax : 2 * (off + len) < maxByteCount)
    (hok : (s.handleStreamFrame off (srcSeg src off len) fin cb).err = none) :
    SInv src (s.handleStreamFrame off (srcSeg src off len) fin cb).s ∧
    (s.handleStreamFrame off (srcSeg src off len) fin cb).s.readPos = s.readPos := by
  unfold RStream.handleStreamFrame at hok ⊢
  simp only [srcSeg_length] at hok ⊢
  rw [(complete_fields _ _).1] at hok
  rw [(complete_fields _ _).2.2.2.2.1]
  simp only at hok ⊢
  cases hu : (s.fc.updateHighestReceived (off + len) fin).2 with
  | some e => rw [hu] at hok; simp at hok
  | none =>
    rw [hu] at hok
    simp only at hok
    have hbase := sinv_fc_update h (off + len) fin hmax hu
    have hhi : off + len ≤ (s.fc.updateHighestReceived (off + len) fin).1.highest := by
      rw [(fc_accept s.fc (off + len) fin hu).1]; omega
    have hA := acceptFrame_sinv (s0 := { s with fc := (s.fc.updateHighestReceived (off + len) fin).1 }) off len fin cb
      hbase (by omega) hhi hok
    constructor
    · apply SInv.complete (o := ⟨_, _, _⟩)
      exact hA.1
    · exact hA.2

theorem acceptReset_fields (s : RStream) (finalSize reliable code : Nat) :
    (s.acceptReset finalSize reliable code).err = none ∧
    (s.acceptReset finalSize reliable code).s.sorter = s.sorter ∧ (s.acceptReset finalSize reliable code).s.cur = s.cur ∧
    (s.acceptReset finalSize reliable code).s.rpif = s.rpif ∧ (s.acceptReset finalSize reliable code).s.readPos = s.readPos ∧
    (s.acceptReset finalSize reliable code).s.fc.highest = s.fc.highest ∧
    (s.acceptReset finalSize reliable code).s.fc.receivedFinal = s.fc.receivedFinal ∧
    (s.acceptReset finalSize reliable code).s.finalOffset = finalSize ∧
    (s.acceptReset finalSize reliable code).s.curIsLast = s.curIsLast := by
  unfold RStream.acceptReset
  simp only
  (repeat' split) <;> simp

/-- an accepted RESET_STREAM / RESET_STREAM_AT keeps the invariant and does not move the read position -/
theorem reset_sinv {src : Nat → UInt8} {s : RStream} (h : SInv src s) (finalSize reliable code : Nat)
    (hmax : 2 * finalSize < maxByteCount)
    (hok : (s.handleResetStreamFrame finalSize reliable code).err = none) :
    SInv src (s.handleResetStreamFrame finalSize reliable code).s ∧
    (s.handleResetStreamFrame finalSize reliable code).s.readPos = s.readPos := by
  unfold RStream.handleResetStreamFrame at hok ⊢
  by_cases hsd : s.shutdown = true
  · rw [if_pos hsd]
    exact ⟨SInv.complete (o := ⟨s, none, []⟩) h true, (complete_fields _ _).2.2.2.2.1⟩
  · rw [if_neg hsd] at hok ⊢
    simp only at hok ⊢
    rw [(complete_fields _ _).1] at hok
    rw [(complete_fields _ _).2.2.2.2.1]
    simp only at hok ⊢
    cases hu : (s.fc.updateHighestReceived finalSize true).2 with
    | some e => rw [hu] at hok; simp at hok
    | none =>
      have hbase := sinv_fc_update h finalSize true hmax hu
      simp only [if_true] at hbase
      obtain ⟨_, f1, f2, f3, f4, f5, f6, f7, f8⟩ :=
        acceptReset_fields { s with fc := (s.fc.updateHighestReceived finalSize true).1 } finalSize reliable code
      constructor
      · apply SInv.complete (o := ⟨_, _, _⟩)
        simp only
        exact hbase.congr f1 f2 f3 f4 f5 f6 f7 f8
      · simp only; exact f4

theorem cancelRead_fields (s : RStream) (code : Nat) :
    (s.cancelRead code).1.sorter = s.sorter ∧ (s.cancelRead code).1.cur = s.cur ∧ (s.cancelRead code).1.rpif = s.rpif ∧
    (s.cancelRead code).1.readPos = s.readPos ∧ (s.cancelRead code).1.fc.highest = s.fc.highest ∧
    (s.cancelRead code).1.fc.receivedFinal = s.fc.receivedFinal ∧ (s.cancelRead code).1.finalOffset = s.finalOffset ∧
    (s.cancelRead code).1.curIsLast = s.curIsLast := by
  unfold RStream.cancelRead
  obtain ⟨f1, f2, f3, f4, f5, f6, f7⟩ := isNewlyCompleted_fields (s.cancelReadImpl code).1
  have g : (s.cancelReadImpl code).1.sorter = s.sorter ∧ (s.cancelReadImpl code).1.cur = s.cur ∧
      (s.cancelReadImpl code).1.rpif = s.rpif ∧ (s.cancelReadImpl code).1.readPos = s.readPos ∧
      (s.cancelReadImpl code).1.fc = s.fc ∧ (s.cancelReadImpl code).1.finalOffset = s.finalOffset ∧
      (s.cancelReadImpl code).1.curIsLast = s.curIsLast := by
    unfold RStream.cancelReadImpl
    (repeat' split) <;> simp
  simp only
  split <;> simp [f1, f2, f3, f4, f5, f6, f7, g]

theorem cancel_sinv {src : Nat → UInt8} {s : RStream} (h : SInv src s) (code : Nat) : SInv src (s.cancelRead code).1 := by
  obtain ⟨f1, f2, f3, f4, f5, f6, f7, f8⟩ := cancelRead_fields s code
  exact h.congr f1 f2 f3 f4 f5 f6 f7 f8

theorem shutdown_sinv {src : Nat → UInt8} {s : RStream} (h : SInv src s) : SInv src s.closeForShutdown :=
  h.congr rfl rfl rfl rfl rfl rfl rfl rfl

theorem ctrl_sinv {src : Nat → UInt8} {s : RStream} (h : SInv src s) : SInv src s.getControlFrame.1 := by
  unfold RStream.getControlFrame
  (repeat' split) <;> first | exact h | exact h.congr rfl rfl rfl rfl (by simp) (by simp) rfl rfl

/-- whatever happens to a STREAM frame, the read position does not move -/
theorem frame_rejected_readPos (s : RStream) (off : Nat) (data : Bytes) (fin : Bool) (cb : Option Nat) :
    (s.handleStreamFrame off data fin cb).s.readPos = s.readPos := by
  unfold RStream.handleStreamFrame
  rw [(complete_fields _ _).2.2.2.2.1]
  simp only
  split
  · rfl
  · unfold RStream.acceptFrame
    simp only
    (repeat' split) <;> rfl

theorem reset_readPos (s : RStream) (f rel code : Nat) :
    (s.handleResetStreamFrame f rel code).s.readPos = s.readPos := by
  unfold RStream.handleResetStreamFrame
  split
  · exact (complete_fields _ _).2.2.2.2.1
  · rw [(complete_fields _ _).2.2.2.2.1]
    simp only
    split
    · rfl
    · exact (acceptReset_fields _ _ _ _).2.2.2.2.1

/-! ### histories of a stream -/

inductive StOp where
  | frame (off len : Nat) (fin : Bool) (cb : Option Nat)
  | reset (finalSize reliable code : Nat)
  | read (n : Nat)
  | peek (n : Nat)
  | cancel (code : Nat)
  | shutdown
  | ctrl
deriving Repr

structure SHist where
  s : RStream
  /-- concatenation of everything `Read` returned -/
  out : Bytes := []
  /-- `false` once a frame or reset was answered with an error: the connection is closed -/
  alive : Bool := true
  /-- every EOF so far was reported with the read position at the final offset; every peek returned the
  bytes at the read position -/
  good : Bool := true

/-- the bytes `[off, off+len)` of the source as a decidable check on a byte string -/
def isSrc (src : Nat → UInt8) (off : Nat) (d : Bytes) : Bool := d == srcSeg src off d.length

def stepSt (src : Nat → UInt8) (h : SHist) : StOp → SHist
  | .frame off len fin cb =>
    if h.alive then
      let r := h.s.handleStreamFrame off (srcSeg src off len) fin cb
      { h with s := r.s, alive := r.err.isNone }
    else h
  | .reset f rel code =>
    if h.alive then
      let r := h.s.handleResetStreamFrame f rel code
      { h with s := r.s, alive := r.err.isNone }
    else h
  | .read n =>
    if h.alive then
      let r := h.s.read n
      { h with s := r.s, out := h.out ++ r.data,
               good := h.good && decide (r.status ≠ .panic) &&
                 (if r.status = .eof then decide (r.s.readPos = r.s.finalOffset ∧ r.s.finalOffset ≠ maxByteCount) else true) }
    else h
  | .peek n =>
    if h.alive then
      let r := h.s.peek n
      { h with s := r.s,
               good := h.good && decide (r.status ≠ .panic) && isSrc src h.s.readPos r.data &&
                 (if r.status = .eof then decide (h.s.readPos + r.data.length = h.s.finalOffset) else true) }
    else h
  | .cancel code => if h.alive then { h with s := (h.s.cancelRead code).1 } else h
  | .shutdown => if h.alive then { h with s := h.s.closeForShutdown } else h
  | .ctrl => if h.alive then { h with s := h.s.getControlFrame.1 } else h

/-- segments and peek sizes stay inside the offset space -/
def StInBounds : StOp → Prop
  | .frame off len _ _ => 2 * (off + len) < maxByteCount
  | .reset f _ _ => 2 * f < maxByteCount
  | .peek n => 2 * n < maxByteCount
  | _ => True

structure SHistInv (src : Nat → UInt8) (h : SHist) : Prop where
  out : h.out = srcSeg src 0 h.s.readPos
  inv : h.alive = true → SInv src h.s
  good : h.good = true

theorem isSrc_of_eq {src : Nat → UInt8} {off : Nat} {d : Bytes} (h : d = srcSeg src off d.length) : isSrc src off d = true := by
  unfold isSrc
  rw [beq_iff_eq]
  exact h

theorem stepSt_inv {src : Nat → UInt8} {h : SHist} (hi : SHistInv src h) (op : StOp) (hop : StInBounds op) :
    SHistInv src (stepSt src h op) := by
  cases op with
  | frame off len fin cb =>
    simp only [stepSt]
    split
    · rename_i hal
      have hI := hi.inv hal
      cases he : (h.s.handleStreamFrame off (srcSeg src off len) fin cb).err with
      | none =>
        obtain ⟨h1, h2⟩ := frame_sinv hI off len fin cb hop he
        exact ⟨by simp only; rw [h2]; exact hi.out, fun _ => h1, hi.good⟩
      | some e =>
        refine ⟨?_, by simp [he], hi.good⟩
        simp only
        have := frame_rejected_readPos h.s off (srcSeg src off len) fin cb
        rw [this]; exact hi.out
    · exact hi
  | reset f rel code =>
    simp only [stepSt]
    split
    · rename_i hal
      have hI := hi.inv hal
      cases he : (h.s.handleResetStreamFrame f rel code).err with
      | none =>
        obtain ⟨h1, h2⟩ := reset_sinv hI f rel code hop he
        exact ⟨by simp only; rw [h2]; exact hi.out, fun _ => h1, hi.good⟩
      | some e =>
        refine ⟨?_, by simp [he], hi.good⟩
        simp only
        have := reset_readPos h.s f rel code
        rw [this]; exact hi.out
    · exact hi
  | read n =>
    simp only [stepSt]
    split
    · rename_i hal
      have hI := hi.inv hal
      obtain ⟨r1, r2, r3, r4, r5, r6, r7⟩ := read_spec hI n
      refine ⟨?_, fun _ => r1, ?_⟩
      · simp only
        rw [hi.out, r3, r2]
        have := srcSeg_append src 0 h.s.readPos (h.s.read n).data.length
        rw [Nat.zero_add] at this
        rw [srcSeg_length]
        exact this
      · simp only [Bool.and_eq_true]
        refine ⟨⟨hi.good, by simpa using r6⟩, ?_⟩
        split
        · rename_i heq
          have := r5 heq
          simp only [decide_eq_true_eq]
          rw [r4]
          exact this
        · rfl
    · exact hi
  | peek n =>
    simp only [stepSt]
    split
    · rename_i hal
      have hI := hi.inv hal
      have P := peek_stream_spec hI n hop
      refine ⟨by simp only; rw [P.rp]; exact hi.out, fun _ => P.inv, ?_⟩
      simp only [Bool.and_eq_true]
      refine ⟨⟨⟨hi.good, by simpa using P.nopanic⟩, isSrc_of_eq P.data⟩, ?_⟩
      split
      · rename_i heq
        simp only [decide_eq_true_eq]
        exact (P.eof heq).1
      · rfl
    · exact hi
  | cancel code =>
    simp only [stepSt]
    split
    · rename_i hal
      exact ⟨by simp only; rw [(cancelRead_fields h.s code).2.2.2.1]; exact hi.out, fun _ => cancel_sinv (hi.inv hal) code, hi.good⟩
    · exact hi
  | shutdown =>
    simp only [stepSt]
    split
    · rename_i hal
      exact ⟨hi.out, fun _ => shutdown_sinv (hi.inv hal), hi.good⟩
    · exact hi
  | ctrl =>
    simp only [stepSt]
    split
    · rename_i hal
      refine ⟨?_, fun _ => ctrl_sinv (hi.inv hal), hi.good⟩
      simp only
      have : h.s.getControlFrame.1.readPos = h.s.readPos := by
        unfold RStream.getControlFrame
        (repeat' split) <;> rfl
      rw [this]; exact hi.out
    · exact hi

def runSt (src : Nat → UInt8) (fc : FC) (ops : List StOp) : SHist := ops.foldl (stepSt src) { s := { fc := fc } }

theorem runSt_inv (src : Nat → UInt8) (fc : FC) (h0 : fc.highest = 0) (ops : List StOp) (hops : ∀ op ∈ ops, StInBounds op) :
    SHistInv src (runSt src fc ops) := by
  unfold runSt
  have hinit : SHistInv src { s := { fc := fc } } :=
    ⟨by simp [srcSeg], fun _ => sinv_init src fc h0, rfl⟩
  generalize ({ s := { fc := fc } } : SHist) = h at hinit
  induction ops generalizing h with
  | nil => exact hinit
  | cons op ops ih =>
    simp only [List.foldl_cons]
    exact ih (fun o ho => hops o (List.mem_cons_of_mem _ ho)) _ (stepSt_inv hinit op (hops op (by simp)))

/-! ### the reset error comes after the reliable prefix -/

/-- the cancellation error is only reported when the stream was cancelled locally or a remote reset is
effective (all of the reliable prefix was read) -/
def CancelOK (s : RStream) (st : RStatus) : Prop :=
  ∀ e, st = .cancelled e → (s.cancelledLocally = true ∨ s.remoteEff = true) ∧ e = s.cancelErr

theorem remoteEff_errorRead (s : RStream) : ({ s with errorRead := true } : RStream).remoteEff = s.remoteEff := rfl

theorem readLoop_cancel (fuel : Nat) (a : ReadAcc) (n : Nat) :
    CancelOK (readLoop fuel a n).1.s (readLoop fuel a n).2 := by
  induction fuel generalizing a with
  | zero => intro e h; cases h
  | succ f ih =>
    rw [readLoop]
    split
    · generalize a.deqIfNeeded.1 = a1
      generalize a.deqIfNeeded.2 = pan
      simp only
      split
      · intro e h; cases h
      split
      · intro e h; split at h <;> cases h
      split
      · intro e h; cases h
      split
      · rename_i hc
        intro e h
        simp only [RStatus.cancelled.injEq] at h
        refine ⟨?_, h.symm⟩
        simp only [Bool.or_eq_true] at hc
        exact hc
      split
      · intro e h; split at h <;> cases h
      split
      · intro e h; cases h
      · exact ih _
    · split
      · rename_i hc
        intro e h
        simp only [RStatus.cancelled.injEq] at h
        exact ⟨Or.inr hc, h.symm⟩
      · intro e h; cases h

/-- **RESET_STREAM_AT.** `Read` reports the cancellation error only if the stream was cancelled locally,
or it was reset by the peer *and* the read position has reached the reliable size: the reliable prefix is
always delivered before the reset error. -/
theorem read_cancel_spec (s : RStream) (n : Nat) (e : Option (Nat × Bool)) (h : (s.read n).status = .cancelled e) :
    (s.read n).s.cancelledLocally = true ∨
    ((s.read n).s.cancelledRemotely = true ∧ (s.read n).s.readPos ≥ (s.read n).s.reliableSize) := by
  unfold RStream.read at h ⊢
  simp only at h ⊢
  have key : ∀ (x : RStream), (x.cancelledLocally = true ∨ x.remoteEff = true) →
      x.isNewlyCompleted.1.cancelledLocally = true ∨
      (x.isNewlyCompleted.1.cancelledRemotely = true ∧ x.isNewlyCompleted.1.readPos ≥ x.isNewlyCompleted.1.reliableSize) := by
    intro x hx
    have hf : x.isNewlyCompleted.1.cancelledLocally = x.cancelledLocally ∧ x.isNewlyCompleted.1.cancelledRemotely = x.cancelledRemotely ∧
        x.isNewlyCompleted.1.readPos = x.readPos ∧ x.isNewlyCompleted.1.reliableSize = x.reliableSize := by
      unfold RStream.isNewlyCompleted
      (repeat' split) <;> simp
    rw [hf.1, hf.2.1, hf.2.2.1, hf.2.2.2]
    rcases hx with hx | hx
    · exact Or.inl hx
    · right
      simp only [RStream.remoteEff, Bool.and_eq_true, decide_eq_true_eq] at hx
      exact hx
  split at h
  · cases h
  split at h
  · rename_i _ hc
    rw [if_neg (by assumption), if_pos hc]
    apply key
    simp only [Bool.or_eq_true] at hc
    exact hc
  split at h
  · cases h
  · rw [if_neg (by assumption), if_neg (by assumption), if_neg (by assumption)]
    exact key _ ((readLoop_cancel (n + 1) { s := s } n e h).1)

end Uquic.Proofs.Stream
