/-
C09 helper lemmas: the frame list QUICRandomFrames.buildInternal plans tiles the data; the builder
returns a payload that carries the data, or one of the documented errors; it never panics.
-/
import Uquic.Proofs.FramesRandom

namespace Uquic.Proofs.Frames
open Uquic.Spec.Framing Uquic.Model.UQuic.Frames

/-- outcome predicate: `ok` satisfies `P`, an error satisfies `E`, never panic / wrap -/
def Good {α : Type} (P : α → Prop) (E : String → Prop) : Outcome α → Prop
  | .ok v => P v
  | .err e => E e
  | .panic => False
  | .wrap => False

@[simp] theorem good_ok {α : Type} {P : α → Prop} {E : String → Prop} {v : α} : Good P E (.ok v) ↔ P v := Iff.rfl
@[simp] theorem good_err {α : Type} {P : α → Prop} {E : String → Prop} {e : String} :
    Good P E (Outcome.err e : Outcome α) ↔ E e := Iff.rfl
@[simp] theorem good_panic {α : Type} {P : α → Prop} {E : String → Prop} : Good P E (Outcome.panic : Outcome α) ↔ False := Iff.rfl
@[simp] theorem good_wrap {α : Type} {P : α → Prop} {E : String → Prop} : Good P E (Outcome.wrap : Outcome α) ↔ False := Iff.rfl

/-- membership-only description of a planned frame list over `n` bytes (offsets relative to 0) -/
structure PlanOk (fl : List QFrame) (n : Nat) : Prop where
  frames : ∀ f ∈ fl, match f with
    | .crypto off len => 0 ≤ off ∧ 0 ≤ rlen 0 n off len ∧ off + rlen 0 n off len ≤ n
    | .padding l => 0 ≤ l
    | .ping => True
  zero : ∃ f ∈ fl, f.infoOff = 0
  cover : ∀ i : Nat, i < n → ∃ off len, QFrame.crypto off len ∈ fl ∧ off ≤ i ∧ (i : Int) < off + rlen 0 n off len

theorem PlanOk.congr {fl fl' : List QFrame} {n : Nat} (h : PlanOk fl n) (hm : ∀ x, x ∈ fl' ↔ x ∈ fl) :
    PlanOk fl' n :=
  ⟨fun f hf => h.frames f ((hm f).mp hf),
   by obtain ⟨f, hf, h0⟩ := h.zero; exact ⟨f, (hm f).mpr hf, h0⟩,
   fun i hi => by obtain ⟨o, l, hmem, h1, h2⟩ := h.cover i hi; exact ⟨o, l, (hm _).mpr hmem, h1, h2⟩⟩

theorem PlanOk.lowest {fl : List QFrame} {n : Nat} (h : PlanOk fl n) : lowestOffset fl = 0 := by
  apply lowestOffset_eq_zero _ h.zero
  intro f hf
  have := h.frames f hf
  cases f with
  | crypto off len => exact this.1
  | padding l => simp [QFrame.infoOff]
  | ping => simp [QFrame.infoOff]

theorem PlanOk.ne_nil {fl : List QFrame} {n : Nat} (h : PlanOk fl n) : fl.isEmpty = false := by
  obtain ⟨f, hf, _⟩ := h.zero
  cases fl with
  | nil => simp at hf
  | cons => rfl

theorem PlanOk.tiles {fl : List QFrame} {n base : Nat} (h : PlanOk fl n) (hrep : base + n ≤ maxVarInt8) :
    TilesAt 0 fl n base := by
  refine ⟨Int.le_refl _, ?_, ?_⟩
  · intro f hf
    have := h.frames f hf
    cases f with
    | crypto off len =>
      simp only [FrameOk, rstart]
      obtain ⟨h1, h2, h3⟩ := this
      refine ⟨by omega, h2, by omega, by omega, by omega, by omega⟩
    | padding l => exact this
    | ping => trivial
  · intro i hi
    obtain ⟨o, l, hm, h1, h2⟩ := h.cover i hi
    exact ⟨o, l, hm, by simp only [rstart]; omega, by simp only [rstart]; omega⟩

/-- adding PADDING frames keeps a plan -/
theorem PlanOk.append_paddings {fl pads : List QFrame} {n : Nat} (h : PlanOk fl n)
    (hp : ∀ f ∈ pads, ∃ l : Int, f = QFrame.padding l ∧ 0 ≤ l) : PlanOk (fl ++ pads) n := by
  refine ⟨?_, ?_, ?_⟩
  · intro f hf
    rcases List.mem_append.mp hf with hf | hf
    · exact h.frames f hf
    · obtain ⟨l, rfl, hl⟩ := hp f hf; exact hl
  · obtain ⟨f, hf, h0⟩ := h.zero; exact ⟨f, List.mem_append_left _ hf, h0⟩
  · intro i hi
    obtain ⟨o, l, hm, h1, h2⟩ := h.cover i hi
    exact ⟨o, l, List.mem_append_left _ hm, h1, h2⟩

theorem qfBuild_of_plan {fl : List QFrame} {data : List UInt8} {base : Nat} (h : PlanOk fl data.length)
    (hrep : base + data.length ≤ maxVarInt8) :
    ∃ p, qfBuild fl data base = .ok p ∧ carries data base [p] = true := by
  obtain ⟨p, hp, hc⟩ := buildAll_carries (h.tiles hrep)
  refine ⟨p, ?_, ?_⟩
  · simp [qfBuild, h.ne_nil, h.lowest, hp]
  · simpa [carries] using hc

theorem addPadding_spec {c : RFCfg} {fl : List QFrame} {n dryLen : Nat} {d : Draws} (h : PlanOk fl n) :
    Good (fun v => PlanOk v.1 n) (fun e => e = "rand") (addPadding c fl dryLen d) := by
  unfold addPadding
  split
  · rename_i hlen
    cases hr : cryptoSafeRand c.minPad c.maxPad d with
    | none => simp
    | some vd =>
      obtain ⟨np, d1⟩ := vd
      simp only []
      have hk : (min (max np 1) (c.length - dryLen) - 1 = 0 ∨
          min (max np 1) (c.length - dryLen) - 1 + 1 ≤ c.length - dryLen) := by omega
      rcases cutLoop_spec (fun _ l => QFrame.padding l) _ (c.length - dryLen) 0 d1 fl hk with he | ⟨new, off', rem', d', h1, h2, _, _, _⟩
      · rw [he]; simp
      · rw [h1]
        simp only [good_ok]
        rw [List.append_assoc]
        apply h.append_paddings
        intro f hf
        rcases List.mem_append.mp hf with hf | hf
        · obtain ⟨o, l, rfl, _, hl, _⟩ := h2.mem f hf
          exact ⟨l, rfl, by omega⟩
        · simp only [List.mem_singleton] at hf
          exact ⟨rem', hf, by omega⟩
  · simpa using h

/-- buildInternal up to the shuffle: a plan that tiles the data, or a documented error; no panic,
    no arithmetic wrap-around -/
theorem rfPlan_spec (c : RFCfg) (data : List UInt8) (d : Draws) (hrep : data.length ≤ maxVarInt8) :
    Good (fun v => PlanOk v.1 data.length) (fun e => e = "rand" ∨ checkBounds c = some e) (rfPlan c data d) := by
  unfold rfPlan
  cases hcb : checkBounds c with
  | some e => simp
  | none =>
    simp only []
    cases hp : cryptoSafeRand c.minPing c.maxPing d with
    | none => simp
    | some vd =>
      obtain ⟨numPing, d1⟩ := vd
      simp only []
      cases hc : cryptoSafeRand c.minCrypto c.maxCrypto d1 with
      | none => simp
      | some vd2 =>
        obtain ⟨nc, d2⟩ := vd2
        simp only []
        have hk : (min (max nc 1) data.length - 1 = 0 ∨ min (max nc 1) data.length - 1 + 1 ≤ data.length) := by omega
        rcases cutLoop_spec (fun off l => QFrame.crypto off l) _ data.length 0 d2
            (List.replicate numPing QFrame.ping) hk with he | ⟨new, off', rem', d', h1, h2, h3, _, _⟩
        · rw [he]; simp
        · rw [h1]
          simp only []
          have hoff : off' ≤ data.length := by omega
          -- the list before PADDING is a plan
          have plan : PlanOk (List.replicate numPing QFrame.ping ++ new ++ [QFrame.crypto off' 0]) data.length := by
            refine ⟨?_, ?_, ?_⟩
            · intro f hf
              rcases List.mem_append.mp hf with hf | hf
              · rcases List.mem_append.mp hf with hf | hf
                · obtain rfl := List.eq_of_mem_replicate hf; trivial
                · obtain ⟨o, l, rfl, _, hl, hle⟩ := h2.mem f hf
                  simp only [rlen]
                  rw [if_neg (by omega)]
                  omega
              · simp only [List.mem_singleton] at hf
                subst hf
                simp only [rlen]
                omega
            · rcases h2.head with ⟨rfl, rfl⟩ | ⟨l, fs', rfl⟩
              · exact ⟨QFrame.crypto (0 : Nat) 0, by simp, rfl⟩
              · exact ⟨QFrame.crypto (0 : Nat) l, by simp, rfl⟩
            · intro i hi
              by_cases hlt : i < off'
              · obtain ⟨o, l, hm, ho1, ho2⟩ := h2.cover i (Nat.zero_le _) hlt
                refine ⟨o, l, by simp [hm], by omega, ?_⟩
                simp only [rlen]
                have hl1 : 1 ≤ l := by
                  obtain ⟨o', l', e, _, hl', _⟩ := h2.mem _ hm
                  simp only [QFrame.crypto.injEq] at e
                  omega
                rw [if_neg (by omega)]
                omega
              · refine ⟨off', 0, by simp, by omega, ?_⟩
                simp [rlen]
                omega
          obtain ⟨dry, hdry, _⟩ := qfBuild_of_plan (base := 0) plan (by omega)
          rw [hdry]
          simp only []
          have := addPadding_spec (c := c) (dryLen := dry.length) (d := d') plan
          revert this
          cases addPadding c _ dry.length d' with
          | ok v => intro h; simpa using h
          | err e => intro h; simp at h ⊢; first | exact Or.inl h | exact h
          | panic => intro h; simp at h
          | wrap => intro h; simp at h

/-- QUICRandomFrames.buildInternal: for every parameterisation, every draw and every shuffle, an
    error (exactly a documented bound violation, a reader error, or an invalid witness) or a payload
    that carries the data at `base`; never a panic, never a wrap-around -/
theorem rfBuild_spec (c : RFCfg) (data : List UInt8) (base : Nat) (d : Draws) (perm : List Nat)
    (hrep : base + data.length ≤ maxVarInt8) :
    Good (fun p => carries data base [p] = true)
      (fun e => e = "rand" ∨ e = "perm" ∨ checkBounds c = some e) (rfBuild c data base d perm) := by
  unfold rfBuild
  have hp := rfPlan_spec c data d (by omega)
  revert hp
  cases rfPlan c data d with
  | ok v =>
    obtain ⟨fl, d'⟩ := v
    intro hp
    simp only [good_ok] at hp ⊢
    cases hperm : permute fl perm with
    | none => simp
    | some fl' =>
      simp only []
      obtain ⟨p, hb, hc⟩ := qfBuild_of_plan (base := base) (hp.congr (permute_mem hperm)) hrep
      rw [hb]; simpa using hc
  | err e => intro hp; simp only [good_err] at hp ⊢; rcases hp with h | h <;> simp [h]
  | panic => intro hp; simp at hp
  | wrap => intro hp; simp at hp

end Uquic.Proofs.Frames
