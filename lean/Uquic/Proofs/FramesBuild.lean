/-
C09 helper lemmas: QUICFrames.build — a layout whose frames are in bounds serialises into frames
the reference reader reads back, carrying the slice's bytes at `base + offset`.
-/
import Uquic.Proofs.FramesCarries

namespace Uquic.Proofs.Frames
open Uquic.Spec.Framing Uquic.Model.UQuic.Frames

/-- start and length of the slice bytes a QUICFrameCrypto{off,len} addresses -/
def rstart (low off : Int) : Int := off - low
def rlen (low : Int) (n : Nat) (off len : Int) : Int := if len = 0 then (n : Int) - (off - low) else len

/-- the frame is inside the slice and its wire offset is representable without wrap-around -/
def FrameOk (low : Int) (n base : Nat) : QFrame → Prop
  | .crypto off len =>
    0 ≤ rstart low off ∧ 0 ≤ rlen low n off len ∧ rstart low off + rlen low n off len ≤ n ∧
      0 ≤ off + (base : Int) ∧ off + (base : Int) ≤ maxVarInt8 ∧ (n : Int) ≤ maxVarInt8
  | .padding l => 0 ≤ l
  | .ping => True

/-- what the CRYPTO frame of a layout entry must look like on the wire -/
def cryptoSpec (low : Int) (data : List UInt8) (base : Nat) : QFrame → List (Nat × List UInt8)
  | .crypto off len =>
    [((off + (base : Int)).toNat, (data.drop (rstart low off).toNat).take (rlen low data.length off len).toNat)]
  | _ => []

theorem buildOne_ok {low : Int} {data : List UInt8} {base : Nat} {f : QFrame}
    (h : FrameOk low data.length base f) :
    ∃ bytes frames, buildOne low data base f = some bytes ∧
      (∀ rest, readFrames (bytes ++ rest) = (readFrames rest).map (frames ++ ·)) ∧
      cryptoOf frames = cryptoSpec low data base f := by
  cases f with
  | ping =>
    refine ⟨[1], [Frame.ping], rfl, ?_, rfl⟩
    intro rest; rw [List.singleton_append, readFrames_ping]; cases readFrames rest <;> simp
  | padding l =>
    simp only [FrameOk] at h
    refine ⟨List.replicate l.toNat 0, List.replicate l.toNat Frame.padding, ?_, ?_, ?_⟩
    · simp [buildOne]; omega
    · intro rest; exact readFrames_paddings _ _
    · simp [cryptoSpec, cryptoOf_replicate_padding]
  | crypto off len =>
    simp only [FrameOk, rstart] at h
    obtain ⟨h1, h2, h3, h4, h5, h6⟩ := h
    have hw : (off + (base : Int)) % u64 = off + (base : Int) := by
      apply Int.emod_eq_of_lt h4
      have := maxVarInt8_eq; unfold u64; omega
    obtain ⟨a, ha⟩ := appendVarint_isSome (v := (off + (base : Int)).toNat) (by omega)
    have hl8 : (rlen low data.length off len).toNat ≤ maxVarInt8 := by omega
    obtain ⟨b, hb⟩ := appendVarint_isSome hl8
    let d := (data.drop (off - low).toNat).take (rlen low data.length off len).toNat
    have hdl : d.length = (rlen low data.length off len).toNat := by
      simp only [d, List.length_take, List.length_drop]; omega
    refine ⟨[6] ++ a ++ b ++ d, [Frame.crypto (off + (base : Int)).toNat d], ?_, ?_, ?_⟩
    · simp only [buildOne, hw, ha]
      have e : (if len = 0 then (data.length : Int) - (off - low) else len) = rlen low data.length off len := rfl
      rw [e, if_neg (by omega), hb]
      simp only []
      rw [if_neg (by omega)]
      have : (rlen low data.length off len).toNat - (data.length - (off - low).toNat) = 0 := by omega
      simp [this, d]
    · intro rest
      have := readFrames_crypto d rest ha (by rw [hdl]; exact hb)
      rw [this]; cases readFrames rest <;> simp
    · simp [cryptoOf, cryptoSpec, rstart, d]

theorem buildAll_ok {low : Int} {data : List UInt8} {base : Nat} : ∀ (fs : List QFrame),
    (∀ f ∈ fs, FrameOk low data.length base f) →
    ∃ p frames, buildAll low data base fs = some p ∧ readFrames p = some frames ∧
      cryptoOf frames = fs.flatMap (cryptoSpec low data base) := by
  intro fs
  induction fs with
  | nil => intro _; exact ⟨[], [], rfl, readFrames_nil, rfl⟩
  | cons f fs ih =>
    intro h
    obtain ⟨bytes, fr, hb, hr, hc⟩ := buildOne_ok (h f (List.mem_cons_self ..))
    obtain ⟨p, frames, hp, hrp, hcp⟩ := ih (fun g hg => h g (List.mem_cons_of_mem _ hg))
    refine ⟨bytes ++ p, fr ++ frames, ?_, ?_, ?_⟩
    · simp [buildAll, hb, hp]
    · rw [hr, hrp]; rfl
    · rw [cryptoOf_append, hc, hcp]; simp

/-- the frames of a layout are in bounds and cover the slice -/
structure TilesAt (low : Int) (fs : List QFrame) (n base : Nat) : Prop where
  lowNonneg : 0 ≤ low
  frames : ∀ f ∈ fs, FrameOk low n base f
  cover : ∀ i : Nat, i < n → ∃ off len, QFrame.crypto off len ∈ fs ∧
    rstart low off ≤ i ∧ (i : Int) < rstart low off + rlen low n off len

theorem buildAll_carries {low : Int} {data : List UInt8} {base : Nat} {fs : List QFrame}
    (h : TilesAt low fs data.length base) :
    ∃ p, buildAll low data base fs = some p ∧
      carriesAt data (base + low.toNat) (base + low.toNat) (base + low.toNat + data.length) [p] = true := by
  obtain ⟨p, frames, hp, hr, hc⟩ := buildAll_ok fs h.frames
  refine ⟨p, hp, carriesAt_intro (fs := frames) (by simp [readAll, hr]) ?_ ?_⟩
  · intro c hcm
    rw [hc] at hcm
    obtain ⟨f, hf, hcf⟩ := List.mem_flatMap.mp hcm
    cases f with
    | ping => simp [cryptoSpec] at hcf
    | padding l => simp [cryptoSpec] at hcf
    | crypto off len =>
      simp only [cryptoSpec, List.mem_singleton] at hcf
      have ok := h.frames _ hf
      simp only [FrameOk, rstart] at ok
      obtain ⟨h1, h2, h3, h4, h5, h6⟩ := ok
      have hlow := h.lowNonneg
      subst hcf
      simp only [rstart]
      have hlen : ((data.drop (off - low).toNat).take (rlen low data.length off len).toNat).length
          = (rlen low data.length off len).toNat := by
        simp only [List.length_take, List.length_drop]; omega
      refine ⟨?_, by omega, by rw [hlen]; omega⟩
      rw [sliceEq_iff, hlen]
      have e : (off + (base : Int)).toNat - (base + low.toNat) = (off - low).toNat := by omega
      rw [e]
      exact ⟨by omega, by omega, rfl⟩
  · intro i h1 h2
    obtain ⟨off, len, hm, h3, h4⟩ := h.cover (i - (base + low.toNat)) (by omega)
    have ok := h.frames _ hm
    simp only [FrameOk, rstart] at ok
    obtain ⟨o1, o2, o3, o4, o5, o6⟩ := ok
    have hlow := h.lowNonneg
    simp only [rstart] at h3 h4
    refine ⟨((off + (base : Int)).toNat, (data.drop (off - low).toNat).take (rlen low data.length off len).toNat), ?_, ?_, ?_⟩
    · rw [hc]; exact List.mem_flatMap.mpr ⟨_, hm, by simp [cryptoSpec, rstart]⟩
    · simp only []; omega
    · simp only [List.length_take, List.length_drop]; omega

/-! ### exact panic / zero-extension behaviour of one CRYPTO entry -/

/-- a CRYPTO entry makes `build` panic exactly when its wire offset or its length is not a varint,
    its length is negative, or it starts beyond the slice -/
theorem buildOne_crypto_none_iff (low : Int) (data : List UInt8) (base : Nat) (off len : Int)
    (hlow : low ≤ off) :
    buildOne low data base (.crypto off len) = none ↔
      (maxVarInt8 : Int) < (off + (base : Int)) % u64 ∨ rlen low data.length off len < 0 ∨
        (maxVarInt8 : Int) < rlen low data.length off len ∨ (data.length : Int) < off - low := by
  have hpos : 0 ≤ (off + (base : Int)) % u64 := Int.emod_nonneg _ (by unfold u64; omega)
  have e : (if len = 0 then (data.length : Int) - (off - low) else len) = rlen low data.length off len := rfl
  simp only [buildOne, e]
  by_cases hw : (maxVarInt8 : Int) < (off + (base : Int)) % u64
  · rw [appendVarint_none (by omega)]; simp [hw]
  · obtain ⟨a, ha⟩ := appendVarint_isSome (v := ((off + (base : Int)) % u64).toNat) (by omega)
    rw [ha]
    by_cases hn : rlen low data.length off len < 0
    · simp [hn]
    · rw [if_neg hn]
      by_cases hb : (maxVarInt8 : Int) < rlen low data.length off len
      · rw [appendVarint_none (by omega)]; simp [hb]
      · obtain ⟨b, hb'⟩ := appendVarint_isSome (v := (rlen low data.length off len).toNat) (by omega)
        rw [hb']
        simp only []
        by_cases hs : (data.length : Int) < off - low
        · rw [if_pos (Or.inr hs)]; simp [hs]
        · rw [if_neg (by omega)]; simp [hw, hn, hb, hs]

/-- a CRYPTO entry that reaches beyond the slice is ZERO-EXTENDED: the frame claims `len` bytes, only
    the first `n - start` are ClientHello bytes, the rest are zeros -/
theorem buildOne_crypto_zero_extends (low : Int) (data : List UInt8) (base : Nat) (off len : Int)
    (a b : List UInt8) (hlow : low ≤ off) (hs : off - low ≤ data.length) (hlen : 0 < len)
    (ha : appendVarint ((off + (base : Int)) % u64).toNat = some a) (hb : appendVarint len.toNat = some b)
    (hbeyond : (data.length : Int) < off - low + len) :
    buildOne low data base (.crypto off len) =
      some ([6] ++ a ++ b ++ data.drop (off - low).toNat ++
        List.replicate (len.toNat - (data.length - (off - low).toNat)) 0) := by
  simp only [buildOne, ha]
  rw [if_neg (by omega), if_neg (by omega), hb]
  simp only []
  rw [if_neg (by omega)]
  have : List.take len.toNat (List.drop (off - low).toNat data) = List.drop (off - low).toNat data := by
    apply List.take_of_length_le; simp only [List.length_drop]; omega
  simp [this]

end Uquic.Proofs.Frames
