/-
C09 helper lemmas: QUICFrames.build — a layout whose frames are in bounds serialises into frames
the reference reader reads back, carrying the slice's bytes at `base + offset`.
-/
import Uquic.Proofs.FramesCarries

namespace Uquic.Proofs.Frames
open Uquic.Spec.Framing Uquic.Model.UQuic.Frames

/-- start and length of the slice bytes a QUICFrameCrypto{off,len} addresses in an `n` byte slice:
    `lengthOffset := min(offset-lowest, n)`; a Length of 0, or one reaching beyond the slice, means
    "to the end of the slice" -/
def rstart (low : Int) (n : Nat) (off : Int) : Int := min (off - low) (n : Int)
def rlen (low : Int) (n : Nat) (off len : Int) : Int :=
  if len = 0 ∨ len > (n : Int) - rstart low n off then (n : Int) - rstart low n off else len

/-- the entry has non-negative fields and its wire offset is representable without wrap-around —
    nothing is asked about the slice -/
def FrameOk (low : Int) (n base : Nat) : QFrame → Prop
  | .crypto off len =>
    low ≤ off ∧ 0 ≤ len ∧ 0 ≤ off + (base : Int) ∧ off + (base : Int) ≤ maxVarInt8 ∧ (n : Int) ≤ maxVarInt8
  | .padding l => 0 ≤ l
  | .ping => True

theorem rstart_bounds {low off : Int} {n : Nat} (h : low ≤ off) : 0 ≤ rstart low n off ∧ rstart low n off ≤ n := by
  unfold rstart; omega

theorem rlen_bounds {low off len : Int} {n : Nat} (h : low ≤ off) (hl : 0 ≤ len) :
    0 ≤ rlen low n off len ∧ rstart low n off + rlen low n off len ≤ n := by
  have := rstart_bounds (n := n) h
  unfold rlen
  split <;> omega

/-- what the CRYPTO frame of a layout entry looks like on the wire -/
def cryptoSpec (low : Int) (data : List UInt8) (base : Nat) : QFrame → List (Nat × List UInt8)
  | .crypto off len =>
    [((off + (base : Int)).toNat,
      (data.drop (rstart low data.length off).toNat).take (rlen low data.length off len).toNat)]
  | _ => []

theorem buildOne_ok {low : Int} {data : List UInt8} {base : Nat} {f : QFrame}
    (h : FrameOk low data.length base f) :
    ∃ bytes frames, buildOne low data base f = some bytes ∧
      (∀ rest, readFrames (bytes ++ rest) = (readFrames rest).map (frames ++ ·)) ∧
      cryptoOf frames = cryptoSpec low data base f := by
  cases f with
  | ping =>
    refine ⟨[1], [Frame.ping], rfl, ?_, rfl⟩
    intro rest; rw [List.singleton_append, readFrames_ping]; cases readFrames rest <;> simp
  | padding l =>
    simp only [FrameOk] at h
    refine ⟨List.replicate l.toNat 0, List.replicate l.toNat Frame.padding, ?_, ?_, ?_⟩
    · simp [buildOne]; omega
    · intro rest; exact readFrames_paddings _ _
    · simp [cryptoSpec, cryptoOf_replicate_padding]
  | crypto off len =>
    simp only [FrameOk] at h
    obtain ⟨h1, h2, h4, h5, h6⟩ := h
    obtain ⟨hs0, hsn⟩ := rstart_bounds (n := data.length) h1
    obtain ⟨hl0, hln⟩ := rlen_bounds (n := data.length) h1 h2
    have hw : (off + (base : Int)) % u64 = off + (base : Int) := by
      apply Int.emod_eq_of_lt h4
      have := maxVarInt8_eq; unfold u64; omega
    obtain ⟨a, ha⟩ := appendVarint_isSome (v := (off + (base : Int)).toNat) (by omega)
    have hl8 : (rlen low data.length off len).toNat ≤ maxVarInt8 := by omega
    obtain ⟨b, hb⟩ := appendVarint_isSome hl8
    let d := (data.drop (rstart low data.length off).toNat).take (rlen low data.length off len).toNat
    have hdl : d.length = (rlen low data.length off len).toNat := by
      simp only [d, List.length_take, List.length_drop]; omega
    refine ⟨[6] ++ a ++ b ++ d, [Frame.crypto (off + (base : Int)).toNat d], ?_, ?_, ?_⟩
    · simp only [buildOne, hw, ha]
      have e0 : min (off - low) (data.length : Int) = rstart low data.length off := rfl
      rw [e0]
      have e : (if len = 0 ∨ len > (data.length : Int) - rstart low data.length off
          then (data.length : Int) - rstart low data.length off else len) = rlen low data.length off len := rfl
      rw [e, if_neg (by omega), hb]
      simp only []
      rw [if_neg (by omega)]
      have : (rlen low data.length off len).toNat - (data.length - (rstart low data.length off).toNat) = 0 := by omega
      simp [this, d]
    · intro rest
      have := readFrames_crypto d rest ha (by rw [hdl]; exact hb)
      rw [this]; cases readFrames rest <;> simp
    · simp [cryptoOf, cryptoSpec, d]

theorem buildAll_ok {low : Int} {data : List UInt8} {base : Nat} : ∀ (fs : List QFrame),
    (∀ f ∈ fs, FrameOk low data.length base f) →
    ∃ p frames, buildAll low data base fs = some p ∧ readFrames p = some frames ∧
      cryptoOf frames = fs.flatMap (cryptoSpec low data base) := by
  intro fs
  induction fs with
  | nil => intro _; exact ⟨[], [], rfl, readFrames_nil, rfl⟩
  | cons f fs ih =>
    intro h
    obtain ⟨bytes, fr, hb, hr, hc⟩ := buildOne_ok (h f (List.mem_cons_self ..))
    obtain ⟨p, frames, hp, hrp, hcp⟩ := ih (fun g hg => h g (List.mem_cons_of_mem _ hg))
    refine ⟨bytes ++ p, fr ++ frames, ?_, ?_, ?_⟩
    · simp [buildAll, hb, hp]
    · rw [hr, hrp]; rfl
    · rw [cryptoOf_append, hc, hcp]; simp

/-- No zero-extension, for ANY entry: what a CRYPTO entry puts on the wire is a sub-slice of the
    share — `ℓ` bytes starting at `s` with `s + ℓ ≤ n` — never more than the share holds -/
theorem cryptoSpec_subslice {low : Int} {data : List UInt8} {base : Nat} {f : QFrame}
    (h : FrameOk low data.length base f) :
    ∀ c ∈ cryptoSpec low data base f, ∃ s l : Nat, s + l ≤ data.length ∧ c.2 = (data.drop s).take l ∧ c.2.length = l := by
  intro c hc
  cases f with
  | ping => simp [cryptoSpec] at hc
  | padding l => simp [cryptoSpec] at hc
  | crypto off len =>
    simp only [FrameOk] at h
    obtain ⟨hs0, hsn⟩ := rstart_bounds (n := data.length) h.1
    obtain ⟨hl0, hln⟩ := rlen_bounds (n := data.length) h.1 h.2.1
    simp only [cryptoSpec, List.mem_singleton] at hc
    subst hc
    refine ⟨(rstart low data.length off).toNat, (rlen low data.length off len).toNat, by omega, rfl, ?_⟩
    simp only [List.length_take, List.length_drop]; omega

/-- the frames of a layout start inside the slice and cover it -/
structure TilesAt (low : Int) (fs : List QFrame) (n base : Nat) : Prop where
  lowNonneg : 0 ≤ low
  frames : ∀ f ∈ fs, FrameOk low n base f
  inSlice : ∀ off len, QFrame.crypto off len ∈ fs → off - low ≤ n
  cover : ∀ i : Nat, i < n → ∃ off len, QFrame.crypto off len ∈ fs ∧
    rstart low n off ≤ i ∧ (i : Int) < rstart low n off + rlen low n off len

theorem buildAll_carries {low : Int} {data : List UInt8} {base : Nat} {fs : List QFrame}
    (h : TilesAt low fs data.length base) :
    ∃ p, buildAll low data base fs = some p ∧
      carriesAt data (base + low.toNat) (base + low.toNat) (base + low.toNat + data.length) [p] = true := by
  obtain ⟨p, frames, hp, hr, hc⟩ := buildAll_ok fs h.frames
  refine ⟨p, hp, carriesAt_intro (fs := frames) (by simp [readAll, hr]) ?_ ?_⟩
  · intro c hcm
    rw [hc] at hcm
    obtain ⟨f, hf, hcf⟩ := List.mem_flatMap.mp hcm
    cases f with
    | ping => simp [cryptoSpec] at hcf
    | padding l => simp [cryptoSpec] at hcf
    | crypto off len =>
      simp only [cryptoSpec, List.mem_singleton] at hcf
      have ok := h.frames _ hf
      simp only [FrameOk] at ok
      obtain ⟨h1, h2, h4, h5, h6⟩ := ok
      have hin := h.inSlice _ _ hf
      have hst : rstart low data.length off = off - low := by unfold rstart; omega
      obtain ⟨hl0, hln⟩ := rlen_bounds (n := data.length) h1 h2
      have hlow := h.lowNonneg
      subst hcf
      have hlen : ((data.drop (rstart low data.length off).toNat).take (rlen low data.length off len).toNat).length
          = (rlen low data.length off len).toNat := by
        simp only [List.length_take, List.length_drop]; omega
      refine ⟨?_, by omega, by rw [hlen]; omega⟩
      rw [sliceEq_iff, hlen]
      have e : (off + (base : Int)).toNat - (base + low.toNat) = (rstart low data.length off).toNat := by omega
      rw [e]
      exact ⟨by omega, by omega, rfl⟩
  · intro i h1 h2
    obtain ⟨off, len, hm, h3, h4⟩ := h.cover (i - (base + low.toNat)) (by omega)
    have ok := h.frames _ hm
    simp only [FrameOk] at ok
    obtain ⟨o1, o2, o4, o5, o6⟩ := ok
    have hin := h.inSlice _ _ hm
    have hst : rstart low data.length off = off - low := by unfold rstart; omega
    obtain ⟨hl0, hln⟩ := rlen_bounds (n := data.length) o1 o2
    have hlow := h.lowNonneg
    refine ⟨((off + (base : Int)).toNat, (data.drop (rstart low data.length off).toNat).take (rlen low data.length off len).toNat), ?_, ?_, ?_⟩
    · rw [hc]; exact List.mem_flatMap.mpr ⟨_, hm, by simp [cryptoSpec]⟩
    · simp only []; omega
    · simp only [List.length_take, List.length_drop]; omega

/-! ### exact panic condition of one CRYPTO entry -/

/-- a CRYPTO entry makes `build` panic exactly when its wire offset is not a varint or its Length is
    negative (for a slice below 2^62 bytes) — never because of what the slice holds -/
theorem buildOne_crypto_none_iff (low : Int) (data : List UInt8) (base : Nat) (off len : Int)
    (hlow : low ≤ off) (hn : (data.length : Int) ≤ maxVarInt8) :
    buildOne low data base (.crypto off len) = none ↔
      (maxVarInt8 : Int) < (off + (base : Int)) % u64 ∨ len < 0 := by
  have hpos : 0 ≤ (off + (base : Int)) % u64 := Int.emod_nonneg _ (by unfold u64; omega)
  obtain ⟨hs0, hsn⟩ := rstart_bounds (n := data.length) hlow
  have e0 : min (off - low) (data.length : Int) = rstart low data.length off := rfl
  have e : (if len = 0 ∨ len > (data.length : Int) - rstart low data.length off
      then (data.length : Int) - rstart low data.length off else len) = rlen low data.length off len := rfl
  simp only [buildOne, e0, e]
  by_cases hw : (maxVarInt8 : Int) < (off + (base : Int)) % u64
  · rw [appendVarint_none (by omega)]; simp [hw]
  · obtain ⟨a, ha⟩ := appendVarint_isSome (v := ((off + (base : Int)) % u64).toNat) (by omega)
    rw [ha]
    by_cases hneg : len < 0
    · have : rlen low data.length off len < 0 := by unfold rlen; rw [if_neg (by omega)]; exact hneg
      simp [this, hneg]
    · obtain ⟨hl0, hln⟩ := rlen_bounds (n := data.length) hlow (by omega : 0 ≤ len)
      rw [if_neg (by omega)]
      obtain ⟨b, hb'⟩ := appendVarint_isSome (v := (rlen low data.length off len).toNat) (by omega)
      rw [hb']
      simp only []
      rw [if_neg (by omega)]
      simp [hw, hneg]

end Uquic.Proofs.Frames
