/-
Stateless reset tokens INSIDE the packet handler map (`packetHandlerMap.resetTokens`, a Go map used as a
set): `AddResetToken` of a token that is already registered leaves one entry, `RemoveResetToken` deletes
the entry whatever the number of earlier registrations (transport.go).

The callback-level registry (`regAfter`, a multiset) is related to the map-level registry (`Routing.tokens`):
  * the map never holds more than the callbacks registered (`tokset_subset`), unconditionally;
  * the two agree as sets as long as no token is removed while it is registered twice (`tokset_exact`);
  * every operation of the manager makes its removals first and at most then an addition (`step_rmFirst`), so
    pairwise distinct tokens at the operation boundaries are enough for that.
-/
import Uquic.Model.ConnID.Routing
import Uquic.Proofs.ConnIDTokens

namespace Uquic.Proofs.ConnID
open Uquic.Model.ConnID

/-! ### the two map operations -/

theorem mem_addToken {r : Routing} {t x : Bytes} : x ∈ (r.addToken t).tokens ↔ x ∈ r.tokens ∨ x = t := by
  unfold Routing.addToken
  split
  · rename_i h
    have ht : t ∈ r.tokens := by simpa using h
    constructor
    · intro hx; exact Or.inl hx
    · rintro (hx | rfl)
      · exact hx
      · exact ht
  · simp

theorem mem_removeToken {r : Routing} {t x : Bytes} : x ∈ (r.removeToken t).tokens ↔ x ∈ r.tokens ∧ x ≠ t := by
  unfold Routing.removeToken
  simp

theorem addToken_nodup {r : Routing} (t : Bytes) (h : r.tokens.Nodup) : (r.addToken t).tokens.Nodup := by
  unfold Routing.addToken
  split
  · exact h
  · rename_i hc
    have ht : t ∉ r.tokens := by simpa using hc
    simp only
    rw [List.nodup_append]
    refine ⟨h, by simp, ?_⟩
    intro a ha b hb hab
    simp only [List.mem_singleton] at hb
    subst hb; subst hab
    exact ht ha

theorem removeToken_nodup {r : Routing} (t : Bytes) (h : r.tokens.Nodup) : (r.removeToken t).tokens.Nodup := by
  unfold Routing.removeToken
  exact List.Nodup.sublist List.filter_sublist h

/-- the token callbacks touch nothing but the token registry -/
theorem applyM_rest (r : Routing) (e : Ev) :
    (r.applyM e).handlers = r.handlers ∧ (r.applyM e).timers = r.timers ∧ (r.applyM e).counters = r.counters ∧
    (r.applyM e).now = r.now := by
  cases e with
  | retire s => simp [Routing.applyM]
  | addTok t => simp only [Routing.applyM, Routing.addToken]; split <;> simp
  | rmTok t => simp [Routing.applyM, Routing.removeToken]

theorem foldl_applyM_rest : ∀ (evs : List Ev) (r : Routing),
    (evs.foldl Routing.applyM r).handlers = r.handlers ∧ (evs.foldl Routing.applyM r).timers = r.timers ∧
    (evs.foldl Routing.applyM r).counters = r.counters ∧ (evs.foldl Routing.applyM r).now = r.now
  | [], r => by simp
  | e :: evs, r => by
    simp only [List.foldl_cons]
    have h1 := foldl_applyM_rest evs (r.applyM e)
    have h2 := applyM_rest r e
    exact ⟨h1.1.trans h2.1, h1.2.1.trans h2.2.1, h1.2.2.1.trans h2.2.2.1, h1.2.2.2.trans h2.2.2.2⟩

/-- the routing callbacks do not touch the token registry -/
theorem applyG_tokens (r : Routing) (e : GEv) : (r.applyG e).tokens = r.tokens := by
  cases e with
  | addRoute id => simp only [Routing.applyG, Routing.add]; split <;> rfl
  | rmRoute id => rfl
  | replaceClosed ids l ex => rfl
  | newFrame s id => rfl

theorem foldl_applyG_tokens : ∀ (evs : List GEv) (r : Routing), (evs.foldl Routing.applyG r).tokens = r.tokens
  | [], r => rfl
  | e :: evs, r => by
    simp only [List.foldl_cons]
    rw [foldl_applyG_tokens evs, applyG_tokens]

theorem foldl_applyM_nodup : ∀ (evs : List Ev) (r : Routing), r.tokens.Nodup → (evs.foldl Routing.applyM r).tokens.Nodup
  | [], _, h => h
  | e :: evs, r, h => by
    simp only [List.foldl_cons]
    apply foldl_applyM_nodup evs
    cases e with
    | retire s => exact h
    | addTok t => exact addToken_nodup t h
    | rmTok t => exact removeToken_nodup t h

/-! ### map-level set against callback-level multiset -/

/-- The handler map never holds a token the callbacks do not have registered (shared tokens or not). -/
theorem tokset_subset : ∀ (evs : List Ev) (reg : List Bytes) (r : Routing), (∀ x ∈ r.tokens, x ∈ reg) →
    ∀ x ∈ (evs.foldl Routing.applyM r).tokens, x ∈ regAfter reg evs
  | [], _, _, h => by simpa [regAfter] using h
  | e :: evs, reg, r, h => by
    simp only [List.foldl_cons, regAfter]
    apply tokset_subset evs (applyTok reg e) (r.applyM e)
    intro x hx
    cases e with
    | retire s => exact h x hx
    | addTok t =>
      simp only [Routing.applyM] at hx
      simp only [applyTok, List.mem_cons]
      rcases mem_addToken.mp hx with hx | hx
      · exact Or.inr (h x hx)
      · exact Or.inl hx
    | rmTok t =>
      simp only [Routing.applyM] at hx
      obtain ⟨hx1, hx2⟩ := mem_removeToken.mp hx
      simp only [applyTok]
      exact (List.mem_erase_of_ne hx2).mpr (h x hx1)

/-- no token is removed while it is registered twice (`reg` = the callback-level multiset so far) -/
def RmSafe : List Bytes → List Ev → Prop
  | _, [] => True
  | reg, .rmTok t :: rest => reg.count t ≤ 1 ∧ RmSafe (reg.erase t) rest
  | reg, .addTok t :: rest => RmSafe (t :: reg) rest
  | reg, .retire _ :: rest => RmSafe reg rest

instance : ∀ (reg : List Bytes) (evs : List Ev), Decidable (RmSafe reg evs)
  | _, [] => isTrue trivial
  | reg, .rmTok t :: rest =>
    have := instDecidableRmSafe (reg.erase t) rest
    inferInstanceAs (Decidable (reg.count t ≤ 1 ∧ RmSafe (reg.erase t) rest))
  | reg, .addTok t :: rest => instDecidableRmSafe (t :: reg) rest
  | reg, .retire _ :: rest => instDecidableRmSafe reg rest

theorem rmSafe_append : ∀ (a b : List Ev) (reg : List Bytes),
    RmSafe reg (a ++ b) ↔ RmSafe reg a ∧ RmSafe (regAfter reg a) b
  | [], b, reg => by simp [RmSafe, regAfter]
  | .rmTok t :: a, b, reg => by
    simp only [List.cons_append, RmSafe, regAfter, List.foldl_cons, applyTok]
    have := rmSafe_append a b (reg.erase t)
    simp only [regAfter] at this
    rw [this, and_assoc]
  | .addTok t :: a, b, reg => by
    simp only [List.cons_append, RmSafe, regAfter, List.foldl_cons, applyTok]
    have := rmSafe_append a b (t :: reg)
    simp only [regAfter] at this
    exact this
  | .retire s :: a, b, reg => by
    simp only [List.cons_append, RmSafe, regAfter, List.foldl_cons, applyTok]
    have := rmSafe_append a b reg
    simp only [regAfter] at this
    exact this

theorem mem_erase_count_le_one {reg : List Bytes} {t x : Bytes} (h : reg.count t ≤ 1) :
    x ∈ reg.erase t ↔ x ∈ reg ∧ x ≠ t := by
  constructor
  · intro hx
    refine ⟨List.mem_of_mem_erase hx, ?_⟩
    rintro rfl
    have hc : (reg.erase x).count x = reg.count x - 1 := List.count_erase_self
    have : 0 < (reg.erase x).count x := List.count_pos_iff.mpr hx
    omega
  · rintro ⟨hx, hne⟩
    exact (List.mem_erase_of_ne hne).mpr hx

/-- As long as no token is removed while it is registered twice, the handler map holds exactly (as a set) what the
    callbacks have registered. -/
theorem tokset_exact : ∀ (evs : List Ev) (reg : List Bytes) (r : Routing), (∀ x, x ∈ r.tokens ↔ x ∈ reg) →
    RmSafe reg evs → ∀ x, x ∈ (evs.foldl Routing.applyM r).tokens ↔ x ∈ regAfter reg evs
  | [], _, _, h, _ => by simpa [regAfter] using h
  | .retire s :: evs, reg, r, h, hs => by
    simp only [List.foldl_cons, regAfter, Routing.applyM, applyTok]
    exact tokset_exact evs reg r h hs
  | .addTok t :: evs, reg, r, h, hs => by
    simp only [List.foldl_cons, regAfter, Routing.applyM, applyTok]
    apply tokset_exact evs (t :: reg) (r.addToken t) _ hs
    intro x
    rw [mem_addToken, h x, List.mem_cons]
    exact Or.comm
  | .rmTok t :: evs, reg, r, h, hs => by
    simp only [List.foldl_cons, regAfter, Routing.applyM, applyTok]
    apply tokset_exact evs (reg.erase t) (r.removeToken t) _ hs.2
    intro x
    rw [mem_removeToken, h x, mem_erase_count_le_one hs.1]

/-! ### every operation removes first and adds last -/

def NoAdd (evs : List Ev) : Prop := ∀ t, Ev.addTok t ∉ evs
def NoRm (evs : List Ev) : Prop := ∀ t, Ev.rmTok t ∉ evs

/-- all token removals of the list come before all token additions -/
def RmFirst (evs : List Ev) : Prop := ∃ a b, evs = a ++ b ∧ NoAdd a ∧ NoRm b

theorem NoAdd.rmFirst {evs : List Ev} (h : NoAdd evs) : RmFirst evs :=
  ⟨evs, [], by simp, h, fun _ => by simp⟩

theorem NoAdd.append {a b : List Ev} (ha : NoAdd a) (hb : NoAdd b) : NoAdd (a ++ b) := by
  intro t ht
  rcases List.mem_append.mp ht with h | h
  · exact ha t h
  · exact hb t h

theorem RmFirst.prepend {a b : List Ev} (ha : NoAdd a) (hb : RmFirst b) : RmFirst (a ++ b) := by
  obtain ⟨x, y, rfl, hx, hy⟩ := hb
  exact ⟨a ++ x, y, by simp [List.append_assoc], ha.append hx, hy⟩

theorem rmFirst_nil : RmFirst [] := NoAdd.rmFirst (fun _ => by simp)

theorem noAdd_rmTokOpt (o : Option Bytes) : NoAdd (rmTokOpt o) := by
  intro t; cases o <;> simp [rmTokOpt]

theorem noAdd_retireProbingEvs (l : List (Nat × Entry)) : NoAdd (retireProbingEvs l) := by
  intro t ht
  simp only [retireProbingEvs, List.mem_flatMap] at ht
  obtain ⟨pe, _, hpe⟩ := ht
  simp at hpe

theorem noAdd_retires (l : List Entry) : NoAdd (l.map fun e => Ev.retire e.seq) := by
  intro t ht
  simp at ht

theorem noAdd_rmToks (l : List (Nat × Entry)) : NoAdd (l.map fun pe => Ev.rmTok pe.2.tok) := by
  intro t ht
  simp at ht

theorem update_rmFirst (m : Manager) (draw : Nat) : RmFirst (m.updateConnectionID draw).2.1 := by
  unfold Manager.updateConnectionID
  split
  · exact rmFirst_nil
  · simp only
    split
    · apply NoAdd.rmFirst
      intro t ht
      simp only [List.mem_cons] at ht
      rcases ht with ht | ht
      · cases ht
      · exact noAdd_rmTokOpt _ t ht
    · rename_i front rest _
      refine ⟨Ev.retire m.activeSeq :: rmTokOpt m.activeTok, [Ev.addTok front.tok], rfl, ?_, ?_⟩
      · intro t ht
        simp only [List.mem_cons] at ht
        rcases ht with ht | ht
        · cases ht
        · exact noAdd_rmTokOpt _ t ht
      · intro t ht; simp at ht

theorem rptProbing_noAdd (m : Manager) (rpt : Nat) : NoAdd (m.retireProbingBelow rpt).2 := by
  unfold Manager.retireProbingBelow
  exact noAdd_retireProbingEvs _

theorem rptQueue_noAdd (m : Manager) (rpt : Nat) : NoAdd (m.retireQueueBelow rpt).2 := by
  unfold Manager.retireQueueBelow
  split
  · exact noAdd_retires _
  · intro t ht; simp at ht

theorem add_rmFirst (m : Manager) (seq rpt : Nat) (id tok : Bytes) (draw : Nat) :
    RmFirst (m.add seq rpt id tok draw).2.1 := by
  unfold Manager.add
  split
  · exact rmFirst_nil
  split
  · exact rmFirst_nil
  split
  · apply NoAdd.rmFirst; intro t ht; simp at ht
  have N1 := rptProbing_noAdd m rpt
  have N2 := rptQueue_noAdd (m.retireProbingBelow rpt).1 rpt
  simp only
  generalize m.retireProbingBelow rpt = r1 at N1 N2 ⊢
  generalize r1.1.retireQueueBelow rpt = r2 at N2 ⊢
  have N12 : NoAdd (r1.2 ++ r2.2) := N1.append N2
  split
  · exact N12.rmFirst
  split
  · exact N12.rmFirst
  split
  · exact RmFirst.prepend N12 (update_rmFirst _ draw)
  · exact N12.rmFirst

/-- every operation of the manager makes all its token removals before its (at most one) token addition -/
theorem step_rmFirst (m : Manager) (op : Op) : RmFirst (m.step op).2.1 := by
  cases op with
  | new seq rpt id tok draw =>
    have F := addFrame_state m seq rpt id tok draw
    simp only [Manager.step]
    rw [F.2.1]
    exact add_rmFirst m seq rpt id tok draw
  | pref id tok =>
    simp only [Manager.step, Manager.addFromPreferredAddress]
    split <;> exact rmFirst_nil
  | get draw =>
    simp only [Manager.step, Manager.get]
    split
    · exact rmFirst_nil
    · split
      · exact update_rmFirst m draw
      · exact rmFirst_nil
  | sentPacket => exact rmFirst_nil
  | path p =>
    simp only [Manager.step, Manager.getConnIDForPath]
    split
    · exact rmFirst_nil
    split
    · exact rmFirst_nil
    split
    · exact rmFirst_nil
    · split
      · exact rmFirst_nil
      · exact ⟨[], _, rfl, fun _ => by simp, fun t ht => by simp at ht⟩
  | retirePath p =>
    simp only [Manager.step, Manager.retireConnIDForPath]
    split
    · exact rmFirst_nil
    split
    · exact rmFirst_nil
    split
    · exact rmFirst_nil
    · apply NoAdd.rmFirst; intro t ht; simp at ht
  | hsDone => exact rmFirst_nil
  | close =>
    simp only [Manager.step, Manager.close]
    exact ((noAdd_rmTokOpt _).append (noAdd_rmToks _)).rmFirst
  | setTok t =>
    simp only [Manager.step, Manager.setStatelessResetToken]
    split
    · exact rmFirst_nil
    split
    · exact rmFirst_nil
    · exact ⟨[], _, rfl, fun _ => by simp, fun t ht => by simp at ht⟩
  | changeInitial id => exact rmFirst_nil
  | setLimit n => exact rmFirst_nil

theorem noRm_rmSafe : ∀ (evs : List Ev) (reg : List Bytes), NoRm evs → RmSafe reg evs
  | [], _, _ => trivial
  | .rmTok t :: evs, reg, h => absurd (by simp) (h t)
  | .addTok t :: evs, reg, h => by
    simp only [RmSafe]
    exact noRm_rmSafe evs _ (fun u hu => h u (List.mem_cons_of_mem _ hu))
  | .retire s :: evs, reg, h => by
    simp only [RmSafe]
    exact noRm_rmSafe evs _ (fun u hu => h u (List.mem_cons_of_mem _ hu))

theorem noAdd_nodup_rmSafe : ∀ (evs : List Ev) (reg : List Bytes), NoAdd evs → reg.Nodup → RmSafe reg evs
  | [], _, _, _ => trivial
  | .rmTok t :: evs, reg, h, hn => by
    simp only [RmSafe]
    refine ⟨?_, noAdd_nodup_rmSafe evs _ (fun u hu => h u (List.mem_cons_of_mem _ hu))
      (List.Nodup.sublist List.erase_sublist hn)⟩
    exact List.nodup_iff_count.mp hn t
  | .addTok t :: evs, reg, h, _ => absurd (by simp) (h t)
  | .retire s :: evs, reg, h, hn => by
    simp only [RmSafe]
    exact noAdd_nodup_rmSafe evs _ (fun u hu => h u (List.mem_cons_of_mem _ hu)) hn

/-- removals first + pairwise distinct tokens before the operation: no token is removed while registered twice -/
theorem rmFirst_nodup_rmSafe {evs : List Ev} {reg : List Bytes} (h : RmFirst evs) (hn : reg.Nodup) : RmSafe reg evs := by
  obtain ⟨a, b, rfl, ha, hb⟩ := h
  rw [rmSafe_append]
  exact ⟨noAdd_nodup_rmSafe a reg ha hn, noRm_rmSafe b _ hb⟩

/-- If after every prefix of a history the tokens of the connection IDs in use are pairwise distinct, no token is ever
    removed while it is registered twice. -/
theorem run_rmSafe {m : Manager} (hi : Inv m) : ∀ {ops : List Op}, ValidRun m ops →
    (∀ k, (expectedToks (m.run (ops.take k)).1).Nodup) →
    ∀ reg : List Bytes, reg.Perm (expectedToks m) → RmSafe reg (m.run ops).2 := by
  intro ops
  induction ops generalizing m with
  | nil => intro _ _ reg _; simp [Manager.run, RmSafe]
  | cons op ops ih =>
    intro hv hd reg h
    simp only [Manager.run]
    rw [rmSafe_append]
    have hn : reg.Nodup := by
      have := hd 0
      simp only [List.take_zero, Manager.run] at this
      exact h.nodup_iff.mpr this
    refine ⟨rmFirst_nodup_rmSafe (step_rmFirst m op) hn, ?_⟩
    apply ih (step_spec op hi hv.1).1.inv hv.2 _ _ (step_tok op hi hv.1 reg h)
    intro k
    have := hd (k + 1)
    simpa [Manager.run] using this

end Uquic.Proofs.ConnID
