/-
C09 helper lemmas: the flight builders have no panic path for in-range parameters — they return
payloads or one of the documented errors, for every range list, every draw and every shuffle.
-/
import Uquic.Proofs.FramesFlight

namespace Uquic.Proofs.Frames
open Uquic.Spec.Framing Uquic.Model.UQuic.Frames

def PadOk : QFrame → Prop
  | .padding l => 0 ≤ l
  | _ => True

theorem absOne_good (full : List UInt8) (f : QFrame) (hp : PadOk f) (hrep : full.length ≤ maxVarInt8) :
    Good (fun _ => True) (fun e => e = "offset" ∨ e = "range") (absOne full f) := by
  cases f with
  | ping => simp [absOne]
  | padding l => simp only [PadOk] at hp; simp only [absOne]; rw [if_neg (by omega)]; simp
  | crypto off len =>
    simp only [absOne]
    have hr := resolve_spec off len full.length
    revert hr
    cases resolve off len full.length with
    | ok se =>
      obtain ⟨s, e⟩ := se
      intro hr
      simp only [good_ok] at hr
      simp only []
      obtain ⟨a, ha⟩ := appendVarint_isSome (v := s) (by omega)
      obtain ⟨b, hb⟩ := appendVarint_isSome (v := e - s) (by omega)
      rw [ha, hb]; simp
    | err e => intro hr; simpa using hr
    | panic => intro hr; simp at hr
    | wrap => intro hr; simp at hr

theorem buildAbsolute_good (full : List UInt8) (hrep : full.length ≤ maxVarInt8) : ∀ (fs : List QFrame),
    (∀ f ∈ fs, PadOk f) →
    Good (fun _ => True) (fun e => e = "offset" ∨ e = "range") (buildAbsolute full fs) := by
  intro fs
  induction fs with
  | nil => intro _; simp [buildAbsolute]
  | cons f fs ih =>
    intro h
    simp only [buildAbsolute]
    have h1 := absOne_good full f (h f (List.mem_cons_self ..)) hrep
    revert h1
    cases absOne full f with
    | ok a =>
      intro _
      simp only []
      have h2 := ih (fun g hg => h g (List.mem_cons_of_mem _ hg))
      revert h2
      cases buildAbsolute full fs with
      | ok b => intro _; simp
      | err e => intro h2; simpa using h2
      | panic => intro h2; simp at h2
      | wrap => intro h2; simp at h2
    | err e => intro h1; simpa using h1
    | panic => intro h1; simp at h1
    | wrap => intro h1; simp at h1

theorem flightLoop_good (full : List UInt8) (hrep : full.length ≤ maxVarInt8) : ∀ (dgs : List (List QFrame)) (i : Nat),
    (∀ dg ∈ dgs, ∀ f ∈ dg, PadOk f) →
    Good (fun _ => True) (fun _ => True) (flightLoop full i dgs) := by
  intro dgs
  induction dgs with
  | nil => intro i _; simp [flightLoop]
  | cons dg rest ih =>
    intro i h
    simp only [flightLoop]
    have h1 := buildAbsolute_good full hrep dg (h dg (List.mem_cons_self ..))
    revert h1
    cases buildAbsolute full dg with
    | ok p =>
      intro _
      simp only [tagIdx]
      have h2 := ih (i + 1) (fun g hg => h g (List.mem_cons_of_mem _ hg))
      revert h2
      cases flightLoop full (i + 1) rest with
      | ok ps => intro _; simp
      | err e => intro _; simp
      | panic => intro h2; simp at h2
      | wrap => intro h2; simp at h2
    | err e => intro _; simp [tagIdx]
    | panic => intro h1; simp at h1
    | wrap => intro h1; simp at h1

/-- QUICFlightFrames.BuildFlight never panics when no PADDING length is negative -/
theorem ffBuild_good (dgs : List (List QFrame)) (full : List UInt8) (hrep : full.length ≤ maxVarInt8)
    (h : ∀ dg ∈ dgs, ∀ f ∈ dg, PadOk f) : Good (fun _ => True) (fun _ => True) (ffBuild dgs full) := by
  unfold ffBuild
  split
  · simp
  · exact flightLoop_good full hrep dgs 0 h

/-! ### QUICRandomFlightFrames -/

/-- a planned piece: an absolute, non-empty CRYPTO range inside the stream, or PADDING/PING -/
def PieceOk (n : Nat) : QFrame → Prop
  | .crypto o l => 0 ≤ o ∧ 1 ≤ l ∧ o + l ≤ n
  | .padding l => 0 ≤ l
  | .ping => True

theorem resolve_piece {o l : Int} {n : Nat} (h0 : 0 ≤ o) (h1 : 1 ≤ l) (h2 : o + l ≤ n) :
    resolve o l n = .ok (o.toNat, (o + l).toNat) := by
  unfold resolve
  simp only []
  rw [if_neg (show ¬ o < 0 by omega)]
  rw [if_neg (show ¬ (o < 0 ∨ o > (n : Int)) by omega)]
  rw [if_pos (show l > 0 by omega)]
  rw [if_neg (show ¬ (o + l > (n : Int) ∨ o + l < o) by omega)]

theorem absOne_piece (full : List UInt8) (f : QFrame) (h : PieceOk full.length f) (hrep : full.length ≤ maxVarInt8) :
    ∃ b, absOne full f = .ok b := by
  cases f with
  | ping => exact ⟨_, rfl⟩
  | padding l => simp only [PieceOk] at h; simp only [absOne]; rw [if_neg (by omega)]; exact ⟨_, rfl⟩
  | crypto o l =>
    simp only [PieceOk] at h
    simp only [absOne]
    rw [resolve_piece h.1 h.2.1 h.2.2]
    simp only []
    obtain ⟨a, ha⟩ := appendVarint_isSome (v := o.toNat) (by omega)
    obtain ⟨b, hb⟩ := appendVarint_isSome (v := (o + l).toNat - o.toNat) (by omega)
    rw [ha, hb]
    exact ⟨_, rfl⟩

theorem buildAbsolute_pieces (full : List UInt8) (hrep : full.length ≤ maxVarInt8) : ∀ (fs : List QFrame),
    (∀ f ∈ fs, PieceOk full.length f) → ∃ p, buildAbsolute full fs = .ok p := by
  intro fs
  induction fs with
  | nil => intro _; exact ⟨[], rfl⟩
  | cons f fs ih =>
    intro h
    obtain ⟨a, ha⟩ := absOne_piece full f (h f (List.mem_cons_self ..)) hrep
    obtain ⟨b, hb⟩ := ih (fun g hg => h g (List.mem_cons_of_mem _ hg))
    exact ⟨a ++ b, by simp [buildAbsolute, ha, hb]⟩

theorem rangesLoop_good (c : RFCfg) (full : List UInt8) : ∀ (ranges : List (Int × Int)) (d : Draws) (acc : List QFrame),
    (∀ f ∈ acc, PieceOk full.length f) →
    Good (fun r => ∀ f ∈ r.1, PieceOk full.length f)
      (fun e => e = "offset" ∨ e = "range" ∨ e = "rand") (rangesLoop c full ranges d acc) := by
  intro ranges
  induction ranges with
  | nil => intro d acc h; simpa [rangesLoop] using h
  | cons r rest ih =>
    intro d acc h
    obtain ⟨off, len⟩ := r
    simp only [rangesLoop]
    have hr := resolve_spec off len full.length
    revert hr
    cases resolve off len full.length with
    | ok se =>
      obtain ⟨s, e⟩ := se
      intro hr
      simp only [good_ok] at hr
      simp only []
      split
      · exact ih d acc h
      · rename_i hlt
        have hs := splitRange_spec s e (max c.minCrypto 1) (max c.maxCrypto 1) d (by omega)
        revert hs
        cases splitRange s e (max c.minCrypto 1) (max c.maxCrypto 1) d with
        | ok pd =>
          obtain ⟨pieces, d1⟩ := pd
          intro hs
          simp only [good_ok] at hs
          simp only []
          apply ih
          intro f hf
          rcases List.mem_append.mp hf with hf | hf
          · exact h f hf
          · obtain ⟨o, l, rfl, h1, h2, h3⟩ := hs.1.mem f hf
            simp only [PieceOk]; omega
        | err e => intro hs; simp only [good_err] at hs ⊢; exact Or.inr (Or.inr hs)
        | panic => intro hs; simp at hs
        | wrap => intro hs; simp at hs
    | err e =>
      intro hr
      simp only [good_err] at hr ⊢
      rcases hr with hr | hr
      · exact Or.inl hr
      · exact Or.inr (Or.inl hr)
    | panic => intro hr; simp at hr
    | wrap => intro hr; simp at hr

theorem addPadding_pieces {c : RFCfg} {fl : List QFrame} {n dryLen : Nat} {d : Draws}
    (h : ∀ f ∈ fl, PieceOk n f) :
    Good (fun v => ∀ f ∈ v.1, PieceOk n f) (fun e => e = "rand") (addPadding c fl dryLen d) := by
  unfold addPadding
  split
  · cases hr : cryptoSafeRand c.minPad c.maxPad d with
    | none => simp
    | some vd =>
      obtain ⟨np, d1⟩ := vd
      simp only []
      have hk : (min (max np 1) (c.length - dryLen) - 1 = 0 ∨
          min (max np 1) (c.length - dryLen) - 1 + 1 ≤ c.length - dryLen) := by omega
      rcases cutLoop_spec (fun _ l => QFrame.padding l) _ (c.length - dryLen) 0 d1 fl hk with he | ⟨new, off', rem', d', h1, h2, _, _, _⟩
      · rw [he]; simp
      · rw [h1]
        simp only [good_ok]
        intro f hf
        rcases List.mem_append.mp hf with hf | hf
        · rcases List.mem_append.mp hf with hf | hf
          · exact h f hf
          · obtain ⟨o, l, rfl, _, hl, _⟩ := h2.mem f hf
            simp only [PieceOk]; omega
        · simp only [List.mem_singleton] at hf; subst hf; simp only [PieceOk]; omega
  · simpa using h

def rfdErr (e : String) : Prop :=
  e = "noranges" ∨ e = "mincrypto" ∨ e = "minping" ∨ e = "minpad1" ∨ e = "minpad" ∨ e = "offset" ∨
    e = "range" ∨ e = "rand" ∨ e = "nobytes" ∨ e = "perm"

/-- QUICRandomFlightDatagram.build up to the shuffle: pieces inside the stream, or a documented error -/
theorem rfdPlan_good (dg : RFDatagram) (full : List UInt8) (d : Draws) (hrep : full.length ≤ maxVarInt8) :
    Good (fun r => ∀ f ∈ r.1, PieceOk full.length f) rfdErr (rfdPlan dg full d) := by
  unfold rfdPlan
  simp only []
  split; · simp [rfdErr]
  split; · simp [rfdErr]
  split; · simp [rfdErr]
  split; · simp [rfdErr]
  split; · simp [rfdErr]
  have hl := rangesLoop_good dg.cfg full dg.ranges d [] (by simp)
  revert hl
  cases rangesLoop dg.cfg full dg.ranges d [] with
  | ok fd =>
    obtain ⟨fl, d1⟩ := fd
    intro hl
    simp only [good_ok] at hl
    simp only []
    split
    · simp [rfdErr]
    · cases hp : cryptoSafeRand dg.cfg.minPing dg.cfg.maxPing d1 with
      | none => simp [rfdErr]
      | some vd =>
        obtain ⟨numPing, d2⟩ := vd
        simp only []
        have hall : ∀ f ∈ fl ++ List.replicate numPing QFrame.ping, PieceOk full.length f := by
          intro f hf
          rcases List.mem_append.mp hf with hf | hf
          · exact hl f hf
          · obtain rfl := List.eq_of_mem_replicate hf; trivial
        obtain ⟨dry, hdry⟩ := buildAbsolute_pieces full hrep _ hall
        rw [hdry]
        simp only []
        have := addPadding_pieces (c := dg.cfg) (dryLen := dry.length) (d := d2) hall
        revert this
        cases addPadding dg.cfg (fl ++ List.replicate numPing QFrame.ping) dry.length d2 with
        | ok v => intro h; simpa using h
        | err e => intro h; simp only [good_err] at h ⊢; subst h; simp [rfdErr]
        | panic => intro h; simp at h
        | wrap => intro h; simp at h
  | err e =>
    intro hl
    simp only [good_err] at hl ⊢
    rcases hl with h | h | h <;> simp [rfdErr, h]
  | panic => intro hl; simp at hl
  | wrap => intro hl; simp at hl

/-- QUICRandomFlightDatagram.build: a payload carrying true stream bytes, or a documented error;
    never a panic, never arithmetic wrap-around — for every parameterisation, draw and shuffle -/
theorem rfdBuild_good (dg : RFDatagram) (full : List UInt8) (d : Draws) (perm : List Nat)
    (hrep : full.length ≤ maxVarInt8) :
    Good (fun r => Truthy full r.1) rfdErr (rfdBuild dg full d perm) := by
  have hp := rfdPlan_good dg full d hrep
  unfold rfdBuild
  revert hp
  cases hpl : rfdPlan dg full d with
  | ok fd =>
    obtain ⟨fl, d1⟩ := fd
    intro hp
    simp only [good_ok] at hp
    simp only []
    cases hperm : permute fl perm with
    | none => simp [rfdErr]
    | some fl' =>
      simp only []
      obtain ⟨p, hb⟩ := buildAbsolute_pieces full hrep fl' (fun f hf => hp f ((permute_mem hperm f).mp hf))
      rw [hb]
      simp only [good_ok]
      exact buildAbsolute_truthy full fl' p hb
  | err e => intro hp; simpa using hp
  | panic => intro hp; simp at hp
  | wrap => intro hp; simp at hp

theorem rffLoop_good (full : List UInt8) (hrep : full.length ≤ maxVarInt8) : ∀ (dgs : List RFDatagram) (i : Nat)
    (d : Draws) (perms : List (List Nat)),
    Good (fun ps => ∀ p ∈ ps, Truthy full p) (fun _ => True) (rffLoop full i dgs d perms) := by
  intro dgs
  induction dgs with
  | nil => intro i d perms; simp [rffLoop]
  | cons dg rest ih =>
    intro i d perms
    simp only [rffLoop]
    have h1 := rfdBuild_good dg full d (perms.headD []) hrep
    revert h1
    cases rfdBuild dg full d (perms.headD []) with
    | ok pd =>
      obtain ⟨p, d1⟩ := pd
      intro h1
      simp only [good_ok] at h1
      simp only []
      have h2 := ih (i + 1) d1 perms.tail
      revert h2
      cases rffLoop full (i + 1) rest d1 perms.tail with
      | ok ps =>
        intro h2
        simp only [good_ok] at h2 ⊢
        intro q hq
        rcases List.mem_cons.mp hq with rfl | hq
        · exact h1
        · exact h2 q hq
      | err e => intro _; simp
      | panic => intro h2; simp at h2
      | wrap => intro h2; simp at h2
    | err e => intro _; simp
    | panic => intro h1; simp at h1
    | wrap => intro h1; simp at h1

/-- QUICRandomFlightFrames.BuildFlight never panics -/
theorem rffBuild_good (dgs : List RFDatagram) (full : List UInt8) (d : Draws) (perms : List (List Nat))
    (hrep : full.length ≤ maxVarInt8) :
    Good (fun ps => ∀ p ∈ ps, Truthy full p) (fun _ => True) (rffBuild dgs full d perms) := by
  unfold rffBuild
  split
  · simp
  · exact rffLoop_good full hrep dgs 0 d perms

end Uquic.Proofs.Frames
