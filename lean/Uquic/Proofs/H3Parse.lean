/-
Helper lemmas for C18: `parseNext` over the encoding of a frame sequence, for every chunking of
the byte stream: unknown frame types are skipped, the first other frame decides the result.
-/
import Uquic.Proofs.H3Under

namespace Uquic.Proofs.H3
open Uquic.Model.H3 Uquic.Spec.H3Wire

/-- drop the leading frames of unknown type -/
def dropSkips : List WFrame → List WFrame
  | [] => []
  | f :: fs => if kindOf f.ty = .skip then dropSkips fs else f :: fs

theorem dropSkips_length (fs : List WFrame) : (dropSkips fs).length ≤ fs.length := by
  induction fs with
  | nil => simp [dropSkips]
  | cons f fs ih => simp only [dropSkips]; split <;> simp <;> omega

theorem expect_dropSkips (mh : Nat) (tr : Bool) (fs : List WFrame) :
    expect mh tr fs = expect mh tr (dropSkips fs) := by
  induction fs with
  | nil => rfl
  | cons f fs ih =>
    simp only [dropSkips]
    split
    · next h => rw [← ih]; simp [expect, h]
    · rfl

theorem encFrames_dropSkips_le (fs : List WFrame) : (encFrames (dropSkips fs)).length ≤ (encFrames fs).length := by
  induction fs with
  | nil => simp [dropSkips]
  | cons f fs ih =>
    simp only [dropSkips]
    split
    · simp only [encFrames, List.length_append]; omega
    · exact Nat.le_refl _

theorem enc_length (f : WFrame) : f.enc.length = 2 ^ f.tk + 2 ^ f.lk + f.payload.length := by
  simp [WFrame.enc, encVarintK_length]; omega

theorem enc_length_ge (f : WFrame) : 2 ≤ f.enc.length := by
  have := enc_length f
  have := Nat.two_pow_pos f.tk
  have := Nat.two_pow_pos f.lk
  omega

theorem encFrames_length_ge (fs : List WFrame) : fs.length ≤ (encFrames fs).length := by
  induction fs with
  | nil => simp [encFrames]
  | cons f fs ih =>
    have := enc_length_ge f
    simp only [encFrames, List.length_cons, List.length_append]; omega

/-- the two varints of a frame header -/
theorem read_header (u : Under) (f : WFrame) (hf : f.ok) (rest : List Nat) (h : fl u.cells = f.enc ++ rest) :
    ∃ cs', u.readVarint = ({ u with cells := u.cells.drop (2 ^ f.tk) }, .ok (f.ty, 2 ^ f.tk)) ∧
      ({ u with cells := u.cells.drop (2 ^ f.tk) } : Under).readVarint =
        ({ u with cells := cs' }, .ok (f.payload.length, 2 ^ f.lk)) ∧
      fl cs' = f.payload ++ rest := by
  have h1 : fl u.cells = encVarintK f.tk f.ty ++ (encVarintK f.lk f.payload.length ++ (f.payload ++ rest)) := by
    rw [h]; simp [WFrame.enc, List.append_assoc]
  obtain ⟨r1, r1f⟩ := readVarint_enc u f.tk f.ty _ hf.1 h1
  have h2 : fl ({ u with cells := u.cells.drop (2 ^ f.tk) } : Under).cells =
      encVarintK f.lk f.payload.length ++ (f.payload ++ rest) := r1f
  obtain ⟨r2, r2f⟩ := readVarint_enc _ f.lk f.payload.length _ hf.2 h2
  exact ⟨_, r1, r2, r2f⟩

theorem reservedCode_eq : Uquic.Gen.H3.reservedCloseCode.toNat = errFrameUnexpected := rfl
theorem reservedCode_nonneg : ¬ Uquic.Gen.H3.reservedCloseCode < 0 := by decide

/-- what `parseNext` returns on the encoding of `fs`, whatever the chunking -/
def ParseSpec (fs : List WFrame) (r : PState × Except Err Frame) : Prop :=
  match dropSkips fs with
  | [] => r.2 = .error .eof ∧ r.1.cc = none ∧ r.1.u.term = .fin ∧ r.1.u.cells = []
  | f :: rest =>
    match kindOf f.ty with
    | .data => r.2 = .ok (.data f.payload.length) ∧ r.1.cc = none ∧ r.1.u.term = .fin ∧
        fl r.1.u.cells = f.payload ++ encFrames rest
    | .headers => r.2 = .ok (.headers f.payload.length (2 ^ f.tk + 2 ^ f.lk)) ∧ r.1.cc = none ∧ r.1.u.term = .fin ∧
        fl r.1.u.cells = f.payload ++ encFrames rest
    | .reserved => r.2 = .error (.reserved f.ty) ∧ r.1.cc = some errFrameUnexpected ∧ r.1.u.cells = [] ∧
        r.1.u.term ≠ .open
    | _ => True

theorem parseNext_frames (fs : List WFrame) (hok : ∀ f ∈ fs, f.ok) :
    ∀ (fuel : Nat) (p : PState), fs.length < fuel → p.u.term = .fin → p.cc = none →
      fl p.u.cells = encFrames fs → ParseSpec fs (parseNext fuel p) := by
  induction fs with
  | nil =>
    intro fuel p hfuel hterm hcc hcells
    obtain ⟨k, rfl⟩ : ∃ k, fuel = k + 1 := ⟨fuel - 1, by omega⟩
    have hnil : p.u.cells = [] := by simpa [fl, encFrames] using hcells
    simp only [ParseSpec, dropSkips, parseNext, readVarint_nil p.u hnil, hterm, Term.err]
    and_intros <;> first | rfl | assumption | trivial
  | cons f fs ih =>
    intro fuel p hfuel hterm hcc hcells
    obtain ⟨k, rfl⟩ : ∃ k, fuel = k + 1 := ⟨fuel - 1, by omega⟩
    have hf : f.ok := hok f (by simp)
    obtain ⟨cs', r1, r2, hcs'⟩ := read_header p.u f hf (encFrames fs) (by simpa [encFrames] using hcells)
    unfold parseNext
    simp only [r1, r2]
    cases hk : kindOf f.ty with
    | data =>
      simp only [ParseSpec, dropSkips, hk, reduceCtorEq, ↓reduceIte]
      and_intros <;> first | rfl | assumption | trivial
    | headers =>
      simp only [ParseSpec, dropSkips, hk, reduceCtorEq, ↓reduceIte]
      and_intros <;> first | rfl | assumption | trivial
    | settings => simp [ParseSpec, dropSkips, hk]
    | goaway => simp [ParseSpec, dropSkips, hk]
    | reserved =>
      simp only [ParseSpec, dropSkips, hk, reduceCtorEq, ↓reduceIte, reservedCode_nonneg, reservedCode_eq]
      simp only [PState.closeConn, hcc, Under.abort, hterm]
      and_intros
      all_goals first
        | rfl
        | trivial
        | (split <;> simp_all)
    | skip =>
      have hd := discard_ok ({ p.u with cells := cs' } : Under) f.payload (encFrames fs) hcs'
      simp only [hd.1]
      have := ih (fun g hg => hok g (by simp [hg])) k { p with u := { p.u with cells := cs'.drop f.payload.length } }
        (by simp at hfuel; omega) hterm hcc hd.2
      simpa [ParseSpec, dropSkips, hk] using this

end Uquic.Proofs.H3
